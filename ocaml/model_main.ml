(* Line-oriented driver around the extracted model.
   Input : one case per line:   <cmd> <sexp>
   Output: one line per case:   <sexp>
   sexp  : decimal naturals and parenthesised lists, e.g. (1 2 (3 4) ()) *)
open Model

let rec pos_of_z (z : Z.t) : positive =
  if Z.equal z Z.one then XH
  else if Z.is_even z then XO (pos_of_z (Z.shift_right z 1))
  else XI (pos_of_z (Z.shift_right z 1))

let n_of_z (z : Z.t) : n = if Z.equal z Z.zero then N0 else Npos (pos_of_z z)

let rec z_of_pos (p : positive) : Z.t =
  match p with
  | XH -> Z.one
  | XO q -> Z.shift_left (z_of_pos q) 1
  | XI q -> Z.succ (Z.shift_left (z_of_pos q) 1)

let z_of_n (x : n) : Z.t = match x with N0 -> Z.zero | Npos p -> z_of_pos p

exception Parse_error of string

let parse (s : string) (start : int) : sx * int =
  let len = String.length s in
  let rec skip i = if i < len && (s.[i] = ' ' || s.[i] = '\t') then skip (i + 1) else i in
  let rec item i =
    let i = skip i in
    if i >= len then raise (Parse_error "eof")
    else if s.[i] = '(' then begin
      let rec items i acc =
        let i = skip i in
        if i >= len then raise (Parse_error "eof in list")
        else if s.[i] = ')' then (L (List.rev acc), i + 1)
        else let (x, j) = item i in items j (x :: acc)
      in items (i + 1) []
    end else begin
      let j = ref i in
      while !j < len && s.[!j] >= '0' && s.[!j] <= '9' do incr j done;
      if !j = i then raise (Parse_error (Printf.sprintf "unexpected char at %d" i));
      (A (n_of_z (Z.of_string (String.sub s i (!j - i)))), !j)
    end
  in item start

let rec print (b : Buffer.t) (x : sx) : unit =
  match x with
  | A n -> Buffer.add_string b (Z.to_string (z_of_n n))
  | L l ->
      Buffer.add_char b '(';
      List.iteri (fun i y -> if i > 0 then Buffer.add_char b ' '; print b y) l;
      Buffer.add_char b ')'

let () =
  let b = Buffer.create 65536 in
  try
    while true do
      let line = input_line stdin in
      if String.length line > 0 then begin
        let (cmd, i) = parse line 0 in
        let (arg, _) = parse line i in
        let c = match cmd with A n -> n | L _ -> N0 in
        Buffer.clear b;
        (try print b (run c arg)
         with Stack_overflow -> Buffer.clear b; Buffer.add_string b "(999998)");
        Buffer.add_char b '\n';
        print_string (Buffer.contents b);
        flush stdout
      end
    done
  with End_of_file -> ()
