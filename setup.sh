#!/bin/bash
# Offline build of the whole framework: constants, Coq project, extraction, OCaml driver.
set -e
cd "$(dirname "$0")"
export VERIF_REPO="${VERIF_REPO:-/repo}"
export PYTHONPATH="$VERIF_REPO" PYTHONHASHSEED=0 PYTHONDONTWRITEBYTECODE=1
/venv/bin/python - <<'PY'
import sys
sys.path.insert(0, "harness")
from lib import common
common.ensure_built()
print("setup ok")
PY
