(* S-expressions over naturals: the only interchange format between the Python
   harness, the extracted OCaml driver and [vm_compute] cross-checks. *)
From Coq Require Import NArith List Bool.
Import ListNotations.

Inductive sx : Type :=
| A (n : N)
| L (l : list sx).

Definition sxN (s : sx) : N := match s with A n => n | L _ => 0%N end.
Definition sxL (s : sx) : list sx := match s with A _ => [] | L l => l end.
Definition sx_nth (s : sx) (i : nat) : sx := nth i (sxL s) (L []).
Definition sxNat (s : sx) : nat := N.to_nat (sxN s).
Definition sxB (s : sx) : bool := negb (N.eqb (sxN s) 0).
Definition sxNs (s : sx) : list N := map sxN (sxL s).
Definition sxNats (s : sx) : list nat := map sxNat (sxL s).

Definition ofB (b : bool) : sx := A (if b then 1 else 0)%N.
Definition ofNat (n : nat) : sx := A (N.of_nat n).
Definition ofNs (l : list N) : sx := L (map A l).
Definition ofNats (l : list nat) : sx := L (map ofNat l).
Definition ofOptN (o : option N) : sx := match o with None => L [] | Some n => L [A n] end.
Definition sxOptN (s : sx) : option N :=
  match s with L (A n :: _) => Some n | _ => None end.

Fixpoint sx_eqb (a b : sx) {struct a} : bool :=
  match a, b with
  | A x, A y => N.eqb x y
  | L xs, L ys =>
      (fix go (xs ys : list sx) {struct xs} : bool :=
         match xs, ys with
         | [], [] => true
         | x :: xs', y :: ys' => sx_eqb x y && go xs' ys'
         | _, _ => false
         end) xs ys
  | _, _ => false
  end.
