(* Forests as graphs (children are arbitrary node indices, cycles allowed): a decision
   procedure for "a tree of this shape unfolds from node k" by recursion on the tree, and
   reachability.  Used for the forests of the GLR driver model, whose Parent heap is in
   allocation order, not in topological order.  Definitions only. *)
From Coq Require Import NArith Arith List Bool.
From PV Require Import Spec.Cfg Model.Forest.
Import ListNotations.
Local Open Scope N_scope.

(* does a tree with the shape of [t] (same productions and leaves; the spans of interior
   nodes are ignored, as in [shape]) unfold from node [k] of [F]? *)
Fixpoint shape_in (F : forest) (t : tree) (k : nat) {struct t} : bool :=
  match t with
  | TLeaf y s e =>
      existsb (fun a => match a with
                        | ATerm y' s' e' => (y =? y') && (s =? s') && (e =? e')
                        | ANT _ _ _ _ => false
                        end) (nth k F [])
  | TNode p _ _ ts =>
      existsb (fun a => match a with
                        | ATerm _ _ _ => false
                        | ANT p' _ _ cs =>
                            (p =? p') &&
                            (fix go (ts : list tree) (cs : list nat) {struct ts} : bool :=
                               match ts, cs with
                               | [], [] => true
                               | t1 :: tr, c :: cr => shape_in F t1 c && go tr cr
                               | _, _ => false
                               end) ts cs
                        end) (nth k F [])
  end.

(* does exactly the tree [t] (spans included) unfold from node [k]? *)
Fixpoint tree_in (F : forest) (t : tree) (k : nat) {struct t} : bool :=
  match t with
  | TLeaf y s e =>
      existsb (fun a => match a with
                        | ATerm y' s' e' => (y =? y') && (s =? s') && (e =? e')
                        | ANT _ _ _ _ => false
                        end) (nth k F [])
  | TNode p s e ts =>
      existsb (fun a => match a with
                        | ATerm _ _ _ => false
                        | ANT p' s' e' cs =>
                            (p =? p') && (s =? s') && (e =? e') &&
                            (fix go (ts : list tree) (cs : list nat) {struct ts} : bool :=
                               match ts, cs with
                               | [], [] => true
                               | t1 :: tr, c :: cr => tree_in F t1 c && go tr cr
                               | _, _ => false
                               end) ts cs
                        end) (nth k F [])
  end.

(* nodes reachable from [k] in at most [fuel] rounds *)
Fixpoint reach_from (F : forest) (fuel : nat) (seen : list nat) : list nat :=
  match fuel with
  | O => seen
  | S f =>
      let next := flat_map (fun k => flat_map alt_children (nth k F [])) seen in
      let fresh := filter (fun c => negb (existsb (Nat.eqb c) seen)) (nodup Nat.eq_dec next) in
      match fresh with
      | [] => seen
      | _ => reach_from F f (seen ++ fresh)
      end
  end.

(* node k' is reachable from node k through children of alternatives *)
Inductive reach (F : forest) : nat -> nat -> Prop :=
| reach_refl k : reach F k k
| reach_step k a c k' :
    In a (nth k F []) -> In c (alt_children a) -> reach F c k' -> reach F k k'.
