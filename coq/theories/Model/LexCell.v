(* Glue between the three existing models that together make up token choice:
     - Model/Scan.v      recognize / lexical_disambiguation / next_tokens (parser.py)
     - Model/StrTerm.v   sort_acts / finish_flags (tables/__init__.py:469-521)
     - Spec/LexOrder.v   the documented order
   A cell is the expected set of one LR state: its terminals with the data the sort key,
   the finish flags and the scanner read.  Definitions only. *)
From Coq Require Import NArith List Bool Sorting.Sorted.
From PV Require Import Spec.LexOrder Model.Table Model.Scan Model.StrTerm.
Import ListNotations.
Local Open Scope N_scope.

Record cterm : Type := mkC {
  c_id : N;            (* terminal id (index into the parser's terminal table) *)
  c_a : aterm;         (* fqn, priority, recognizer kind, explicit finish mark *)
  c_prefer : bool
}.

Definition a_strlike (a : aterm) : bool :=
  match at_rec a with FStr _ => true | FKw _ => true | FRegex _ => false end.
(* the length that enters the sort key: text length of a string / keyword recognizer *)
Definition a_klen (a : aterm) : N :=
  match at_rec a with
  | FStr v => N.of_nat (length v)
  | FKw _ => at_name_len a
  | FRegex _ => 0
  end.

Definition c_prior (c : cterm) : N := at_prior (c_a c).
Definition c_strlike (c : cterm) : bool := a_strlike (c_a c).
Definition c_klen (c : cterm) : N := a_klen (c_a c).

Definition to_lterm (c : cterm) : lterm := mkL (c_id c) (c_prior c) (c_strlike c) (c_prefer c).

(* the parser's terminal table agrees with the cell *)
Definition terms_agree (terms : list term_info) (cell : list cterm) : Prop :=
  forall c, In c cell -> prior_of terms (c_id c) = c_prior c /\ prefer_of terms (c_id c) = c_prefer c.

(* the order of a state's actions is the one sort_state_actions produces *)
Definition sorted_by_impl (cell : list cterm) : Prop := exists l, map c_a cell = sort_acts l.

(* the flags calc_finish_flags computes for the cell in its current order *)
Definition impl_flags (cell : list cterm) : list bool := finish_flags (map c_a cell).

Definition unmarked (cell : list cterm) : Prop := Forall (fun c => at_finish (c_a c) = None) cell.

(* recognizers never return an empty token (parser.py: `if tok:`) *)
Definition rx_nonempty (rx : N -> N -> option N) (pos : N) (cell : list cterm) : Prop :=
  forall c n, In c cell -> rx (c_id c) pos = Some n -> 1 <= n.

(* a string / keyword recognizer matches exactly its text (C19) *)
Definition str_len_ok (rx : N -> N -> option N) (pos : N) (cell : list cterm) : Prop :=
  forall c n, In c cell -> c_strlike c = true -> rx (c_id c) pos = Some n -> n = c_klen c.

(* two string / keyword terminals of one priority matching with the same length at the same
   place (possible only with ignore_case: 'ab' and 'AB') *)
Definition str_tie (rx : N -> N -> option N) (pos : N) (a b : cterm) : Prop :=
  c_strlike a = true /\ c_strlike b = true /\ c_prior a = c_prior b /\
  exists n, rx (c_id a) pos = Some n /\ rx (c_id b) pos = Some n.
Definition no_str_tie (rx : N -> N -> option N) (pos : N) (cell : list cterm) : Prop :=
  ForallOrdPairs (fun a b => ~ str_tie rx pos a b) cell.

(* priorities descend along the cell *)
Definition prior_sorted (cell : list cterm) : Prop :=
  StronglySorted (fun a b => c_prior b <= c_prior a) cell.

Definition cell_of_state (st : state) (cell : list cterm) : Prop :=
  map fst (st_actions st) = map c_id cell.

(* sort a cell with the impl's comparison (used by the extracted entry points) *)
Fixpoint insert_c (x : cterm) (l : list cterm) : list cterm :=
  match l with
  | [] => [x]
  | y :: r => if act_before (c_a y) (c_a x) then y :: insert_c x r else x :: l
  end.
Definition sort_cell (l : list cterm) : list cterm := fold_right insert_c [] l.
