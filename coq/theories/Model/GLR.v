(* Executable model of parglare's GLR driver (glr.py):
     GLRParser.parse, _find_lookaheads, _actor, _do_reductions, _reduce, _do_shifts,
     GSSNode (create_link, for_token, __eq__), Parent (merge), and trees.Forest.__init__.
   Definitions only; proofs are in Proofs/GLRProofs.v.

   The object graph is modelled with two heaps (lists indexed by allocation number):
   GSS nodes and Parent links.  Python dicts are association lists in insertion order
   (re-assignment keeps the slot, popitem removes the last entry); Python lists used as
   stacks keep Python's order (pop = remove the last element).

   Control: the driver's nested loops and the mutual recursion _reduce <-> _do_reductions
   are run by a small machine with an explicit stack of frames, one frame per Python loop
   or call in progress; every machine step consumes one unit of the single fuel
   parameter ([GLROutOfFuel] when exhausted).

   Left out: debug/trace, error reporting and recovery (a rejection is [GLRReject]),
   dynamic filter, actions, layout_content strings (they never influence control flow).
   Faithful to the defects of the code: links are keyed by the root's id
   "<frontier>_<state>", so distinct nodes with one id are conflated; _for_shifter is not
   cleared; revisits repeat reductions; the revisit bookkeeping loses paths. *)
From Coq Require Import NArith List Bool.
From PV Require Import Spec.Cfg Model.Table Model.Forest Model.LRDriver Model.Scan Model.Parser
  Model.PySet.
Import ListNotations.
Local Open Scope N_scope.

(* ---- Python containers ---------------------------------------------------------------- *)

Section Dict.
  Context {K V : Type} (eqb : K -> K -> bool).
  Fixpoint dget (k : K) (d : list (K * V)) : option V :=
    match d with
    | [] => None
    | (k', v) :: r => if eqb k k' then Some v else dget k r
    end.
  (* d[k] = v *)
  Fixpoint dset (k : K) (v : V) (d : list (K * V)) : list (K * V) :=
    match d with
    | [] => [(k, v)]
    | (k', v') :: r => if eqb k k' then (k, v) :: r else (k', v') :: dset k v r
    end.
End Dict.

(* list.pop() / dict.popitem(): the last element and the rest *)
Fixpoint pop_last {X} (l : list X) : option (list X * X) :=
  match l with
  | [] => None
  | x :: r => match pop_last r with
              | None => Some ([], x)
              | Some (r', y) => Some (x :: r', y)
              end
  end.

Fixpoint list_upd {X} (i : nat) (f : X -> X) (l : list X) : list X :=
  match l, i with
  | [], _ => []
  | x :: r, O => f x :: r
  | x :: r, S j => x :: list_upd j f r
  end.

Definition nmem (k : nat) (l : list nat) : bool := existsb (Nat.eqb k) l.

(* ---- the object graph ------------------------------------------------------------------ *)

(* parser.Token: compared by identity; [tk_id] is the identity (0 = the global STOP_token) *)
Record token : Type := mkTok { tk_id : N; tk_sym : N; tk_pos : N; tk_len : N }.

(* GSSNode.id = "<frontier>_<state_id>" *)
Definition nkey : Type := (N * nat)%type.
Definition key_eqb (a b : nkey) : bool := (fst a =? fst b) && Nat.eqb (snd a) (snd b).

Record gnode : Type := mkNode {
  n_state : nat;
  n_pos : N;                          (* position (mutated by _skipws) *)
  n_frontier : N;
  n_tok : option token;               (* token_ahead *)
  n_parents : list (nkey * nat)       (* parents: root id -> Parent (heap index) *)
}.

Record gparent : Type := mkPar {
  p_head : nat;
  p_root : nat;
  p_start : N;
  p_end : N;
  p_alts : list alt                   (* possibilities; children are Parent heap indices, the
                                         span is that of the alternative's own context *)
}.

Definition dnode : gnode := mkNode O 0 0 None [].
Definition dpar : gparent := mkPar O O 0 0 [].

Definition node_id (n : gnode) : nkey := (n_frontier n, n_state n).

Record gst : Type := mkSt {
  s_nodes : list gnode;
  s_pars : list gparent;
  s_active : list (nat * nat);                  (* _active_heads: state id -> node *)
  s_persym : list (N * list (nat * nat));       (* _active_heads_per_symbol *)
  s_actor : list nat;                           (* _for_actor *)
  s_trav : list (nat * list nat);               (* _states_traversed *)
  s_shifter : list (nat * nat);                 (* _for_shifter: (head, to_state) *)
  s_accepted : list nat;                        (* _accepted_heads *)
  s_tokc : N                                    (* next token identity *)
}.

Definition set_nodes (st : gst) (v : list gnode) : gst :=
  mkSt v (s_pars st) (s_active st) (s_persym st) (s_actor st) (s_trav st) (s_shifter st)
       (s_accepted st) (s_tokc st).
Definition set_pars (st : gst) (v : list gparent) : gst :=
  mkSt (s_nodes st) v (s_active st) (s_persym st) (s_actor st) (s_trav st) (s_shifter st)
       (s_accepted st) (s_tokc st).
Definition set_active (st : gst) (v : list (nat * nat)) : gst :=
  mkSt (s_nodes st) (s_pars st) v (s_persym st) (s_actor st) (s_trav st) (s_shifter st)
       (s_accepted st) (s_tokc st).
Definition set_persym (st : gst) (v : list (N * list (nat * nat))) : gst :=
  mkSt (s_nodes st) (s_pars st) (s_active st) v (s_actor st) (s_trav st) (s_shifter st)
       (s_accepted st) (s_tokc st).
Definition set_actor (st : gst) (v : list nat) : gst :=
  mkSt (s_nodes st) (s_pars st) (s_active st) (s_persym st) v (s_trav st) (s_shifter st)
       (s_accepted st) (s_tokc st).
Definition set_trav (st : gst) (v : list (nat * list nat)) : gst :=
  mkSt (s_nodes st) (s_pars st) (s_active st) (s_persym st) (s_actor st) v (s_shifter st)
       (s_accepted st) (s_tokc st).
Definition set_shifter (st : gst) (v : list (nat * nat)) : gst :=
  mkSt (s_nodes st) (s_pars st) (s_active st) (s_persym st) (s_actor st) (s_trav st) v
       (s_accepted st) (s_tokc st).
Definition set_accepted (st : gst) (v : list nat) : gst :=
  mkSt (s_nodes st) (s_pars st) (s_active st) (s_persym st) (s_actor st) (s_trav st)
       (s_shifter st) v (s_tokc st).
Definition set_tokc (st : gst) (v : N) : gst :=
  mkSt (s_nodes st) (s_pars st) (s_active st) (s_persym st) (s_actor st) (s_trav st)
       (s_shifter st) (s_accepted st) v.

Definition getn (st : gst) (i : nat) : gnode := nth i (s_nodes st) dnode.
Definition getp (st : gst) (i : nat) : gparent := nth i (s_pars st) dpar.
Definition upd_node (st : gst) (i : nat) (f : gnode -> gnode) : gst :=
  set_nodes st (list_upd i f (s_nodes st)).
Definition upd_par (st : gst) (i : nat) (f : gparent -> gparent) : gst :=
  set_pars st (list_upd i f (s_pars st)).

Definition n_set_pos (p : N) (n : gnode) : gnode :=
  mkNode (n_state n) p (n_frontier n) (n_tok n) (n_parents n).
Definition n_set_tok (t : option token) (n : gnode) : gnode :=
  mkNode (n_state n) (n_pos n) (n_frontier n) t (n_parents n).
Definition n_add_parent (k : nkey) (pi : nat) (n : gnode) : gnode :=
  mkNode (n_state n) (n_pos n) (n_frontier n) (n_tok n) (n_parents n ++ [(k, pi)]).
(* Parent.merge: possibilities.extend(other.possibilities) *)
Definition p_add_alts (a : list alt) (p : gparent) : gparent :=
  mkPar (p_head p) (p_root p) (p_start p) (p_end p) (p_alts p ++ a).

(* GSSNode.__eq__: same id and the same lookahead token object *)
Definition otok_same (a b : option token) : bool :=
  match a, b with
  | Some x, Some y => tk_id x =? tk_id y
  | None, None => true
  | _, _ => false
  end.
Definition node_eq (a b : gnode) : bool :=
  key_eqb (node_id a) (node_id b) && otok_same (n_tok a) (n_tok b).

(* GSSNode.create_link for a fresh Parent(head, root, s, e, possibilities=[a]): merge into
   the link registered under the root's id, or register a new link.
   Returns the state, [created] and the heap index of the link used. *)
Definition create_link (st : gst) (hd root : nat) (s e : N) (a : alt)
  : gst * bool * nat :=
  let key := node_id (getn st root) in
  match dget key_eqb key (n_parents (getn st hd)) with
  | Some ep => (upd_par st ep (p_add_alts [a]), false, ep)
  | None =>
      let pi := length (s_pars st) in
      let st1 := set_pars st (s_pars st ++ [mkPar hd root s e [a]]) in
      (upd_node st1 hd (n_add_parent key pi), true, pi)
  end.

(* ---- control frames -------------------------------------------------------------------- *)

(* an entry of [to_process] in _do_reductions *)
Record pentry : Type := mkPE {
  pe_node : nat;
  pe_results : list nat;          (* Parents collected so far, leftmost child first *)
  pe_len : nat;                   (* remaining length *)
  pe_last : option nat;           (* last_parent: the first link traversed from the head *)
  pe_trav : bool                  (* traversed *)
}.

(* the [for parent in ...] loop over one popped entry *)
Record pcur : Type := mkCur {
  c_node : nat;
  c_results : list nat;
  c_len : nat;                    (* length after the decrement *)
  c_last : option nat;
  c_trav : bool;
  c_um : bool;                    (* update_parent and update_parent.head == node *)
  c_pars : list nat               (* parents still to visit *)
}.

Inductive frame : Type :=
| FLoop                                  (* while self._active_heads: *)
| FSubs                                  (* while self._active_heads_per_symbol: *)
| FActorLoop                             (* while self._for_actor: *)
| FShift                                 (* self._do_shifts() and the reject test *)
| FActor (h : nat) (acts : list action)  (* _actor: for action in ... *)
| FDoRed (h : nat) (p : N) (upd : option nat)      (* call _do_reductions *)
| FRed (h : nat) (p : N) (upd : option nat) (tp : list pentry) (cur : option pcur)
                                         (* while to_process / for parent in ... *)
| FReduce (h root : nat) (p : N) (children : list nat) (s e : N)   (* call _reduce *)
| FRevisit (y : N) (par : nat) (states : list nat)     (* for r_head_state in to_revisit *)
| FRevActs (rh par : nat) (acts : list action).        (* for action in [REDUCE actions] *)

Inductive glr_result : Type :=
| GLRForest (nodes : forest) (root : nat)   (* all Parent objects; the root's index *)
| GLRReject
| GLROutOfFuel
| GLRCrash (code : N)
| GLRLayoutError.

Inductive skres : Type := SkOk (p : N) | SkFail | SkFuel.

Inductive outcome : Type :=
| Go (st : gst) (fr : list frame)
| Fin (r : glr_result).

Inductive fres : Type := FOk (st : gst) | FLayoutFail | FLayoutFuel.

Section GLR.
  Variable g : grammar.
  Variable tb : table.
  Variable terms : list term_info.
  Variable rx : N -> N -> option N.
  Variable in_len : N.
  Variable stop_id : N.
  Variable consume_input : bool.
  Variable lexdis : bool.
  Variable skipws : N -> skres.                           (* _skipws *)
  Variable rorder : list nat -> list nat -> list nat.     (* iteration order of to_revisit *)

  (* ---- _find_lookaheads ---------------------------------------------------------------- *)

  (* GSSNode.for_token *)
  Definition for_token (st : gst) (h : nat) (tok : token) : gst * nat :=
    let n := getn st h in
    match n_tok n with
    | None => (upd_node st h (n_set_tok (Some tok)), h)
    | Some t =>
        if tk_id t =? tk_id tok then (st, h)
        else
          let n' := mkNode (n_state n) (n_pos n) (n_frontier n) (Some tok) (n_parents n) in
          (set_nodes st (s_nodes st ++ [n']), length (s_nodes st))
    end.

  (* self._active_heads_per_symbol.setdefault(y, {})[s] = h *)
  Definition ps_add (ps : list (N * list (nat * nat))) (y : N) (s h : nat)
    : list (N * list (nat * nat)) :=
    match dget N.eqb y ps with
    | Some d => dset N.eqb y (dset Nat.eqb s h d) ps
    | None => ps ++ [(y, [(s, h)])]
    end.

  Definition mk_token (st : gst) (y pos len : N) : token * gst :=
    if y =? stop_id then (mkTok 0 y 0 0, st)
    else (mkTok (s_tokc st) y pos len, set_tokc st (s_tokc st + 1)).

  (* while tokens: token = tokens.pop(); head = head.for_token(token); ... *)
  Fixpoint assign_tokens (st : gst) (h : nat) (pos : N) (toks_rev : list (N * N)) : gst :=
    match toks_rev with
    | [] => st
    | (y, len) :: r =>
        let '(tok, st1) := mk_token st y pos len in
        let '(st2, h') := for_token st1 h tok in
        let st3 := set_persym st2 (ps_add (s_persym st2) y (n_state (getn st2 h')) h') in
        assign_tokens st3 h' pos r
    end.

  Definition tokens_at (s : nat) (pos : N) : list (N * N) :=
    match get_state tb s with
    | Some sta => next_tokens terms rx in_len stop_id consume_input lexdis sta pos
    | None => []
    end.

  (* [act_rev]: the entries of _active_heads, last inserted first (popitem order) *)
  Fixpoint find_la (st : gst) (act_rev : list (nat * nat)) : fres :=
    match act_rev with
    | [] => FOk (set_active st [])
    | (_, h) :: r =>
        let n := getn st h in
        match n_tok n with
        | Some t =>
            find_la (set_persym st (ps_add (s_persym st) (tk_sym t) (n_state n) h)) r
        | None =>
            match skipws (n_pos n) with
            | SkOk p =>
                let st1 := upd_node st h (n_set_pos p) in
                find_la (assign_tokens st1 h p (rev (tokens_at (n_state n) p))) r
            | SkFail => FLayoutFail
            | SkFuel => FLayoutFuel
            end
        end
    end.

  (* ---- _do_shifts ------------------------------------------------------------------------ *)

  Definition tok_end (t : token) : N := tk_pos t + tk_len t.
  Definition dtok : token := mkTok 0 0 0 0.
  Definition tok_of (st : gst) (h : nat) : token :=
    match n_tok (getn st h) with Some t => t | None => dtok end.
  Definition sh_key (st : gst) (e : nat * nat) : N := tok_end (tok_of st (fst e)).

  (* list.sort(key = token end, reverse=True): stable, descending *)
  Fixpoint ins_desc (st : gst) (x : nat * nat) (l : list (nat * nat)) : list (nat * nat) :=
    match l with
    | [] => [x]
    | y :: r => if sh_key st x <? sh_key st y then y :: ins_desc st x r else x :: y :: r
    end.
  Definition sort_desc (st : gst) (l : list (nat * nat)) : list (nat * nat) :=
    fold_right (ins_desc st) [] l.

  (* [todo]: the sorted _for_shifter, last element first (pop order).  Returns the entries
     that stay (still in pop order) *)
  Fixpoint shift_loop (st : gst) (todo : list (nat * nat)) (endp : option N)
    : gst * list (nat * nat) :=
    match todo with
    | [] => (st, [])
    | (h, s') :: r =>
        let n := getn st h in
        let tk := tok_of st h in
        if match endp with Some e => e <? tok_end tk | None => false end then (st, todo)
        else
          let s := n_pos n in
          let e := n_pos n + tk_len tk in
          match dget Nat.eqb s' (s_active st) with
          | Some sh =>
              let '(st1, _, _) := create_link st sh h s e (ATerm (tk_sym tk) s e) in
              shift_loop st1 r (Some (tok_end tk))
          | None =>
              let sh := length (s_nodes st) in
              let st1 := set_nodes st (s_nodes st ++ [mkNode s' e (n_frontier n + 1) None []]) in
              let st2 := set_active st1 (dset Nat.eqb s' sh (s_active st1)) in
              let '(st3, _, _) := create_link st2 sh h s e (ATerm (tk_sym tk) s e) in
              shift_loop st3 r (Some e)
          end
    end.

  Definition do_shifts (st : gst) : gst :=
    let st0 := set_active st [] in
    let sorted := sort_desc st0 (s_shifter st0) in
    let '(st1, rest) := shift_loop st0 (rev sorted) None in
    set_shifter st1 (rev rest).

  (* ---- trees.Forest.__init__ --------------------------------------------------------------- *)

  Definition build_forest (st : gst) : glr_result :=
    let results := flat_map (fun h => map snd (n_parents (getn st h))) (s_accepted st) in
    match pop_last results with
    | None => GLRCrash 9
    | Some (rest, root) =>
        let pars :=
          fold_left (fun ps r => list_upd root (p_add_alts (p_alts (nth r ps dpar))) ps)
                    (rev rest) (s_pars st) in
        GLRForest (map p_alts pars) root
    end.

  (* ---- the machine ----------------------------------------------------------------------- *)

  (* states_traversed.setdefault(k, set()).add(v) *)
  Definition trav_add (tr : list (nat * list nat)) (k v : nat) : list (nat * list nat) :=
    match dget Nat.eqb k tr with
    | Some l => dset Nat.eqb k (if nmem v l then l else l ++ [v]) tr
    | None => tr ++ [(k, [v])]
    end.

  Definition glr_step (st : gst) (fr : list frame) : outcome :=
    match fr with
    | [] => Fin (GLRCrash 1)
    | FLoop :: k =>
        match s_active st with
        | [] => Fin (match s_accepted st with [] => GLRReject | _ => build_forest st end)
        | _ =>
            match find_la (set_persym st []) (rev (s_active st)) with
            | FOk st' => Go st' (FSubs :: FShift :: k)
            | FLayoutFail => Fin GLRLayoutError
            | FLayoutFuel => Fin GLROutOfFuel
            end
        end
    | FSubs :: k =>
        match pop_last (s_persym st) with
        | None => Go st k
        | Some (rest, (_, d)) =>
            let st1 := set_persym st rest in
            let st2 := set_active st1 d in
            let st3 := set_actor st2 (map snd d) in
            Go (set_trav st3 []) (FActorLoop :: FSubs :: k)
        end
    | FActorLoop :: k =>
        match pop_last (s_actor st) with
        | None => Go st k
        | Some (rest, h) =>
            match n_tok (getn st h) with
            | None => Fin (GLRCrash 2)
            | Some t =>
                Go (set_actor st rest)
                   (FActor h (cell tb (n_state (getn st h)) (tk_sym t)) :: FActorLoop :: k)
            end
        end
    | FShift :: k =>
        let st' := do_shifts st in
        match s_active st', s_accepted st' with
        | [], [] => Fin GLRReject
        | _, _ => Go st' (FLoop :: k)
        end
    | FActor h acts :: k =>
        match acts with
        | [] => Go st k
        | Shift s' :: r => Go (set_shifter st (s_shifter st ++ [(h, s')])) (FActor h r :: k)
        | Reduce p :: r => Go st (FDoRed h p None :: FActor h r :: k)
        | Accept :: r => Go (set_accepted st (s_accepted st ++ [h])) (FActor h r :: k)
        end
    | FDoRed h p upd :: k =>
        match get_prod g p with
        | None => Fin (GLRCrash 3)
        | Some pr =>
            match length (rhs pr) with
            | O => let pos := n_pos (getn st h) in Go st (FReduce h h p [] pos pos :: k)
            | S l =>
                Go st (FRed h p upd
                            [mkPE h [] (S l) None (match upd with None => true | Some _ => false end)]
                            None :: k)
            end
        end
    | FRed h p upd tp None :: k =>
        match tp with
        | [] => Go st k
        | pe :: tp' =>
            let nn := getn st (pe_node pe) in
            let hn := getn st h in
            let st1 :=
              if n_frontier nn =? n_frontier hn
              then set_trav st (trav_add (s_trav st) (n_state nn) (n_state hn)) else st in
            let um := match upd with
                      | Some u => node_eq (getn st (p_head (getp st u))) nn
                      | None => false
                      end in
            let pars := if um then match upd with Some u => [u] | None => [] end
                        else map snd (n_parents nn) in
            Go st1 (FRed h p upd tp'
                         (Some (mkCur (pe_node pe) (pe_results pe) (pred (pe_len pe)) (pe_last pe)
                                      (pe_trav pe) um pars)) :: k)
        end
    | FRed h p upd tp (Some c) :: k =>
        match c_pars c with
        | [] => Go st (FRed h p upd tp None :: k)
        | par :: rest =>
            let new_results := par :: c_results c in
            let path_last := match c_last c with None => par | Some lp => lp end in
            let trav := c_trav c || c_um c in
            let c' := mkCur (c_node c) (c_results c) (c_len c) (c_last c) trav (c_um c) rest in
            match c_len c with
            | S _ =>
                Go st (FRed h p upd
                            (mkPE (p_root (getp st par)) new_results (c_len c) (Some path_last) trav :: tp)
                            (Some c') :: k)
            | O =>
                if trav then
                  Go st (FReduce h (p_root (getp st par)) p new_results
                                 (p_start (getp st par)) (p_end (getp st path_last))
                         :: FRed h p upd tp (Some c') :: k)
                else Go st (FRed h p upd tp (Some c') :: k)
            end
        end
    | FReduce h root p children s e :: k =>
        match get_prod g p with
        | None => Fin (GLRCrash 3)
        | Some pr =>
            match goto tb (n_state (getn st root)) (lhs pr) with
            | None => Fin (GLRCrash 4)
            | Some s' =>
                let a := ANT p s e children in
                let hn := getn st h in
                match dget Nat.eqb s' (s_active st) with
                | Some ah =>
                    let '(st1, created, pi) := create_link st ah root s e a in
                    if created then
                      match dget Nat.eqb s' (s_trav st1) with
                      | Some tset =>
                          let keys := filter (fun x => nmem x tset) (map fst (s_active st1)) in
                          let other := map (fun i => n_state (getn st1 i)) (s_actor st1) in
                          match n_tok hn with
                          | None => Fin (GLRCrash 2)
                          | Some t => Go st1 (FRevisit (tk_sym t) pi (rorder keys other) :: k)
                          end
                      | None => Go st1 k
                      end
                    else Go st1 k
                | None =>
                    let nh := length (s_nodes st) in
                    let st1 := set_nodes st (s_nodes st ++
                                 [mkNode s' (n_pos hn) (n_frontier hn) (n_tok hn) []]) in
                    let '(st2, _, _) := create_link st1 nh root s e a in
                    let st3 := set_actor st2 (s_actor st2 ++ [nh]) in
                    Go (set_active st3 (dset Nat.eqb s' nh (s_active st3))) k
                end
            end
        end
    | FRevisit y par states :: k =>
        match states with
        | [] => Go st k
        | s :: r =>
            match dget Nat.eqb s (s_active st) with
            | None => Fin (GLRCrash 5)
            | Some rh =>
                Go st (FRevActs rh par (filter is_reduce (cell tb (n_state (getn st rh)) y))
                       :: FRevisit y par r :: k)
            end
        end
    | FRevActs rh par acts :: k =>
        match acts with
        | [] => Go st k
        | Reduce p :: r => Go st (FDoRed rh p (Some par) :: FRevActs rh par r :: k)
        | _ :: r => Go st (FRevActs rh par r :: k)
        end
    end.

  Fixpoint glr_run (fuel : nat) (st : gst) (fr : list frame) : glr_result :=
    match fuel with
    | O => GLROutOfFuel
    | S f => match glr_step st fr with
             | Fin r => r
             | Go st' fr' => glr_run f st' fr'
             end
    end.

  Definition init_st (pos : N) : gst :=
    mkSt [mkNode O pos 0 None []] [] [(O, O)] [] [] [] [] [] 1.

  Definition glr_parse (fuel : nat) (pos : N) : glr_result := glr_run fuel (init_st pos) [FLoop].
End GLR.

(* the forest in the format of Model/Forest.v and Validators/ForestSound.v: all Parent objects
   in allocation order (children are heap indices; the graph may be cyclic), followed by a
   copy of the root's packed node, so that the root is the last node as everywhere else *)
Definition glr_forest (nodes : forest) (root : nat) : forest := nodes ++ [nth root nodes []].

(* ---- the whole GLR parser: scanner, layout, CPython set order ---------------------------- *)


Section Full.
  Variable c : pconf.
  Variable inp : pinput.
  Variable fuel : nat.

  Definition glr_skipws (p : N) : skres :=
    match pc_layout c with
    | Some ltb =>
        match layout_run c inp fuel ltb p with
        | LROk _ rp _ _ => SkOk (if p <? rp then rp else p)
        | LROutOfFuel => SkFuel
        | _ => SkFail
        end
    | None => SkOk (skip_ws (pc_ws c) inp p)
    end.

  Definition glr_parse_full (pos : N) : glr_result :=
    glr_parse (pc_g c) (pc_tb c) (pc_terms c) (rx_of inp) (in_len inp) (pc_stop c)
              (pc_consume c) (pc_lexdis c) glr_skipws revisit_order fuel pos.
End Full.
