(* Model of parglare/tables/persist.py (table_to_serializable, table_from_serializable,
   _dump_state, _dump_actions) and of LRTable.calc_conflicts_and_dynamic_terminals
   (parglare/tables/__init__.py), at the level of JSON *values*.

   Names (fully qualified symbol names, the strings stored in a .pgc) are interned
   as numbers by the harness; the number 0 stands for Python's [None] (what
   Grammar.get_terminal / get_nonterminal / get_symbol return for an unknown name).
   In-memory references to LRState and Production objects are modelled by
   state_id / prod_id.  Definitions only; proofs are in Proofs/PersistProofs.v. *)
From Coq Require Import NArith List Bool.
From PV Require Import Gen.Consts.
Import ListNotations.
Local Open Scope N_scope.

Definition name := N.
Definition NoneSym : name := 0.

(* ---- exceptions and results --------------------------------------------- *)
Inductive pexn : Type :=
| EJSONDecode          (* json.JSONDecodeError *)
| EKeyError            (* states_dict[...] *)
| EIndexError          (* grammar.productions[prod_id] *)
| EAttributeError      (* None.dynamic / None.rhs *)
| ESRConflicts
| ERRConflicts
| EOther (tag : N).    (* whatever create_table raised (GrammarError ...) *)

Inductive pres (X : Type) : Type :=
| Ok (x : X)
| Raise (e : pexn).
Arguments Ok {X} x.
Arguments Raise {X} e.

Definition pbind {X Y} (r : pres X) (f : X -> pres Y) : pres Y :=
  match r with Ok x => f x | Raise e => Raise e end.

(* ---- the parts of a Grammar object that loading and conflict marks read -- *)
Record pgram : Type := mkPG {
  pg_terms : list (name * bool);     (* grammar.terminals: fqn -> terminal.dynamic *)
  pg_nonterms : list name;           (* grammar.nonterminals: fqn *)
  pg_prods : list (N * bool)         (* grammar.productions[i]: len(rhs), dynamic *)
}.

Definition mem (n : N) (l : list N) : bool := existsb (N.eqb n) l.

Definition get_terminal (g : pgram) (n : name) : name :=
  if mem n (map fst (pg_terms g)) then n else NoneSym.
Definition get_nonterminal (g : pgram) (n : name) : name :=
  if mem n (pg_nonterms g) then n else NoneSym.
(* s = get_terminal(name); if not s: s = get_nonterminal(name) *)
Definition get_symbol (g : pgram) (n : name) : name :=
  let s := get_terminal g n in
  if s =? NoneSym then get_nonterminal g n else s.

Fixpoint nassoc {V} (k : N) (l : list (N * V)) : option V :=
  match l with
  | [] => None
  | (k', v) :: r => if k =? k' then Some v else nassoc k r
  end.

(* d[k] = v on an insertion-ordered dict *)
Fixpoint dict_set {V} (k : N) (v : V) (l : list (N * V)) : list (N * V) :=
  match l with
  | [] => [(k, v)]
  | (k', v') :: r => if k =? k' then (k, v) :: r else (k', v') :: dict_set k v r
  end.

(* ---- in-memory table ------------------------------------------------------ *)
Record paction : Type := mkPA {
  pa_kind : N;                 (* SHIFT / REDUCE / ACCEPT *)
  pa_state : option N;         (* action.state (its state_id) or None *)
  pa_prod : option N           (* action.prod (its prod_id) or None *)
}.

Record pstate : Type := mkPS {
  ps_id : N;
  ps_sym : name;
  ps_actions : list (name * list paction);    (* OrderedDict terminal -> [Action] *)
  ps_gotos : list (name * N);                 (* OrderedDict nonterminal -> state *)
  ps_finish : list bool
}.
Definition ptable := list pstate.

(* ---- serialised form (what json.load returns for a complete .pgc) -------- *)
Record jaction : Type := mkJA {
  ja_kind : N;                 (* "action" *)
  ja_state : option N;         (* "state_id", key present or not *)
  ja_prod : option N           (* "prod_id", key present or not *)
}.
Record jstate : Type := mkJS {
  js_id : N;                                   (* "state_id" *)
  js_sym : name;                               (* "symbol" *)
  js_actions : list (name * list jaction);     (* "actions": [[fqn, [..]], ..] *)
  js_gotos : list (name * N);                  (* "gotos": [[fqn, state_id], ..] *)
  js_finish : list bool                        (* "finish_flags" *)
}.
Definition jtable := list jstate.

(* _dump_actions / _dump_state / table_to_serializable *)
Definition dump_action (a : paction) : jaction :=
  mkJA (pa_kind a) (pa_state a) (pa_prod a).
Definition dump_state (s : pstate) : jstate :=
  mkJS (ps_id s) (ps_sym s)
       (map (fun ta => (fst ta, map dump_action (snd ta))) (ps_actions s))
       (ps_gotos s) (ps_finish s).
Definition to_ser (t : ptable) : jtable := map dump_state t.

(* ---- table_from_serializable --------------------------------------------- *)
(* one json_action: states_dict[state_id] then grammar.productions[prod_id] *)
Definition load_action (g : pgram) (ids : list N) (a : jaction) : pres paction :=
  match ja_state a with
  | Some s => if mem s ids then
                match ja_prod a with
                | Some p => if p <? N.of_nat (length (pg_prods g))
                            then Ok (mkPA (ja_kind a) (Some s) (Some p))
                            else Raise EIndexError
                | None => Ok (mkPA (ja_kind a) (Some s) None)
                end
              else Raise EKeyError
  | None => match ja_prod a with
            | Some p => if p <? N.of_nat (length (pg_prods g))
                        then Ok (mkPA (ja_kind a) None (Some p))
                        else Raise EIndexError
            | None => Ok (mkPA (ja_kind a) None None)
            end
  end.

Fixpoint load_actions (g : pgram) (ids : list N) (l : list jaction) : pres (list paction) :=
  match l with
  | [] => Ok []
  | a :: r => pbind (load_action g ids a) (fun a' =>
              pbind (load_actions g ids r) (fun r' => Ok (a' :: r')))
  end.

(* for json_action_fqn in state.actions: ... actions[get_terminal(fqn)] = term_acts *)
Fixpoint load_cells (g : pgram) (ids : list N) (l : list (name * list jaction))
         (acc : list (name * list paction)) : pres (list (name * list paction)) :=
  match l with
  | [] => Ok acc
  | (n, ja) :: r =>
      pbind (load_actions g ids ja) (fun acts =>
      load_cells g ids r (dict_set (get_terminal g n) acts acc))
  end.

(* gotos[get_nonterminal(fqn)] = states_dict[goto_state] *)
Fixpoint load_gotos (g : pgram) (ids : list N) (l : list (name * N))
         (acc : list (name * N)) : pres (list (name * N)) :=
  match l with
  | [] => Ok acc
  | (n, s) :: r =>
      if mem s ids then load_gotos g ids r (dict_set (get_nonterminal g n) s acc)
      else Raise EKeyError
  end.

Definition load_state (g : pgram) (ids : list N) (s : jstate) : pres pstate :=
  pbind (load_cells g ids (js_actions s) []) (fun acts =>
  pbind (load_gotos g ids (js_gotos s) []) (fun gts =>
  Ok (mkPS (js_id s) (get_symbol g (js_sym s)) acts gts (js_finish s)))).

Fixpoint load_states (g : pgram) (ids : list N) (l : jtable) : pres ptable :=
  match l with
  | [] => Ok []
  | s :: r => pbind (load_state g ids s) (fun s' =>
              pbind (load_states g ids r) (fun r' => Ok (s' :: r')))
  end.

Definition unpack (g : pgram) (j : jtable) : pres ptable :=
  load_states g (map js_id j) j.

(* ---- LRTable.calc_conflicts_and_dynamic_terminals ------------------------ *)
Record conflict : Type := mkConf { cf_state : N; cf_term : name; cf_prods : list N }.
Record marks : Type := mkMarks {
  mk_sr : list conflict;
  mk_rr : list conflict;
  mk_dynamic : list (N * name)       (* (state_id, terminal) pairs added to state.dynamic *)
}.

Definition term_dynamic (g : pgram) (t : name) : pres bool :=
  if t =? NoneSym then Raise EAttributeError
  else match nassoc t (pg_terms g) with
       | Some d => Ok d
       | None => Raise EAttributeError
       end.

(* x.prod.dynamic, len(x.prod.rhs): None.attr raises AttributeError *)
Definition prod_info (g : pgram) (a : paction) : pres (N * (N * bool)) :=
  match pa_prod a with
  | None => Raise EAttributeError
  | Some p => match nth_error (pg_prods g) (N.to_nat p) with
              | Some i => Ok (p, i)
              | None => Raise EIndexError
              end
  end.

Fixpoint prod_infos (g : pgram) (l : list paction) : pres (list (N * (N * bool))) :=
  match l with
  | [] => Ok []
  | a :: r => pbind (prod_info g a) (fun i =>
              pbind (prod_infos g r) (fun r' => Ok (i :: r')))
  end.

Definition is_shift_or_accept (k : N) : bool := (k =? SHIFT) || (k =? ACCEPT).

(* marks contributed by one cell, appended to [m] *)
Definition cell_marks (g : pgram) (sid : N) (t : name) (acts : list paction) (m : marks)
  : pres marks :=
  pbind (term_dynamic g t) (fun td =>
  let m1 := if td then mkMarks (mk_sr m) (mk_rr m) (mk_dynamic m ++ [(sid, t)]) else m in
  match acts with
  | a0 :: ((_ :: _) as rest) =>
      if is_shift_or_accept (pa_kind a0) then
        pbind (prod_infos g rest) (fun infos =>
        let dyn := existsb (fun i => snd (snd i)) infos in
        Ok (mkMarks (mk_sr m1 ++ map (fun _ => mkConf sid t (map fst infos)) infos)
                    (mk_rr m1)
                    (if dyn then mk_dynamic m1 ++ [(sid, t)] else mk_dynamic m1)))
      else
        pbind (prod_infos g acts) (fun infos =>
        let prods := filter (fun i => negb (fst (snd i) =? 0)) infos in
        let empties := filter (fun i => fst (snd i) =? 0) infos in
        let dyn := existsb (fun i => snd (snd i)) prods in
        let rr1 := if (1 <? N.of_nat (length empties))
                   then mk_rr m1 ++ [mkConf sid t (map fst empties)] else mk_rr m1 in
        let rr2 := if (1 <? N.of_nat (length prods))
                   then rr1 ++ [mkConf sid t (map fst prods)] else rr1 in
        Ok (mkMarks (mk_sr m1) rr2
                    (if dyn then mk_dynamic m1 ++ [(sid, t)] else mk_dynamic m1)))
  | _ => Ok m1
  end).

Fixpoint cells_marks (g : pgram) (sid : N) (l : list (name * list paction)) (m : marks)
  : pres marks :=
  match l with
  | [] => Ok m
  | (t, acts) :: r => pbind (cell_marks g sid t acts m) (fun m' => cells_marks g sid r m')
  end.

Fixpoint states_marks (g : pgram) (l : ptable) (m : marks) : pres marks :=
  match l with
  | [] => Ok m
  | s :: r => pbind (cells_marks g (ps_id s) (ps_actions s) m) (fun m' => states_marks g r m')
  end.

Definition calc_marks (g : pgram) (t : ptable) : pres marks :=
  states_marks g t (mkMarks [] [] []).

(* table_from_serializable: unpack, then LRTable(states, calc_finish_flags=False) *)
Definition from_ser (g : pgram) (j : jtable) : pres ptable :=
  pbind (unpack g j) (fun t =>
  pbind (calc_marks g t) (fun _ => Ok t)).

(* ---- what a table produced by create_table satisfies w.r.t. its grammar -- *)
Fixpoint nodupb (l : list N) : bool :=
  match l with
  | [] => true
  | x :: r => negb (mem x r) && nodupb r
  end.

Definition action_wfb (g : pgram) (ids : list N) (a : paction) : bool :=
  match pa_state a with Some s => mem s ids | None => true end &&
  match pa_prod a with Some p => p <? N.of_nat (length (pg_prods g)) | None => true end.

Definition state_wfb (g : pgram) (ids : list N) (s : pstate) : bool :=
  (get_symbol g (ps_sym s) =? ps_sym s)
  && nodupb (map fst (ps_actions s))
  && forallb (fun ta => mem (fst ta) (map fst (pg_terms g))
                        && forallb (action_wfb g ids) (snd ta)) (ps_actions s)
  && nodupb (map fst (ps_gotos s))
  && forallb (fun ns => mem (fst ns) (pg_nonterms g) && mem (snd ns) ids) (ps_gotos s).

Definition is_ok {X} (r : pres X) : bool := match r with Ok _ => true | Raise _ => false end.

Definition table_wfb (g : pgram) (t : ptable) : bool :=
  forallb (state_wfb g (map ps_id t)) t && is_ok (calc_marks g t).
