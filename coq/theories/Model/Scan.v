(* Model of token recognition and lexical disambiguation:
     Parser._next_tokens / _token_recognition / _lexical_disambiguation / _next_token
     (parser.py:624-703, 920-957).
   Recognizers are an oracle [rx t pos = Some len] (len >= 1) computed by the
   harness with the impl's own recognizer objects. *)
From Coq Require Import NArith List Bool.
From PV Require Import Spec.Cfg Model.Table Model.LRDriver.
Import ListNotations.
Local Open Scope N_scope.

Record term_info : Type := mkTerm {
  ti_prior : N;
  ti_prefer : bool
}.

Section Scan.
  Variable terms : list term_info.             (* indexed by terminal id *)
  Variable rx : N -> N -> option N.            (* terminal -> position -> match length *)
  Variable in_len : N.
  Variable stop_id : N.
  Variable consume_input : bool.
  Variable lexdis : bool.

  Definition prior_of (t : N) : N :=
    match nth_error terms (N.to_nat t) with Some ti => ti_prior ti | None => 0 end.
  Definition prefer_of (t : N) : bool :=
    match nth_error terms (N.to_nat t) with Some ti => ti_prefer ti | None => false end.

  (* _token_recognition: walk the (sorted) actions with their finish flags.
     [last] is last_prior (None = -1), [acc] the tokens found so far, in order *)
  Fixpoint recognize (acts : list (N * list action)) (flags : list bool) (pos : N)
           (last : option N) (acc : list (N * N)) : list (N * N) :=
    match acts with
    | [] => acc
    | (t, _) :: r =>
        let pr := prior_of t in
        let lower := match last with Some lp => pr <? lp | None => false end in
        if lower && negb (match acc with [] => true | _ => false end) then acc
        else
          let fl := match flags with f :: _ => f | [] => false end in
          let flags' := match flags with _ :: fr => fr | [] => [] end in
          match rx t pos with
          | Some len =>
              if fl then acc ++ [(t, len)]
              else recognize r flags' pos (Some pr) (acc ++ [(t, len)])
          | None => recognize r flags' pos (Some pr) acc
          end
    end.

  Definition max_len (toks : list (N * N)) : N := fold_right (fun t m => N.max (snd t) m) 0 toks.

  (* _lexical_disambiguation *)
  Definition lexical_disambiguation (toks : list (N * N)) : list (N * N) :=
    match toks with
    | [] | [_] => toks
    | _ =>
        let m := max_len toks in
        let longest := filter (fun t => snd t =? m) toks in
        match longest with
        | [_] => longest
        | _ =>
            let pref := filter (fun t => prefer_of (fst t)) longest in
            match pref with [] => longest | _ => pref end
        end
    end.

  Definition has_key (k : N) (acts : list (N * list action)) : bool :=
    existsb (fun ya => fst ya =? k) acts.

  (* _next_tokens *)
  Definition next_tokens (st : state) (pos : N) : list (N * N) :=
    let acts := st_actions st in
    let stop := if has_key stop_id acts &&
                   (negb consume_input || (pos =? in_len)) then [(stop_id, 0)] else [] in
    let real := if pos <? in_len then recognize acts (st_finish st) pos None [] else [] in
    let toks := stop ++ real in
    if lexdis then lexical_disambiguation toks else toks.

  (* _next_token *)
  Definition next_token_of (tb : table) (s : nat) (pos : N) : tokres :=
    match get_state tb s with
    | None => TNone
    | Some st =>
        match next_tokens st pos with
        | [] => TNone
        | [(y, len)] => TTok y len
        | _ => TDis
        end
    end.
End Scan.
