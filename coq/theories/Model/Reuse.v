(* Model of the mutable state that outlives one use of a parser or one table
   construction (property C15):

   - FIRST / FOLLOW as computed by tables/__init__.py:846-931, the FIRST cache
     [grammar._first_sets] and the augmented production [grammar.productions[0].rhs]
     that _create_table rewrites while it builds a table; the wrapper create_table
     (tables/__init__.py) saves it on entry and restores it in a finally clause, i.e. on
     every exit;
   - Parser.__init__ (parser.py:73-164): LAYOUT sub-parser first, then the main table,
     then _check_parser;
   - the per-instance fields of Parser.parse (parser.py:320-340, 525-535) with default
     error recovery (parser.py:966-1015), and the transient fields of GLRParser.parse
     (glr.py:97-182, 627-644).

   The LR(0)/LALR item-set machinery itself is a parameter [core]: it receives exactly
   what create_table hands to it (productions with the swapped augmented production,
   options, FIRST, FOLLOW).  Definitions only. *)
From Coq Require Import NArith List Bool.
From PV Require Import Spec.Cfg Model.Table Model.LRDriver Model.Scan Model.Parser.
Import ListNotations.
Local Open Scope N_scope.

(* ------------------------------------------------------------------------- *)
(* FIRST and FOLLOW.  A Python dict symbol -> set is a function nonterminal id -> list
   (insertion order; compared as sets by the harness); terminals map to themselves.
   EMPTY is the terminal [empty_id]; right-hand sides are given without EMPTY (iterating
   over an EMPTY entry adds nothing and falls through, like an absent symbol).        *)
Definition ftab := N -> list N.

Definition memN (t : N) (l : list N) : bool := existsb (N.eqb t) l.
Definition upd (f : ftab) (a : N) (v : list N) : ftab := fun b => if b =? a then v else f b.
Definition is_nil {X} (l : list X) : bool := match l with [] => true | _ => false end.

Section FirstFollow.
  Variable empty_id : N.

  Definition first_of (ft : ftab) (x : sym) : list N :=
    match x with T t => [t] | NT a => ft a end.

  (* elements of [l] that are not EMPTY and not yet in [cur] *)
  Definition fresh_in (cur l : list N) : list N :=
    filter (fun t => negb (t =? empty_id) && negb (memN t cur)) l.

  (* for rhs_symbol in p.rhs: ... else: ...      (tables/__init__.py:873-890) *)
  Fixpoint walk (ft : ftab) (a : N) (rhs : list sym) : ftab * bool :=
    match rhs with
    | [] => if memN empty_id (ft a) then (ft, false)
            else (upd ft a (ft a ++ [empty_id]), true)
    | x :: r =>
        let fx := first_of ft x in
        let new := fresh_in (ft a) fx in
        let ch := negb (is_nil new) in
        let ft1 := if ch then upd ft a (ft a ++ new) else ft in
        if memN empty_id fx then
          let '(ft2, ch2) := walk ft1 a r in (ft2, ch || ch2)
        else (ft1, ch)
    end.

  (* for p in grammar.productions *)
  Fixpoint first_round (ps : list prod) (ft : ftab) (ch : bool) : ftab * bool :=
    match ps with
    | [] => (ft, ch)
    | p :: r => let '(ft1, c) := walk ft (lhs p) (rhs p) in first_round r ft1 (ch || c)
    end.

  (* while additions *)
  Fixpoint first_iter (fuel : nat) (ps : list prod) (ft : ftab) : option ftab :=
    match fuel with
    | O => None
    | S f => let '(ft1, ch) := first_round ps ft false in
             if ch then first_iter f ps ft1 else Some ft1
    end.

  Definition first_sets (fuel : nat) (ps : list prod) : option ftab :=
    first_iter fuel ps (fun _ => []).

  (* FOLLOW: for rsymbol in p.rhs[idx+1:]: ... else: ...   (tables/__init__.py:919-927) *)
  Fixpoint suffix_follow (ft : ftab) (fo_lhs : list N) (suf : list sym) : list N :=
    match suf with
    | [] => fo_lhs
    | x :: r => let fx := first_of ft x in
                if memN empty_id fx then fx ++ suffix_follow ft fo_lhs r else fx
    end.

  Fixpoint dedup (l : list N) : list N :=
    match l with
    | [] => []
    | t :: r => if memN t r then dedup r else t :: dedup r
    end.

  (* for idx, s in enumerate(p.rhs): if s == symbol: ... *)
  Fixpoint occ_follow (ft fo : ftab) (a lhsp : N) (rhs : list sym) (ch : bool) : ftab * bool :=
    match rhs with
    | [] => (fo, ch)
    | x :: r =>
        if sym_eqb x (NT a) then
          let new := dedup (fresh_in (fo a) (suffix_follow ft (fo lhsp) r)) in
          if is_nil new then occ_follow ft fo a lhsp r ch
          else occ_follow ft (upd fo a (fo a ++ new)) a lhsp r true
        else occ_follow ft fo a lhsp r ch
    end.

  Fixpoint follow_prods (ft fo : ftab) (a : N) (ps : list prod) (ch : bool) : ftab * bool :=
    match ps with
    | [] => (fo, ch)
    | p :: r => let '(fo1, c) := occ_follow ft fo a (lhs p) (rhs p) ch in follow_prods ft fo1 a r c
    end.

  Fixpoint follow_round (ft fo : ftab) (nts : list N) (ps : list prod) (ch : bool) : ftab * bool :=
    match nts with
    | [] => (fo, ch)
    | a :: r => let '(fo1, c) := follow_prods ft fo a ps ch in follow_round ft fo1 r ps c
    end.

  Fixpoint follow_iter (fuel : nat) (ft fo : ftab) (nts : list N) (ps : list prod) : option ftab :=
    match fuel with
    | O => None
    | S f => let '(fo1, ch) := follow_round ft fo nts ps false in
             if ch then follow_iter f ft fo1 nts ps else Some fo1
    end.

  Definition follow_sets (fuel : nat) (ft : ftab) (nts : list N) (ps : list prod) : option ftab :=
    follow_iter fuel ft (fun _ => []) nts ps.
End FirstFollow.

(* ------------------------------------------------------------------------- *)
(* The Grammar object as far as table construction reads and writes it.          *)
Record gstate : Type := mkG {
  gs_aug : list sym;            (* grammar.productions[0].rhs *)
  gs_first : option ftab        (* grammar._first_sets, absent until first use *)
}.

Inductive exn : Type :=
| XGrammarError                 (* "First set empty ...": raised before the swap *)
| XInterrupted                  (* an exception raised while the item sets are computed *)
| XSRConflicts | XRRConflicts   (* raised by _check_parser, after create_table returned *)
| XOutOfFuel.

Inductive result (X : Type) : Type :=
| Ok (x : X)
| Raise (e : exn).
Arguments Ok {X} x.
Arguments Raise {X} e.

(* what the item-set machinery between swap and restore returns *)
Inductive core_res : Type :=
| CoreTable (tb : table)
| CoreInterrupted.

Record bopts : Type := mkB {
  b_start : N;                  (* start_production *)
  b_lr1 : bool;                 (* itemset_type is LR_1 *)
  b_ps : bool;                  (* prefer_shifts *)
  b_pse : bool;                 (* prefer_shifts_over_empty *)
  b_lexdis : bool               (* lexical_disambiguation handed to LRTable (finish flags) *)
}.

(* the static part of a grammar *)
Record gstatic : Type := mkGS {
  s_prods : list prod;          (* productions 1.. (never rewritten) *)
  s_nts : list N;               (* grammar.nonterminals in order, S' included *)
  s_aug_nt : N;                 (* S' *)
  s_stop : N;
  s_empty : N;
  s_layout : option N;          (* production id of the first LAYOUT production, if any *)
  s_fuel : nat
}.

Section Build.
  Variable G : gstatic.
  Variable core : list prod -> bopts -> ftab -> ftab -> core_res.
  Variable sr_conflicts rr_conflicts : table -> bool.    (* table.sr_conflicts / rr_conflicts non-empty *)

  Definition all_prods (aug : list sym) : list prod := mkProd (s_aug_nt G) aug :: s_prods G.

  Definition prod_lhs (k : N) (aug : list sym) : N :=
    match nth_error (all_prods aug) (N.to_nat k) with Some p => lhs p | None => 0 end.

  (* first(grammar): the cache is filled with whatever productions[0].rhs is right now *)
  Definition get_first (gs : gstate) : option (ftab * gstate) :=
    match gs_first gs with
    | Some ft => Some (ft, gs)
    | None =>
        match first_sets (s_empty G) (s_fuel G) (all_prods (gs_aug gs)) with
        | Some ft => Some (ft, mkG (gs_aug gs) (Some ft))
        | None => None
        end
    end.

  Definition create_table (gs : gstate) (o : bopts) : gstate * result table :=
    match get_first gs with
    | None => (gs, Raise XOutOfFuel)
    | Some (ft, gs1) =>
        if existsb (fun a => negb (a =? s_aug_nt G) && is_nil (ft a)) (s_nts G)
        then (gs1, Raise XGrammarError)
        else
          match follow_sets (s_empty G) (s_fuel G) ft (s_nts G) (all_prods (gs_aug gs1)) with
          | None => (gs1, Raise XOutOfFuel)
          | Some fo =>
              let old := gs_aug gs1 in
              let swapped := [NT (prod_lhs (b_start o) old); T (s_stop G)] in
              match core (all_prods swapped) o ft fo with
              | CoreInterrupted => (mkG old (gs_first gs1), Raise XInterrupted)   (* finally *)
              | CoreTable tb => (mkG old (gs_first gs1), Ok tb)
              end
          end
    end.

  (* construction options of Parser / GLRParser *)
  Record popts : Type := mkP {
    o_glr : bool;
    o_slr : bool;
    o_ps : bool;
    o_pse : bool
  }.

  Definition check_parser (glr : bool) (tb : table) : result table :=
    if glr then Ok tb
    else if sr_conflicts tb then Raise XSRConflicts
    else if rr_conflicts tb then Raise XRRConflicts
    else Ok tb.

  (* Parser.__init__: the LAYOUT sub-parser is an LR Parser with LALR tables and both
     prefer_shifts strategies; it is built (and checked) before the main table.
     lexical_disambiguation defaults to True for Parser and False for GLRParser *)
  Definition parser_init (gs : gstate) (o : popts) : gstate * result (table * option table) :=
    let '(gs1, lay) :=
      match s_layout G with
      | None => (gs, Ok None)
      | Some lp =>
          match create_table gs (mkB lp true true true true) with
          | (gs', Ok ltb) =>
              match check_parser false ltb with
              | Ok t => (gs', Ok (Some t))
              | Raise e => (gs', Raise e)
              end
          | (gs', Raise e) => (gs', Raise e)
          end
      end in
    match lay with
    | Raise e => (gs1, Raise e)
    | Ok lt =>
        match create_table gs1 (mkB 1 (negb (o_slr o)) (o_ps o) (o_pse o) (negb (o_glr o))) with
        | (gs2, Ok tb) =>
            match check_parser (o_glr o) tb with
            | Ok t => (gs2, Ok (t, lt))
            | Raise e => (gs2, Raise e)
            end
        | (gs2, Raise e) => (gs2, Raise e)
        end
    end.
End Build.

(* LRTable.calc_conflicts_and_dynamic_terminals (tables/__init__.py:552-586): is
   table.sr_conflicts / table.rr_conflicts non-empty *)
Definition cells (tb : table) : list (list action) :=
  flat_map (fun st => map snd (st_actions st)) tb.

Definition sr_conflicts_of (tb : table) : bool :=
  existsb (fun acts => match acts with
                       | a :: _ :: _ => is_shift a || action_eqb a Accept
                       | _ => false
                       end) (cells tb).

Definition reduce_is_empty (g : grammar) (a : action) : bool :=
  match a with
  | Reduce p => match get_prod g p with Some pr => is_nil (rhs pr) | None => false end
  | _ => false
  end.

Definition rr_conflicts_of (g : grammar) (tb : table) : bool :=
  existsb (fun acts => match acts with
                       | a :: _ :: _ =>
                           if is_shift a || action_eqb a Accept then false
                           else
                             let ne := length (filter (fun x => negb (reduce_is_empty g x)) acts) in
                             let em := length (filter (reduce_is_empty g) acts) in
                             (Nat.ltb 1 em) || (Nat.ltb 1 ne)
                       | _ => false
                       end) (cells tb).

(* ------------------------------------------------------------------------- *)
(* Parser.parse on an instance, with default error recovery.                      *)
Inductive rec_result : Type :=
| RROk (t : tree) (ret_pos : N) (errs : list (N * N))    (* result; parser.errors as spans *)
| RRSyntaxError (pos : N) (st : nat)                     (* errors[-1] raised, errors deleted *)
| RRDisambiguation (pos : N) (st : nat) (errs : list (N * N))
| RRLayoutError (pos : N) (errs : list (N * N))
| RRCrash (code : N) (errs : list (N * N))
| RRAborted (errs : list (N * N)).      (* a user action/recognizer raised (or fuel ran out) *)

Section Rec.
  Variable g : grammar.
  Variable tb : table.
  Variable skipws : N -> option N.
  Variable next_token : nat -> N -> tokres.
  Variable stop_id : N.
  Variable consume_input : bool.
  Variable in_len : N.
  Variable recovery : bool.

  (* default_error_recovery: head.position += 1; token = self._next_token(head) *)
  Fixpoint recover_scan (n : nat) (st : nat) (p : N) : option (N * tokres) :=
    match n with
    | O => None
    | S n' =>
        if p <? in_len then
          match next_token st (p + 1) with
          | TNone => recover_scan n' st (p + 1)
          | tk => Some (p + 1, tk)
          end
        else None
    end.

  Definition step := lr_step g tb skipws next_token stop_id consume_input false.
  Definition look := lookahead skipws next_token false.

  (* [errs] is self.errors.  [budget]: number of semantic-action calls (one per shift and per
     reduction) after which the user's action raises; None = never *)
  Fixpoint rec_run (fuel : nat) (budget : option nat) (s : lrstate) (errs : list (N * N))
    : rec_result :=
    match fuel with
    | O => RRAborted errs
    | S f =>
        match step s with
        | Continue s' =>
            match budget with
            | Some O => RRAborted errs
            | Some (S b) => rec_run f (Some b) s' errs
            | None => rec_run f None s' errs
            end
        | Done (LROk t rp _ _) => RROk t rp errs
        | Done (LRSyntaxError pos st) =>
            if recovery then
              match l_stack s with
              | [] => RRCrash 1 errs
              | top0 :: below =>
                  match look s top0 with
                  | None => RRCrash 9 errs
                  | Some (top, lay1, _) =>
                      match recover_scan (N.to_nat (in_len - e_pos top)) (e_state top) (e_pos top) with
                      | Some (p1, TTok y len) =>
                          rec_run f budget
                                  (mkLR (set_pos top p1 :: below) (Some (y, len)) lay1 (l_trace s))
                                  (errs ++ [(pos, p1)])
                      | Some (p1, _) => RRDisambiguation p1 st (errs ++ [(pos, pos)])
                      | None => RRSyntaxError pos st
                      end
                  end
              end
            else RRSyntaxError pos st
        | Done (LRDisambiguation pos st) => RRDisambiguation pos st errs
        | Done LROutOfFuel => RRAborted errs
        | Done (LRLayoutError pos) => RRLayoutError pos errs
        | Done (LRCrash c) => RRCrash c errs
        end
    end.
End Rec.

(* instance fields written by Parser.parse; None = attribute absent *)
Record lr_inst : Type := mkLI {
  li_errors : option (list (N * N));
  li_in_recovery : option bool;
  li_stack : option bool            (* parse_stack present (its content is local to the run) *)
}.

Record lr_subject : Type := mkLS {
  ls_conf : pconf;
  ls_recovery : bool
}.

Section LRInst.
  Variable sub : lr_subject.
  Variable inp : pinput.
  Variable fuel : nat.
  Variable budget : option nat.     (* action calls before the user's action raises *)
  Variable pos : N.

  Let c := ls_conf sub.

  (* self.errors = []; self.in_error_recovery = False; self.parse_stack = [start_head] *)
  Definition lr_reset (st : lr_inst) : lr_inst := mkLI (Some []) (Some false) (Some true).

  (* the body of parse after the three writes: it reads self.errors *)
  Definition lr_body (st : lr_inst) : lr_inst * rec_result :=
    match li_errors st with
    | None => (st, RRCrash 100 [])              (* AttributeError: no attribute 'errors' *)
    | Some errs0 =>
        let r := rec_run (pc_g c) (pc_tb c) (skipws_full c inp fuel)
                         (next_token_of (pc_terms c) (rx_of inp) (in_len inp) (pc_stop c)
                                        (pc_consume c) (pc_lexdis c) (pc_tb c))
                         (pc_stop c) (pc_consume c) (in_len inp) (ls_recovery sub)
                         fuel budget (lr_init pos) errs0 in
        match r with
        | RROk _ _ errs => (mkLI (Some errs) (li_in_recovery st) (li_stack st), r)
        | RRSyntaxError _ _ => (mkLI None (li_in_recovery st) (li_stack st), r)   (* del self.errors *)
        | RRDisambiguation _ _ errs | RRLayoutError _ errs | RRCrash _ errs | RRAborted errs =>
            (mkLI (Some errs) (li_in_recovery st) (li_stack st), r)
        end
    end.

  Definition lr_parse_inst (st : lr_inst) : lr_inst * rec_result := lr_body (lr_reset st).
End LRInst.

(* ------------------------------------------------------------------------- *)
(* GLRParser.parse: the GLR driver is an oracle that tells which way the run went;
   the model is the protocol of the transient fields.                             *)
Inductive gfield : Type :=
| FErrors | FInErrRep | FExpected | FTokensAhead | FLastShifted | FForShifter
| FAccepted | FActiveHeads | FPerSymbol | FForActor | FStatesTraversed.

Definition gfield_id (f : gfield) : N :=
  match f with
  | FErrors => 0 | FInErrRep => 1 | FExpected => 2 | FTokensAhead => 3 | FLastShifted => 4
  | FForShifter => 5 | FAccepted => 6 | FActiveHeads => 7 | FPerSymbol => 8 | FForActor => 9
  | FStatesTraversed => 10
  end.
Definition gfield_eqb (a b : gfield) : bool := gfield_id a =? gfield_id b.

Definition all_gfields : list gfield :=
  [FErrors; FInErrRep; FExpected; FTokensAhead; FLastShifted; FForShifter;
   FAccepted; FActiveHeads; FPerSymbol; FForActor; FStatesTraversed].

(* glr.py:101-128 *)
Definition glr_written_at_start : list gfield :=
  [FErrors; FInErrRep; FExpected; FTokensAhead; FLastShifted; FForShifter; FAccepted; FActiveHeads].
(* glr.py:632-639 *)
Definition glr_removed : list gfield :=
  [FForActor; FForShifter; FLastShifted; FAccepted; FActiveHeads; FStatesTraversed;
   FExpected; FTokensAhead].

Definition gstore := gfield -> bool.          (* attribute present *)

Definition gset (s : gstore) (fs : list gfield) (v : bool) : gstore :=
  fun f => if existsb (gfield_eqb f) fs then v else s f.

(* how a run of the GLR loop ended.  [loop] = _find_lookaheads ran (writes
   _active_heads_per_symbol); [actor] = the inner "while self._active_heads_per_symbol"
   body ran at least once (writes _for_actor and _states_traversed) *)
Inductive glr_path : Type :=
| GAccepted (forest : N)                      (* an opaque identifier of the result *)
| GSyntaxError (pos : N)
| GRaised (loop actor : bool).                (* a recognizer / dynamic filter raised *)

Inductive glr_outcome : Type :=
| GOForest (forest : N)
| GOSyntaxError (pos : N)
| GORaised
| GOAttributeError.

Definition glr_finish (s : gstore) (clear : bool) (extra : list gfield) : option gstore :=
  if clear then
    if forallb s glr_removed then Some (gset (gset s glr_removed false) extra false) else None
  else Some (gset s extra false).

Definition glr_parse_inst (path : glr_path) (clear : bool) (s : gstore) : gstore * glr_outcome :=
  let s1 := gset s glr_written_at_start true in
  match path with
  | GRaised loop actor =>
      let s2 := if loop then gset s1 [FPerSymbol] true else s1 in
      let s3 := if actor then gset s2 [FForActor; FStatesTraversed] true else s2 in
      (s3, GORaised)
  | GAccepted f =>
      let s2 := gset s1 [FPerSymbol; FForActor; FStatesTraversed] true in
      match glr_finish s2 clear [] with
      | Some s3 => (s3, GOForest f)
      | None => (s2, GOAttributeError)
      end
  | GSyntaxError p =>
      let s2 := gset s1 [FPerSymbol; FForActor; FStatesTraversed] true in
      match glr_finish s2 clear [FErrors] with            (* del self.errors *)
      | Some s3 => (s3, GOSyntaxError p)
      | None => (s2, GOAttributeError)
      end
  end.

(* ------------------------------------------------------------------------- *)
(* Histories over one Grammar object, one LR subject and one GLR subject.         *)
Record world : Type := mkW {
  w_g : gstate;
  w_lr : lr_inst;
  w_glr : gstore
}.

Inductive op : Type :=
| OParseLR (inp : pinput) (fuel : nat) (budget : option nat) (pos : N)
    (* sentence, non-sentence, recovery, or an action raising after [budget] calls *)
| OParseGLR (inp : pinput)
| OBuild (glr slr ps pse : bool).                  (* another Parser/GLRParser on the grammar;
                                                      it may fail *)

Section History.
  Variable G : gstatic.
  Variable core : list prod -> bopts -> ftab -> ftab -> core_res.
  Variable sr_conflicts rr_conflicts : table -> bool.
  Variable sub : lr_subject.
  Variable glr_run : pinput -> glr_path.           (* the GLR driver on the subject's table *)

  Definition step_world (w : world) (o : op) : world :=
    match o with
    | OParseLR inp fuel budget pos =>
        mkW (w_g w) (fst (lr_parse_inst sub inp fuel budget pos (w_lr w))) (w_glr w)
    | OParseGLR inp =>
        mkW (w_g w) (w_lr w) (fst (glr_parse_inst (glr_run inp) true (w_glr w)))
    | OBuild glr slr ps pse =>
        mkW (fst (parser_init G core sr_conflicts rr_conflicts (w_g w) (mkP glr slr ps pse)))
            (w_lr w) (w_glr w)
    end.

  Definition run_history (w : world) (h : list op) : world := fold_left step_world h w.

  (* what a user observes afterwards *)
  Definition probe_lr (w : world) (inp : pinput) (fuel : nat) (budget : option nat) (pos : N)
    : rec_result :=
    snd (lr_parse_inst sub inp fuel budget pos (w_lr w)).
  Definition probe_glr (w : world) (inp : pinput) : glr_outcome :=
    snd (glr_parse_inst (glr_run inp) true (w_glr w)).
  Definition probe_build (w : world) (o : popts) : result (table * option table) :=
    snd (parser_init G core sr_conflicts rr_conflicts (w_g w) o).
End History.
