(* Model of parglare's grammar-file import machinery (parglare/grammar.py):
     PGFile.__init__ / _make_symbols_resolution_map / _check_overrides   (512-654)
     PGFile.resolve_symbol_by_name                                        (718-740)
     PGFileImport.fqn / load_pgfile and the imported_files registry      (1315-1344, 540-555)
     GrammarSymbol.fqn / Reference.fqn                                   (70-74, 204-208)
     Grammar._add_resolve_all_production_symbols                         (841-878)
   Definitions only; proofs are in Proofs/ImportsProofs.v.

   A directory is a list of files, file 0 is the root given to Grammar.from_file.
   Names are dotted names split into segments (["l";"base";"C"] for l.base.C), every
   segment a number (the harness interns strings).  An inline string terminal 'a'
   is named by its text (the number of "a").  Faithful to the impl including:
   - the registry: a file is parsed once, under the first import path reaching it;
   - `self.imports = {i.module_name: i ...}`: a repeated module name keeps the LAST import;
   - resolution is local-first at every file along the path FROM THE ROOT;
   - inline terminals have no `imported_with`: their fqn is their bare name;
   - non-terminals are registered by fqn but never unified (object identity is kept);
   - an import whose load is still in progress has `pgfile = None` (AttributeError). *)
From Coq Require Import NArith List Bool.
Import ListNotations.
Local Open Scope N_scope.

Definition name := list N.

Inductive relem : Type :=
| RRef (n : name)            (* rule reference, possibly qualified *)
| RStr (s : N).              (* inline string terminal *)

Record pgfile : Type := mkFile {
  f_imports : list (N * nat);            (* (module name, target file) in text order *)
  f_prods : list (name * list relem);    (* one entry per production, in text order *)
  f_terms : list (name * N) }.           (* declared terminals: (name, string matched) *)

Definition dir := list pgfile.
Definition empty_file : pgfile := mkFile [] [] [].
Definition getf (d : dir) (f : nat) : pgfile := nth f d empty_file.

Fixpoint name_eqb (a b : name) : bool :=
  match a, b with
  | [], [] => true
  | x :: a', y :: b' => (x =? y) && name_eqb a' b'
  | _, _ => false
  end.

(* ---- per-file symbol table (symbols_by_name) ----------------------------- *)

Inductive skind : Type :=
| KNT                 (* non-terminal *)
| KTD (v : N)         (* declared terminal matching string v *)
| KTI.                (* inline string terminal (matches its name) *)

Definition inline_strs (F : pgfile) : list N :=
  flat_map (fun pr => flat_map (fun e => match e with RStr s => [s] | RRef _ => [] end) (snd pr))
           (f_prods F).

Fixpoint nodupN (l : list N) (seen : list N) : list N :=
  match l with
  | [] => []
  | x :: r => if existsb (N.eqb x) seen then nodupN r seen else x :: nodupN r (x :: seen)
  end.

(* context.inline_terminals: first occurrence order *)
Definition inline_terms (F : pgfile) : list (name * N) :=
  map (fun s => ([s], s)) (nodupN (inline_strs F) []).

(* act_pgfile: declared terminals, then the inline ones *)
Definition all_terms (F : pgfile) : list (name * N) := f_terms F ++ inline_terms F.

Definition local_lookup (F : pgfile) (nm : name) : option skind :=
  if existsb (fun pr => name_eqb (fst pr) nm) (f_prods F) then Some KNT
  else match find (fun t => name_eqb (fst t) nm) (f_terms F) with
       | Some t => Some (KTD (snd t))
       | None =>
           match nm with
           | [s] => if existsb (N.eqb s) (inline_strs F) then Some KTI else None
           | _ => None
           end
       end.

(* _make_symbols_resolution_map: GrammarError codes
     1 multiple definitions of terminal   2 two terminals match the same string
     3 rule already defined as terminal *)
Fixpoint check_terms (ts : list (name * N)) (names : list name) (vals : list N) : option N :=
  match ts with
  | [] => None
  | (n, v) :: r =>
      if existsb (name_eqb n) names then Some 1
      else if existsb (N.eqb v) vals then Some 2
      else check_terms r (n :: names) (v :: vals)
  end.

Definition file_check (F : pgfile) : option N :=
  match check_terms (all_terms F) [] [] with
  | Some e => Some e
  | None =>
      if existsb (fun pr => existsb (fun t => name_eqb (fst t) (fst pr)) (all_terms F)) (f_prods F)
      then Some 3 else None
  end.

(* ---- imports -------------------------------------------------------------- *)

(* dict comprehension over the imports: the last import with that module name *)
Fixpoint find_import_from (imps : list (N * nat)) (m : N) (i : nat) (acc : option (nat * nat))
  : option (nat * nat) :=
  match imps with
  | [] => acc
  | (m', t) :: r => find_import_from r m (S i) (if m' =? m then Some (i, t) else acc)
  end.

Definition find_import (F : pgfile) (m : N) : option (nat * nat) :=
  find_import_from (f_imports F) m 0%nat None.

Definition imp_target (d : dir) (f : nat) (m : N) : option nat :=
  option_map snd (find_import (getf d f) m).

(* follow module names from a file *)
Fixpoint walk (d : dir) (f : nat) (p : name) : option nat :=
  match p with
  | [] => Some f
  | m :: r => match imp_target d f m with Some g => walk d g r | None => None end
  end.

(* [stack]: files whose import loop is running, with the index of the import being
   loaded; imports at or after that index still have pgfile = None *)
Fixpoint stack_cur (stack : list (nat * nat)) (f : nat) : option nat :=
  match stack with
  | [] => None
  | (g, i) :: r => if Nat.eqb g f then Some i else stack_cur r f
  end.

Definition ready (stack : list (nat * nat)) (f i : nat) : bool :=
  match stack_cur stack f with Some cur => Nat.ltb i cur | None => true end.

(* ---- resolve_symbol_by_name ------------------------------------------------ *)

Inductive rres : Type :=
| RFound (f : nat) (nm : name) (k : skind)    (* the symbol named nm defined in file f *)
| RNone                                        (* returns None *)
| RErrModule                                   (* GrammarError: unexisting module *)
| RCrash.                                      (* AttributeError on pgfile = None *)

Fixpoint resolve (d : dir) (stack : list (nat * nat)) (f : nat) (nm : name) {struct nm} : rres :=
  match local_lookup (getf d f) nm with
  | Some k => RFound f nm k
  | None =>
      match nm with
      | [] => RNone
      | m :: rest =>
          match rest with
          | [] => RNone
          | _ :: _ =>
              match find_import (getf d f) m with
              | None => RErrModule
              | Some (i, t) => if ready stack f i then resolve d stack t rest else RCrash
              end
          end
      end
  end.

(* ---- _check_overrides ------------------------------------------------------ *)

Inductive lres : Type :=
| LOk (reg : list (nat * name))
| LErr (code : N)      (* GrammarError; 4 unexisting override name, 5 unexisting module,
                          6 unknown symbol, 7 can't import file *)
| LCrash
| LFuel.

Inductive lerr : Type := EErr (code : N) | ECrash.
Definition lres_of_err (e : lerr) : lres :=
  match e with EErr c => LErr c | ECrash => LCrash end.

(* keys of symbols_by_name in dict order: non-terminals by first production, then terminals *)
Fixpoint nodup_names (l : list name) (seen : list name) : list name :=
  match l with
  | [] => []
  | x :: r => if existsb (name_eqb x) seen then nodup_names r seen
              else x :: nodup_names r (x :: seen)
  end.

Definition symbol_names (F : pgfile) : list name :=
  nodup_names (map fst (f_prods F)) [] ++ map fst (all_terms F).

Definition check_override (d : dir) (stack : list (nat * nat)) (f : nat) (nm : name) : option lerr :=
  match nm with
  | m :: ((_ :: _) as rest) =>
      match find_import (getf d f) m with
      | None => Some (EErr 5)
      | Some (i, t) =>
          if ready stack f i then
            match resolve d stack t rest with
            | RFound _ _ _ => None
            | RNone => Some (EErr 4)
            | RErrModule => Some (EErr 5)
            | RCrash => Some ECrash
            end
          else Some ECrash
      end
  | _ => None
  end.

Fixpoint check_overrides (d : dir) (stack : list (nat * nat)) (f : nat) (nms : list name)
  : option lerr :=
  match nms with
  | [] => None
  | n :: r => match check_override d stack f n with
              | Some e => Some e
              | None => check_overrides d stack f r
              end
  end.

(* ---- loading: PGFile.__init__ with the registry ---------------------------- *)

Definition registered (f : nat) (reg : list (nat * name)) : bool :=
  existsb (fun e => Nat.eqb (fst e) f) reg.

(* the import loop of PGFile.__init__; [ld i t m reg] loads file t through import number i
   named m (PGFileImport.load_pgfile when the file is not in the registry) *)
Fixpoint load_imports (ld : nat -> nat -> N -> list (nat * name) -> lres) (nfiles : nat)
         (imps : list (N * nat)) (i : nat) (reg : list (nat * name)) : lres :=
  match imps with
  | [] => LOk reg
  | (m, t) :: r =>
      if registered t reg then load_imports ld nfiles r (S i) reg
      else if Nat.leb nfiles t then LErr 7
      else match ld i t m reg with
           | LOk reg' => load_imports ld nfiles r (S i) reg'
           | e => e
           end
  end.

Fixpoint load (fuel : nat) (d : dir) (stack : list (nat * nat)) (f : nat) (p : name)
              (reg : list (nat * name)) {struct fuel} : lres :=
  match fuel with
  | O => LFuel
  | S k =>
      match file_check (getf d f) with
      | Some e => LErr e
      | None =>
          match load_imports (fun i t m reg0 => load k d ((f, i) :: stack) t (p ++ [m]) reg0)
                             (length d) (f_imports (getf d f)) 0%nat (reg ++ [(f, p)]) with
          | LOk reg' =>
              match check_overrides d stack f (symbol_names (getf d f)) with
              | None => LOk reg'
              | Some e => lres_of_err e
              end
          | e => e
          end
      end
  end.

Definition load_root (fuel : nat) (d : dir) : lres := load fuel d [] 0%nat [] [].

Fixpoint path_of (reg : list (nat * name)) (f : nat) : name :=
  match reg with
  | [] => []
  | (g, p) :: r => if Nat.eqb g f then p else path_of r f
  end.

(* ---- symbols and fully qualified names ------------------------------------- *)

Record symb : Type := mkSym { s_file : nat; s_name : name; s_kind : skind }.

(* GrammarSymbol.fqn; inline terminals are created without imported_with *)
Definition fqn (reg : list (nat * name)) (s : symb) : name :=
  match s_kind s with
  | KTI => s_name s
  | _ => path_of reg (s_file s) ++ s_name s
  end.

Definition same_sym (a b : symb) : bool :=
  Nat.eqb (s_file a) (s_file b) && name_eqb (s_name a) (s_name b).

Fixpoint dget {V : Type} (dct : list (name * V)) (k : name) : option V :=
  match dct with
  | [] => None
  | (k', v) :: r => if name_eqb k' k then Some v else dget r k
  end.

Definition dadd {V : Type} (dct : list (name * V)) (k : name) (v : V) : list (name * V) :=
  match dget dct k with Some _ => dct | None => dct ++ [(k, v)] end.

(* Reference.fqn: the name of the reference seen from the root *)
Definition ref_name (e : relem) : name :=
  match e with RRef n => n | RStr s => [s] end.

Definition prods_of (F : pgfile) (nm : name) : list (name * list relem) :=
  filter (fun pr => name_eqb (fst pr) nm) (f_prods F).

(* ---- _add_resolve_all_production_symbols ------------------------------------ *)

Inductive task : Type :=
| TProd (f : nat) (lhs : name) (rhs : list relem)
| TElem (f : nat) (e : relem).

Record cstate : Type := mkC {
  c_nts : list (name * symb);      (* grammar.nonterminals (without S') *)
  c_ts : list (name * symb);       (* grammar.terminals (without EMPTY, STOP) *)
  c_disc : list symb }.            (* non-terminals whose productions were appended *)

Inductive cres : Type :=
| COk (c : cstate)
| CErr (code : N)
| CCrash
| CFuel.

Fixpoint collect (fuel : nat) (d : dir) (reg : list (nat * name)) (c : cstate) (w : list task)
  : cres :=
  match fuel with
  | O => CFuel
  | S k =>
      match w with
      | [] => COk c
      | TProd f lhs rhs :: w' =>
          let s := mkSym f lhs KNT in
          collect k d reg (mkC (dadd (c_nts c) (fqn reg s) s) (c_ts c) (c_disc c))
                  (map (TElem f) rhs ++ w')
      | TElem f e :: w' =>
          match resolve d [] 0%nat (path_of reg f ++ ref_name e) with
          | RNone => CErr 6
          | RErrModule => CErr 5
          | RCrash => CCrash
          | RFound g n kd =>
              let s := mkSym g n kd in
              match kd with
              | KNT =>
                  match dget (c_nts c) (fqn reg s) with
                  | Some _ => collect k d reg c w'
                  | None =>
                      collect k d reg (mkC (c_nts c) (c_ts c) (c_disc c ++ [s]))
                              (map (fun pr => TProd g (fst pr) (snd pr)) (prods_of (getf d g) n)
                               ++ w')
                  end
              | _ => collect k d reg (mkC (c_nts c) (dadd (c_ts c) (fqn reg s) s) (c_disc c)) w'
              end
          end
      end
  end.

Definition root_terms (d : dir) : list (name * symb) :=
  map (fun t => (fst t, mkSym 0 (fst t) (KTD (snd t)))) (f_terms (getf d 0%nat))
  ++ map (fun t => (fst t, mkSym 0 (fst t) KTI)) (inline_terms (getf d 0%nat)).

Definition init_nts (d : dir) : list (name * symb) :=
  fold_left (fun acc pr => dadd acc (fst pr) (mkSym 0 (fst pr) KNT)) (f_prods (getf d 0%nat)) [].

Definition collect_root (fuel : nat) (d : dir) (reg : list (nat * name)) : cres :=
  collect fuel d reg (mkC (init_nts d) (root_terms d) [])
          (map (fun pr => TProd 0 (fst pr) (snd pr)) (f_prods (getf d 0%nat))).

(* ---- the finished grammar: what the table builder sees ---------------------- *)

(* a right-hand side element after resolution and terminal unification *)
Inductive gelem : Type :=
| GT (fq : name) (v : N)                       (* terminal object registered under fq, matching v *)
| GNT (fq : name) (f : nat) (nm : name) (orphan : bool)
      (* non-terminal object (f, nm); orphan = it is not the object registered under
         its fqn, so none of grammar.productions belongs to it *)
| GBad.

Definition term_value (s : symb) : N :=
  match s_kind s with
  | KTD v => v
  | _ => match s_name s with [x] => x | _ => 0 end
  end.

Definition gelem_of (d : dir) (reg : list (nat * name)) (c : cstate) (f : nat) (e : relem) : gelem :=
  match resolve d [] 0%nat (path_of reg f ++ ref_name e) with
  | RFound g n kd =>
      let s := mkSym g n kd in
      match kd with
      | KNT => match dget (c_nts c) (fqn reg s) with
               | Some s' => GNT (fqn reg s) g n (negb (same_sym s s'))
               | None => GBad
               end
      | _ => match dget (c_ts c) (fqn reg s) with
             | Some s' => GT (fqn reg s) (term_value s')
             | None => GBad
             end
      end
  | _ => GBad
  end.

Record gprod : Type := mkGP { gp_fqn : name; gp_file : nat; gp_name : name; gp_rhs : list gelem }.

Definition gprods_of (d : dir) (reg : list (nat * name)) (c : cstate) (f : nat)
           (prs : list (name * list relem)) : list gprod :=
  map (fun pr => mkGP (path_of reg f ++ fst pr) f (fst pr) (map (gelem_of d reg c f) (snd pr))) prs.

(* grammar.productions[1:] *)
Definition grammar_prods (d : dir) (reg : list (nat * name)) (c : cstate) : list gprod :=
  gprods_of d reg c 0%nat (f_prods (getf d 0%nat))
  ++ flat_map (fun s => gprods_of d reg c (s_file s) (prods_of (getf d (s_file s)) (s_name s)))
              (c_disc c).

Inductive gres : Type :=
| GOk (reg : list (nat * name)) (c : cstate) (ps : list gprod)
| GErr (code : N)
| GCrash
| GFuel.

(* Grammar.from_file(root) *)
Definition build_grammar (fuel : nat) (d : dir) : gres :=
  match load_root fuel d with
  | LOk reg =>
      match f_prods (getf d 0%nat) with
      | [] => GCrash                      (* self.productions[0]: IndexError *)
      | _ =>
          match collect_root fuel d reg with
          | COk c => GOk reg c (grammar_prods d reg c)
          | CErr e => GErr e
          | CCrash => GCrash
          | CFuel => GFuel
          end
      end
  | LErr e => GErr e
  | LCrash => GCrash
  | LFuel => GFuel
  end.

(* ---- specification: what a reference means, independent of the root --------- *)

(* the symbol a reference q.x written in file f denotes: follow the imports named by
   q from f, then look x up in the file reached *)
Definition spec_resolve (d : dir) (f : nat) (nm : name) : option (nat * name * skind) :=
  match nm with
  | [] => None
  | _ =>
      match walk d f (removelast nm) with
      | Some g => match local_lookup (getf d g) [last nm 0] with
                  | Some k => Some (g, [last nm 0], k)
                  | None => None
                  end
      | None => None
      end
  end.

Definition no_dotted_names (d : dir) : Prop :=
  forall f nm, local_lookup (getf d f) nm <> None -> exists x, nm = [x].

(* every import statement of a file is reachable under its module name
   (no two imports of one file share a module name with different targets) *)
Definition imports_consistent (d : dir) : Prop :=
  forall f m t, In (m, t) (f_imports (getf d f)) -> imp_target d f m = Some t.

(* tree-shaped imports: one import statement leads to each file, none to the root *)
Definition import_tree (d : dir) : Prop :=
  (forall f m, imp_target d f m <> Some 0%nat) /\
  (forall f1 m1 f2 m2 g, imp_target d f1 m1 = Some g -> imp_target d f2 m2 = Some g ->
                         f1 = f2 /\ m1 = m2).

(* ---- boolean checkers for the hypotheses of the theorems -------------------- *)

Definition len1 (n : name) : bool := match n with [_] => true | _ => false end.

Definition no_dotted_check (d : dir) : bool :=
  forallb (fun F => forallb (fun pr => len1 (fst pr)) (f_prods F)
                    && forallb (fun t => len1 (fst t)) (f_terms F)) d.

Definition imports_consistent_check (d : dir) : bool :=
  forallb (fun F => forallb (fun mt => match find_import F (fst mt) with
                                       | Some (_, t) => Nat.eqb t (snd mt)
                                       | None => false
                                       end) (f_imports F)) d.
