(* Model of dynamic disambiguation in the LR driver:
     Parser._init_dynamic_disambiguation / _dynamic_disambiguation / _call_dynamic_filter
     (parser.py:740-808) and their call sites in Parser.parse (parser.py:339, 410-436).
   The filter is a stateful abstract function [filt : FS -> fcall -> bool * FS]; the
   driver threads its state and records every call with the verdict (the trace).
   The driver itself is Model/LRDriver.v: [lr_decide] is the prefix of [lr_step] up to
   the choice of the action list (Proofs/DynFilterProofs.v proves
   lr_step = do_action after lr_decide), the filter sits between the two.
   Definitions only. *)
From Coq Require Import NArith List Bool.
From PV Require Export Spec.Cfg Model.Table Model.LRDriver.
From PV Require Import Model.Scan Model.Parser.
Import ListNotations.
Local Open Scope N_scope.

(* one call of the filter: what the impl passes as
   (context, from_state, to_state, action, production, subresults) *)
Inductive fcall : Type :=
| FInit                                       (* (context, None, None, None, None, None) *)
| FShift (from to : nat) (ahead : option (N * N)) (pos : N)
| FReduce (from : nat) (p : N) (subs : list tree) (ahead : option (N * N)) (pos : N).

Inductive dyn_result : Type :=
| DRes (r : lr_result)
| DConflict (pos : N) (st : nat)      (* DynamicDisambiguationConflict *)
| DNoAction (pos : N) (st : nat).     (* every action rejected: actions[0] raises IndexError *)

(* the part of lr_step before the action is chosen *)
Inductive decision : Type :=
| DecDone (r : lr_result)
| DecActs (stk : list entry) (lay1 : N * N) (scan : tokres) (fb : bool) (acts : list action).

Section Dyn.
  Variable g : grammar.
  Variable tb : table.
  Variable skipws : N -> option N.
  Variable next_token : nat -> N -> tokres.
  Variable stop_id : N.
  Variable consume_input : bool.
  Variable in_layout : bool.
  Variable dyn_term : N -> bool.              (* terminal.dynamic *)
  Variable dyn_prod : N -> bool.              (* production.dynamic *)
  Variable FS : Type.
  Variable filt : FS -> fcall -> bool * FS.

  Definition lr_decide (s : lrstate) : decision :=
    match l_stack s with
    | [] => DecDone (LRCrash 1)
    | top0 :: below =>
        match lookahead skipws next_token in_layout s top0 with
        | None => DecDone (LRLayoutError (e_pos top0))
        | Some (top, lay1, scan) =>
        let st := e_state top in
        match scan with
        | TDis => DecDone (LRDisambiguation (e_pos top) st)
        | _ =>
            let acts0 := match scan with TTok y _ => cell tb st y | _ => [] end in
            match acts0 with
            | [] => if consume_input then DecActs (top :: below) lay1 scan true []
                    else DecActs (top :: below) lay1 scan true (cell tb st stop_id)
            | _ => DecActs (top :: below) lay1 scan false acts0
            end
        end
        end
    end.

  (* to_state.symbol.dynamic *)
  Definition shift_marked (to : nat) : bool :=
    match get_state tb to with
    | Some st => match st_sym st with T y => dyn_term y | NT _ => false end
    | None => false
    end.

  Definition ahead_of (scan : tokres) : option (N * N) :=
    match scan with TTok y len => Some (y, len) | _ => None end.

  Definition rhs_len (p : N) : nat :=
    match get_prod g p with Some pr => length (rhs pr) | None => O end.

  (* results = [x.results for x in self.parse_stack[-r_len:]] if r_len else [] *)
  Definition subresults (stk : list entry) (p : N) : list tree :=
    rev (map e_tree (firstn (rhs_len p) stk)).

  (* the call made for one action of the cell, None when _call_dynamic_filter returns
     True without consulting the filter *)
  Definition call_of (stk : list entry) (scan : tokres) (a : action) : option fcall :=
    match stk with
    | [] => None
    | top :: _ =>
        match a with
        | Shift to =>
            if shift_marked to then Some (FShift (e_state top) to (ahead_of scan) (e_pos top))
            else None
        | Reduce p =>
            if dyn_prod p
            then Some (FReduce (e_state top) p (subresults stk p) (ahead_of scan) (e_pos top))
            else None
        | Accept => None
        end
    end.

  (* _dynamic_disambiguation: the actions of the cell in order; returns the actions
     kept, the new filter state and the calls made *)
  Fixpoint run_filter (fs : FS) (stk : list entry) (scan : tokres) (acts : list action)
    : list action * FS * list (fcall * bool) :=
    match acts with
    | [] => ([], fs, [])
    | a :: r =>
        match call_of stk scan a with
        | None =>
            let '(k, fs', cs) := run_filter fs stk scan r in (a :: k, fs', cs)
        | Some c =>
            let '(v, fs1) := filt fs c in
            let '(k, fs', cs) := run_filter fs1 stk scan r in
            ((if v then a :: k else k), fs', (c, v) :: cs)
        end
    end.

  (* a.action is SHIFT or (a.action is REDUCE and len(a.prod.rhs)) *)
  Definition dd_counts (a : action) : bool :=
    match a with
    | Shift _ => true
    | Reduce p => negb (Nat.eqb (rhs_len p) 0)
    | Accept => false
    end.
  Definition dd_count (acts : list action) : nat := length (filter dd_counts acts).

  Inductive foutcome : Type :=
  | FContinue (s : lrstate)
  | FDone (r : dyn_result).

  Definition lift (o : outcome) : foutcome :=
    match o with Continue s => FContinue s | Done r => FDone (DRes r) end.

  Definition top_pos_state (stk : list entry) : N * nat :=
    match stk with top :: _ => (e_pos top, e_state top) | [] => (0, O) end.

  Definition fstep (fs : FS) (s : lrstate) : foutcome * FS * list (fcall * bool) :=
    match lr_decide s with
    | DecDone r => (FDone (DRes r), fs, [])
    | DecActs stk lay1 scan fb acts =>
        match acts with
        | [] => (lift (do_action g tb (l_trace s) stk lay1 scan fb []), fs, [])
        | _ =>
            let '(kept, fs', cs) := run_filter fs stk scan acts in
            if Nat.ltb 1 (dd_count kept)
            then (FDone (DConflict (fst (top_pos_state stk)) (snd (top_pos_state stk))), fs', cs)
            else match kept with
                 | [] => (FDone (DNoAction (fst (top_pos_state stk)) (snd (top_pos_state stk))),
                          fs', cs)
                 | _ => (lift (do_action g tb (l_trace s) stk lay1 scan fb kept), fs', cs)
                 end
        end
    end.

  Fixpoint frun (fuel : nat) (fs : FS) (s : lrstate) : dyn_result * FS * list (fcall * bool) :=
    match fuel with
    | O => (DRes LROutOfFuel, fs, [])
    | S f =>
        let '(o, fs1, cs) := fstep fs s in
        match o with
        | FDone r => (r, fs1, cs)
        | FContinue s' =>
            let '(r, fs2, tr) := frun f fs1 s' in (r, fs2, cs ++ tr)
        end
    end.

  (* Parser.parse with a dynamic_filter: the initial all-None call, then the loop *)
  Definition fparse (fuel : nat) (fs : FS) (pos : N) : dyn_result * FS * list (fcall * bool) :=
    let '(v0, fs0) := filt fs FInit in
    let '(r, fs1, tr) := frun fuel fs0 (lr_init pos) in
    (r, fs1, (FInit, v0) :: tr).

  (* ---- mechanism predicate of KF-C18 (ghost, not part of the driver) --------
     the marked actions the filter accepted in this step that the driver then passed
     over in silence (no DynamicDisambiguationConflict): possible only for EMPTY
     reductions next to a SHIFT or another reduction *)
  Definition taken_of (kept : list action) : option action :=
    match kept with
    | [] => None
    | Reduce p0 :: more =>
        match select_prod g p0 more with Some (p, _) => Some (Reduce p) | None => None end
    | a :: _ => Some a
    end.

  Definition step_dropped (fs : FS) (s : lrstate) : list (N * nat * action) :=
    match lr_decide s with
    | DecDone _ => []
    | DecActs stk lay1 scan fb acts =>
        let '(kept, _, _) := run_filter fs stk scan acts in
        if Nat.ltb 1 (dd_count kept) then []
        else match taken_of kept with
             | None => []
             | Some t =>
                 map (fun a => (fst (top_pos_state stk), snd (top_pos_state stk), a))
                     (filter (fun a => negb (action_eqb a t) &&
                                       match call_of stk scan a with Some _ => true | None => false end)
                             kept)
             end
    end.

  Fixpoint frun_dropped (fuel : nat) (fs : FS) (s : lrstate) : list (N * nat * action) :=
    match fuel with
    | O => []
    | S f =>
        let '(o, fs1, _) := fstep fs s in
        step_dropped fs s ++
        match o with
        | FDone _ => []
        | FContinue s' => frun_dropped f fs1 s'
        end
    end.

  Definition fparse_dropped (fuel : nat) (fs : FS) (pos : N) : list (N * nat * action) :=
    frun_dropped fuel (snd (filt fs FInit)) (lr_init pos).

  (* ---- what the accept-all theorem needs from the table ------------------- *)
  (* every cell holds at most one SHIFT or non-empty REDUCE (true of every table the
     impl lets an LR parser be built from without a filter) *)
  Definition cells_single : bool :=
    forallb (fun st => forallb (fun ya => Nat.leb (dd_count (snd ya)) 1) (st_actions st)) tb.

  (* every SHIFT found under terminal y leads to a state whose accessing symbol is y *)
  Definition shift_sym_ok : bool :=
    forallb (fun st =>
      forallb (fun ya =>
        forallb (fun a => match a with
                          | Shift to => match get_state tb to with
                                        | Some st' => sym_eqb (st_sym st') (T (fst ya))
                                        | None => false
                                        end
                          | _ => true
                          end) (snd ya)) (st_actions st)) tb.
End Dyn.

(* the filter given by a list of verdicts consumed one per call (True when the list
   is exhausted): every behaviour of a stateful filter on one run is such a list *)
Definition verdict_filter (fs : list bool) (_ : fcall) : bool * list bool :=
  match fs with
  | [] => (true, [])
  | v :: r => (v, r)
  end.

(* the whole parser (scanner, ws/LAYOUT skipping as in Model/Parser.v) with a filter *)
Section FullDyn.
  Variable c : pconf.
  Variable inp : pinput.
  Variable fuel : nat.
  Variable dyn_term : N -> bool.
  Variable dyn_prod : N -> bool.
  Variable FS : Type.
  Variable filt : FS -> fcall -> bool * FS.

  Definition fparse_full (fs : FS) (pos : N) : dyn_result * FS * list (fcall * bool) :=
    fparse (pc_g c) (pc_tb c) (skipws_full c inp fuel)
           (next_token_of (pc_terms c) (rx_of inp) (in_len inp) (pc_stop c)
                          (pc_consume c) (pc_lexdis c) (pc_tb c))
           (pc_stop c) (pc_consume c) false dyn_term dyn_prod FS filt fuel fs pos.

  Definition fparse_full_dropped (fs : FS) (pos : N) : list (N * nat * action) :=
    fparse_dropped (pc_g c) (pc_tb c) (skipws_full c inp fuel)
           (next_token_of (pc_terms c) (rx_of inp) (in_len inp) (pc_stop c)
                          (pc_consume c) (pc_lexdis c) (pc_tb c))
           (pc_stop c) (pc_consume c) false dyn_term dyn_prod FS filt fuel fs pos.
End FullDyn.
