(* LR tables as data (the impl's LRTable after construction or load). *)
From Coq Require Import NArith List Bool.
From PV Require Export Spec.Cfg.
Import ListNotations.
Local Open Scope N_scope.

Inductive action : Type :=
| Shift (s : nat)
| Reduce (p : N)
| Accept.

Record state : Type := mkState {
  st_sym : sym;                              (* accessing symbol (state.symbol) *)
  st_actions : list (N * list action);       (* ordered dict terminal -> actions *)
  st_gotos : list (N * nat);                 (* nonterminal -> state *)
  st_finish : list bool;                     (* finish flags, parallel to st_actions *)
  st_items : list (N * nat)                  (* LR(0) items (production, dot): annotation *)
}.

Definition table := list state.

Fixpoint assoc {V} (k : N) (l : list (N * V)) : option V :=
  match l with
  | [] => None
  | (k', v) :: r => if k =? k' then Some v else assoc k r
  end.

Definition get_state (tb : table) (s : nat) : option state := nth_error tb s.

Definition cell (tb : table) (s : nat) (y : N) : list action :=
  match get_state tb s with
  | Some st => match assoc y (st_actions st) with Some l => l | None => [] end
  | None => []
  end.

Definition goto (tb : table) (s : nat) (a : N) : option nat :=
  match get_state tb s with
  | Some st => assoc a (st_gotos st)
  | None => None
  end.

Definition items (tb : table) (s : nat) : list (N * nat) :=
  match get_state tb s with Some st => st_items st | None => [] end.

Definition action_eqb (a b : action) : bool :=
  match a, b with
  | Shift s, Shift s' => Nat.eqb s s'
  | Reduce p, Reduce p' => p =? p'
  | Accept, Accept => true
  | _, _ => false
  end.

Definition is_shift (a : action) : bool := match a with Shift _ => true | _ => false end.
Definition is_reduce (a : action) : bool := match a with Reduce _ => true | _ => false end.

(* every cell holds at most one action *)
Definition det_table (tb : table) : bool :=
  forallb (fun st => forallb (fun ya => Nat.leb (length (snd ya)) 1) (st_actions st)) tb.
