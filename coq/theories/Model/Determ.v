(* Model of the hash-order-sensitive tail of LR table construction and of what is
   observed from it (C16):

     - create_table, REDUCE phase            parglare/tables/__init__.py:312-394
       (the ONLY place of table construction where a Python set of grammar symbols is
        iterated: [for terminal in follow_set]; everything before it -- closure, LALR
        merging and propagation, FIRST/FOLLOW -- uses sets only through union,
        difference, subset and membership, and every dict keyed by symbols is
        insertion-ordered)
     - per_next_symbol / _max_prior_per_symbol / SHIFT and ACCEPT entries
                                              parglare/tables/__init__.py:208-266
     - LRTable.sort_state_actions            parglare/tables/__init__.py:479-518
       (the comparator is Model/StrTerm.act_before, shared with C19/C07)
     - LRTable.calc_finish_flags             parglare/tables/__init__.py:520-541
     - calc_conflicts_and_dynamic_terminals  parglare/tables/__init__.py:543-584 (conflict lists)
     - persist.table_to_serializable + json.dumps(..., sort_keys=True)
                                              parglare/tables/persist.py:5-18, 80-107
       rendered down to the *bytes* (separators ", " and ": ", ensure_ascii escapes).

   The input is the output of the automaton phase (states with their items in
   [state.items] order, SHIFT targets, gotos) and, for every item, its lookahead set
   *as the list in which the set happens to be iterated*.  A Python set is thus a
   duplicate-free list in an arbitrary order; the theorems (Proofs/DetermProofs.v)
   quantify over all such orders.  Definitions only. *)
From Coq Require Import NArith List Bool.
From PV Require Import Gen.Consts Model.StrTerm.
Import ListNotations.
Local Open Scope N_scope.

(* ---- grammar data read by this part of the code ---------------------------- *)
Inductive dsym : Type := DT (t : N) | DN (a : N).

Record pinfo : Type := mkPI {
  pi_rhs : list dsym;      (* rhs without EMPTY; production 0 is S' -> start STOP *)
  pi_prior : N;
  pi_assoc : N;
  pi_nops : bool;
  pi_nopse : bool
}.
Definition pi_default : pinfo := mkPI [] 0 0 false false.

Definition aterm_default : aterm := mkA [] 0 (FRegex 0) 0 None.

Record dconf : Type := mkDC {
  c_prods : list pinfo;          (* grammar.productions by prod_id *)
  c_terms : list aterm;          (* grammar.terminals by terminal number: fqn, prior, recognizer kind, finish *)
  c_ntnames : list str;          (* fqn of the nonterminals by number *)
  c_stop : N;                    (* number of STOP *)
  c_ps : bool;                   (* prefer_shifts *)
  c_pse : bool;                  (* prefer_shifts_over_empty *)
  c_lexdis : bool                (* lexical_disambiguation *)
}.

Definition pinfo_of (c : dconf) (p : N) : pinfo := nth (N.to_nat p) (c_prods c) pi_default.
Definition tinfo_of (c : dconf) (t : N) : aterm := nth (N.to_nat t) (c_terms c) aterm_default.
Definition ntname_of (c : dconf) (a : N) : str := nth (N.to_nat a) (c_ntnames c) [].

(* ---- actions and insertion-ordered dicts ---------------------------------- *)
Inductive act : Type := AShift (s : N) | AReduce (p : N) | AAccept.

Definition dict (V : Type) : Type := list (N * V).

Fixpoint dget {V} (k : N) (d : dict V) : option V :=
  match d with
  | [] => None
  | (k', v) :: r => if k =? k' then Some v else dget k r
  end.

(* d[k] = v for a key that is present: the position is kept *)
Fixpoint dupd {V} (k : N) (v : V) (d : dict V) : dict V :=
  match d with
  | [] => []
  | (k', v') :: r => if k =? k' then (k, v) :: r else (k', v') :: dupd k v r
  end.

Definition keys {V} (d : dict V) : list N := map fst d.

(* ---- one state as the automaton phase leaves it --------------------------- *)
Record score : Type := mkSC {
  sc_symname : str;                (* state.symbol.fqn *)
  sc_items : list (N * nat);       (* state.items in order: (prod_id, position) *)
  sc_shift : dict N;               (* terminal -> state_id of the state reached by shifting it *)
  sc_gotos : dict N                (* state.gotos in order: nonterminal -> state_id *)
}.

Definition sym_at (c : dconf) (it : N * nat) : option dsym :=
  nth_error (pi_rhs (pinfo_of c (fst it))) (snd it).

(* lines 208-266: terminals after the dot in first-occurrence order get
   [SHIFT target]; STOP gets [ACCEPT] *)
Definition shift_entry (c : dconf) (sc : score) (t : N) : list act :=
  if t =? c_stop c then [AAccept]
  else [AShift (match dget t (sc_shift sc) with Some s => s | None => 0 end)].

Fixpoint actions0_from (c : dconf) (sc : score) (its : list (N * nat)) (d : dict (list act))
  : dict (list act) :=
  match its with
  | [] => d
  | it :: r =>
      actions0_from c sc r
        (match sym_at c it with
         | Some (DT t) => match dget t d with
                          | Some _ => d
                          | None => d ++ [(t, shift_entry c sc t)]
                          end
         | _ => d
         end)
  end.
Definition actions0 (c : dconf) (sc : score) : dict (list act) := actions0_from c sc (sc_items sc) [].

(* state._max_prior_per_symbol[terminal] *)
Definition shprior (c : dconf) (sc : score) (t : N) : N :=
  fold_left (fun m it => match sym_at c it with
                         | Some (DT t') => if t' =? t then N.max m (pi_prior (pinfo_of c (fst it))) else m
                         | _ => m
                         end) (sc_items sc) 0.

(* ---- REDUCE phase: what happens to ONE cell when production p asks for a
        reduction on its terminal (lines 333-394) ----------------------------- *)
Definition is_red (a : act) : bool := match a with AReduce _ => true | _ => false end.
Definition is_sa (a : act) : bool := negb (is_red a).

Fixpoint remove_first_sa (l : list act) : list act :=
  match l with
  | [] => []
  | a :: r => if is_sa a then r else a :: remove_first_sa r
  end.

Definition first_red (l : list act) : option N :=
  match find is_red l with Some (AReduce p) => Some p | _ => None end.

Definition cell_step (c : dconf) (shp : N) (p : N) (cell : list act) : list act :=
  let pr := pinfo_of c p in
  let is_empty := match pi_rhs pr with [] => true | _ => false end in
  let res :=
    match find is_sa cell with
    | None => (cell, true)
    | Some sh =>
        let sp := match sh with AAccept => DEFAULT_PRIORITY | _ => shp end in
        if pi_prior pr =? sp then
          if pi_assoc pr =? ASSOC_LEFT then (remove_first_sa cell, true)
          else if pi_assoc pr =? ASSOC_RIGHT then (cell, false)
          else
            let prod_pse := is_empty && c_pse c && negb (pi_nopse pr) in
            let prod_ps := negb is_empty && c_ps c && negb (pi_nops pr) in
            (cell, negb (prod_pse || prod_ps))
        else if sp <? pi_prior pr then (remove_first_sa cell, true)
        else (cell, false)
    end in
  let cell1 := fst res in
  if snd res then
    match first_red cell with
    | None => cell1 ++ [AReduce p]
    | Some q =>
        let qp := pi_prior (pinfo_of c q) in
        if pi_prior pr =? qp then cell1 ++ [AReduce p]
        else if qp <? pi_prior pr then filter is_sa cell1 ++ [AReduce p]
        else cell1
    end
  else cell1.

(* one iteration of [for terminal in follow_set] *)
Definition visit (c : dconf) (shp : N -> N) (p : N) (d : dict (list act)) (t : N) : dict (list act) :=
  match dget t d with
  | None => d ++ [(t, [AReduce p])]
  | Some cell => dupd t (cell_step c (shp t) p cell) d
  end.

Definition at_end (c : dconf) (it : N * nat) : bool :=
  Nat.eqb (snd it) (length (pi_rhs (pinfo_of c (fst it)))).

(* one item of [for item in state.items]; [snd x] is the order in which the item's
   lookahead set (LALR: item.follow, SLR: FOLLOW(lhs)) is iterated *)
Definition reduce_item (c : dconf) (shp : N -> N) (d : dict (list act)) (x : (N * nat) * list N)
  : dict (list act) :=
  if at_end c (fst x) then fold_left (visit c shp (fst (fst x))) (snd x) d else d.

Definition reduce_phase (c : dconf) (shp : N -> N) (its : list ((N * nat) * list N))
           (d : dict (list act)) : dict (list act) :=
  fold_left (reduce_item c shp) its d.

(* ---- sort_state_actions: sorted(items, key=act_order, reverse=True) -------- *)
Section SortBy.
  Context {X : Type} (before : X -> X -> bool).
  Fixpoint insert_by (x : X) (l : list X) : list X :=
    match l with
    | [] => [x]
    | y :: r => if before y x then y :: insert_by x r else x :: l
    end.
  (* stable: among elements none of which is strictly before the other the input order is kept *)
  Definition sort_by (l : list X) : list X := fold_right insert_by [] l.
End SortBy.

Definition entry_before (c : dconf) (a b : N * list act) : bool :=
  act_before (tinfo_of c (fst a)) (tinfo_of c (fst b)).
Definition sort_actions (c : dconf) (d : dict (list act)) : dict (list act) :=
  sort_by (entry_before c) d.

Definition flags_of (c : dconf) (d : dict (list act)) : list bool :=
  if c_lexdis c then finish_flags (map (fun e => tinfo_of c (fst e)) d)
  else map (fun _ => false) d.

(* ---- a finished state ------------------------------------------------------- *)
Record sout : Type := mkSO {
  so_symname : str;
  so_actions : dict (list act);
  so_gotos : dict N;
  so_finish : list bool
}.

(* [follows]: one list per item of the state, parallel to sc_items *)
Definition build_state (c : dconf) (sc : score) (follows : list (list N)) : sout :=
  let d := reduce_phase c (shprior c sc) (combine (sc_items sc) follows) (actions0 c sc) in
  let s := sort_actions c d in
  mkSO (sc_symname sc) s (sc_gotos sc) (flags_of c s).

Definition build_table (c : dconf) (tin : list (score * list (list N))) : list sout :=
  map (fun x => build_state c (fst x) (snd x)) tin.

(* the terminals that can get a cell in the row of this state *)
Definition row_terms (c : dconf) (sc : score) (follows : list (list N)) : list N :=
  keys (actions0 c sc) ++ concat follows.

(* the hypothesis of the sorting theorem, as a check that is run on the impl's data:
   of two different terminals one sorts strictly before the other (the sort key
   "number ++ padded fqn" is injective on them) *)
Definition strictly_ordered (c : dconf) (a b : N) : bool :=
  act_before (tinfo_of c a) (tinfo_of c b) || act_before (tinfo_of c b) (tinfo_of c a).
Definition keys_distinct (c : dconf) (u : list N) : bool :=
  forallb (fun a => forallb (fun b => (a =? b) || strictly_ordered c a b) u) u.

(* both hypotheses of the order-independence theorem for one state, as a check: the
   lookahead lists are duplicate-free and the terminals of the row have distinct sort keys *)
Definition tin_okb (c : dconf) (x : score * list (list N)) : bool :=
  forallb (fun l => Nat.eqb (length (nodup N.eq_dec l)) (length l)) (snd x) &&
  keys_distinct c (row_terms c (fst x) (snd x)).

(* ---- conflict lists (calc_conflicts_and_dynamic_terminals) ----------------- *)
Definition red_prods (l : list act) : list N :=
  flat_map (fun a => match a with AReduce p => [p] | _ => [] end) l.
Definition prod_empty (c : dconf) (p : N) : bool :=
  match pi_rhs (pinfo_of c p) with [] => true | _ => false end.

(* (state_id, terminal, productions) *)
Definition conflict : Type := (N * N * list N)%type.

Definition cell_sr (sid : N) (e : N * list act) : list conflict :=
  match snd e with
  | a :: ((_ :: _) as tl) =>
      if is_sa a then map (fun _ => (sid, fst e, red_prods tl)) tl else []
  | _ => []
  end.
Definition cell_rr (c : dconf) (sid : N) (e : N * list act) : list conflict :=
  match snd e with
  | a :: (_ :: _) =>
      if is_sa a then []
      else
        let ps := red_prods (snd e) in
        let ne := filter (fun p => negb (prod_empty c p)) ps in
        let em := filter (prod_empty c) ps in
        (if (1 <? N.of_nat (length em)) then [(sid, fst e, em)] else []) ++
        (if (1 <? N.of_nat (length ne)) then [(sid, fst e, ne)] else [])
  | _ => []
  end.

Fixpoint number_from {X} (n : N) (l : list X) : list (N * X) :=
  match l with [] => [] | x :: r => (n, x) :: number_from (n + 1) r end.

Definition sr_conflicts (t : list sout) : list conflict :=
  flat_map (fun s => flat_map (cell_sr (fst s)) (so_actions (snd s))) (number_from 0 t).
Definition rr_conflicts (c : dconf) (t : list sout) : list conflict :=
  flat_map (fun s => flat_map (cell_rr c (fst s)) (so_actions (snd s))) (number_from 0 t).

(* ---- json.dumps(table_to_serializable(table), sort_keys=True) as bytes ------ *)
Fixpoint dec_fuel (f : nat) (n : N) (acc : list N) : list N :=
  match f with
  | O => acc
  | S f' =>
      let acc' := (48 + n mod 10) :: acc in
      if n / 10 =? 0 then acc' else dec_fuel f' (n / 10) acc'
  end.
Definition dec (n : N) : list N := dec_fuel (S (N.to_nat (N.log2 n))) n [].

Definition hexd (n : N) : N := if n <? 10 then 48 + n else 87 + n.
Definition hex4 (n : N) : list N :=
  [hexd ((n / 4096) mod 16); hexd ((n / 256) mod 16); hexd ((n / 16) mod 16); hexd (n mod 16)].
Definition uesc (n : N) : list N := [92; 117] ++ hex4 n.

(* json.encoder.py_encode_basestring_ascii *)
Definition jchar (ch : N) : list N :=
  if ch =? 34 then [92; 34]
  else if ch =? 92 then [92; 92]
  else if ch =? 10 then [92; 110]
  else if ch =? 13 then [92; 114]
  else if ch =? 9 then [92; 116]
  else if ch =? 8 then [92; 98]
  else if ch =? 12 then [92; 102]
  else if (32 <=? ch) && (ch <=? 126) then [ch]
  else if ch <? 65536 then uesc ch
  else let v := ch - 65536 in
       uesc (55296 + (v / 1024) mod 1024) ++ uesc (56320 + v mod 1024).
Definition jstr (s : str) : list N := [34] ++ flat_map jchar s ++ [34].

Fixpoint jjoin (l : list (list N)) : list N :=
  match l with
  | [] => []
  | [x] => x
  | x :: r => x ++ [44; 32] ++ jjoin r
  end.
Definition jlist (l : list (list N)) : list N := [91] ++ jjoin l ++ [93].

Definition jaction (a : act) : list N :=
  [123] ++ [34; 97; 99; 116; 105; 111; 110; 34; 58; 32] ++
  match a with
  | AShift s => dec SHIFT ++ [44; 32; 34; 115; 116; 97; 116; 101; 95; 105; 100; 34; 58; 32] ++ dec s
  | AReduce p => dec REDUCE ++ [44; 32; 34; 112; 114; 111; 100; 95; 105; 100; 34; 58; 32] ++ dec p
  | AAccept => dec ACCEPT
  end ++ [125].

Definition jbool (b : bool) : list N := if b then [116; 114; 117; 101] else [102; 97; 108; 115; 101].

Definition jstate (c : dconf) (sid : N) (s : sout) : list N :=
  [123] ++
  [34; 97; 99; 116; 105; 111; 110; 115; 34; 58; 32] ++
    jlist (map (fun e => jlist [jstr (at_fqn (tinfo_of c (fst e))); jlist (map jaction (snd e))])
               (so_actions s)) ++ [44; 32] ++
  [34; 102; 105; 110; 105; 115; 104; 95; 102; 108; 97; 103; 115; 34; 58; 32] ++
    jlist (map jbool (so_finish s)) ++ [44; 32] ++
  [34; 103; 111; 116; 111; 115; 34; 58; 32] ++
    jlist (map (fun e => jlist [jstr (ntname_of c (fst e)); dec (snd e)]) (so_gotos s)) ++ [44; 32] ++
  [34; 115; 116; 97; 116; 101; 95; 105; 100; 34; 58; 32] ++ dec sid ++ [44; 32] ++
  [34; 115; 121; 109; 98; 111; 108; 34; 58; 32] ++ jstr (so_symname s) ++
  [125].

Definition table_bytes (c : dconf) (t : list sout) : list N :=
  jlist (map (fun s => jstate c (fst s) (snd s)) (number_from 0 t)).

(* ---- set-iteration oracles --------------------------------------------------
   [ord i j l]: the order in which the lookahead set with elements l, belonging to
   item j of state i, is iterated in some interpreter process. *)
Definition oracle : Type := nat -> nat -> list N -> list N.

Fixpoint mapi_from {X Y} (f : nat -> X -> Y) (n : nat) (l : list X) : list Y :=
  match l with [] => [] | x :: r => f n x :: mapi_from f (S n) r end.

Definition apply_oracle (ord : oracle) (tin : list (score * list (list N)))
  : list (score * list (list N)) :=
  mapi_from (fun i x => (fst x, mapi_from (ord i) 0%nat (snd x))) 0%nat tin.
