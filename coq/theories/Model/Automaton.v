(* Model of the automaton phase of _create_table (parglare/tables/__init__.py):
   the state queue, grouping by the symbol after the dot, state identity by kernel
   item set, LALR [merge_states], SHIFT / ACCEPT / GOTO entries, and the final LALR
   propagation loop.

   [states ++ state_queue] is ONE list [all]; [cur] is the number of states already
   popped from the queue (= the index of the state being processed).  A state's id is
   its index in [all] (the impl's state_id counter equals len(states)+len(state_queue)
   whenever a state is created).  The state being processed has already been appended
   to [states] when its groups are handled, so look-ups see it, and a merge may mutate
   it: every step reads the current version from [all].  Definitions only. *)
From Coq Require Import NArith List Bool.
From PV Require Import Spec.Cfg Model.Table Model.First Model.Closure Model.Resolve.
Import ListNotations.
Local Open Scope N_scope.

Record mstate : Type := mkMS {
  ms_sym : sym;                        (* state.symbol *)
  ms_items : list item;                (* state.items *)
  ms_acts : actions;                   (* state.actions: SHIFT / ACCEPT entries, insertion order *)
  ms_gotos : list (N * nat)            (* state.gotos, insertion order *)
}.

(* results of the construction *)
Inductive bres (X : Type) : Type :=
| BOk (x : X)
| BGrammarError (a : N)                (* "First set empty for grammar symbol" a *)
| BBudget (n : N)                      (* VerifStateBudgetExceeded(n) (verification hook) *)
| BCrash (code : N)                    (* an exception the impl does not intend:
                                          1 AttributeError on a None item (EMPTY inside a
                                            right-hand side), 2 ValueError in list.index,
                                          3 KeyError in _max_prior_per_symbol *)
| BFuel (stage : N) (n : N).           (* the MODEL ran out of fuel: stage 0 first, 1 follow,
                                          2 closure, 3 state queue, 4 LALR propagation;
                                          n = number of states at that time *)
Arguments BOk {X} x.
Arguments BGrammarError {X} a.
Arguments BBudget {X} n.
Arguments BCrash {X} code.
Arguments BFuel {X} stage n.

Definition bbind {X Y} (r : bres X) (f : X -> bres Y) : bres Y :=
  match r with
  | BOk x => f x
  | BGrammarError a => BGrammarError a
  | BBudget n => BBudget n
  | BCrash c => BCrash c
  | BFuel s n => BFuel s n
  end.

Inductive merge_res : Type :=
| MergeOk (its : list item)
| MergeRefused
| MergeCrash.

Fixpoint gset (k : N) (v : nat) (l : list (N * nat)) : list (N * nat) :=
  match l with
  | [] => [(k, v)]
  | (k', w) :: r => if k =? k' then (k', v) :: r else (k', w) :: gset k v r
  end.

Fixpoint find_index {X} (f : X -> bool) (l : list X) (i : nat) : option nat :=
  match l with
  | [] => None
  | x :: r => if f x then Some i else find_index f r (S i)
  end.

Definition indexed {X} (l : list X) : list (nat * X) := combine (seq 0 (length l)) l.

Section Automaton.
  Variable ps : list prod.     (* as in Model/Closure.v: production 0 already swapped *)
  Variable e : N.
  Variable stop : N.
  Variable lr1 : bool.
  Variable fs : fsets.
  Variable cfuel : nat.        (* fuel of one closure call *)
  Variable max_states : option nat.   (* PARGLARE_VERIF_MAX_STATES *)

  Notation item_sym := (item_sym ps e).
  Notation item_at_end := (item_at_end ps e).
  Notation is_kernel := (is_kernel ps).
  Notation item_inc := (item_inc ps e).
  Notation closure := (closure ps e lr1 fs cfuel).

  (* state.kernel_items *)
  Definition kernel (its : list item) : list item := filter is_kernel its.

  (* LRState.__eq__(this, other) *)
  Definition state_eqb (this other : list item) : bool :=
    let kt := kernel this in
    let ko := kernel other in
    Nat.eqb (length kt) (length ko) && forallb (fun x => existsb (item_same x) ko) kt.

  (* per_next_symbol: OrderedDict symbol -> [item, ...] (items as indices) *)
  Fixpoint group_add (x : sym) (i : nat) (g : list (sym * list nat)) : list (sym * list nat) :=
    match g with
    | [] => [(x, [i])]
    | (y, l) :: r => if sym_eqb x y then (y, l ++ [i]) :: r else (y, l) :: group_add x i r
    end.

  Definition groups (its : list item) : list (sym * list nat) :=
    fold_left (fun g ii => match item_sym (snd ii) with
                           | Some x => group_add x (fst ii) g
                           | None => g
                           end) (indexed its) [].

  (* inc_items = [item.get_pos_inc() for item in items]; None if one of them is None
     (the state built from it cannot be compared: AttributeError) *)
  Fixpoint inc_group (its : list item) (idxs : list nat) : option (list item) :=
    match idxs with
    | [] => Some []
    | i :: r =>
        match nth_error its i with
        | None => None
        | Some it =>
            match item_inc it, inc_group its r with
            | Some it', Some l => Some (it' :: l)
            | _, _ => None
            end
        end
    end.

  (* ---- merge_states(old_state, new_state) -------------------------------------- *)
  (* (index in old_state.items, old item) for s in old_state.kernel_items if s.is_at_end *)
  Definition end_kernel (its : list item) : list (nat * item) :=
    filter (fun ii => is_kernel (snd ii) && item_at_end (snd ii)) (indexed its).

  (* new_state.get_item(old_item) *)
  Definition get_item (its : list item) (x : item) : option item :=
    find (fun y => item_same y x) its.

  Fixpoint merge_pairs (old_end : list (nat * item)) (new_its : list item)
    : option (list (nat * item * item)) :=
    match old_end with
    | [] => Some []
    | (i, o) :: r =>
        match get_item new_its o, merge_pairs r new_its with
        | Some n, Some l => Some ((i, o, n) :: l)
        | _, _ => None
        end
    end.

  Definition merge_states (old_its new_its : list item) : merge_res :=
    let old_end := end_kernel old_its in
    match merge_pairs old_end new_its with
    | None => MergeCrash
    | Some pairs =>
        if existsb (fun pr : nat * item * item =>
                      let '(i, o, n) := pr in
                      existsb (fun js : nat * item =>
                                 negb (Nat.eqb (fst js) i) &&
                                 nmeets (it_f (snd js)) (ndiff (it_f n) (it_f o))) old_end) pairs
        then MergeRefused
        else MergeOk (fold_left (fun its (pr : nat * item * item) =>
                                   let '(i, _, n) := pr in
                                   set_follow i (nunion (follow_at its i) (it_f n)) its)
                                pairs old_its)
    end.

  (* ---- one group of the state being processed --------------------------------- *)
  Definition set_items (k : nat) (its : list item) (all : list mstate) : list mstate :=
    map_nth k (fun st => mkMS (ms_sym st) its (ms_acts st) (ms_gotos st)) all.

  Definition new_state (x : sym) (kits : list item) : mstate := mkMS x kits [] [].

  (* states.index(maybe_new_state), then state_queue.index(maybe_new_state) *)
  Definition find_state (all : list mstate) (kits : list item) : option nat :=
    find_index (fun st => state_eqb (ms_items st) kits) all 0.

  Definition record (cur : nat) (x : sym) (tgt : nat) (all : list mstate) : list mstate :=
    map_nth cur (fun st =>
                   match x with
                   | NT b => mkMS (ms_sym st) (ms_items st) (ms_acts st) (gset b tgt (ms_gotos st))
                   | T t => mkMS (ms_sym st) (ms_items st) (aset t [Shift tgt] (ms_acts st))
                                 (ms_gotos st)
                   end) all.

  Definition do_group (cur : nat) (all : list mstate) (g : sym * list nat) : bres (list mstate) :=
    let (x, idxs) := g in
    match nth_error all cur with
    | None => BCrash 0
    | Some st =>
        if sym_eqb x (T stop) then
          BOk (map_nth cur (fun st => mkMS (ms_sym st) (ms_items st)
                                           (aset stop [Accept] (ms_acts st)) (ms_gotos st)) all)
        else
          match inc_group (ms_items st) idxs with
          | None => BCrash 1
          | Some kits =>
              match find_state all kits with
              | None => BOk (record cur x (length all) (all ++ [new_state x kits]))
              | Some k =>
                  if lr1 then
                    match nth_error all k with
                    | None => BCrash 0
                    | Some old =>
                        match merge_states (ms_items old) kits with
                        | MergeOk its' => BOk (record cur x k (set_items k its' all))
                        | MergeRefused =>
                            BOk (record cur x (length all) (all ++ [new_state x kits]))
                        | MergeCrash => BCrash 2
                        end
                    end
                  else BOk (record cur x k all)
              end
          end
    end.

  Definition over_budget (n : nat) : bool :=
    match max_states with Some m => Nat.ltb m n | None => false end.

  (* while state_queue: state = state_queue.pop(0); ... *)
  Fixpoint build_loop (fuel : nat) (cur : nat) (all : list mstate) : bres (list mstate) :=
    match fuel with
    | O => BFuel 3 (N.of_nat (length all))
    | S f =>
        match nth_error all cur with
        | None => BOk all
        | Some st =>
            if over_budget (length all) then BBudget (N.of_nat (length all))
            else
              match closure (ms_items st) with
              | None => BFuel 2 (N.of_nat (length all))
              | Some its =>
                  bbind (fold_left (fun r g => bbind r (fun a => do_group cur a g))
                                   (groups its) (BOk (set_items cur its all)))
                        (fun all2 => build_loop f (S cur) all2)
              end
        end
    end.

  (* s = LRState(grammar, 0, AUGSYMBOL, [LRItem(grammar.productions[0], 0, set())]) *)
  Definition state0 : mstate := mkMS (NT (lhs_of ps 0)) [mkItem 0 0 []] [] [].

  (* ---- the final LALR loop -------------------------------------------------------- *)
  (* for state in states: closure(state, LR_1, first_sets) *)
  Fixpoint close_all (k : nat) (n : nat) (all : list mstate) : option (list mstate) :=
    match n with
    | O => Some all
    | S n' =>
        match nth_error all k with
        | None => Some all
        | Some st =>
            match closure (ms_items st) with
            | None => None
            | Some its => close_all (S k) n' (set_items k its all)
            end
        end
    end.

  (* chain(state.gotos.values(), [a.state for i in state.actions.values() for a in i
                                  if a.action is SHIFT]) *)
  Definition targets (st : mstate) : list nat :=
    map snd (ms_gotos st) ++
    flat_map (fun ya => flat_map (fun a => match a with Shift s => [s] | _ => [] end) (snd ya))
             (ms_acts st).

  (* this_item = inc_items[inc_items.index(next_item)] *)
  Definition find_inc (incs : list (option item)) (next : item) : option item :=
    match find (fun o => match o with Some x => item_same x next | None => false end) incs with
    | Some (Some x) => Some x
    | _ => None
    end.

  (* for next_item in target_state.kernel_items: ...   [js]: indices of the kernel items *)
  Fixpoint prop_items (incs : list (option item)) (tgt : nat) (js : list nat)
           (st : list mstate * bool) : bres (list mstate * bool) :=
    match js with
    | [] => BOk st
    | j :: r =>
        let (all, upd) := st in
        match nth_error all tgt with
        | None => BCrash 0
        | Some ts =>
            match nth_error (ms_items ts) j with
            | None => BCrash 0
            | Some next =>
                match find_inc incs next with
                | None => BCrash 2
                | Some this =>
                    if nsubset (it_f this) (it_f next) then prop_items incs tgt r (all, upd)
                    else prop_items incs tgt r
                           (set_items tgt (set_follow j (nunion (it_f next) (it_f this)) (ms_items ts)) all,
                            true)
                end
            end
        end
    end.

  Definition kernel_idx (its : list item) : list nat :=
    map fst (filter (fun ii => is_kernel (snd ii)) (indexed its)).

  Definition prop_state (st : bres (list mstate * bool)) (i : nat) : bres (list mstate * bool) :=
    bbind st (fun s =>
      match nth_error (fst s) i with
      | None => BOk s
      | Some src =>
          let incs := map item_inc (ms_items src) in
          fold_left (fun r tgt =>
                       bbind r (fun s1 =>
                         match nth_error (fst s1) tgt with
                         | None => BCrash 0
                         | Some ts => prop_items incs tgt (kernel_idx (ms_items ts)) s1
                         end))
                    (targets src) (BOk s)
      end).

  Fixpoint lalr_loop (fuel : nat) (all : list mstate) : bres (list mstate) :=
    match fuel with
    | O => BFuel 4 (N.of_nat (length all))
    | S f =>
        match close_all 0 (length all) all with
        | None => BFuel 2 (N.of_nat (length all))
        | Some all1 =>
            bbind (fold_left prop_state (seq 0 (length all1)) (BOk (all1, false)))
                  (fun s => if snd s then lalr_loop f (fst s) else BOk (fst s))
        end
    end.

  (* the automaton with SHIFT/ACCEPT/GOTO entries and final item sets *)
  Definition automaton (sfuel pfuel : nat) : bres (list mstate) :=
    bbind (build_loop sfuel 0 [state0])
          (fun all => if lr1 then lalr_loop pfuel all else BOk all).
End Automaton.
