(* Model of the REDUCE phase of create_table (parglare/tables/__init__.py:312-394)
   with its conflict resolution by priority, associativity and the prefer-shift
   strategies, and of state._max_prior_per_symbol (tables/__init__.py:195-206).
   Input: a state after automaton construction (items with their lookahead sets
   in the impl's iteration order, SHIFT/ACCEPT actions), output: the state's
   final ACTION dict.  Definitions only. *)
From Coq Require Import NArith List Bool.
From PV Require Import Spec.Cfg Model.Table Gen.Consts Spec.Precedence.
Import ListNotations.
Local Open Scope N_scope.

(* what the resolution code reads of a Production *)
Record pmeta : Type := mkMeta {
  pm_prior : N;
  pm_assoc : N;
  pm_nops : bool;
  pm_nopse : bool
}.

Definition default_meta : pmeta := mkMeta DEFAULT_PRIORITY ASSOC_NONE false false.

Record ritem : Type := mkRItem {
  ri_prod : N;
  ri_dot : nat;
  ri_follow : list N            (* item.follow (LALR) / follow_sets[lhs] (SLR), iteration order *)
}.

Definition actions := list (N * list action).   (* OrderedDict terminal -> [Action] *)

Section Resolve.
  Variable g : grammar.
  Variable meta : N -> pmeta.              (* by prod_id *)
  Variable prefer_shifts : bool.
  Variable prefer_shifts_over_empty : bool.
  Variable state_sym : nat -> option sym.  (* t_shift.state.symbol *)

  Definition rhs_of (p : N) : list sym :=
    match get_prod g p with Some pr => rhs pr | None => [] end.

  Definition sym_at (it : ritem) : option sym := nth_error (rhs_of (ri_prod it)) (ri_dot it).
  Definition at_end (it : ritem) : bool := Nat.eqb (ri_dot it) (length (rhs_of (ri_prod it))).

  (* ---- _max_prior_per_symbol: setdefault, then max -------------------------- *)
  Fixpoint sassoc (x : sym) (l : list (sym * N)) : option N :=
    match l with
    | [] => None
    | (y, v) :: r => if sym_eqb x y then Some v else sassoc x r
    end.
  Fixpoint sset (x : sym) (v : N) (l : list (sym * N)) : list (sym * N) :=
    match l with
    | [] => [(x, v)]
    | (y, w) :: r => if sym_eqb x y then (y, v) :: r else (y, w) :: sset x v r
    end.

  Definition max_prior_step (m : list (sym * N)) (it : ritem) : list (sym * N) :=
    match sym_at it with
    | None => m
    | Some x =>
        let pp := pm_prior (meta (ri_prod it)) in
        let old := match sassoc x m with Some o => o | None => pp end in
        sset x (N.max pp old) m
    end.

  Definition max_prior_per_symbol (items : list ritem) : list (sym * N) :=
    fold_left max_prior_step items [].

  (* ---- one (reduction, terminal) pair meeting an occupied cell -------------- *)
  Definition is_sa (a : action) : bool :=
    match a with Shift _ | Accept => true | Reduce _ => false end.

  Fixpoint remove_first (f : action -> bool) (l : list action) : list action :=
    match l with
    | [] => []
    | a :: r => if f a then r else a :: remove_first f r
    end.

  (* None = KeyError in state._max_prior_per_symbol[...] *)
  Definition shift_prior (mp : list (sym * N)) (sh : action) : option N :=
    match sh with
    | Accept => Some DEFAULT_PRIORITY
    | Shift s' => match state_sym s' with
                  | Some x => sassoc x mp
                  | None => None
                  end
    | Reduce _ => None
    end.

  Definition resolve_one (mp : list (sym * N)) (p : N) (t_acts : list action)
    : option (list action) :=
    let pm := meta p in
    let t_reduces := filter is_reduce t_acts in
    let sr : option (list action * bool) :=       (* cell after the S/R part, should_reduce *)
      match filter is_sa t_acts with
      | [] => Some (t_acts, true)
      | sh :: _ =>
          match shift_prior mp sh with
          | None => None
          | Some sh_prior =>
              if pm_prior pm =? sh_prior then
                if pm_assoc pm =? ASSOC_LEFT then Some (remove_first is_sa t_acts, true)
                else if pm_assoc pm =? ASSOC_RIGHT then Some (t_acts, false)
                else
                  let is_empty := match rhs_of p with [] => true | _ => false end in
                  let prod_pse := is_empty && prefer_shifts_over_empty && negb (pm_nopse pm) in
                  let prod_ps := negb is_empty && prefer_shifts && negb (pm_nops pm) in
                  Some (t_acts, negb (prod_pse || prod_ps))
              else if sh_prior <? pm_prior pm then Some (remove_first is_sa t_acts, true)
              else Some (t_acts, false)
          end
      end in
    match sr with
    | None => None
    | Some (acts1, false) => Some acts1
    | Some (acts1, true) =>
        match t_reduces with
        | Reduce p0 :: _ =>
            if pm_prior pm =? pm_prior (meta p0) then Some (acts1 ++ [Reduce p])
            else if pm_prior (meta p0) <? pm_prior pm then
              Some (filter (fun a => negb (is_reduce a)) acts1 ++ [Reduce p])
            else Some acts1
        | _ => Some (acts1 ++ [Reduce p])
        end
    end.

  (* ---- the loops: for item in state.items: for terminal in follow_set -------- *)
  Fixpoint aset (t : N) (v : list action) (l : actions) : actions :=
    match l with
    | [] => [(t, v)]
    | (t', w) :: r => if t =? t' then (t', v) :: r else (t', w) :: aset t v r
    end.

  Definition step (mp : list (sym * N)) (acts : option actions) (pt : N * N) : option actions :=
    match acts with
    | None => None
    | Some acts =>
        let '(p, t) := pt in
        match assoc t acts with
        | None => Some (aset t [Reduce p] acts)
        | Some t_acts =>
            match resolve_one mp p t_acts with
            | None => None
            | Some v => Some (aset t v acts)
            end
        end
    end.

  Definition work_of (items : list ritem) : list (N * N) :=
    flat_map (fun it => if at_end it then map (fun t => (ri_prod it, t)) (ri_follow it) else [])
             items.

  Definition reduce_phase (items : list ritem) (shifts : actions) : option actions :=
    fold_left (step (max_prior_per_symbol items)) (work_of items) (Some shifts).
End Resolve.

Definition conflict_free (a : actions) : bool :=
  forallb (fun c => match snd c with [_] => true | _ => false end) a.

(* ---- the table with no resolution at all: every reduction is added to the cell
   of each of its lookaheads (what the construction does on an empty cell) ------- *)
Definition raw_step (acts : actions) (pt : N * N) : actions :=
  let '(p, t) := pt in
  match assoc t acts with
  | None => aset t [Reduce p] acts
  | Some l => aset t (l ++ [Reduce p]) acts
  end.

Definition unresolved (g : grammar) (items : list ritem) (shifts : actions) : actions :=
  fold_left raw_step (work_of g items) shifts.

(* ---- the conventional decision between the operator on the stack (priority p1,
   associativity a1) and the operator ahead (priority p2) ----------------------- *)
Definition decide (p1 a1 p2 : N) : decision :=
  if p1 =? p2 then
    if a1 =? ASSOC_LEFT then DReduce
    else if a1 =? ASSOC_RIGHT then DShift
    else DConflict
  else if p2 <? p1 then DReduce
  else DShift.

Definition dec_of (pr asc : N -> N) (o1 o2 : N) : decision := decide (pr o1) (asc o1) (pr o2).

Definition left_of (asc : N -> N) (o : N) : bool := asc o =? ASSOC_LEFT.
