(* Model of parglare's shared packed parse forest arithmetic:
     Parent.solutions            (glr.py:845-868, trees.py:143-146)
     Tree.__init__ / _enumerate_children / LazyTree   (trees.py:207-282)
     Forest.get_first_tree       (trees.py:305-329)
     Parent.ambiguities          (glr.py:809-843)
   Definitions only; proofs are in Proofs/ForestProofs.v.

   A forest is a list of packed nodes ([Parent] objects) in topological order:
   node [k] refers to children by index < k (the harness numbers the impl's
   Parent objects in post-order; a cyclic forest has no such numbering and is
   handled separately, see [Model/ForestGraph.v]).  The root is the last node. *)
From Coq Require Import NArith List Bool.
From PV Require Export Spec.Cfg.
Import ListNotations.
Local Open Scope N_scope.

Inductive alt : Type :=
| ATerm (sym s e : N)                              (* NodeTerm *)
| ANT (prod s e : N) (children : list nat).         (* NodeNonTerm, children = Parents *)

Definition pnode := list alt.                       (* Parent.possibilities *)
Definition forest := list pnode.

(* Generic bottom-up pass: [build f [] F] returns one value per node. *)
Section Build.
  Context {X : Type} (f : list X -> pnode -> X).
  Fixpoint build (acc : list X) (ns : forest) : list X :=
    match ns with
    | [] => acc
    | n :: r => build (acc ++ [f acc n]) r
    end.
End Build.

(* ---- solutions ---------------------------------------------------------- *)

Definition prodw (cnts : list N) (cs : list nat) : N :=
  fold_right (fun c p => nth c cnts 0 * p) 1 cs.

Definition cnt_alt (cnts : list N) (a : alt) : N :=
  match a with
  | ATerm _ _ _ => 1
  | ANT _ _ _ cs => prodw cnts cs
  end.

Definition cnt_node (cnts : list N) (n : pnode) : N :=
  fold_right (fun a s => cnt_alt cnts a + s) 0 n.

Definition counts (F : forest) : list N := build cnt_node [] F.

(* ---- the represented trees (specification) ------------------------------ *)

Fixpoint cart {T : Type} (ls : list (list T)) : list (list T) :=
  match ls with
  | [] => [[]]
  | l :: r => flat_map (fun x => map (cons x) (cart r)) l
  end.

Definition trees_alt (ts : list (list tree)) (a : alt) : list tree :=
  match a with
  | ATerm y s e => [TLeaf y s e]
  | ANT p s e cs => map (TNode p s e) (cart (map (fun c => nth c ts []) cs))
  end.

Definition trees_node (ts : list (list tree)) (n : pnode) : list tree :=
  flat_map (trees_alt ts) n.

Definition all_trees (F : forest) : list (list tree) := build trees_node [] F.

(* ---- index -> tree decoding (Tree.__init__) ----------------------------- *)

(* the [while solutions <= counter] bucket search; [None] = IndexError *)
Fixpoint search (cnts : list N) (alts : list alt) (counter : N) : option (alt * N) :=
  match alts with
  | [] => None
  | a :: r =>
      let s := cnt_alt cnts a in
      if s <=? counter then search cnts r (counter - s) else Some (a, counter)
  end.

Definition decoder := N -> option tree.

Fixpoint dec_children (cnts : list N) (decs : list decoder) (cs : list nat) (counter : N)
  : option (list tree) :=
  match cs with
  | [] => Some []
  | c :: r =>
      let factor := prodw cnts r in
      match nth c decs (fun _ => None) (counter / factor),
            dec_children cnts decs r (counter mod factor) with
      | Some t, Some ts => Some (t :: ts)
      | _, _ => None
      end
  end.

Definition dec_alt (cnts : list N) (decs : list decoder) (a : alt) (counter : N) : option tree :=
  match a with
  | ATerm y s e => Some (TLeaf y s e)
  | ANT p s e cs =>
      match dec_children cnts decs cs counter with
      | Some ts => Some (TNode p s e ts)
      | None => None
      end
  end.

Definition dec_node (cnts : list N) (decs : list decoder) (n : pnode) : decoder :=
  fun counter =>
    let pick :=
      if (0 <? counter) && (1 <? N.of_nat (length n))
      then search cnts n counter
      else match n with [] => None | a :: _ => Some (a, counter) end in
    match pick with
    | None => None
    | Some (a, c') => dec_alt cnts decs a c'
    end.

(* counts and decoders are built together, as the impl's decoder reads
   [.solutions] of the nodes below *)
Definition cd_step (acc : list (N * decoder)) (n : pnode) : N * decoder :=
  let cnts := map fst acc in
  let decs := map snd acc in
  (cnt_node cnts n, dec_node cnts decs n).

Definition cds (F : forest) : list (N * decoder) := build cd_step [] F.

Definition root_count (F : forest) : N := last (map fst (cds F)) 0.
Definition tree_at (F : forest) (i : N) : option tree :=
  last (map snd (cds F)) (fun _ => None) i.

(* Forest.get_first_tree: always the first possibility *)
Fixpoint first_children (acc : list (option tree)) (cs : list nat) : option (list tree) :=
  match cs with
  | [] => Some []
  | c :: r => match nth c acc None, first_children acc r with
              | Some t, Some ts => Some (t :: ts)
              | _, _ => None
              end
  end.

Definition first_step (acc : list (option tree)) (n : pnode) : option tree :=
  match n with
  | [] => None
  | ATerm y s e :: _ => Some (TLeaf y s e)
  | ANT p s e cs :: _ =>
      match first_children acc cs with
      | Some ts => Some (TNode p s e ts)
      | None => None
      end
  end.

Definition first_tree (F : forest) : option tree := last (build first_step [] F) None.

(* ---- bounds-checked access (after the fix of Forest.get_tree) ----------- *)
Definition tree_at_checked (F : forest) (i : N) : option tree :=
  if i <? root_count F then tree_at F i else None.

(* ---- ambiguities: reachable nodes with more than one possibility -------- *)

Definition alt_children (a : alt) : list nat :=
  match a with ATerm _ _ _ => [] | ANT _ _ _ cs => cs end.

(* mark reachability top-down: nodes are visited from the last to the first,
   [marked] holds the indices known to be reachable *)
Fixpoint reach_down (rev_nodes : list pnode) (k : nat) (marked : list nat) : list nat :=
  match rev_nodes with
  | [] => marked
  | n :: r =>
      let k' := pred k in
      let marked' :=
        if existsb (Nat.eqb k') marked
        then flat_map alt_children n ++ marked
        else marked in
      reach_down r k' marked'
  end.

Definition reachable (F : forest) : list nat :=
  match length F with
  | O => []
  | S r => reach_down (rev F) (S r) [r]
  end.

Definition ambiguities (F : forest) : N :=
  let rs := reachable F in
  N.of_nat (length (filter (fun k =>
     existsb (Nat.eqb k) rs && (1 <? N.of_nat (length (nth k F []))))
     (seq 0 (length F)))).

(* ---- well-formedness of a forest dump ----------------------------------- *)

Definition alt_wf (k : nat) (a : alt) : bool :=
  forallb (fun c => Nat.ltb c k) (alt_children a).

Fixpoint wf_from (k : nat) (F : forest) : bool :=
  match F with
  | [] => true
  | n :: r => negb (Nat.eqb (length n) 0) && forallb (alt_wf k) n && wf_from (S k) r
  end.

Definition forest_wf (F : forest) : bool := wf_from 0 F.

(* no packed node holds two identical alternatives *)
Definition alt_eqb (a b : alt) : bool :=
  match a, b with
  | ATerm y s e, ATerm y' s' e' => (y =? y') && (s =? s') && (e =? e')
  | ANT p s e cs, ANT p' s' e' cs' =>
      (p =? p') && (s =? s') && (e =? e') &&
      (Nat.eqb (length cs) (length cs')) &&
      forallb (fun xy => Nat.eqb (fst xy) (snd xy)) (combine cs cs')
  | _, _ => false
  end.

Fixpoint nodup_alts (n : pnode) : bool :=
  match n with
  | [] => true
  | a :: r => negb (existsb (alt_eqb a) r) && nodup_alts r
  end.

Definition forest_nodup (F : forest) : bool := forallb nodup_alts F.

(* ---- a local sufficient condition for "all represented trees are pairwise different" ---- *)

Definition alt_span (a : alt) : N * N :=
  match a with ATerm _ s e => (s, e) | ANT _ s e _ => (s, e) end.

Definition span_eqb (x y : N * N) : bool := (fst x =? fst y) && (snd x =? snd y).

(* span shared by all alternatives of node k (None if they differ or the node is empty) *)
Definition node_span (n : pnode) : option (N * N) :=
  match n with
  | [] => None
  | a :: r => if forallb (fun b => span_eqb (alt_span a) (alt_span b)) r then Some (alt_span a) else None
  end.

Definition spans_of (F : forest) : list (option (N * N)) := map node_span F.

(* two alternatives certainly represent disjoint sets of trees *)
Definition alt_differs (sp : list (option (N * N))) (a b : alt) : bool :=
  match a, b with
  | ATerm y s e, ATerm y' s' e' => negb ((y =? y') && (s =? s') && (e =? e'))
  | ANT p s e cs, ANT p' s' e' cs' =>
      negb ((p =? p') && (s =? s') && (e =? e')) ||
      negb (Nat.eqb (length cs) (length cs')) ||
      existsb (fun cc => match nth (fst cc) sp None, nth (snd cc) sp None with
                         | Some x, Some y => negb (span_eqb x y)
                         | _, _ => false
                         end) (combine cs cs')
  | _, _ => true
  end.

Fixpoint alts_separated (sp : list (option (N * N))) (n : pnode) : bool :=
  match n with
  | [] => true
  | a :: r => forallb (alt_differs sp a) r && alts_separated sp r
  end.

(* every node referenced as a child has a uniform span; alternatives are separated *)
Definition forest_distinct_ok (F : forest) : bool :=
  let sp := spans_of F in
  forallb (alts_separated sp) F &&
  forallb (fun n => forallb (fun a => forallb (fun c => match nth c sp None with Some _ => true | None => false end)
                                              (alt_children a)) n) F.
