(* Model of error recovery in the LR parser (property C11):
     Parser.parse, error branch           (parser.py:387-414)
     Parser._do_recovery                  (parser.py:959-992)
     Parser.default_error_recovery        (parser.py:994-1008)
   on top of the LR driver model (Model/LRDriver.v, reused unchanged) and of the
   default-recovery scan [recover_scan] of Model/Reuse.v.

   When no action exists for the token ahead the impl appends a SyntaxError whose span
   is (head.position, head.position) to parser.errors and, if error_recovery is set,
   calls the strategy on the head (the top stack node: position after layout skipping,
   token_ahead = what was scanned, layout_content_ahead).  The strategy mutates
   head.position / head.token_ahead and returns a bool.  On True the error's
   end_position becomes head.position and the main loop continues with the same stack;
   on False the loop ends and errors[-1] is raised (parser.errors is deleted).

   A custom strategy is an arbitrary function of the parser state at the error
   ([strategy]); the default one advances the position one character at a time WITHOUT
   skipping layout and retries _next_token until it returns a token.
   Definitions only. *)
From Coq Require Import NArith List Bool.
From PV Require Import Spec.Cfg Model.Table Model.LRDriver Model.Scan Model.Parser Model.Reuse.
Import ListNotations.
Local Open Scope N_scope.

(* what a recovery strategy did *)
Inductive strat_res : Type :=
| SFail                                       (* returned False *)
| SResume (p : N) (ahead : option (N * N))    (* returned True; head.position, head.token_ahead now *)
| SRaise (p : N).                             (* _next_token raised DisambiguationError at p *)

Inductive rcv_result : Type :=
| RvOk (t : tree) (ret_pos : N) (lay : N * N) (trace : list (N * N * N * (N * N)))
       (errs : list (N * N))                  (* result; parser.errors as spans *)
| RvSyntaxError (pos : N) (st : nat) (earlier : list (N * N))
                                              (* errors[-1] = span (pos, pos) raised; [earlier] is
                                                 ghost: the errors recorded before (deleted by the impl) *)
| RvDisambiguation (pos : N) (st : nat) (errs : list (N * N))
| RvLayoutError (pos : N) (errs : list (N * N))
| RvCrash (code : N) (errs : list (N * N))
| RvOutOfFuel (errs : list (N * N)).

Definition ahead_of (scan : tokres) : option (N * N) :=
  match scan with TTok y len => Some (y, len) | _ => None end.

Section Recovery.
  Variable g : grammar.
  Variable tb : table.
  Variable skipws : N -> option N.
  Variable next_token : nat -> N -> tokres.
  Variable stop_id : N.
  Variable consume_input : bool.
  Variable recovery : bool.                   (* error_recovery is set *)
  Variable strategy : lrstate -> strat_res.

  Definition rstep := lr_step g tb skipws next_token stop_id consume_input false.

  (* the parser state the strategy sees: the head moved behind the layout, the scanned
     token (if any) as token_ahead *)
  Definition err_state (s : lrstate) : option lrstate :=
    match l_stack s with
    | [] => None
    | top0 :: below =>
        match lookahead skipws next_token false s top0 with
        | None => None
        | Some (top, lay1, scan) => Some (mkLR (top :: below) (ahead_of scan) lay1 (l_trace s))
        end
    end.

  (* the state the main loop continues with after a successful strategy *)
  Definition resume (se : lrstate) (p : N) (ahead : option (N * N)) : lrstate :=
    match l_stack se with
    | [] => se
    | top :: below => mkLR (set_pos top p :: below) ahead (l_lay_ahead se) (l_trace se)
    end.

  Fixpoint rcv_run (fuel : nat) (s : lrstate) (errs : list (N * N)) : rcv_result :=
    match fuel with
    | O => RvOutOfFuel errs
    | S f =>
        match rstep s with
        | Continue s' => rcv_run f s' errs
        | Done (LROk t rp lay tr) => RvOk t rp lay tr errs
        | Done (LRSyntaxError pos st) =>
            if recovery then
              match err_state s with
              | None => RvCrash 9 errs
              | Some se =>
                  match strategy se with
                  | SResume p ahead => rcv_run f (resume se p ahead) (errs ++ [(pos, p)])
                  | SRaise p => RvDisambiguation p st (errs ++ [(pos, pos)])
                  | SFail => RvSyntaxError pos st errs
                  end
              end
            else RvSyntaxError pos st errs
        | Done (LRDisambiguation pos st) => RvDisambiguation pos st errs
        | Done LROutOfFuel => RvOutOfFuel errs
        | Done (LRLayoutError pos) => RvLayoutError pos errs
        | Done (LRCrash c) => RvCrash c errs
        end
    end.

  Definition rcv_parse (fuel : nat) (pos : N) : rcv_result := rcv_run fuel (lr_init pos) [].
End Recovery.

(* head.position of a parser state *)
Definition hpos (s : lrstate) : N :=
  match l_stack s with top :: _ => e_pos top | [] => 0 end.
Definition hstate (s : lrstate) : nat :=
  match l_stack s with top :: _ => e_state top | [] => O end.

(* Parser.default_error_recovery as a strategy *)
Definition default_strategy (next_token : nat -> N -> tokres) (in_len : N) (se : lrstate)
  : strat_res :=
  match recover_scan next_token in_len (N.to_nat (in_len - hpos se)) (hstate se) (hpos se) with
  | Some (p1, TTok y len) => SResume p1 (Some (y, len))
  | Some (p1, _) => SRaise p1
  | None => SFail
  end.

(* Two custom strategies of the kind the documentation describes, used by the
   correspondence check against the impl (harness/props/c11.py):

   skip-to-delimiter: move the head just behind the next delimiter character at or after
   the error position, drop the token ahead (the main loop skips layout and scans again);
   fail when there is no delimiter ahead. *)
Fixpoint find_delim (delim : N) (cs : list N) (p : N) : option N :=
  match cs with
  | [] => None
  | c :: r => if c =? delim then Some (p + 1) else find_delim delim r (p + 1)
  end.

Definition skip_strategy (chars : list N) (delim : N) (se : lrstate) : strat_res :=
  match find_delim delim (skipn (N.to_nat (hpos se)) chars) (hpos se) with
  | Some p => SResume p None
  | None => SFail
  end.

(* inject-expected-token: pretend the first terminal of the state's action dict that is not
   STOP stands at the error position, with length 0; position unchanged.  To stay
   terminating the strategy injects only when nothing has been injected at this position yet
   (the harness keeps the last injection position); otherwise it falls back to the default. *)
Definition first_expected (tb : table) (stop_id : N) (st : nat) : option N :=
  match get_state tb st with
  | None => None
  | Some s => match filter (fun ya => negb (fst ya =? stop_id)) (st_actions s) with
              | (y, _) :: _ => Some y
              | [] => None
              end
  end.

Definition last_zero_at (tr : list (N * N * N * (N * N))) (p : N) : bool :=
  match rev tr with
  | (_, s, e, _) :: _ => (s =? p) && (e =? p)
  | [] => false
  end.

Definition inject_strategy (tb : table) (stop_id : N) (next_token : nat -> N -> tokres)
           (in_len : N) (se : lrstate) : strat_res :=
  match l_ahead se with
  | Some _ => default_strategy next_token in_len se
  | None =>
      if last_zero_at (l_trace se) (hpos se) then default_strategy next_token in_len se
      else match first_expected tb stop_id (hstate se) with
           | Some y => SResume (hpos se) (Some (y, 0))
           | None => default_strategy next_token in_len se
           end
  end.

(* the full parser with recovery, assembled like [parse_full] *)
Section FullRecovery.
  Variable c : pconf.
  Variable inp : pinput.
  Variable fuel : nat.
  Variable recovery : bool.

  Definition full_next_token :=
    next_token_of (pc_terms c) (rx_of inp) (in_len inp) (pc_stop c) (pc_consume c) (pc_lexdis c)
                  (pc_tb c).

  Definition parse_recover_with (strategy : lrstate -> strat_res) (pos : N) : rcv_result :=
    rcv_parse (pc_g c) (pc_tb c) (skipws_full c inp fuel) full_next_token (pc_stop c)
              (pc_consume c) recovery strategy fuel pos.

  (* Parser(..., error_recovery=True) *)
  Definition parse_recover (pos : N) : rcv_result :=
    parse_recover_with (default_strategy full_next_token (in_len inp)) pos.
End FullRecovery.

(* ---- validator for reported spans (run on the impl's parser.errors, LR and GLR) ----
   lo <= s1 <= e1 <= s2 <= e2 <= ... <= hi *)
Fixpoint spans_check (lo hi : N) (l : list (N * N)) : bool :=
  match l with
  | [] => lo <=? hi
  | (a, b) :: r => (lo <=? a) && (a <=? b) && spans_check b hi r
  end.
