(* Model of FIRST and FOLLOW as computed by parglare/tables/__init__.py
   (functions [first] and [follow]) and of the list subclass ProductionRHS
   (parglare/grammar.py) through which every right-hand side is read.

   The grammar is given RAW: right-hand sides as the impl stores them, i.e. EMPTY is
   the terminal [e] and may occur in a right-hand side; production 0 is
   S' -> start STOP.  Iteration ([for s in p.rhs], [enumerate(p.rhs)]) and slices
   ([p.rhs[i:]]) of a ProductionRHS are raw, [len] does not count EMPTY and
   [p.rhs[i]] skips forward over EMPTY from the raw index i.

   A Python set of terminals is a duplicate-free list (insertion order).  FIRST and
   FOLLOW use sets only through union, difference, membership, [discard]: the
   resulting SETS do not depend on any iteration order (compared as sets by the
   harness).  A dict symbol -> set is a list indexed by the nonterminal number; a
   terminal's FIRST set is the singleton of itself and never changes.

   Definitions only. *)
From Coq Require Import NArith List Bool.
From PV Require Import Spec.Cfg.
Import ListNotations.
Local Open Scope N_scope.

(* ---- sets of terminals ------------------------------------------------------ *)
Definition nset := list N.
Definition nmem (x : N) (l : nset) : bool := existsb (N.eqb x) l.
Definition nsubset (a b : nset) : bool := forallb (fun x => nmem x b) a.
Definition nadd (a : nset) (y : N) : nset := if nmem y a then a else a ++ [y].
(* a.update(b) *)
Definition nunion (a b : nset) : nset := fold_left nadd b a.
(* a.discard(x) *)
Definition nremove (x : N) (l : nset) : nset := filter (fun y => negb (y =? x)) l.
(* a.intersection(b) is non-empty *)
Definition nmeets (a b : nset) : bool := existsb (fun x => nmem x b) a.
(* a.difference(b) *)
Definition ndiff (a b : nset) : nset := filter (fun x => negb (nmem x b)) a.

(* ---- dict nonterminal -> set ------------------------------------------------- *)
Definition fsets := list nset.

Fixpoint upd_nth {X} (i : nat) (v : X) (l : list X) : list X :=
  match l, i with
  | [], _ => []
  | _ :: r, O => v :: r
  | x :: r, S j => x :: upd_nth j v r
  end.

Definition fget (fs : fsets) (a : N) : nset := nth (N.to_nat a) fs [].
Definition fupd (a : N) (v : nset) (fs : fsets) : fsets := upd_nth (N.to_nat a) v fs.

(* first_sets[x]: terminals (EMPTY and STOP included) map to their singleton *)
Definition sym_first (fs : fsets) (x : sym) : nset :=
  match x with T t => [t] | NT a => fget fs a end.

(* ---- ProductionRHS ------------------------------------------------------------ *)
Section RHS.
  Variable e : N.                                    (* the number of EMPTY *)
  Definition is_EMPTY (x : sym) : bool := match x with T t => t =? e | NT _ => false end.
  (* len(rhs) *)
  Definition rlen (r : list sym) : nat := length (filter (fun x => negb (is_EMPTY x)) r).
  (* rhs[i] for an integer i: None when the index runs off the end *)
  Definition rget (r : list sym) (i : nat) : option sym :=
    find (fun x => negb (is_EMPTY x)) (skipn i r).
  (* rhs[i:] *)
  Definition rslice (r : list sym) (i : nat) : list sym := skipn i r.
  (* the right-hand side as the rest of the verification reads it *)
  Definition strip (r : list sym) : list sym := filter (fun x => negb (is_EMPTY x)) r.
End RHS.

Definition strip_prods (e : N) (ps : list prod) : list prod :=
  map (fun p => mkProd (lhs p) (strip e (rhs p))) ps.

(* ---- first(grammar) ----------------------------------------------------------- *)
Section First.
  Variable e : N.

  (* for rhs_symbol in p.rhs: ... else: ...    [st] = (first_sets, additions) *)
  Fixpoint first_rhs (a : N) (r : list sym) (st : fsets * bool) : fsets * bool :=
    match r with
    | [] =>
        let cur := fget (fst st) a in
        if nmem e cur then st else (fupd a (cur ++ [e]) (fst st), true)
    | x :: r' =>
        let fs := fst st in
        let f' := nremove e (sym_first fs x) in
        let cur := fget fs a in
        let st1 := if nsubset f' cur then st else (fupd a (nunion cur f') fs, true) in
        if nmem e (sym_first (fst st1) x) then first_rhs a r' st1 else st1
    end.

  (* for p in grammar.productions *)
  Definition first_round (ps : list prod) (fs : fsets) : fsets * bool :=
    fold_left (fun st p => first_rhs (lhs p) (rhs p) st) ps (fs, false).

  (* while additions *)
  Fixpoint first_iter (fuel : nat) (ps : list prod) (fs : fsets) : option fsets :=
    match fuel with
    | O => None
    | S f =>
        let st := first_round ps fs in
        if snd st then first_iter f ps (fst st) else Some (fst st)
    end.

  Definition first_sets (fuel : nat) (nnts : nat) (ps : list prod) : option fsets :=
    first_iter fuel ps (repeat [] nnts).

  (* the number of rounds that always suffices (Proofs/FirstProofs.v) *)
  Definition first_fuel (nnts nterms : nat) : nat := S (nnts * nterms).

  (* ---- follow(grammar, first_sets) -------------------------------------------- *)
  (* for rsymbol in p.rhs[idx+1:]: ... else: prod_follow.update(follow_sets[p.symbol]) *)
  Fixpoint follow_suffix (fs : fsets) (fo_lhs : nset) (r : list sym) (acc : nset) : nset :=
    match r with
    | [] => nunion acc fo_lhs
    | x :: r' =>
        let sf := sym_first fs x in
        let acc' := nunion acc sf in
        if nmem e sf then follow_suffix fs fo_lhs r' acc' else acc'
    end.

  (* for idx, s in enumerate(p.rhs): if s == symbol: ...   [st] = (follow_sets, additions) *)
  Fixpoint follow_occ (fs : fsets) (b lhsp : N) (r : list sym) (st : fsets * bool)
    : fsets * bool :=
    match r with
    | [] => st
    | x :: r' =>
        let st1 :=
          if sym_eqb x (NT b) then
            let fo := fst st in
            let pf := nremove e (follow_suffix fs (fget fo lhsp) r' []) in
            if nsubset pf (fget fo b) then st else (fupd b (nunion (fget fo b) pf) fo, true)
          else st in
        follow_occ fs b lhsp r' st1
    end.

  (* for symbol in grammar.nonterminals.values(): for p in grammar.productions *)
  Definition follow_nt (fs : fsets) (ps : list prod) (st : fsets * bool) (b : N) : fsets * bool :=
    fold_left (fun st p => follow_occ fs b (lhs p) (rhs p) st) ps st.

  Definition nts_of (nnts : nat) : list N := map N.of_nat (seq 0 nnts).

  Definition follow_round (fs : fsets) (nnts : nat) (ps : list prod) (fo : fsets) : fsets * bool :=
    fold_left (follow_nt fs ps) (nts_of nnts) (fo, false).

  Fixpoint follow_iter (fuel : nat) (fs : fsets) (nnts : nat) (ps : list prod) (fo : fsets)
    : option fsets :=
    match fuel with
    | O => None
    | S f =>
        let st := follow_round fs nnts ps fo in
        if snd st then follow_iter f fs nnts ps (fst st) else Some (fst st)
    end.

  Definition follow_sets (fuel : nat) (fs : fsets) (nnts : nat) (ps : list prod) : option fsets :=
    follow_iter fuel fs nnts ps (repeat [] nnts).

  (* ---- the FIRST/nullable certificate in the validator's format --------------- *)
  Definition fst_tab_of (fs : fsets) : list (list N) := map (nremove e) fs.
  Definition nul_tab_of (fs : fsets) : list bool := map (nmem e) fs.
End First.
