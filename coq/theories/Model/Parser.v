(* The whole LR parser of the impl assembled from its parts: table-driven token
   recognition (Model/Scan.v), layout skipping by ws characters or by the LAYOUT
   sub-parser (parser.py:596-622, 82-99), and the driver loop (Model/LRDriver.v). *)
From Coq Require Import NArith List Bool.
From PV Require Import Spec.Cfg Model.Table Model.LRDriver Model.Scan.
Import ListNotations.
Local Open Scope N_scope.

Record pconf : Type := mkPConf {
  pc_g : grammar;
  pc_tb : table;
  pc_terms : list term_info;
  pc_stop : N;
  pc_consume : bool;
  pc_lexdis : bool;
  pc_ws : list N;                 (* ws characters; [] when ws is None/empty *)
  pc_layout : option table        (* table of the LAYOUT sub-parser, if any *)
}.

(* the input: its characters (for ws skipping) and the recognizer oracle as a
   matrix  terminal -> position -> match length (0 = no match) *)
Record pinput : Type := mkPInput {
  pi_chars : list N;
  pi_rx : list (list N)
}.

Definition rx_of (inp : pinput) (t pos : N) : option N :=
  match nth_error (pi_rx inp) (N.to_nat t) with
  | None => None
  | Some row => match nth_error row (N.to_nat pos) with
                | Some 0 => None
                | Some l => Some l
                | None => None
                end
  end.

Definition in_len (inp : pinput) : N := N.of_nat (length (pi_chars inp)).

(* while head.position < in_len and input_str[head.position] in self.ws *)
Fixpoint skip_chars (ws : list N) (cs : list N) (p : N) : N :=
  match cs with
  | [] => p
  | c :: r => if existsb (N.eqb c) ws then skip_chars ws r (p + 1) else p
  end.

Definition skip_ws (ws : list N) (inp : pinput) (p : N) : N :=
  skip_chars ws (skipn (N.to_nat p) (pi_chars inp)) p.

Section Full.
  Variable c : pconf.
  Variable inp : pinput.
  Variable fuel : nat.

  (* the LAYOUT sub-parser: in_layout, consume_input=False, ws=None, lexical
     disambiguation on, return_position *)
  Definition layout_run (ltb : table) (p : N) : lr_result :=
    lr_parse (pc_g c) ltb (fun q => Some q)
             (next_token_of (pc_terms c) (rx_of inp) (in_len inp) (pc_stop c) false true ltb)
             (pc_stop c) false true fuel p.

  Definition skipws_full (p : N) : option N :=
    match pc_layout c with
    | Some ltb =>
        match layout_run ltb p with
        | LROk _ rp _ _ => Some (if p <? rp then rp else p)
        | _ => None
        end
    | None => Some (skip_ws (pc_ws c) inp p)
    end.

  Definition parse_full (pos : N) : lr_result :=
    lr_parse (pc_g c) (pc_tb c) skipws_full
             (next_token_of (pc_terms c) (rx_of inp) (in_len inp) (pc_stop c)
                            (pc_consume c) (pc_lexdis c) (pc_tb c))
             (pc_stop c) (pc_consume c) false fuel pos.
End Full.
