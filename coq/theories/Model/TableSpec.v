(* What the theorems about the table-construction model are stated with (definitions
   only): well-formedness checks on the input, the grammar in the form of Spec/Cfg.v,
   and the LR(1) annotation / FIRST certificate that table_complete is run with, all
   derived from the model's own results. *)
From Coq Require Import NArith List Bool Arith.
From PV Require Import Spec.Cfg Model.Table Model.First Model.Closure Model.Automaton
  Model.Resolve Model.TableBuild Validators.TableComplete Gen.Consts.
Import ListNotations.
Local Open Scope N_scope.

(* ---- the numbering ------------------------------------------------------------------ *)
Definition prod_wfb (nnts nterms : nat) (p : prod) : bool :=
  (N.to_nat (lhs p) <? nnts)%nat &&
  forallb (fun x => match x with T t => (N.to_nat t <? nterms)%nat | NT _ => true end) (rhs p).
(* every left-hand side is one of the nnts nonterminals, every terminal (EMPTY too) one of
   the nterms terminals *)
Definition prods_wfb (e : N) (nnts nterms : nat) (ps : list prod) : bool :=
  (N.to_nat e <? nterms)%nat && forallb (prod_wfb nnts nterms) ps.

(* EMPTY occurs in a right-hand side only at its end (the usual [A: EMPTY] alternative;
   anywhere else the impl crashes, see Model/Automaton.v BCrash 1) *)
Fixpoint trailing_emptyb (e : N) (r : list sym) : bool :=
  match r with
  | [] => true
  | x :: r' => if is_EMPTY e x then forallb (is_EMPTY e) r' else trailing_emptyb e r'
  end.

(* ---- the grammar as Spec/Cfg.v has it: production 0 is S' -> start ------------------- *)
Definition start_nt (c : tconf) : N := lhs_of (tc_prods c) (tc_start c).
Definition aug_nt (c : tconf) : N := lhs_of (tc_prods c) 0.
Definition cfg_std (c : tconf) : grammar :=
  match cfg_of c with
  | [] => []
  | p0 :: r => mkProd (lhs p0) [NT (start_nt c)] :: r
  end.

(* ---- the annotation of table_complete from the model's own item sets ------------------ *)
(* LALR: the items' follow sets; SLR: FOLLOW(lhs) *)
Definition litem_of (c : tconf) (fo : fsets) (it : item) : litem :=
  (it_p it, it_d it,
   if tc_lr1 c then it_f it else fget fo (lhs_of (swap_start c) (it_p it))).
Definition ann_of_built (c : tconf) (b : tbuilt) : list (list litem) :=
  map (map (litem_of c (tb_follow b))) (tb_items b).

(* the FIRST/nullable certificate: the model's FIRST sets; S' (whose production has no
   STOP in Spec/Cfg.v) gets the start symbol's entries *)
Definition fst_std (c : tconf) (fs : fsets) : list (list N) :=
  upd_nth (N.to_nat (aug_nt c)) (nremove (tc_empty c) (fget fs (start_nt c)))
          (fst_tab_of (tc_empty c) fs).
Definition nul_std (c : tconf) (fs : fsets) : list bool :=
  upd_nth (N.to_nat (aug_nt c)) (nmem (tc_empty c) (fget fs (start_nt c)))
          (nul_tab_of (tc_empty c) fs).

(* ---- the class of inputs of the end-to-end theorem ------------------------------------ *)
Definition meta_is_default (m : pmeta) : bool :=
  (pm_prior m =? DEFAULT_PRIORITY) && (pm_assoc m =? ASSOC_NONE) &&
  negb (pm_nops m) && negb (pm_nopse m).

Definition prod_eqb (a b : prod) : bool := (lhs a =? lhs b) && list_eqb sym_eqb (rhs a) (rhs b).

(* a well-numbered grammar whose production 0 is S' -> <lhs of start_production> STOP,
   S' and STOP occurring nowhere else, EMPTY only at the end of right-hand sides; no
   priorities, associativities, nops/nopse marks and no prefer-shifts strategy (nothing
   that REMOVES actions during the REDUCE phase) *)
Definition plain_ok (c : tconf) : bool :=
  negb (tc_ps c) && negb (tc_pse c) && forallb meta_is_default (tc_meta c) &&
  prods_wfb (tc_empty c) (tc_nnts c) (tc_nterms c) (tc_prods c) &&
  list_eqb prod_eqb (swap_start c) (tc_prods c) &&
  forallb (fun p => trailing_emptyb (tc_empty c) (rhs p)) (tc_prods c) &&
  aug_ok (cfg_std c) &&
  forallb (fun p => negb (lhs p =? aug_nt c)) (tl (tc_prods c)) &&
  negb (tc_stop c =? tc_empty c) &&
  forallb (fun p => forallb (fun x => negb (sym_eqb x (T (tc_stop c)))) (rhs p)) (tl (tc_prods c)).
