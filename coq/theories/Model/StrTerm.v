(* Model of string terminals in parglare (property C19):
     - StringRecognizer.__call__                      grammar.py:231-244
     - the keyword rewrite (escaped text, word anchors) grammar.py:1063-1096 (after the fix)
     - the two un-escape passes of string constants   grammar.py:2080-2089, 2101-2105
     - GrammarSymbol name escaping                    grammar.py:34-35, 56
     - inline string -> terminal named by its text    grammar.py:2053-2066, 1680-1695
     - symbol tables, override check, reference resolution
                                                      grammar.py:564-628, 632-654, 718-740, 841-906
     - action sort key and implicit finish flags      tables/__init__.py:469-521
   Strings are lists of code points.  Definitions only. *)
From Coq Require Import NArith List Bool.
Import ListNotations.
Local Open Scope N_scope.

Definition str := list N.

Fixpoint str_eqb (a b : str) : bool :=
  match a, b with
  | [], [] => true
  | x :: a', y :: b' => (x =? y) && str_eqb a' b'
  | _, _ => false
  end.

Definition mem (s : str) (l : list str) : bool := existsb (str_eqb s) l.

(* ------------------------------------------------------------------ *)
(* Recognizers                                                         *)

(* str.lower() on the ASCII range (the generators stay inside ASCII) *)
Definition lower_c (c : N) : N := if (65 <=? c) && (c <=? 90) then c + 32 else c.
Definition lower (s : str) : str := map lower_c s.

(* in_str[pos : pos+len]  (Python slicing truncates silently) *)
Definition slice (w : str) (pos len : nat) : str := firstn len (skipn pos w).

(* StringRecognizer(value, ignore_case).__call__(w, pos): returns self.value *)
Definition string_rec (ic : bool) (value w : str) (pos : nat) : option str :=
  let sl := slice w pos (length value) in
  if ic then (if str_eqb (lower sl) (lower value) then Some value else None)
  else (if str_eqb sl value then Some value else None).

(* \w for ASCII: [A-Za-z0-9_] *)
Definition ascii_word (c : N) : bool :=
  ((48 <=? c) && (c <=? 57)) || ((65 <=? c) && (c <=? 90)) || ((97 <=? c) && (c <=? 122))
  || (c =? 95).

Section Keyword.
  Variable is_word : N -> bool.

  Definition word_at (w : str) (i : nat) : bool :=
    match nth_error w i with Some c => is_word c | None => false end.
  (* is there a word character immediately before position p *)
  Definition word_before (w : str) (p : nat) : bool :=
    match p with O => false | S q => word_at w q end.
  (* regex \b at position p: exactly one side is a word character *)
  Definition boundary (w : str) (p : nat) : bool := xorb (word_before w p) (word_at w p).

  Definition first_is (v : str) : bool := match v with c :: _ => is_word c | [] => false end.
  Definition last_is (v : str) : bool := first_is (rev v).

  (* The recognizer that Grammar._fix_keyword_terminals puts in place of a string
     recognizer whose text the KEYWORD regex matches completely:
       RegExRecognizer(before + re.escape(value) + after, name=value, ignore_case)
     with  before = \b if value[0] is a word character else (?<!\w)
           after  = \b if value[-1] is a word character else (?!\w).
     re.escape makes the engine read the text literally (trusted, and checked by the
     correspondence run).  Returns the matched input text m.group(). *)
  Definition kw_rec (ic : bool) (value w : str) (pos : nat) : option str :=
    let sl := slice w pos (length value) in
    let lit := if ic then str_eqb (lower sl) (lower value) else str_eqb sl value in
    let left := if first_is value then boundary w pos else negb (word_before w pos) in
    let right := if last_is value then boundary w (pos + length value)
                 else negb (word_at w (pos + length value)) in
    if left && lit && right && negb (match sl with [] => true | _ => false end)
    then Some sl else None.

  (* the recognizer before the repair: \b on both sides whatever the text (kept to state
     that the repair changes nothing for texts that begin and end with a word character) *)
  Definition kw_rec_bb (ic : bool) (value w : str) (pos : nat) : option str :=
    let sl := slice w pos (length value) in
    let lit := if ic then str_eqb (lower sl) (lower value) else str_eqb sl value in
    if boundary w pos && lit && boundary w (pos + length value)
       && negb (match sl with [] => true | _ => false end)
    then Some sl else None.

  (* what the property asks of a keyword: its text, not touching a word character *)
  Definition kw_spec (ic : bool) (value w : str) (pos : nat) : bool :=
    let sl := slice w pos (length value) in
    (if ic then str_eqb (lower sl) (lower value) else str_eqb sl value)
    && negb (word_before w pos) && negb (word_at w (pos + length value)).
End Keyword.

(* ------------------------------------------------------------------ *)
(* String constants: un-escaping                                       *)

Definition bsl : N := 92.

(* s.replace("\\" + b, r) for a one-character r: left to right, non-overlapping *)
Fixpoint replace_esc (b r : N) (s : str) : str :=
  match s with
  | x :: s' =>
      match s' with
      | y :: t => if (x =? bsl) && (y =? b) then r :: replace_esc b r t
                  else x :: replace_esc b r s'
      | [] => [x]
      end
  | [] => []
  end.

(* act_str_term: value[1:-1], then \\ -> \, then \' -> '   (on the body between the quotes) *)
Definition act_str_term (body : str) : str :=
  replace_esc 39 39 (replace_esc 92 92 body).

(* act_recognizer_str: \" -> ", \' -> ', \\ -> \, \n -> NL, \t -> TAB, in this order *)
Definition act_recognizer_str (v : str) : str :=
  replace_esc 116 9 (replace_esc 110 10 (replace_esc 92 92 (replace_esc 39 39 (replace_esc 34 34 v)))).

Definition impl_unescape (body : str) : str := act_recognizer_str (act_str_term body).

(* the conventional single left-to-right pass (what the author of a grammar means) *)
Definition esc_char (c : N) : option N :=
  if c =? 92 then Some 92 else if c =? 39 then Some 39 else if c =? 34 then Some 34
  else if c =? 110 then Some 10 else if c =? 116 then Some 9 else None.

Fixpoint std_unescape (s : str) : str :=
  match s with
  | x :: s' =>
      match s' with
      | y :: t =>
          if x =? bsl then
            match esc_char y with
            | Some r => r :: std_unescape t
            | None => x :: std_unescape s'
            end
          else x :: std_unescape s'
      | [] => [x]
      end
  | [] => []
  end.

(* A body as a sequence of lexical units: a plain character (not a backslash) or a
   backslash followed by a character. *)
Inductive unit_ : Type := UPlain (c : N) | UEsc (c : N).
Definition unit_src (u : unit_) : str := match u with UPlain c => [c] | UEsc c => [bsl; c] end.
Definition unit_val (u : unit_) : str :=
  match u with
  | UPlain c => [c]
  | UEsc c => match esc_char c with Some r => [r] | None => [bsl; c] end
  end.
Definition unit_ok (u : unit_) : bool :=
  match u with UPlain c => negb (c =? bsl) | UEsc c => negb (c =? bsl) end.
Definition units_src (us : list unit_) : str := flat_map unit_src us.
Definition units_val (us : list unit_) : str := flat_map unit_val us.

(* ------------------------------------------------------------------ *)
(* Front end: from grammar text (as an AST) to the terminals of the Grammar object      *)

(* s.replace(c, r) for a single character c *)
Definition replace1 (c : N) (r : str) (s : str) : str :=
  flat_map (fun x => if x =? c then r else [x]) s.
(* grammar.escape: used for every GrammarSymbol name *)
Definition escape_name (s : str) : str := replace1 9 [92; 116] (replace1 10 [92; 110] s).

Definition has_dot (s : str) : bool := existsb (N.eqb 46) s.

Definition n_STOP : str := [83; 84; 79; 80].
Definition n_EMPTY : str := [69; 77; 80; 84; 89].
Definition n_KEYWORD : str := [75; 69; 89; 87; 79; 82; 68].
Definition reserved (n : str) : bool := str_eqb n n_STOP || str_eqb n n_EMPTY.

Inductive recog : Type := RStr (v : str) | RRegex (id : N).
Record term : Type := mkT { t_name : str; t_rec : recog }.
Inductive item : Type := IRef (n : str) | IStr (v : str).
Record rule : Type := mkRule { r_name : str; r_alts : list (list item) }.
Record ast : Type := mkAst { a_rules : list rule; a_terms : list term }.

Inductive gerr : Type :=
| EReserved | EMultipleDef | ESameString | ERuleIsTerminal | EUnexistingModule
| EUnknownSymbol | EKeywordNotRegex.

Inductive res (X : Type) : Type := Ok (x : X) | Err (e : gerr).
Arguments Ok {X} x.
Arguments Err {X} e.

Definition all_items (a : ast) : list item := flat_map (fun r => concat (r_alts r)) (a_rules a).

(* act_gsymbol_string_recognizer over the whole text, in order: the dictionary
   context.extra.inline_terminals (key = un-escaped text); check_name on first use *)
Fixpoint collect_inline (its : list item) (keys : list str) : res (list str) :=
  match its with
  | [] => Ok keys
  | IRef _ :: r => collect_inline r keys
  | IStr v :: r =>
      if mem v keys then collect_inline r keys
      else if reserved v then Err EReserved
      else collect_inline r (keys ++ [v])
  end.

(* Terminal(name=text, recognizer=StringRecognizer(text)): the name is escaped *)
Definition inline_term (v : str) : term := mkT (escape_name v) (RStr v).

(* the reference left in the production for an item *)
Definition ref_name (i : item) : str := match i with IRef n => n | IStr v => v end.

(* check_name on rule and terminal names (parse actions) *)
Definition names_reserved (a : ast) : bool :=
  existsb (fun r => reserved (r_name r)) (a_rules a) || existsb (fun t => reserved (t_name t)) (a_terms a).

(* PGFile._make_symbols_resolution_map, terminal loop *)
Fixpoint check_terms (ts : list term) (names strs : list str) : res unit :=
  match ts with
  | [] => Ok tt
  | t :: r =>
      if mem (t_name t) names then Err EMultipleDef
      else match t_rec t with
           | RStr v => if mem v strs then Err ESameString
                       else check_terms r (names ++ [t_name t]) (strs ++ [v])
           | RRegex _ => check_terms r (names ++ [t_name t]) strs
           end
  end.

Definition term_names (ts : list term) : list str := map t_name ts.

(* nonterminal loop: a rule whose name is a terminal's name *)
Definition rule_clash (rules : list rule) (ts : list term) : bool :=
  existsb (fun r => mem (r_name r) (term_names ts)) rules.

(* keys of symbols_by_name: nonterminals in first-appearance order, then terminals, then
   EMPTY and STOP (dict.update keeps the position of existing keys: only membership and
   iteration order of *distinct* keys matter below) *)
Fixpoint dedup (l : list str) (seen : list str) : list str :=
  match l with
  | [] => []
  | x :: r => if mem x seen then dedup r seen else x :: dedup r (seen ++ [x])
  end.
Definition nonterm_names (rules : list rule) : list str := dedup (map r_name rules) [].

Inductive symkind : Type := KNonTerm | KTerm.
Definition symtab : Type := list (str * symkind).
Fixpoint lookup (n : str) (st : symtab) : option symkind :=
  match st with
  | [] => None
  | (k, v) :: r => if str_eqb n k then Some v else lookup n r
  end.
Definition make_symtab (rules : list rule) (ts : list term) : symtab :=
  map (fun n => (n, KNonTerm)) (nonterm_names rules)
  ++ map (fun t => (t_name t, KTerm)) ts
  ++ [(n_EMPTY, KTerm); (n_STOP, KTerm)].

(* _check_overrides for a grammar without imports *)
Definition check_overrides (st : symtab) : bool := existsb (fun kv => has_dot (fst kv)) st.

(* resolve_symbol_by_name / _resolve_ref for a grammar without imports *)
Definition resolve (st : symtab) (n : str) : res (symkind * str) :=
  match lookup n st with
  | Some k => Ok (k, n)
  | None => if has_dot n then Err EUnexistingModule else Err EUnknownSymbol
  end.

Fixpoint resolve_items (st : symtab) (its : list item) : res (list (symkind * str)) :=
  match its with
  | [] => Ok []
  | i :: r =>
      match resolve st (ref_name i) with
      | Err e => Err e
      | Ok x => match resolve_items st r with Err e => Err e | Ok xs => Ok (x :: xs) end
      end
  end.

(* productions in order: (lhs, resolved rhs) *)
Fixpoint resolve_alts (st : symtab) (lhs : str) (alts : list (list item))
  : res (list (str * list (symkind * str))) :=
  match alts with
  | [] => Ok []
  | a :: r =>
      match resolve_items st a with
      | Err e => Err e
      | Ok x => match resolve_alts st lhs r with Err e => Err e | Ok xs => Ok ((lhs, x) :: xs) end
      end
  end.
Fixpoint resolve_rules (st : symtab) (rules : list rule) : res (list (str * list (symkind * str))) :=
  match rules with
  | [] => Ok []
  | r :: rs =>
      match resolve_alts st (r_name r) (r_alts r) with
      | Err e => Err e
      | Ok x => match resolve_rules st rs with Err e => Err e | Ok xs => Ok (x ++ xs) end
      end
  end.

(* recognizers after _fix_keyword_terminals *)
Inductive frec : Type := FStr (v : str) | FKw (v : str) | FRegex (id : N).
Record gterm : Type := mkG { g_name : str; g_rec : frec }.

Definition fix_keyword (kwfull : option (str -> bool)) (t : term) : gterm :=
  match t_rec t with
  | RRegex id => mkG (t_name t) (FRegex id)
  | RStr v =>
      match kwfull with
      | Some f => if f v then mkG (t_name t) (FKw v) else mkG (t_name t) (FStr v)
      | None => mkG (t_name t) (FStr v)
      end
  end.

Fixpoint find_term (n : str) (ts : list term) : option term :=
  match ts with
  | [] => None
  | t :: r => if str_eqb n (t_name t) then Some t else find_term n r
  end.

Record gdump : Type := mkDump {
  d_terms : list gterm;
  d_prods : list (str * list (symkind * str))
}.

(* [kw v]: does the KEYWORD regex, if the grammar declares one, match all of v *)
Definition build (kw : str -> bool) (a : ast) : res gdump :=
  if names_reserved a then Err EReserved else
  match collect_inline (all_items a) [] with
  | Err e => Err e
  | Ok keys =>
      let ts := a_terms a ++ map inline_term keys in
      match check_terms ts [] [] with
      | Err e => Err e
      | Ok _ =>
          if rule_clash (a_rules a) ts then Err ERuleIsTerminal else
          let st := make_symtab (a_rules a) ts in
          if check_overrides st then Err EUnexistingModule else
          match resolve_rules st (a_rules a) with
          | Err e => Err e
          | Ok prods =>
              match find_term n_KEYWORD ts with
              | Some (mkT _ (RStr _)) => Err EKeywordNotRegex
              | Some (mkT _ (RRegex _)) => Ok (mkDump (map (fix_keyword (Some kw)) ts) prods)
              | None => Ok (mkDump (map (fix_keyword None) ts) prods)
              end
          end
      end
  end.

(* What the property says the grammar means: inline strings live in their own name
   space, identified by their text; each denotes a string terminal with that text. *)
Definition declared_kind (a : ast) (n : str) : symkind :=
  if mem n (term_names (a_terms a)) then KTerm else KNonTerm.
Definition spec_item (a : ast) (i : item) : symkind * str :=
  match i with IStr v => (KTerm, v) | IRef n => (declared_kind a n, n) end.
Definition inline_texts (a : ast) : list str :=
  dedup (flat_map (fun i => match i with IStr v => [v] | IRef _ => [] end) (all_items a)) [].
Definition spec_build (kw : str -> bool) (a : ast) : gdump :=
  let ts := a_terms a ++ map (fun v => mkT v (RStr v)) (inline_texts a) in
  let k := match find_term n_KEYWORD (a_terms a) with Some _ => Some kw | None => None end in
  mkDump (map (fix_keyword k) ts)
         (flat_map (fun r => map (fun alt => (r_name r, map (spec_item a) alt)) (r_alts r)) (a_rules a)).

(* Hypotheses of the positive theorem: what the rest of the grammar must look like, and
   which inline texts the name-by-text scheme can carry. *)
Definition declared_strs (a : ast) : list str :=
  flat_map (fun t => match t_rec t with RStr v => [v] | RRegex _ => [] end) (a_terms a).
Fixpoint nodup_b (l : list str) : bool :=
  match l with [] => true | x :: r => negb (mem x r) && nodup_b r end.
Definition rule_names (a : ast) : list str := map r_name (a_rules a).
Definition ctrl_free (v : str) : bool := negb (existsb (fun c => (c =? 10) || (c =? 9)) v).
Definition text_ok (a : ast) (v : str) : bool :=
  negb (has_dot v) && ctrl_free v && negb (reserved v) && negb (str_eqb v n_KEYWORD)
  && negb (mem v (rule_names a)) && negb (mem v (term_names (a_terms a)))
  && negb (mem v (declared_strs a)).
Definition item_ok (a : ast) (i : item) : bool :=
  match i with
  | IStr v => text_ok a v
  | IRef n => mem n (rule_names a) || mem n (term_names (a_terms a))
  end.
Definition keyword_decl_ok (a : ast) : bool :=
  match find_term n_KEYWORD (a_terms a) with Some (mkT _ (RStr _)) => false | _ => true end.
Definition decl_ok (a : ast) : bool :=
  negb (names_reserved a) && nodup_b (term_names (a_terms a)) && nodup_b (declared_strs a)
  && forallb (fun n => negb (has_dot n)) (term_names (a_terms a) ++ rule_names a)
  && forallb (fun n => negb (mem n (term_names (a_terms a)))) (rule_names a)
  && keyword_decl_ok a.
Definition nice (a : ast) : bool := decl_ok a && forallb (item_ok a) (all_items a).

(* ------------------------------------------------------------------ *)
(* Order of the actions of a state and implicit finish flags                            *)

Record aterm : Type := mkA {
  at_fqn : str;
  at_prior : N;
  at_rec : frec;
  at_name_len : N;           (* len(recognizer.name): a keyword recognizer is named by its text *)
  at_finish : option bool    (* explicit finish / nofinish mark *)
}.

(* numeric part of the key: prior*1000 + 500 + len(string) + (len(recognizer.name) for keywords) *)
Definition act_key (t : aterm) : N :=
  at_prior t * 1000 + 500 +
  match at_rec t with
  | FStr v => N.of_nat (length v)
  | FKw _ => at_name_len t
  | FRegex _ => 0
  end.

(* comparison of fqns padded with spaces to the same length ("{:500s}") *)
Fixpoint lex_ltb (a b : str) : bool :=
  match a, b with
  | x :: a', y :: b' => if x <? y then true else if y <? x then false else lex_ltb a' b'
  | [], _ :: _ => true
  | _, [] => false
  end.
Definition pad_to (n : nat) (s : str) : str := s ++ repeat 32 (n - length s).
Definition pad_ltb (a b : str) : bool :=
  let n := Nat.max (length a) (length b) in lex_ltb (pad_to n a) (pad_to n b).

(* a sorts strictly before b in sorted(..., reverse=True) *)
Definition act_before (a b : aterm) : bool :=
  (act_key b <? act_key a) || ((act_key a =? act_key b) && pad_ltb (at_fqn b) (at_fqn a)).

Fixpoint insert_act (x : aterm) (l : list aterm) : list aterm :=
  match l with
  | [] => [x]
  | y :: r => if act_before y x then y :: insert_act x r else x :: l
  end.
Definition sort_acts (l : list aterm) : list aterm := fold_right insert_act [] l.

(* calc_finish_flags: walk from the last action to the first; [prior] is the priority of
   the action below (None at the start; 0 is falsy) *)
Definition implicit_finish (t : aterm) (below : option N) : bool :=
  match at_finish t with
  | Some f => f
  | None =>
      (match below with Some p => if p =? 0 then false else p <? at_prior t | None => false end)
      || match at_rec t with FStr _ => true | FKw _ => true | FRegex _ => false end
  end.
Fixpoint finish_flags_rev (l : list aterm) (below : option N) : list bool :=
  match l with
  | [] => []
  | t :: r => implicit_finish t below :: finish_flags_rev r (Some (at_prior t))
  end.
Definition finish_flags (l : list aterm) : list bool := rev (finish_flags_rev (rev l) None).

(* the same terminal had it stayed a plain string terminal; [kw_len_ok]: the keyword
   recognizer is named by the text (name=match in _fix_keyword_terminals) *)
Definition as_string (t : aterm) : aterm :=
  match at_rec t with
  | FKw v => mkA (at_fqn t) (at_prior t) (FStr v) 0 (at_finish t)
  | _ => t
  end.
Definition kw_len_ok (t : aterm) : bool :=
  match at_rec t with
  | FKw v => at_name_len t =? N.of_nat (length v)
  | _ => true
  end.
