(* Iteration order of a CPython (3.12, Objects/setobject.c) set of small non-negative ints,
   as far as the GLR driver depends on it (glr.py, GLRParser._reduce):

       to_revisit = traversed.intersection(self._active_heads.keys())
                    - set(h.state.state_id for h in self._for_actor)
       for r_head_state in to_revisit: ...

   [intersection] with a non-set iterable inserts the common keys into a fresh set in the
   iteration order of the iterable (dict order); [-] either copies the left set and discards
   (when len(left) >> 2 > len(right)) or inserts the surviving keys, in slot order, into a
   fresh set.  Iteration is by slot.  hash(n) = n; a table starts with 8 slots; probing is
   slot i, then (if i + 9 <= mask) the 9 following slots, then i := (5 i + 1 + perturb) & mask
   with perturb >>= 5; a table is rebuilt with the smallest power of two > 4 * used once
   fill * 5 >= mask * 3.  No dummies arise before the final discards, which do not move
   entries.  (The > 50000 elements growth rule is not modelled.)
   Definitions only.  The function is validated against the running CPython by the harness
   (harness/lib/glrcorr.py, pyset self-test) and indirectly by every correspondence case. *)
From Coq Require Import NArith List Bool.
Import ListNotations.
Local Open Scope N_scope.

Definition ptable := list (option N).

Definition slot_free (t : ptable) (i : nat) : bool :=
  match nth i t None with None => true | Some _ => false end.

Fixpoint put (t : ptable) (i : nat) (k : N) : ptable :=
  match t, i with
  | [], _ => []
  | _ :: r, O => Some k :: r
  | x :: r, S j => x :: put r j k
  end.

(* first free slot among i, i+1, ..., i+cnt-1 *)
Fixpoint first_free (t : ptable) (i cnt : nat) : option nat :=
  match cnt with
  | O => None
  | S c => if slot_free t i then Some i else first_free t (S i) c
  end.

(* set_insert_clean; [fuel] bounds the perturbation walk (it visits every slot once perturb
   has run out, so fuel = size + 64 is never exhausted while a slot is free) *)
Fixpoint insert_clean_aux (fuel : nat) (t : ptable) (mask key perturb i : N) : ptable :=
  match fuel with
  | O => t
  | S f =>
      let ii := N.to_nat i in
      if slot_free t ii then put t ii key
      else
        match (if i + 9 <=? mask then first_free t (S ii) 9 else None) with
        | Some j => put t j key
        | None =>
            let perturb' := N.shiftr perturb 5 in
            insert_clean_aux f t mask key perturb' (N.land (i * 5 + 1 + perturb') mask)
        end
  end.

Definition tmask (t : ptable) : N := N.of_nat (length t) - 1.

Definition insert_clean (t : ptable) (key : N) : ptable :=
  insert_clean_aux (length t + 64) t (tmask t) key key (N.land key (tmask t)).

Definition slots (t : ptable) : list N :=
  flat_map (fun o => match o with Some k => [k] | None => [] end) t.

(* smallest power of two (>= 8) strictly greater than minused *)
Fixpoint grow (fuel : nat) (size minused : N) : N :=
  match fuel with
  | O => size
  | S f => if size <=? minused then grow f (size * 2) minused else size
  end.

Definition resize (t : ptable) (minused : N) : ptable :=
  let newsize := grow 64 8 minused in
  fold_left insert_clean (slots t) (repeat None (N.to_nat newsize)).

Definition pmem (k : N) (l : list N) : bool := existsb (N.eqb k) l.

(* set_add_entry on a table without dummies *)
Definition padd (t : ptable) (key : N) : ptable :=
  if pmem key (slots t) then t
  else
    let t' := insert_clean t key in
    let fill := N.of_nat (length (slots t')) in
    if fill * 5 <? tmask t' * 3 then t' else resize t' (fill * 4).

Definition empty8 : ptable := repeat None 8.

Definition from_keys (keys : list N) : ptable := fold_left padd keys empty8.

(* list(set_from_iterable(keys) - set(other)) *)
Definition py_diff_order (keys other : list N) : list N :=
  let so := from_keys keys in
  let used := N.of_nat (length (slots so)) in
  let other_size := N.of_nat (length (nodup N.eq_dec other)) in
  if other_size <? N.shiftr used 2 then
    (* set_copy_and_difference *)
    let new0 := if 21 <=? used * 5 then resize empty8 (used * 2) else empty8 in
    let copy := if Nat.eqb (length new0) (length so) then so
                else fold_left insert_clean (slots so) new0 in
    filter (fun k => negb (pmem k other)) (slots copy)
  else
    slots (fold_left (fun res k => if pmem k other then res else padd res k) (slots so) empty8).

(* the order in which GLRParser._reduce revisits processed heads: [keys] are the state ids
   of _active_heads, in dict order, that are members of the traversed set; [other] the state
   ids of the heads still in _for_actor *)
Definition revisit_order (keys other : list nat) : list nat :=
  map N.to_nat (py_diff_order (map N.of_nat keys) (map N.of_nat other)).
