(* Model of Parser.parse (parser.py:306-528): the LR driver loop, with layout
   skipping and token recognition as parameters ([skipws], [next_token]).
   Definitions only. *)
From Coq Require Import NArith List Bool.
From PV Require Export Spec.Cfg Model.Table.
Import ListNotations.
Local Open Scope N_scope.

Inductive tokres : Type :=
| TNone                       (* no token: _next_token returned None *)
| TTok (y len : N)            (* one token (STOP has len 0) *)
| TDis.                       (* several tokens: DisambiguationError *)

Record entry : Type := mkEntry {
  e_state : nat;
  e_tree : tree;               (* results (build_tree=True); carries start/end position *)
  e_pos : N;                   (* LRStackNode.position (mutated by _skipws while on top) *)
  e_lay : N * N                (* layout_content = input[fst:snd] *)
}.

Inductive lr_result : Type :=
| LROk (t : tree) (ret_pos : N) (lay : N * N) (trace : list (N * N * N * (N * N)))
| LRSyntaxError (pos : N) (st : nat)
| LRDisambiguation (pos : N) (st : nat)
| LROutOfFuel
| LRLayoutError (pos : N)      (* the LAYOUT sub-parser raised at this position *)
| LRCrash (code : N).          (* KeyError/IndexError/AttributeError inside the driver *)

Section LR.
  Variable g : grammar.
  Variable tb : table.
  Variable skipws : N -> option N.   (* None: the LAYOUT sub-parser failed *)
  Variable next_token : nat -> N -> tokres.
  Variable stop_id : N.
  Variable consume_input : bool.
  Variable in_layout : bool.

  Record lrstate : Type := mkLR {
    l_stack : list entry;            (* top first *)
    l_ahead : option (N * N);        (* head.token_ahead: (symbol, length) *)
    l_lay_ahead : N * N;             (* head.layout_content_ahead *)
    l_trace : list (N * N * N * (N * N))  (* ghost: shifted tokens with their layout, in order *)
  }.

  Inductive outcome : Type :=
  | Continue (s : lrstate)
  | Done (r : lr_result).

  Definition set_pos (e : entry) (p : N) : entry :=
    mkEntry (e_state e) (e_tree e) p (e_lay e).

  (* lookahead: reuse the inherited token or skip layout and scan.
     Returns the (possibly moved) top entry, the layout ahead and the scan result *)
  Definition lookahead (s : lrstate) (top0 : entry) : option (entry * (N * N) * tokres) :=
    match l_ahead s with
    | Some tk => Some (top0, l_lay_ahead s, TTok (fst tk) (snd tk))
    | None =>
        if in_layout then
          Some (top0, l_lay_ahead s, next_token (e_state top0) (e_pos top0))
        else
          match skipws (e_pos top0) with
          | None => None
          | Some p1 => Some (set_pos top0 p1, (e_pos top0, p1), next_token (e_state top0) p1)
          end
    end.

  (* the production actually reduced: an EMPTY reduction gives way to the next
     action of the cell (parser.py:461-466) *)
  Definition select_prod (p0 : N) (more : list action) : option (N * prod) :=
    match get_prod g p0 with
    | None => None
    | Some pr0 =>
        match rhs pr0, more with
        | [], a1 :: _ =>
            match a1 with
            | Reduce p1 => match get_prod g p1 with
                           | Some pr1 => Some (p1, pr1)
                           | None => None
                           end
            | _ => None
            end
        | _, _ => Some (p0, pr0)
        end
    end.

  Definition do_reduce (tr : list (N * N * N * (N * N))) (stk : list entry) (pos1 : N)
             (lay1 : N * N) (ahead' : option (N * N)) (p : N) (pr : prod) : outcome :=
    let n := length (rhs pr) in
    let popped := firstn n stk in
    let rest := skipn n stk in
    if negb (Nat.eqb (length popped) n) then Done (LRCrash 6) else
    match rest with
    | [] => Done (LRCrash 7)
    | r0 :: _ =>
        match goto tb (e_state r0) (lhs pr) with
        | None => Done (LRCrash 8)
        | Some s' =>
            let endp := match stk with top :: _ => t_end (e_tree top) | [] => 0 end in
            let '(startp, lay) :=
              match rev popped with
              | [] => (endp, (0, 0))
              | deepest :: _ => (t_start (e_tree deepest), e_lay deepest)
              end in
            let node := TNode p startp endp (rev (map e_tree popped)) in
            Continue (mkLR (mkEntry s' node pos1 lay :: rest) ahead' lay1 tr)
        end
    end.

  Definition do_action (tr : list (N * N * N * (N * N))) (stk : list entry) (lay1 : N * N)
             (scan : tokres) (fallback : bool) (acts : list action) : outcome :=
    match stk with
    | [] => Done (LRCrash 1)
    | top :: _ =>
        let pos1 := e_pos top in
        match acts with
        | [] => Done (LRSyntaxError pos1 (e_state top))
        | Shift s' :: _ =>
            match scan, fallback with
            | TTok y len, false =>
                let np := pos1 + len in
                Continue (mkLR (mkEntry s' (TLeaf y pos1 np) np lay1 :: stk) None (np, np)
                               (tr ++ [(y, pos1, np, lay1)]))
            | _, _ => Done (LRCrash 2)      (* a SHIFT found through the STOP fallback *)
            end
        | Accept :: _ =>
            match nth_error (rev stk) 1 with
            | Some r => Done (LROk (e_tree r) (e_pos r) (e_lay r) tr)
            | None => Done (LRCrash 3)
            end
        | Reduce p0 :: more =>
            match select_prod p0 more with
            | None => Done (LRCrash 5)
            | Some (p, pr) =>
                do_reduce tr stk pos1 lay1
                          (match scan with TTok y len => Some (y, len) | _ => None end) p pr
            end
        end
    end.

  Definition lr_step (s : lrstate) : outcome :=
    match l_stack s with
    | [] => Done (LRCrash 1)
    | top0 :: below =>
        match lookahead s top0 with
        | None => Done (LRLayoutError (e_pos top0))
        | Some (top, lay1, scan) =>
        let st := e_state top in
        match scan with
        | TDis => Done (LRDisambiguation (e_pos top) st)
        | _ =>
            let acts0 := match scan with TTok y _ => cell tb st y | _ => [] end in
            match acts0 with
            | [] => if consume_input then do_action (l_trace s) (top :: below) lay1 scan true []
                    else do_action (l_trace s) (top :: below) lay1 scan true (cell tb st stop_id)
            | _ => do_action (l_trace s) (top :: below) lay1 scan false acts0
            end
        end
        end
    end.

  Fixpoint lr_run (fuel : nat) (s : lrstate) : lr_result :=
    match fuel with
    | O => LROutOfFuel
    | S f => match lr_step s with
             | Done r => r
             | Continue s' => lr_run f s'
             end
    end.

  Definition bottom_tree (pos : N) : tree := TNode 0 pos pos [].

  Definition lr_init (pos : N) : lrstate :=
    mkLR [mkEntry O (bottom_tree pos) pos (0, 0)] None (0, 0) [].

  Definition lr_parse (fuel : nat) (pos : N) : lr_result := lr_run fuel (lr_init pos).
End LR.
