(* Model of create_table / _create_table / LRTable.__init__
   (parglare/tables/__init__.py) for itemset_type LR_1 (tables=LALR) and LR_0
   (tables=SLR):

     first, the "First set empty" check, follow           Model/First.v
     the swap of productions[0].rhs to [<lhs of start_production>, STOP]
     the automaton phase and the final LALR loop           Model/Closure.v, Model/Automaton.v
     the REDUCE phase with conflict resolution             Model/Resolve.v (shared with C06)
     sort_state_actions, calc_finish_flags                 Model/Determ.v, Model/StrTerm.v (shared)
     calc_conflicts_and_dynamic_terminals.

   The only place where a Python set is ITERATED is [for terminal in follow_set] in the
   REDUCE phase; here the set is iterated in the order of the model's list.  Each
   terminal owns its cell, so the order only decides the insertion order of new keys
   into state.actions, which sort_state_actions then discards (Proofs/DetermProofs.v,
   C16); the harness compares the sorted rows.  Definitions only. *)
From Coq Require Import NArith List Bool.
From PV Require Import Spec.Cfg Model.Table Model.First Model.Closure Model.Automaton
  Model.Resolve.
From PV Require Model.StrTerm Model.Determ.
Import ListNotations.
Local Open Scope N_scope.

Record tconf : Type := mkTC {
  tc_prods : list prod;        (* grammar.productions, raw; production 0 is S' -> start STOP *)
  tc_nterms : nat;             (* len(grammar.terminals); EMPTY and STOP are among them *)
  tc_nnts : nat;               (* len(grammar.nonterminals); S' is among them *)
  tc_empty : N;
  tc_stop : N;
  tc_start : N;                (* start_production *)
  tc_lr1 : bool;               (* itemset_type is LR_1 *)
  tc_ps : bool;                (* prefer_shifts *)
  tc_pse : bool;               (* prefer_shifts_over_empty *)
  tc_lexdis : bool;            (* lexical_disambiguation (None counts as True) *)
  tc_meta : list pmeta;        (* per production: prior, assoc, nops, nopse *)
  tc_pdyn : list bool;         (* per production: dynamic *)
  tc_terms : list StrTerm.aterm;       (* per terminal: fqn, prior, recognizer kind, finish mark *)
  tc_tdyn : list bool;         (* per terminal: dynamic *)
  tc_max_states : option nat;  (* PARGLARE_VERIF_MAX_STATES *)
  tc_ffuel : nat;              (* fuel: FIRST / FOLLOW rounds *)
  tc_cfuel : nat;              (*       steps of one closure call *)
  tc_sfuel : nat;              (*       states taken from the queue *)
  tc_pfuel : nat               (*       rounds of the final LALR loop *)
}.

Definition meta_of (c : tconf) (p : N) : pmeta := nth (N.to_nat p) (tc_meta c) default_meta.
Definition pdyn_of (c : tconf) (p : N) : bool := nth (N.to_nat p) (tc_pdyn c) false.
Definition tdyn_of (c : tconf) (t : N) : bool := nth (N.to_nat t) (tc_tdyn c) false.
Definition aterm_of (c : tconf) (t : N) : StrTerm.aterm := nth (N.to_nat t) (tc_terms c) Determ.aterm_default.

(* grammar.productions[0].rhs = ProductionRHS([start_prod_symbol, STOP]) *)
Definition swap_start (c : tconf) : list prod :=
  match tc_prods c with
  | [] => []
  | p0 :: r =>
      mkProd (lhs p0) [NT (lhs_of (tc_prods c) (tc_start c)); T (tc_stop c)] :: r
  end.

(* the grammar the REDUCE phase and the rest of the verification read: no EMPTY *)
Definition cfg_of (c : tconf) : grammar := strip_prods (tc_empty c) (swap_start c).

(* ---- REDUCE phase of one state ------------------------------------------------- *)
Definition ritems_of (c : tconf) (fo : fsets) (st : mstate) : list ritem :=
  map (fun it => mkRItem (it_p it) (it_d it)
                         (if tc_lr1 c then it_f it
                          else fget fo (lhs_of (swap_start c) (it_p it)))) (ms_items st).

Definition state_sym_of (all : list mstate) (s : nat) : option sym :=
  option_map ms_sym (nth_error all s).

Definition reduce_state (c : tconf) (fo : fsets) (all : list mstate) (st : mstate)
  : option actions :=
  reduce_phase (cfg_of c) (meta_of c) (tc_ps c) (tc_pse c) (state_sym_of all)
               (ritems_of c fo st) (ms_acts st).

(* ---- LRTable.__init__ ------------------------------------------------------------ *)
Definition cell_before (c : tconf) (a b : N * list action) : bool :=
  StrTerm.act_before (aterm_of c (fst a)) (aterm_of c (fst b)).
Definition sort_cells (c : tconf) (a : actions) : actions := Determ.sort_by (cell_before c) a.
Definition flags_for (c : tconf) (a : actions) : list bool :=
  if tc_lexdis c then StrTerm.finish_flags (map (fun ya => aterm_of c (fst ya)) a)
  else map (fun _ => false) a.

Definition finish_state (c : tconf) (st : mstate) (acts : actions) : state :=
  let s := sort_cells c acts in
  mkState (ms_sym st) s (ms_gotos st) (flags_for c s)
          (map (fun it => (it_p it, it_d it)) (ms_items st)).

Fixpoint reduce_all (c : tconf) (fo : fsets) (all : list mstate) (l : list mstate)
  : option table :=
  match l with
  | [] => Some []
  | st :: r =>
      match reduce_state c fo all st, reduce_all c fo all r with
      | Some a, Some t => Some (finish_state c st a :: t)
      | _, _ => None
      end
  end.

(* ---- calc_conflicts_and_dynamic_terminals ---------------------------------------- *)
Definition red_prods (l : list action) : list N :=
  flat_map (fun a => match a with Reduce p => [p] | _ => [] end) l.
Definition prod_is_empty (c : tconf) (p : N) : bool :=
  match rhs_of (cfg_of c) p with [] => true | _ => false end.

(* (state, terminal, productions) *)
Definition conflict : Type := (nat * N * list N)%type.

Definition cell_sr (sid : nat) (ya : N * list action) : list conflict :=
  match snd ya with
  | a :: ((_ :: _) as tl) => if is_sa a then map (fun _ => (sid, fst ya, red_prods tl)) tl else []
  | _ => []
  end.
Definition cell_rr (c : tconf) (sid : nat) (ya : N * list action) : list conflict :=
  match snd ya with
  | a :: (_ :: _) =>
      if is_sa a then []
      else
        let psl := red_prods (snd ya) in
        let ne := filter (fun p => negb (prod_is_empty c p)) psl in
        let em := filter (prod_is_empty c) psl in
        (match em with _ :: _ :: _ => [(sid, fst ya, em)] | _ => [] end) ++
        (match ne with _ :: _ :: _ => [(sid, fst ya, ne)] | _ => [] end)
  | _ => []
  end.
(* is the terminal added to state.dynamic because of this cell *)
Definition cell_dynamic (c : tconf) (ya : N * list action) : bool :=
  tdyn_of c (fst ya) ||
  match snd ya with
  | a :: ((_ :: _) as tl) =>
      if is_sa a then existsb (pdyn_of c) (red_prods tl)
      else existsb (pdyn_of c) (filter (fun p => negb (prod_is_empty c p)) (red_prods (snd ya)))
  | _ => false
  end.

Definition sr_conflicts (t : table) : list conflict :=
  flat_map (fun s => flat_map (cell_sr (fst s)) (st_actions (snd s))) (indexed t).
Definition rr_conflicts (c : tconf) (t : table) : list conflict :=
  flat_map (fun s => flat_map (cell_rr c (fst s)) (st_actions (snd s))) (indexed t).
(* state.dynamic per state, in action order (a set in the impl) *)
Definition dynamic_terms (c : tconf) (t : table) : list (list N) :=
  map (fun s => map fst (filter (cell_dynamic c) (st_actions s))) t.

(* ---- create_table ------------------------------------------------------------------ *)
Record tbuilt : Type := mkTB {
  tb_table : table;
  tb_items : list (list item);         (* final state.items with their follow sets *)
  tb_first : fsets;
  tb_follow : fsets
}.

Definition is_nil {X} (l : list X) : bool := match l with [] => true | _ => false end.

Definition create_table (c : tconf) : bres tbuilt :=
  let e := tc_empty c in
  match first_sets e (tc_ffuel c) (tc_nnts c) (tc_prods c) with
  | None => BFuel 0 0
  | Some fs =>
      let aug := lhs_of (tc_prods c) 0 in
      match find (fun a => negb (a =? aug) && is_nil (fget fs a)) (nts_of (tc_nnts c)) with
      | Some a => BGrammarError a
      | None =>
          match follow_sets e (tc_ffuel c) fs (tc_nnts c) (tc_prods c) with
          | None => BFuel 1 0
          | Some fo =>
              bbind (automaton (swap_start c) e (tc_stop c) (tc_lr1 c) fs (tc_cfuel c)
                               (tc_max_states c) (tc_sfuel c) (tc_pfuel c))
                    (fun all =>
                       match reduce_all c fo all all with
                       | None => BCrash 3
                       | Some t => BOk (mkTB t (map ms_items all) fs fo)
                       end)
          end
      end
  end.
