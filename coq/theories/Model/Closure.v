(* Model of LR items and of the item-set closure of parglare:
     - LRItem (tables/__init__.py): equality by (production, position), is_kernel,
       get_pos_inc (a COPY of the follow set since fix 2348d79), symbol_at_position,
       is_at_end -- all through ProductionRHS (Model/First.v);
     - closure and _new_item_follow (closure.py).

   [state.items] is a list of items; an item object is identified by its index in that
   list (items are never removed or reordered, their follow sets are mutated in
   place).  The work list [items_to_process] holds item objects, i.e. indices; it is
   a Python list used as a stack (pop from the end, append at the end): here a list
   whose head is the top.  Definitions only. *)
From Coq Require Import NArith List Bool.
From PV Require Import Spec.Cfg Model.First Validators.TableComplete.
Import ListNotations.
Local Open Scope N_scope.

Record item : Type := mkItem {
  it_p : N;            (* production.prod_id *)
  it_d : nat;          (* position *)
  it_f : nset          (* follow *)
}.

Fixpoint map_nth {X} (i : nat) (f : X -> X) (l : list X) : list X :=
  match l, i with
  | [], _ => []
  | x :: r, O => f x :: r
  | x :: r, S j => x :: map_nth j f r
  end.

Section Items.
  (* grammar.productions, raw, as they are INSIDE _create_table:
     production 0 is S' -> <lhs of start_production> STOP *)
  Variable ps : list prod.
  Variable e : N.                (* EMPTY *)
  Variable lr1 : bool.           (* itemset_type is LR_1 *)
  Variable fs : fsets.           (* first_sets *)

  Definition rhs_raw (p : N) : list sym :=
    match nth_error ps (N.to_nat p) with Some pr => rhs pr | None => [] end.
  Definition lhs_of (p : N) : N :=
    match nth_error ps (N.to_nat p) with Some pr => lhs pr | None => 0 end.

  (* item.symbol_at_position *)
  Definition item_sym (it : item) : option sym := rget e (rhs_raw (it_p it)) (it_d it).
  (* item.is_at_end *)
  Definition item_at_end (it : item) : bool := Nat.eqb (it_d it) (rlen e (rhs_raw (it_p it))).
  (* LRItem.__eq__ *)
  Definition item_same (a b : item) : bool := (it_p a =? it_p b) && Nat.eqb (it_d a) (it_d b).
  (* item.is_kernel: position > 0 or production.symbol is AUGSYMBOL *)
  Definition is_kernel (it : item) : bool :=
    negb (Nat.eqb (it_d it) 0) || (lhs_of (it_p it) =? lhs_of 0).
  (* item.get_pos_inc(): None at the end of the production *)
  Definition item_inc (it : item) : option item :=
    if Nat.ltb (it_d it) (rlen e (rhs_raw (it_p it)))
    then Some (mkItem (it_p it) (S (it_d it)) (it_f it)) else None.

  (* _new_item_follow: for s in item.production.rhs[item.position + 1:]: ... else: ... *)
  Fixpoint nif_loop (r : list sym) (acc : nset) (itf : nset) : nset :=
    match r with
    | [] => nunion acc itf
    | s :: r' =>
        let acc1 := nunion acc (sym_first fs s) in
        if nmem e acc1 then nif_loop r' (nremove e acc1) itf else acc1
    end.
  Definition new_item_follow (it : item) : nset :=
    nif_loop (rslice (rhs_raw (it_p it)) (S (it_d it))) [] (it_f it).

  (* index of the first item equal to (p, d): [new_item in state.items],
     [next(i for i in state.items if i == new_item)], [list.index] *)
  Fixpoint find_item (p : N) (d : nat) (its : list item) (i : nat) : option nat :=
    match its with
    | [] => None
    | it :: r => if (it_p it =? p) && Nat.eqb (it_d it) d then Some i
                 else find_item p d r (S i)
    end.

  Definition set_follow (j : nat) (f : nset) (its : list item) : list item :=
    map_nth j (fun it => mkItem (it_p it) (it_d it) f) its.

  Definition follow_at (its : list item) (j : nat) : nset :=
    match nth_error its j with Some it => it_f it | None => [] end.

  (* one production [q] of the symbol after the dot; [fol] is the follow computed for
     the item being processed (LR_0: new items get follow None -> set()) *)
  Definition add_prod (fol : nset) (st : list item * list nat) (q : N) : list item * list nat :=
    let (its, w) := st in
    match find_item q 0 its 0 with
    | None => (its ++ [mkItem q 0 fol], length its :: w)
    | Some j =>
        if lr1 then
          if nsubset fol (follow_at its j) then (its, w)
          else (set_follow j (nunion (follow_at its j) fol) its, j :: w)
        else (its, w)
    end.

  (* while items_to_process: item = items_to_process.pop() ... *)
  Fixpoint closure_loop (fuel : nat) (its : list item) (w : list nat) : option (list item) :=
    match fuel with
    | O => None
    | S f =>
        match w with
        | [] => Some its
        | i :: w' =>
            match nth_error its i with
            | None => closure_loop f its w'
            | Some it =>
                match item_sym it with
                | Some (NT b) =>
                    let fol := if lr1 then new_item_follow it else [] in
                    let st := fold_left (add_prod fol) (prods_of ps b) (its, w') in
                    closure_loop f (fst st) (snd st)
                | _ => closure_loop f its w'
                end
            end
        end
    end.

  (* items_to_process = list(state.items) *)
  Definition closure (fuel : nat) (its : list item) : option (list item) :=
    closure_loop fuel its (rev (seq 0 (length its))).
End Items.
