(* Model of error locations: pos_to_line_col (common.py:182-198) and the end-of-file
   test behind the error message (Location.is_eof, exceptions.py). *)
From Coq Require Import NArith List Bool.
Import ListNotations.
Local Open Scope N_scope.

Definition NL : N := 10.

(* input_str[:position].count("\n") *)
Definition count_nl (l : list N) : N := N.of_nat (length (filter (N.eqb NL) l)).

(* input_str.rfind("\n", 0, position): index of the last newline, scanning left to right *)
Fixpoint rfind_nl (l : list N) (i : N) (acc : option N) : option N :=
  match l with
  | [] => acc
  | c :: r => rfind_nl r (i + 1) (if c =? NL then Some i else acc)
  end.

Definition pos_to_line_col (w : list N) (p : N) : N * N :=
  let pre := firstn (N.to_nat p) w in
  (count_nl pre + 1,
   match rfind_nl pre 0 None with
   | Some k => p - k - 1
   | None => p
   end).

(* non-string input: (1, position) *)
Definition pos_to_line_col_nonstr (p : N) : N * N := (1, p).

Definition is_eof (w : list N) (p : N) : bool := p =? N.of_nat (length w).

(* ---- specification ------------------------------------------------------- *)

(* the characters after the last newline of l *)
Fixpoint last_line (l : list N) : list N :=
  match l with
  | [] => []
  | c :: r => if existsb (N.eqb NL) r then last_line r
              else if c =? NL then r else c :: r
  end.
