(* Model of the three ways parglare runs semantic actions.

     - Parser._call_shift_action / _call_reduce_action (parser.py:810-925) and the
       part of Parser.parse that feeds them (parser.py:440-519), build_tree=False:
       [af_step] .. [af_parse], generic in the result type;
     - Parser.call_actions over a finished tree (parser.py:537-601): [call_actions];
     - the built-in actions (actions.py) and the closure attached to the x* helper
       rule (grammar.py:992-997): [apply_act1];
     - Grammar._enumerate_productions (grammar.py:1052-1061): [enum_psid];
     - assignment indices and the per-production assignments dict
       (grammar.py:1774-1777, 354-358): [mk_assign];
     - Grammar._resolve_actions (grammar.py:1091-1172): [resolve_action].

   Exceptions raised inside actions: [call_actions] really stops at the first one it
   meets (children are evaluated right to left).  In the on-the-fly driver an
   exception is a poisoned result [Err x] that every enclosing reduction passes on
   (leftmost first); for an accepted sentence this is the exception the impl raises
   (the first one in reduction order).  For a rejected input the impl may raise the
   action's exception before it reaches the syntax error; the model reports the
   syntax error.  Definitions only. *)
From Coq Require Import NArith List Bool.
From PV Require Export Spec.Cfg Model.Table Model.LRDriver.
Import ListNotations.
Local Open Scope N_scope.

(* ---- Python values that actions see and return --------------------------- *)
Inductive val : Type :=
| VStr (s e : N)                                   (* token.value = input[s:e] *)
| VList (l : list val)
| VNone
| VBool (b : bool)
| VObj (cls : N) (attrs : list (N * val)) (s e : N)  (* instance made by [obj] *)
| VUser (k p s e : N) (args : list val) (kw : list (N * val)). (* opaque user value *)

Inductive exn : Type := TypeError | ValueError | IndexError.
Inductive res : Type := Ok (v : val) | Err (x : exn).

(* bool(v) *)
Definition truthy (v : val) : bool :=
  match v with
  | VStr s e => s <? e
  | VList l => match l with [] => false | _ => true end
  | VNone => false
  | VBool b => b
  | VObj _ _ _ _ => true
  | VUser _ _ _ _ _ _ => true
  end.

Fixpoint chars_from (n : nat) (s : N) : list val :=
  match n with O => [] | S m => VStr s (s + 1) :: chars_from m (s + 1) end.

(* list(v) / [].extend(v): lists and strings are iterable, the rest is not *)
Definition py_list (v : val) : option (list val) :=
  match v with
  | VList l => Some l
  | VStr s e => Some (chars_from (N.to_nat (e - s)) s)
  | _ => None
  end.

(* ---- actions -------------------------------------------------------------- *)
Inductive act1 : Type :=
| APassNone | APassNoChange | APassEmpty | APassSingle | APassInner
| ACollectFirst | ACollectFirstSep | ACollectRightFirst | ACollectRightFirstSep
| AObj
| AStar0                     (* closure of the x* helper rule: nodes[0] if nodes else [] *)
| AUser (k : N).

(* symbol.action of a nonterminal: nothing, a callable, or a list of callables *)
Inductive sem_action : Type := SNone | SOne (a : act1) | SList (l : list act1).

(* symbol.action of a terminal *)
Inductive tact : Type := TANone | TAPassNone | TAPassNoChange | TAPassEmpty | TAUser (k : N).

(* one assignment of Production.assignments: name, op is '=', index *)
Definition assignment : Type := (N * (bool * nat))%type.

Record aenv : Type := mkAEnv {
  ae_nt : list sem_action;            (* by nonterminal id *)
  ae_term : list tact;                (* by terminal id *)
  ae_cls : list bool;                 (* by nonterminal id: symbol.cls is not None *)
  ae_psid : list nat;                 (* by prod id: prod_symbol_id *)
  ae_assign : list (list assignment)  (* by prod id: assignments.values() in dict order *)
}.

Definition collect_append (e1 e2 : val) : res :=
  match e2 with
  | VNone => Ok e1
  | _ => match py_list e1 with
         | Some l => Ok (VList (l ++ [e2]))
         | None => Err TypeError
         end
  end.

Definition collect_right (n0 rest : val) : res :=
  match py_list rest with
  | Some l => Ok (VList (n0 :: l))
  | None => Err TypeError
  end.

Definition takes_kw (a : act1) : bool :=
  match a with AObj | AUser _ => true | _ => false end.

Section Eval.
  Variable g : grammar.
  Variable env : aenv.
  (* user actions: arbitrary pure functions of what they are given *)
  Variable uact : N -> N -> N -> N -> list val -> list (N * val) -> res.
  Variable utact : N -> N -> N -> N -> res.

  Definition lhs_of (p : N) : N :=
    match get_prod g p with Some pr => lhs pr | None => 0 end.

  Definition has_cls (a : N) : bool := nth (N.to_nat a) (ae_cls env) false.

  (* the body of one callable applied to (context, nodes, **kw) *)
  Definition act1_body (a : act1) (p s e : N) (nodes : list val) (kw : list (N * val)) : res :=
    match a with
    | APassNone => Ok VNone
    | APassNoChange => Ok (VList nodes)
    | APassEmpty => Ok (VList [])
    | APassSingle => match nodes with [] => Err IndexError | v :: _ => Ok v end
    | APassInner =>
        match removelast (tl nodes) with
        | [v] => Ok v
        | n => Ok (VList n)
        end
    | ACollectFirst =>
        match nodes with [e1; e2] => collect_append e1 e2 | _ => Err ValueError end
    | ACollectFirstSep =>
        match nodes with [e1; _; e2] => collect_append e1 e2 | _ => Err ValueError end
    | ACollectRightFirst =>
        match nodes with n0 :: n1 :: _ => collect_right n0 n1 | _ => Err IndexError end
    | ACollectRightFirstSep =>
        match nodes with n0 :: _ :: n2 :: _ => collect_right n0 n2 | _ => Err IndexError end
    | AObj =>
        if has_cls (lhs_of p) then Ok (VObj (lhs_of p) kw s e) else Err TypeError
    | AStar0 => match nodes with [] => Ok (VList []) | v :: _ => Ok v end
    | AUser k => uact k p s e nodes kw
    end.

  (* kw = None: called without keyword arguments *)
  Definition apply_act1 (a : act1) (p s e : N) (nodes : list val)
             (kw : option (list (N * val))) : res :=
    match kw with
    | None => act1_body a p s e nodes []
    | Some l => if takes_kw a then act1_body a p s e nodes l else Err TypeError
    end.

  (* assgn_results: None = IndexError on subresults[a.index] *)
  Fixpoint bind_kw (asg : list assignment) (subs : list val) : option (list (N * val)) :=
    match asg with
    | [] => Some []
    | (name, (is_eq, idx)) :: r =>
        match nth_error subs idx with
        | None => None
        | Some v =>
            match bind_kw r subs with
            | None => None
            | Some l => Some ((name, if is_eq then v else VBool (truthy v)) :: l)
            end
        end
    end.

  Definition psid_of (p : N) : nat := nth (N.to_nat p) (ae_psid env) O.
  Definition assign_of (p : N) : list assignment := nth (N.to_nat p) (ae_assign env) [].
  Definition action_of_nt (a : N) : sem_action := nth (N.to_nat a) (ae_nt env) SNone.

  Definition default_result (subs : list val) : val :=
    match subs with [v] => v | _ => VList subs end.

  (* the part of _call_reduce_action / inner_call_actions after the sub-results
     are known (parser.py:876-914 and 573-597 are the same code) *)
  Definition reduce_action (p s e : N) (subs : list val) : res :=
    let with_kw (k : option (list (N * val)) -> res) : res :=
        match assign_of p with
        | [] => k None
        | asg => match bind_kw asg subs with
                 | None => Err IndexError
                 | Some l => k (Some l)
                 end
        end in
    match action_of_nt (lhs_of p) with
    | SNone | SList [] => Ok (default_result subs)
    | SOne a => with_kw (apply_act1 a p s e subs)
    | SList l =>
        with_kw (fun kw => match nth_error l (psid_of p) with
                           | Some a => apply_act1 a p s e subs kw
                           | None => Err IndexError
                           end)
    end.

  (* _call_shift_action / the terminal branch of inner_call_actions *)
  Definition shift_action (y s e : N) : res :=
    match nth (N.to_nat y) (ae_term env) TANone with
    | TANone | TAPassNoChange => Ok (VStr s e)
    | TAPassNone => Ok VNone
    | TAPassEmpty => Ok (VList [])
    | TAUser k => utact k y s e
    end.

  (* all results, or the first exception from the left *)
  Fixpoint seq_vals (rs : list res) : list val + exn :=
    match rs with
    | [] => inl []
    | Err x :: _ => inr x
    | Ok v :: r => match seq_vals r with inl l => inl (v :: l) | inr x => inr x end
    end.

  (* a reduction over possibly poisoned sub-results (on-the-fly route) *)
  Definition reduce_res (p s e : N) (rs : list res) : res :=
    match seq_vals rs with
    | inl subs => reduce_action p s e subs
    | inr x => Err x
    end.

  (* what the on-the-fly route computes for the tree the LR run builds *)
  Fixpoint eval_lr (t : tree) : res :=
    match t with
    | TLeaf y s e => shift_action y s e
    | TNode p s e cs => reduce_res p s e (map eval_lr cs)
    end.

  (* Parser.call_actions: children right to left, stop at the first exception *)
  Definition seq_vals_rl (rs : list res) : list val + exn :=
    match seq_vals (rev rs) with
    | inl l => inl (rev l)
    | inr x => inr x
    end.

  Fixpoint call_actions (t : tree) : res :=
    match t with
    | TLeaf y s e => shift_action y s e
    | TNode p s e cs =>
        match seq_vals_rl (map call_actions cs) with
        | inl subs => reduce_action p s e subs
        | inr x => Err x
        end
    end.
End Eval.

(* ---- the LR driver with results computed on the fly ---------------------- *)
Inductive af_result (R : Type) : Type :=
| AFOk (r : R) (ret_pos : N) (lay : N * N) (trace : list (N * N * N * (N * N)))
| AFSyntaxError (pos : N) (st : nat)
| AFDisambiguation (pos : N) (st : nat)
| AFOutOfFuel
| AFLayoutError (pos : N)
| AFCrash (code : N).
Arguments AFOk {R}. Arguments AFSyntaxError {R}. Arguments AFDisambiguation {R}.
Arguments AFOutOfFuel {R}. Arguments AFLayoutError {R}. Arguments AFCrash {R}.

Definition map_lr {R : Type} (f : tree -> R) (r : lr_result) : af_result R :=
  match r with
  | LROk t rp lay tr => AFOk (f t) rp lay tr
  | LRSyntaxError pos st => AFSyntaxError pos st
  | LRDisambiguation pos st => AFDisambiguation pos st
  | LROutOfFuel => AFOutOfFuel
  | LRLayoutError pos => AFLayoutError pos
  | LRCrash c => AFCrash c
  end.

Section AF.
  Variable R : Type.
  Variable sh : N -> N -> N -> R.                 (* _call_shift_action *)
  Variable rd : N -> N -> N -> list R -> R.       (* _call_reduce_action *)
  Variable g : grammar.
  Variable tb : table.
  Variable skipws : N -> option N.
  Variable next_token : nat -> N -> tokres.
  Variable stop_id : N.
  Variable consume_input : bool.
  Variable in_layout : bool.

  (* LRStackNode with build_tree=False *)
  Record aentry : Type := mkAE {
    a_state : nat;
    a_start : N;
    a_end : N;
    a_pos : N;
    a_lay : N * N;
    a_res : R
  }.

  Record afstate : Type := mkAF {
    f_stack : list aentry;
    f_ahead : option (N * N);
    f_lay_ahead : N * N;
    f_trace : list (N * N * N * (N * N))
  }.

  Inductive af_outcome : Type :=
  | AContinue (s : afstate)
  | ADone (r : af_result R).

  Definition a_set_pos (e : aentry) (p : N) : aentry :=
    mkAE (a_state e) (a_start e) (a_end e) p (a_lay e) (a_res e).

  Definition af_lookahead (s : afstate) (top0 : aentry) : option (aentry * (N * N) * tokres) :=
    match f_ahead s with
    | Some tk => Some (top0, f_lay_ahead s, TTok (fst tk) (snd tk))
    | None =>
        if in_layout then
          Some (top0, f_lay_ahead s, next_token (a_state top0) (a_pos top0))
        else
          match skipws (a_pos top0) with
          | None => None
          | Some p1 => Some (a_set_pos top0 p1, (a_pos top0, p1), next_token (a_state top0) p1)
          end
    end.

  Definition af_do_reduce (tr : list (N * N * N * (N * N))) (stk : list aentry) (pos1 : N)
             (lay1 : N * N) (ahead' : option (N * N)) (p : N) (pr : prod) : af_outcome :=
    let n := length (rhs pr) in
    let popped := firstn n stk in
    let rest := skipn n stk in
    if negb (Nat.eqb (length popped) n) then ADone (AFCrash 6) else
    match rest with
    | [] => ADone (AFCrash 7)
    | r0 :: _ =>
        match goto tb (a_state r0) (lhs pr) with
        | None => ADone (AFCrash 8)
        | Some s' =>
            let endp := match stk with top :: _ => a_end top | [] => 0 end in
            let '(startp, lay) :=
              match rev popped with
              | [] => (endp, (0, 0))
              | deepest :: _ => (a_start deepest, a_lay deepest)
              end in
            let r := rd p startp endp (rev (map a_res popped)) in
            AContinue (mkAF (mkAE s' startp endp pos1 lay r :: rest) ahead' lay1 tr)
        end
    end.

  Definition af_do_action (tr : list (N * N * N * (N * N))) (stk : list aentry) (lay1 : N * N)
             (scan : tokres) (fallback : bool) (acts : list action) : af_outcome :=
    match stk with
    | [] => ADone (AFCrash 1)
    | top :: _ =>
        let pos1 := a_pos top in
        match acts with
        | [] => ADone (AFSyntaxError pos1 (a_state top))
        | Shift s' :: _ =>
            match scan, fallback with
            | TTok y len, false =>
                let np := pos1 + len in
                AContinue (mkAF (mkAE s' pos1 np np lay1 (sh y pos1 np) :: stk) None (np, np)
                                (tr ++ [(y, pos1, np, lay1)]))
            | _, _ => ADone (AFCrash 2)
            end
        | Accept :: _ =>
            match nth_error (rev stk) 1 with
            | Some r => ADone (AFOk (a_res r) (a_pos r) (a_lay r) tr)
            | None => ADone (AFCrash 3)
            end
        | Reduce p0 :: more =>
            match select_prod g p0 more with
            | None => ADone (AFCrash 5)
            | Some (p, pr) =>
                af_do_reduce tr stk pos1 lay1
                             (match scan with TTok y len => Some (y, len) | _ => None end) p pr
            end
        end
    end.

  Definition af_step (s : afstate) : af_outcome :=
    match f_stack s with
    | [] => ADone (AFCrash 1)
    | top0 :: below =>
        match af_lookahead s top0 with
        | None => ADone (AFLayoutError (a_pos top0))
        | Some (top, lay1, scan) =>
        let st := a_state top in
        match scan with
        | TDis => ADone (AFDisambiguation (a_pos top) st)
        | _ =>
            let acts0 := match scan with TTok y _ => cell tb st y | _ => [] end in
            match acts0 with
            | [] => if consume_input then af_do_action (f_trace s) (top :: below) lay1 scan true []
                    else af_do_action (f_trace s) (top :: below) lay1 scan true (cell tb st stop_id)
            | _ => af_do_action (f_trace s) (top :: below) lay1 scan false acts0
            end
        end
        end
    end.

  Fixpoint af_run (fuel : nat) (s : afstate) : af_result R :=
    match fuel with
    | O => AFOutOfFuel
    | S f => match af_step s with
             | ADone r => r
             | AContinue s' => af_run f s'
             end
    end.

  (* the bottom node's results are never read when the table is structurally
     valid; the ghost value keeps the stack an image of LRDriver's tree stack *)
  Definition af_init (pos : N) : afstate :=
    mkAF [mkAE O pos pos pos (0, 0) (rd 0 pos pos [])] None (0, 0) [].

  Definition af_parse (fuel : nat) (pos : N) : af_result R := af_run fuel (af_init pos).
End AF.

Arguments mkAE {R}. Arguments a_state {R}. Arguments a_start {R}. Arguments a_end {R}.
Arguments a_pos {R}. Arguments a_lay {R}. Arguments a_res {R}.
Arguments mkAF {R}. Arguments f_stack {R}. Arguments f_ahead {R}. Arguments f_lay_ahead {R}.
Arguments f_trace {R}. Arguments AContinue {R}. Arguments ADone {R}.

(* Parser(actions=...).parse: the driver with the real action semantics *)
Definition parse_actions (g : grammar) (env : aenv)
           (uact : N -> N -> N -> N -> list val -> list (N * val) -> res)
           (utact : N -> N -> N -> N -> res) :=
  af_parse res (shift_action env utact) (reduce_res g env uact) g.

(* ---- grammar-side bookkeeping that decides which action gets which arguments -- *)

(* Python dict update on an association list: an existing key keeps its place *)
Fixpoint dict_set {V : Type} (k : N) (v : V) (d : list (N * V)) : list (N * V) :=
  match d with
  | [] => [(k, v)]
  | (k', v') :: r => if k =? k' then (k, v) :: r else (k', v') :: dict_set k v r
  end.

(* _enumerate_productions *)
Fixpoint enum_psid (counts : list (N * nat)) (prods : list prod) : list nat :=
  match prods with
  | [] => []
  | pr :: r =>
      let c := match assoc (lhs pr) counts with Some c => c | None => O end in
      c :: enum_psid (dict_set (lhs pr) (S c) counts) r
  end.

(* a production as written: per right-hand-side position an optional (name, op is '=') *)
Definition decl : Type := list (option (N * bool)).

(* a.index = idx for idx, a in enumerate(assignments); then
   Production.__init__: self.assignments[a.name] = a for the named ones *)
Fixpoint mk_assign_from (i : nat) (d : decl) (acc : list assignment) : list assignment :=
  match d with
  | [] => acc
  | None :: r => mk_assign_from (S i) r acc
  | Some (name, is_eq) :: r => mk_assign_from (S i) r (dict_set name (is_eq, i) acc)
  end.
Definition mk_assign (d : decl) : list assignment := mk_assign_from O d [].

(* _resolve_actions for one symbol whose fqn has no dot.
   ov_name   : action_overrides.get(symbol.name)
   aname     : symbol.action_name is given; then
   ov_aname  : action_overrides.get(symbol.action_name)
   builtin   : getattr(parglare.actions, action_name, None)
   gaction   : symbol.grammar_action *)
Inductive resolved (A : Type) : Type :=
| RAction (a : A)
| RNoAction
| RInitError.
Arguments RAction {A}. Arguments RNoAction {A}. Arguments RInitError {A}.

Definition resolve_action {A : Type} (ov_name : option A) (aname : bool) (ov_aname builtin : option A)
           (gaction : option A) (fail_on_no_resolve : bool) : resolved A :=
  let found :=
      match ov_name with
      | Some a => Some a
      | None =>
          if aname then
            match ov_aname with
            | Some a => Some a
            | None => builtin
            end
          else None
      end in
  match found with
  | Some a => RAction a
  | None =>
      if aname && fail_on_no_resolve then RInitError
      else match gaction with Some a => RAction a | None => RNoAction end
  end.

(* sanity checks after resolution (grammar.py:1158-1170) *)
Definition check_nt_action (a : sem_action) (n_prods : nat) : bool :=
  match a with
  | SList l => Nat.eqb (length l) n_prods
  | _ => true
  end.
