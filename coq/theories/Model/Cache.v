(* Model of the table cache: parglare/tables/__init__.py create_load_table (85-123),
   persist.save_table / load_table, Parser.__init__/_check_parser and
   cli.compile_get_grammar_table, as a machine over one grammar directory.

   The file system is a map grammar file -> (mtime, content version) plus the
   optional <root>.pgc with its mtime and content.  A complete .pgc holds a JSON
   value (Full j); a file left by an interrupted write is a strict byte prefix of
   a JSON array document, which json.load rejects (Broken) -- that a strict prefix
   never decodes is the one fact about the json module the model takes from the
   runtime; the harness checks it on every byte prefix of real files.  Since the
   repair of KF-C12-partial-file-not-rejected, create_load_table treats a file that
   cannot be loaded as absent.

   Everything the machine does not decide itself is a parameter: how file
   contents become a Grammar object, which files that grammar reports in
   imported_files, and create_table.  Theorems quantify over all of them.
   Definitions only. *)
From Coq Require Import NArith List Bool.
From PV Require Import Model.Persist.
Import ListNotations.
Local Open Scope N_scope.

Definition path := N.

Inductive content : Type :=
| Full (j : jtable)
| Broken.

Record fsys : Type := mkFS {
  fs_files : list (path * (N * N));      (* grammar file -> (mtime, content version) *)
  fs_cache : option (N * content)        (* <root>.pgc: (mtime, content) *)
}.

Inductive branch : Type :=
| BCreated        (* create_table ran and save_table wrote the file *)
| BCreateFailed   (* create_table raised; nothing written *)
| BLoaded.        (* load_table was called on the existing file *)

Section Machine.
  Variables G FP : Type.
  (* Grammar.from_file on the current contents of the directory *)
  Variable grammar_of : list (path * N) -> G.
  (* keys of grammar.imported_files: every file whose mtime is compared *)
  Variable imported : G -> list path.
  (* the symbol/production tables load_table and the conflict marks read *)
  Variable pg_of : G -> pgram.
  (* create_table(grammar, itemset_type, start, prefer_shifts, prefer_shifts_over_empty,
     lexical_disambiguation=...): FP is the tuple of those options *)
  Variable create_table : G -> FP -> pres ptable.

  Inductive op : Type :=
  | Construct (lr : bool) (fp : FP)   (* Parser(g, ..) if lr else GLRParser(g, ..) *)
  | Compile (fp : FP)                 (* pglr compile: force_create=True *)
  | Crash (fp : FP)                   (* a construction killed inside save_table *)
  | Edit (f : path) (v : N)           (* new content for a grammar file *)
  | Touch (f : path)                  (* new mtime for a grammar file *)
  | TouchCache                        (* new mtime for the .pgc *)
  | RemoveCache.

  Definition versions (fs : fsys) : list (path * N) :=
    map (fun e => (fst e, snd (snd e))) (fs_files fs).
  Definition mtime_of (fs : fsys) (f : path) : N :=
    match nassoc f (fs_files fs) with Some mv => fst mv | None => 0 end.
  Definition current (fs : fsys) : G := grammar_of (versions fs).

  (* for g_file_name in grammar.imported_files:
         if os.path.getmtime(g_file_name) > table_mtime: create_table_file = True *)
  Definition newer_file (fs : fsys) (g : G) (tc : N) : bool :=
    existsb (fun f => tc <? mtime_of fs f) (imported g).

  (* create_table_file *)
  Definition must_create (fs : fsys) (g : G) : bool :=
    match fs_cache fs with
    | None => true
    | Some (tc, _) => newer_file fs g tc
    end.

  (* Parser._check_parser (no dynamic_filter); GLRParser skips it *)
  Definition check_parser (lr : bool) (g : G) (t : ptable) : pres ptable :=
    if lr then
      match calc_marks (pg_of g) t with
      | Ok m => match mk_sr m with
                | _ :: _ => Raise ESRConflicts
                | [] => match mk_rr m with
                        | _ :: _ => Raise ERRConflicts
                        | [] => Ok t
                        end
                end
      | Raise e => Raise e
      end
    else Ok t.

  (* load_table(table_file_name, grammar) *)
  Definition load_cache (g : G) (c : content) : pres ptable :=
    match c with
    | Broken => Raise EJSONDecode
    | Full j => from_ser (pg_of g) j
    end.

  (* the cache-free parser: what every construction is supposed to behave like *)
  Definition fresh (lr : bool) (g : G) (fp : FP) : pres ptable :=
    pbind (create_table g fp) (check_parser lr g).

  (* create_table + save_table, then _check_parser *)
  Definition create_and_save (fs : fsys) (now : N) (lr : bool) (fp : FP) (g : G)
    : fsys * (branch * pres ptable) :=
    match create_table g fp with
    | Ok t => (mkFS (fs_files fs) (Some (now, Full (to_ser t))),
               (BCreated, check_parser lr g t))
    | Raise e => (fs, (BCreateFailed, Raise e))
    end.

  (* create_load_table followed by _check_parser, at time [now].  A cache file that
     load_table cannot turn into a table (ValueError incl. JSONDecodeError, KeyError,
     IndexError, AttributeError, TypeError -- every exception load_cache can raise) is
     treated as absent: the table is created and the file rewritten. *)
  Definition construct (fs : fsys) (now : N) (lr : bool) (fp : FP)
    : fsys * (branch * pres ptable) :=
    let g := current fs in
    if must_create fs g then create_and_save fs now lr fp g
    else
      match fs_cache fs with
      | Some (_, c) =>
          match load_cache g c with
          | Ok t => (fs, (BLoaded, check_parser lr g t))
          | Raise _ => create_and_save fs now lr fp g
          end
      | None => create_and_save fs now lr fp g      (* unreachable *)
      end.

  (* does a construction in this state reach save_table (if create_table succeeds)? *)
  Definition will_write (fs : fsys) (g : G) : bool :=
    if must_create fs g then true
    else match fs_cache fs with
         | Some (_, c) => match load_cache g c with Ok _ => false | Raise _ => true end
         | None => true
         end.

  Definition set_file (fs : fsys) (f : path) (mv : N * N) : fsys :=
    mkFS (dict_set f mv (fs_files fs)) (fs_cache fs).

  Definition step (fs : fsys) (now : N) (o : op) : fsys * option (branch * pres ptable) :=
    match o with
    | Construct lr fp => let r := construct fs now lr fp in (fst r, Some (snd r))
    | Compile fp =>
        match create_table (current fs) fp with
        | Ok t => (mkFS (fs_files fs) (Some (now, Full (to_ser t))), None)
        | Raise _ => (fs, None)
        end
    | Crash fp =>
        let g := current fs in
        if will_write fs g then
          match create_table g fp with
          | Ok _ => (mkFS (fs_files fs) (Some (now, Broken)), None)
          | Raise _ => (fs, None)
          end
        else (fs, None)
    | Edit f v => (set_file fs f (now, v), None)
    | Touch f =>
        match nassoc f (fs_files fs) with
        | Some mv => (set_file fs f (now, snd mv), None)
        | None => (fs, None)
        end
    | TouchCache =>
        match fs_cache fs with
        | Some (_, c) => (mkFS (fs_files fs) (Some (now, c)), None)
        | None => (fs, None)
        end
    | RemoveCache => (mkFS (fs_files fs) None, None)
    end.

  (* observable behaviour of a history: what each construction returned *)
  Fixpoint run_hist (fs : fsys) (h : list (N * op)) : list (pres ptable) :=
    match h with
    | [] => []
    | (now, o) :: r =>
        let s := step fs now o in
        match snd s with
        | Some br => snd br :: run_hist (fst s) r
        | None => run_hist (fst s) r
        end
    end.

  (* the same history with no cache anywhere: grammar files change, every
     construction is [fresh] *)
  Definition spec_step (fs : fsys) (now : N) (o : op) : fsys * option (pres ptable) :=
    match o with
    | Construct lr fp => (fs, Some (fresh lr (current fs) fp))
    | Edit f v => (set_file fs f (now, v), None)
    | Touch f =>
        match nassoc f (fs_files fs) with
        | Some mv => (set_file fs f (now, snd mv), None)
        | None => (fs, None)
        end
    | _ => (fs, None)
    end.

  Fixpoint spec_hist (fs : fsys) (h : list (N * op)) : list (pres ptable) :=
    match h with
    | [] => []
    | (now, o) :: r =>
        let s := spec_step fs now o in
        match snd s with
        | Some x => x :: spec_hist (fst s) r
        | None => spec_hist (fst s) r
        end
    end.

  (* full trace for the correspondence check: per step the branch, the result and
     the file system afterwards *)
  Fixpoint trace (fs : fsys) (h : list (N * op))
    : list (option (branch * pres ptable) * fsys) :=
    match h with
    | [] => []
    | (now, o) :: r =>
        let s := step fs now o in
        (snd s, fst s) :: trace (fst s) r
    end.

  (* ---- the class of histories on which the cache is transparent ----------- *)
  (* one option fingerprint for every completed construction, nobody touches the .pgc
     (interrupted writes are allowed, whatever options the killed process had) *)
  Definition op_ok (fp : FP) (o : op) : Prop :=
    match o with
    | Construct _ fp' => fp' = fp
    | Compile fp' => fp' = fp
    | Crash _ => True
    | TouchCache => False
    | Edit _ _ | Touch _ | RemoveCache => True
    end.

  (* ... and a clock that strictly advances from one step to the next *)
  Fixpoint disciplined (fp : FP) (t : N) (h : list (N * op)) : Prop :=
    match h with
    | [] => True
    | (now, o) :: r => t < now /\ op_ok fp o /\ disciplined fp now r
    end.

  Definition files_before (fs : fsys) (t : N) : Prop :=
    forall f mv, In (f, mv) (fs_files fs) -> fst mv <= t.

  (* Grammar.from_file depends only on the files it reports in imported_files *)
  Definition reads_only_imported : Prop :=
    forall vs vs',
      (forall f, In f (imported (grammar_of vs')) -> nassoc f vs = nassoc f vs') ->
      grammar_of vs = grammar_of vs'.

  (* what create_table returns is a well-formed LRTable of its grammar *)
  Definition creates_wf : Prop :=
    forall g fp t, create_table g fp = Ok t -> table_wfb (pg_of g) t = true.
End Machine.

Arguments Construct {FP} lr fp.
Arguments Compile {FP} fp.
Arguments Crash {FP} fp.
Arguments Edit {FP} f v.
Arguments Touch {FP} f.
Arguments TouchCache {FP}.
Arguments RemoveCache {FP}.
