(* Model of the front-end sugar of parglare/grammar.py:
     - groups turned into numbered rules  (act_production_rule, act_production_group)
     - repetition / optional / separator / greedy operators resolved onto helper rules
       (Grammar._add_resolve_all_production_symbols, PGFile._resolve_ref,
        _make_multiplicity_symbol, make_multiplicity_fqn)
     - the built-in actions attached to the helper rules (parglare/actions.py)
   Definitions only.

   One traversal [expand], parameterised by the equality used for the dictionaries
   keyed by symbol *name* (symbols_by_name, nonterminals):
     - name mode   : two symbols are "the same entry" iff their generated names are
                     equal strings -- this is what the impl does (faithful, with the
                     sharing and the collisions this implies);
     - struct mode : every distinct (base, operator, separator, greedy) combination and
                     every group is its own symbol -- the documented expansion with
                     fresh helper names. *)
From Coq Require Import NArith List Bool.
From PV Require Import Spec.Cfg.
Import ListNotations.
Local Open Scope N_scope.

(* ---- names --------------------------------------------------------------- *)
Definition name := list N.                       (* character codes *)
Definition name_eqb (a b : name) : bool := list_eqb N.eqb a b.

Fixpoint dec_digits (fuel : nat) (n : N) (acc : list N) : list N :=
  match fuel with
  | O => acc
  | S f => let acc' := (48 + n mod 10) :: acc in
           if n / 10 =? 0 then acc' else dec_digits f (n / 10) acc'
  end.
Definition decimal (n : N) : name := dec_digits (S (N.to_nat (N.size n))) n [].

(* ---- AST of the PG language restricted to what C13 is about ------------------ *)
Inductive mult := MOne | MOpt | MStar | MPlus.
Definition mult_eqb (a b : mult) : bool :=
  match a, b with
  | MOne, MOne | MOpt, MOpt | MStar, MStar | MPlus, MPlus => true
  | _, _ => false
  end.

Record pmeta := mkMeta { pm_assoc : N; pm_prior : N; pm_nops : bool; pm_nopse : bool }.

Inductive elem :=
| ERef (n : name) (m : mult) (g : bool) (sep : option name)
| EGroup (body : alts) (m : mult) (g : bool) (sep : option name)
with alts := ANil | ACons (es : elems) (meta : pmeta) (rest : alts)
with elems := ENil | ECons (e : elem) (rest : elems).

Record rule := mkRule { ru_name : name; ru_alts : alts }.
(* a grammar: rules in textual order + names of all terminals (declared, then inline) *)
Record ast := mkAst { a_rules : list rule; a_terms : list name }.

(* ---- symbols --------------------------------------------------------------- *)
Inductive bsym := BU (n : name) | BG (r : name) (i : N).      (* user symbol | i-th group of rule r *)
Record hkey := HK { hb : bsym; hm : mult; hs : option name; hg : bool }.
Inductive dsym := DB (b : bsym) | DH (k : hkey).

Definition oname_eqb (a b : option name) : bool :=
  match a, b with
  | None, None => true
  | Some x, Some y => name_eqb x y
  | _, _ => false
  end.
Definition bsym_eqb (a b : bsym) : bool :=
  match a, b with
  | BU x, BU y => name_eqb x y
  | BG r i, BG s j => name_eqb r s && (i =? j)
  | _, _ => false
  end.
Definition hkey_eqb (a b : hkey) : bool :=
  bsym_eqb (hb a) (hb b) && mult_eqb (hm a) (hm b) && oname_eqb (hs a) (hs b) && Bool.eqb (hg a) (hg b).
(* structural equality: object identity of symbols / struct-mode dictionary key *)
Definition deqb (a b : dsym) : bool :=
  match a, b with
  | DB x, DB y => bsym_eqb x y
  | DH x, DH y => hkey_eqb x y
  | _, _ => false
  end.

(* generated names: f"{name}_g{n}", make_multiplicity_fqn, f"{symbol_name}_g" *)
Definition c_us : N := 95.   (* _ *)
Definition c_g : N := 103.   (* g *)
Definition bname (b : bsym) : name :=
  match b with
  | BU n => n
  | BG r i => r ++ [c_us; c_g] ++ decimal i
  end.
Definition mult_suffix (m : mult) : name :=
  match m with
  | MStar => [48]
  | MPlus => [49]
  | MOpt => [111; 112; 116]
  | MOne => []
  end.
Definition hname (k : hkey) : name :=
  match hm k with
  | MOne => bname (hb k)
  | m => bname (hb k) ++ [c_us] ++ mult_suffix m
         ++ (match hs k with Some s => c_us :: s | None => [] end)
         ++ (match m with MPlus => if hg k then [c_us; c_g] else [] | _ => [] end)
  end.
Definition nm (d : dsym) : name :=
  match d with DB b => bname b | DH k => hname k end.
Definition neqb (a b : dsym) : bool := name_eqb (nm a) (nm b).

(* ---- groups -> numbered rules ------------------------------------------------ *)
(* A flat reference: the base is a user name or a group of the current rule. *)
Record fref := mkFref { fr_base : bsym; fr_mult : mult; fr_greedy : bool; fr_sep : option name }.
Record fprod := mkFprod { fp_lhs : bsym; fp_rhs : list fref; fp_meta : pmeta }.

Fixpoint count_groups_e (e : elem) : N :=
  match e with
  | ERef _ _ _ _ => 0
  | EGroup body _ _ _ => 1 + count_groups_a body
  end
with count_groups_a (a : alts) : N :=
  match a with
  | ANil => 0
  | ACons es _ rest => count_groups_es es + count_groups_a rest
  end
with count_groups_es (es : elems) : N :=
  match es with
  | ENil => 0
  | ECons e rest => count_groups_e e + count_groups_es rest
  end.

(* The PG parser reduces groups innermost-first, left to right, appending to
   [context.extra.groups]; act_production_rule pops from the END and numbers them
   counter+1, counter+2, ...: the group reduced i-th (0-based) out of k gets number
   base + k - i.  [idx] is the running count of groups reduced so far; the result
   carries the productions of each group in reduction order. *)
Definition gacc := (N * list (N * list (list fref * pmeta)))%type.

Fixpoint flat_e (r : name) (top : N) (e : elem) (acc : gacc) : fref * gacc :=
  match e with
  | ERef n m g sep => (mkFref (BU n) m g sep, acc)
  | EGroup body m g sep =>
      let '(balts, (idx, gs)) := flat_a r top body acc in
      let num := top - idx in
      (mkFref (BG r num) m g sep, (idx + 1, gs ++ [(num, balts)]))
  end
with flat_a (r : name) (top : N) (a : alts) (acc : gacc) : list (list fref * pmeta) * gacc :=
  match a with
  | ANil => ([], acc)
  | ACons es meta rest =>
      let '(refs, acc1) := flat_es r top es acc in
      let '(more, acc2) := flat_a r top rest acc1 in
      ((refs, meta) :: more, acc2)
  end
with flat_es (r : name) (top : N) (es : elems) (acc : gacc) : list fref * gacc :=
  match es with
  | ENil => ([], acc)
  | ECons e rest =>
      let '(f, acc1) := flat_e r top e acc in
      let '(fs, acc2) := flat_es r top rest acc1 in
      (f :: fs, acc2)
  end.

(* per-rule-name group counter (collections.Counter keyed by rule name) *)
Fixpoint counter_get (c : list (name * N)) (r : name) : N :=
  match c with
  | [] => 0
  | (k, v) :: rest => if name_eqb k r then v else counter_get rest r
  end.
Fixpoint counter_set (c : list (name * N)) (r : name) (v : N) : list (name * N) :=
  match c with
  | [] => [(r, v)]
  | (k, w) :: rest => if name_eqb k r then (k, v) :: rest else (k, w) :: counter_set rest r v
  end.

Definition flat_rule (ru : rule) (cnt : list (name * N)) : list fprod * list (name * N) :=
  let r := ru_name ru in
  let base := counter_get cnt r in
  let k := count_groups_a (ru_alts ru) in
  let '(own, (_, gs)) := flat_a r (base + k) (ru_alts ru) (0, []) in
  let own_prods := map (fun am => mkFprod (BU r) (fst am) (snd am)) own in
  (* popped from the end: highest reduction index first = lowest number first *)
  let gprods := flat_map (fun ng => map (fun am => mkFprod (BG r (fst ng)) (fst am) (snd am)) (snd ng))
                         (rev gs) in
  (own_prods ++ gprods, counter_set cnt r (base + k)).

Fixpoint flat_rules (rs : list rule) (cnt : list (name * N)) : list fprod :=
  match rs with
  | [] => []
  | ru :: rest => let '(ps, cnt') := flat_rule ru cnt in ps ++ flat_rules rest cnt'
  end.

Definition flatten (a : ast) : list fprod := flat_rules (a_rules a) [].

(* ---- resolution of references onto helper rules -------------------------------- *)
(* action attached to a production (index into the action list of its symbol) *)
Definition ACT_DEFAULT : N := 0.        (* no action: list of children / token text *)
Definition ACT_COLLECT_FIRST : N := 1.
Definition ACT_PASS_NOCHANGE : N := 2.
Definition ACT_COLLECT_FIRST_SEP : N := 3.
Definition ACT_PASS_SINGLE : N := 4.
Definition ACT_PASS_NONE : N := 5.
Definition ACT_STAR : N := 6.           (* the closure in _make_multiplicity_symbol: nodes[0] or [] *)

Record oprod := mkOprod { op_lhs : dsym; op_rhs : list dsym; op_assoc : N; op_prior : N;
                          op_nops : bool; op_nopse : bool; op_act : N }.

Definition A_NONE : N := 0.
Definition A_RIGHT : N := 2.
Definition PRIOR_DEFAULT : N := 10.

Definition hprod (l : dsym) (r : list dsym) (assoc : N) (nops : bool) (act : N) : oprod :=
  mkOprod l r assoc PRIOR_DEFAULT nops false act.

Record xstate := mkX {
  x_tab : list dsym;                      (* symbols_by_name, most recent first *)
  x_nts : list dsym;                      (* Grammar.nonterminals (keys), in insertion order *)
  x_out : list oprod;                     (* productions appended by add_productions *)
  x_pend : list (dsym * list oprod)       (* NonTerminal.productions of created helper symbols *)
}.

Section Expand.
  (* equality of dictionary keys (names) and the key under which a reference with
     multiplicity is looked up (Reference.multiplicity_fqn) *)
  Variable eqb : dsym -> dsym -> bool.
  Variable lkey : hkey -> dsym.

  Definition find_sym (k : dsym) (tab : list dsym) : option dsym := find (eqb k) tab.
  Definition mem_sym (k : dsym) (l : list dsym) : bool := existsb (eqb k) l.

  Definition register (k : dsym) (ps : list oprod) (st : xstate) : xstate :=
    mkX (k :: x_tab st) (x_nts st) (x_out st) ((k, ps) :: x_pend st).

  Fixpoint pending (k : dsym) (pend : list (dsym * list oprod)) : option (list oprod) :=
    match pend with
    | [] => None
    | (d, ps) :: rest => if deqb d k then Some ps else pending k rest
    end.

  (* _make_multiplicity_symbol; [bs]/[ss] are the resolved base / separator symbols *)
  Definition make_mult (base : bsym) (m : mult) (g : bool) (sep : option name)
             (bs : dsym) (ss : option dsym) (st : xstate) : option (dsym * xstate) :=
    let assoc := if g then A_RIGHT else A_NONE in
    match m with
    | MOne => Some (bs, st)
    | MOpt =>
        match sep with
        | Some _ => None                              (* GrammarError *)
        | None =>
            let k := DH (HK base MOpt None g) in
            Some (k, register k [hprod k [bs] A_NONE false ACT_PASS_SINGLE;
                                 hprod k [] assoc false ACT_PASS_NONE] st)
        end
    | _ =>
        let k1 := DH (HK base MPlus sep false) in
        let '(s1, st1) :=
          match find_sym k1 (x_tab st) with
          | Some s => (s, st)
          | None =>
              let ps := match ss with
                        | Some s => [hprod k1 [k1; s; bs] A_NONE false ACT_COLLECT_FIRST_SEP;
                                     hprod k1 [bs] A_NONE false ACT_PASS_NOCHANGE]
                        | None => [hprod k1 [k1; bs] A_NONE false ACT_COLLECT_FIRST;
                                   hprod k1 [bs] A_NONE false ACT_PASS_NOCHANGE]
                        end in
              (k1, register k1 ps st)
          end in
        match m with
        | MStar =>
            let k0 := DH (HK base MStar sep g) in
            Some (k0, register k0 [hprod k0 [s1] assoc true ACT_STAR;
                                   hprod k0 [] assoc false ACT_STAR] st1)
        | _ =>
            if g then
              let kg := DH (HK base MPlus sep true) in
              Some (kg, register kg [hprod kg [s1] A_RIGHT false ACT_PASS_SINGLE] st1)
            else Some (s1, st1)
        end
    end.

  (* PGFile._resolve_ref *)
  Definition resolve (r : fref) (st : xstate) : option (dsym * xstate) :=
    let ssr := match fr_sep r with
               | None => Some None
               | Some s => match find_sym (DB (BU s)) (x_tab st) with
                           | None => None
                           | Some x => Some (Some x)
                           end
               end in
    match ssr with
    | None => None
    | Some ss =>
        match find_sym (DB (fr_base r)) (x_tab st) with
        | None => None                                 (* Unknown symbol *)
        | Some bs =>
            match fr_mult r with
            | MOne => Some (bs, st)
            | m =>
                match find_sym (lkey (HK (fr_base r) m (fr_sep r) (fr_greedy r))) (x_tab st) with
                | Some s => Some (s, st)
                | None => make_mult (fr_base r) m (fr_greedy r) (fr_sep r) bs ss st
                end
            end
        end
    end.

  (* add_productions on a resolved RHS element: a non-terminal object whose name is
     not yet a key of Grammar.nonterminals contributes its productions, recursively *)
  Fixpoint add_sym (fuel : nat) (k : dsym) (st : xstate) : xstate :=
    match fuel with
    | O => st
    | S f =>
        match pending k (x_pend st) with
        | None => st                                   (* terminal or user non-terminal *)
        | Some ps =>
            if mem_sym k (x_nts st) then st
            else
              let st1 := mkX (x_tab st) (x_nts st ++ [k]) (x_out st ++ ps) (x_pend st) in
              fold_left (fun s p => fold_left (fun s' x => add_sym f x s') (op_rhs p) s) ps st1
        end
    end.

  Fixpoint resolve_rhs (rs : list fref) (st : xstate) : option (list dsym * xstate) :=
    match rs with
    | [] => Some ([], st)
    | r :: rest =>
        match resolve r st with
        | None => None
        | Some (s, st1) =>
            match resolve_rhs rest (add_sym 3 s st1) with
            | None => None
            | Some (ss, st2) => Some (s :: ss, st2)
            end
        end
    end.

  Fixpoint resolve_prods (ps : list fprod) (st : xstate) : option (list oprod * xstate) :=
    match ps with
    | [] => Some ([], st)
    | p :: rest =>
        match resolve_rhs (fp_rhs p) st with
        | None => None
        | Some (rhs, st1) =>
            match resolve_prods rest st1 with
            | None => None
            | Some (os, st2) =>
                let m := fp_meta p in
                Some (mkOprod (DB (fp_lhs p)) rhs (pm_assoc m) (pm_prior m) (pm_nops m) (pm_nopse m)
                              ACT_DEFAULT :: os, st2)
            end
        end
    end.

  Fixpoint dedup (l : list dsym) (seen : list dsym) : list dsym :=
    match l with
    | [] => []
    | x :: rest => if mem_sym x seen then dedup rest seen else x :: dedup rest (x :: seen)
    end.

  Definition D_EMPTY : dsym := DB (BU [69; 77; 80; 84; 89]).
  Definition D_STOP : dsym := DB (BU [83; 84; 79; 80]).

  (* result: productions (user ones, then the appended helper ones) and the keys of
     Grammar.nonterminals in order; None = GrammarError *)
  Definition expand_flat (fps : list fprod) (terms : list name) : option (list oprod * list dsym) :=
    let tsyms := map (fun n => DB (BU n)) terms in
    let lhss := dedup (map (fun p => DB (fp_lhs p)) fps) [] in
    if existsb (fun l => mem_sym l tsyms) lhss then None     (* rule already defined as terminal *)
    else
      let st0 := mkX (D_STOP :: D_EMPTY :: rev tsyms ++ rev lhss) lhss [] [] in
      match resolve_prods fps st0 with
      | None => None
      | Some (ups, st) => Some (ups ++ x_out st, x_nts st)
      end.
End Expand.

(* Reference.multiplicity_fqn ignores the greedy flag; only "+!" has a name ("_g")
   that differs from what is looked up *)
Definition lkey_name (k : hkey) : dsym :=
  match hm k with
  | MPlus => DH (HK (hb k) MPlus (hs k) false)
  | _ => DH k
  end.
Definition lkey_struct (k : hkey) : dsym := DH k.

(* what the impl builds (faithful) *)
Definition model_expand (a : ast) : option (list oprod * list dsym) :=
  expand_flat neqb lkey_name (flatten a) (a_terms a).
(* the documented expansion: one fresh helper rule per distinct use *)
Definition doc_expand (a : ast) : option (list oprod * list dsym) :=
  expand_flat deqb lkey_struct (flatten a) (a_terms a).

(* ---- all symbols a run can touch, and the no-collision condition ---------------- *)
Definition keys_of_ref (r : fref) : list dsym :=
  DB (fr_base r)
  :: (match fr_sep r with Some s => [DB (BU s)] | None => [] end)
  ++ (match fr_mult r with
      | MOne => []
      | MOpt => [DH (HK (fr_base r) MOpt (fr_sep r) (fr_greedy r));
                 DH (HK (fr_base r) MOpt None (fr_greedy r))]
      | MStar => [DH (HK (fr_base r) MStar (fr_sep r) (fr_greedy r));
                  DH (HK (fr_base r) MPlus (fr_sep r) false)]
      | MPlus => [DH (HK (fr_base r) MPlus (fr_sep r) (fr_greedy r));
                  DH (HK (fr_base r) MPlus (fr_sep r) false)]
      end).
Definition all_keys (fps : list fprod) (terms : list name) : list dsym :=
  D_STOP :: D_EMPTY :: map (fun n => DB (BU n)) terms
  ++ flat_map (fun p => DB (fp_lhs p) :: flat_map keys_of_ref (fp_rhs p)) fps.

Definition plus_greedy_free (fps : list fprod) : bool :=
  forallb (fun p => forallb (fun r => negb (match fr_mult r with MPlus => fr_greedy r | _ => false end))
                            (fp_rhs p)) fps.

(* no two distinct symbols of the grammar (user symbols, groups, helper rules) carry the
   same generated name, and no "+!" (whose lookup name differs from its own name) *)
Definition no_collision_flat (fps : list fprod) (terms : list name) : bool :=
  let ks := all_keys fps terms in
  forallb (fun a => forallb (fun b => Bool.eqb (neqb a b) (deqb a b)) ks) ks
  && plus_greedy_free fps.
Definition no_collision (a : ast) : bool := no_collision_flat (flatten a) (a_terms a).

(* ---- built-in actions and the value of a tree ------------------------------------ *)
Inductive val := VNone | VTok (y s e : N) | VList (l : list val).

Definition is_none (v : val) : bool := match v with VNone => true | _ => false end.

(* parglare/actions.py; ill-typed applications (cannot arise from helper rules) give VNone *)
Definition apply_action (act : N) (args : list val) : val :=
  match act with
  | 1 => (* collect_first: e1, e2 = nodes; if e2 is not None: e1 = list(e1); e1.append(e2) *)
      match args with
      | [VList l; e2] => if is_none e2 then VList l else VList (l ++ [e2])
      | _ => VNone
      end
  | 2 => VList args                 (* pass_nochange: returns the list of sub-results *)
  | 3 => match args with
         | [VList l; _; e2] => if is_none e2 then VList l else VList (l ++ [e2])
         | _ => VNone
         end
  | 4 => match args with v :: _ => v | [] => VNone end      (* pass_single: nodes[0] *)
  | 5 => VNone                                               (* pass_none *)
  | 6 => match args with v :: _ => v | [] => VList [] end   (* nodes[0] if nodes else [] *)
  | _ => match args with           (* default reduce action: a single sub-result is unpacked *)
         | [v] => v
         | _ => VList args
         end
  end.

(* call_actions over a tree; [acts p] is the action of production p *)
Fixpoint eval (acts : N -> N) (t : tree) : val :=
  match t with
  | TLeaf y s e => VTok y s e
  | TNode p _ _ cs => apply_action (acts p) (map (eval acts) cs)
  end.

(* ---- grammar isomorphism validator ----------------------------------------------- *)
(* Two expansions are compared production by production (same order): same flags, same
   action, and the symbols correspond under a one-to-one renaming that is built on the
   fly. *)
Fixpoint ren_get (ren : list (dsym * name)) (d : dsym) : option name :=
  match ren with
  | [] => None
  | (k, v) :: rest => if deqb k d then Some v else ren_get rest d
  end.
Fixpoint ren_rev (ren : list (dsym * name)) (n : name) : option dsym :=
  match ren with
  | [] => None
  | (k, v) :: rest => if name_eqb v n then Some k else ren_rev rest n
  end.
(* extend the bijection with d <-> n or fail *)
Definition ren_add (ren : list (dsym * name)) (d : dsym) (n : name) : option (list (dsym * name)) :=
  match ren_get ren d, ren_rev ren n with
  | Some n', _ => if name_eqb n' n then Some ren else None
  | None, Some _ => None
  | None, None => Some ((d, n) :: ren)
  end.
Fixpoint ren_adds (ren : list (dsym * name)) (ds : list dsym) (ns : list name)
  : option (list (dsym * name)) :=
  match ds, ns with
  | [], [] => Some ren
  | d :: ds', n :: ns' =>
      match ren_add ren d n with
      | None => None
      | Some ren' => ren_adds ren' ds' ns'
      end
  | _, _ => None
  end.

(* a production as the impl shows it: names and flags *)
Record nprod := mkNprod { np_lhs : name; np_rhs : list name; np_assoc : N; np_prior : N;
                          np_nops : bool; np_nopse : bool; np_act : N }.

Definition render (p : oprod) : nprod :=
  mkNprod (nm (op_lhs p)) (map nm (op_rhs p)) (op_assoc p) (op_prior p) (op_nops p) (op_nopse p)
          (op_act p).

Fixpoint iso_prods (ren : list (dsym * name)) (ds : list oprod) (ns : list nprod)
  : option (list (dsym * name)) :=
  match ds, ns with
  | [], [] => Some ren
  | d :: ds', n :: ns' =>
      if (op_assoc d =? np_assoc n) && (op_prior d =? np_prior n)
         && Bool.eqb (op_nops d) (np_nops n) && Bool.eqb (op_nopse d) (np_nopse n)
         && (op_act d =? np_act n)
      then match ren_adds ren (op_lhs d :: op_rhs d) (np_lhs n :: np_rhs n) with
           | None => None
           | Some ren' => iso_prods ren' ds' ns'
           end
      else None
  | _, _ => None
  end.

Definition iso_check (ds : list oprod) (ns : list nprod) : bool :=
  match iso_prods [] ds ns with Some _ => true | None => false end.

(* the documented expansion without the effect of the greedy marks: the helper rules keep
   their identity (so a greedy repetition can still be recognised in a tree) but carry no
   associativity -- plain BNF as in docs/grammar_language.md *)
Definition strip_assoc (p : oprod) : oprod :=
  if op_act p =? ACT_DEFAULT then p
  else mkOprod (op_lhs p) (op_rhs p) A_NONE (op_prior p) (op_nops p) (op_nopse p) (op_act p).
Definition doc_expand_nongreedy (a : ast) : option (list oprod * list dsym) :=
  match doc_expand a with
  | None => None
  | Some (ps, nts) => Some (map strip_assoc ps, nts)
  end.

(* classification of a failed no_collision (mechanism predicates of the known findings) *)
Definition strip_g (d : dsym) : dsym :=
  match d with
  | DH k => DH (HK (hb k) (hm k) (hs k) false)
  | _ => d
  end.
(* two symbols that differ in more than the greedy flag carry the same name *)
Definition clash_name (ks : list dsym) : bool :=
  existsb (fun a => existsb (fun b => neqb a b && negb (deqb (strip_g a) (strip_g b))) ks) ks.
(* a greedy and a non-greedy use of the same base/operator/separator share one name *)
Definition clash_greedy (ks : list dsym) : bool :=
  existsb (fun a => existsb (fun b => neqb a b && negb (deqb a b) && deqb (strip_g a) (strip_g b)) ks) ks.
Definition collision_kind (a : ast) : N :=
  let fps := flatten a in
  let ks := all_keys fps (a_terms a) in
  (if clash_name ks then 1 else 0) + (if clash_greedy ks then 2 else 0)
  + (if plus_greedy_free fps then 0 else 4).
