(* C01 -- GLR accepts exactly the grammar's language and returns only valid
   derivations.  Statements only. *)
From Coq Require Import NArith List Bool.
From PV Require Import Spec.Cfg Model.Forest Model.Table Spec.NLR Validators.TableStruct
  Validators.ForestSound Proofs.ForestProofs Proofs.ForestSoundProofs.
Import ListNotations.
Local Open Scope N_scope.

(* Every tree obtainable from a forest that passes the (local, per packed node)
   check forest_ok -- however many trees there are, however they share nodes -- is a
   derivation tree of the input: each interior node applies a production of the grammar
   to its children in order, the root is the start symbol, spans are nested and ordered,
   and the leaves read left to right are tokens of the input, each matched by its
   recognizer, starting after the leading layout, consecutive ones separated by layout
   only and (consume_input) followed by layout only. *)
Theorem C01_forest_valid :
  forall (g : grammar) (tokok : N -> N -> N -> bool) (sk : N -> N) (strict : bool)
         (start pos0 in_len : N) (consume : bool) (F : forest),
    forest_ok g tokok sk strict start pos0 in_len consume F = true ->
    forall t, In t (root_trees F) ->
      wf_tree g t /\ root_sym g t = Some (NT start) /\ (strict = true -> spans_ok t) /\
      chain_ok sk (leaves t) /\ All (leaf_ok tokok) (leaves t) /\
      match bounds (leaves t) with
      | None => consume = true -> sk pos0 = in_len
      | Some (fs, le) => fs = sk pos0 /\ le <= in_len /\ (consume = true -> sk le = in_len)
      end.
Proof. exact forest_valid. Qed.
Print Assumptions C01_forest_valid.

(* Cyclic forests (infinitely many trees): the summaries per packed node are given as a
   certificate and only checked for local consistency (forest_ok_labelled_full); then EVERY
   finite tree that unfolds from the root -- choose one alternative per visited node, through
   any cycles -- is a derivation tree of the input. *)
Theorem C01_cyclic_forest_valid :
  forall (g : grammar) (tokok : N -> N -> N -> bool) (sk : N -> N) (strict : bool)
         (start pos0 in_len : N) (consume : bool) (F : forest) (labels : list (option nsum)),
    forest_ok_labelled_full g tokok sk strict start pos0 in_len consume F labels = true ->
    forall t, unfolds F (pred (length F)) t ->
      wf_tree g t /\ root_sym g t = Some (NT start) /\ (strict = true -> spans_ok t) /\
      chain_ok sk (leaves t) /\ All (leaf_ok tokok) (leaves t) /\
      match bounds (leaves t) with
      | None => consume = true -> sk pos0 = in_len
      | Some (fs, le) => fs = sk pos0 /\ le <= in_len /\ (consume = true -> sk le = in_len)
      end.
Proof. exact forest_labelled_full_valid. Qed.
Print Assumptions C01_cyclic_forest_valid.

(* the single-tree checker behind it *)
Theorem C01_tree_valid :
  forall g tokok sk strict t sm, tsum g tokok sk strict t = Some sm -> good g tokok sk strict t sm.
Proof. exact tsum_sound. Qed.
Print Assumptions C01_tree_valid.

(* whatever a GLR driver does with a structurally valid table, an accepting run of
   the nondeterministic LR machine yields a derivation of the shifted tokens *)
Theorem C01_nlr_sound :
  forall (g : grammar) (tb : table) (start : N) (look : N -> N -> N -> N -> Prop),
    table_struct g tb start = true ->
    forall pos d c t,
      nsteps g tb look (init_cfg pos d) c -> naccepts tb look c t ->
      wf_tree g t /\ root_sym g t = Some (NT start) /\ leaves t = c_trace c.
Proof. exact nlr_sound. Qed.
Print Assumptions C01_nlr_sound.

(* FULL STATEMENT NOT PROVED (partial): "GLRParser.parse returns a forest iff the input
   is a sentence" needs a model of the GLR driver and a completeness proof of its
   exploration; the check decides that direction per case with a reference recognizer
   whose derivations are certified by tree_ok (C04_tree_ok_iff). *)

(* non-vacuity: the two trees of n+n+n *)
Definition gE : grammar := [mkProd 0 [NT 1]; mkProd 1 [NT 1; T 1; NT 1]; mkProd 1 [T 0]].
Definition F_amb : forest :=
  [ [ATerm 0 0 1]; [ATerm 1 1 2]; [ATerm 0 2 3]; [ATerm 1 3 4]; [ATerm 0 4 5];
    [ANT 2 0 1 [0%nat]]; [ANT 2 2 3 [2%nat]]; [ANT 2 4 5 [4%nat]];
    [ANT 1 0 3 [5;1;6]%nat]; [ANT 1 2 5 [6;3;7]%nat];
    [ANT 1 0 5 [8;3;7]%nat; ANT 1 0 5 [5;1;9]%nat] ].
Definition tok5 (y s e : N) : bool :=
  (e =? s + 1) && (if (s =? 1) || (s =? 3) then y =? 1 else y =? 0).
Example C01_nonvacuous :
  forest_ok gE tok5 (fun p => p) true 1 0 5 true F_amb = true /\ length (root_trees F_amb) = 2%nat.
Proof. vm_compute. split; reflexivity. Qed.

(* ---- the GLR driver model (Model/GLR.v: GLRParser.parse, _find_lookaheads, _actor,
   _do_reductions, _reduce, _do_shifts, GSSNode, Parent, Forest.__init__; compared with the
   implementation on every run of C02/C17, harness/lib/glrcorr.py) -------------------------- *)
From PV Require Import Model.Scan Model.Parser Model.GLR Spec.GLRSpec Proofs.GLRProofs Proofs.GLRWitness
  Proofs.GLRWitnessData.

(* Soundness of the driver, for ALL tables passing table_struct, ALL scanners (terminal data,
   recognizer oracle rx, consume_input, lexical disambiguation), layout skippers, iteration
   orders of the revisit set, start positions and fuel: every tree that unfolds from the root
   of the returned forest -- through any sharing, any cycle, any of the driver's merges of
   links under one "<frontier>_<state>" id -- is a derivation tree of the grammar rooted in
   the start symbol.  Proof: a GSS invariant over node states (Proofs/GLRProofs.v) preserved
   by every step of the machine. *)
Theorem C01_glr_model_sound :
  forall (g : grammar) (tb : table) (start : N),
    table_struct g tb start = true ->
    forall (terms : list term_info) (rx : N -> N -> option N) (in_len stop_id : N)
           (consume lexdis : bool) (skipws : N -> skres) (rorder : list nat -> list nat -> list nat)
           (fuel : nat) (pos : N) (nodes : forest) (root : nat),
      glr_parse g tb terms rx in_len stop_id consume lexdis skipws rorder fuel pos = GLRForest nodes root ->
      forall t, unfolds (glr_forest nodes root) (pred (length (glr_forest nodes root))) t ->
                wf_tree g t /\ root_sym g t = Some (NT start).
Proof. exact glr_sound. Qed.
Print Assumptions C01_glr_model_sound.

(* the same for the assembled parser (scanner of Model/Scan.v, ws or LAYOUT sub-parser,
   CPython set order) that the correspondence check runs *)
Theorem C01_glr_model_sound_full :
  forall (c : pconf) (inp : pinput) (fuel : nat) (pos start : N) (nodes : forest) (root : nat),
    table_struct (pc_g c) (pc_tb c) start = true ->
    glr_parse_full c inp fuel pos = GLRForest nodes root ->
    forall t, unfolds (glr_forest nodes root) (pred (length (glr_forest nodes root))) t ->
              wf_tree (pc_g c) t /\ root_sym (pc_g c) t = Some (NT start).
Proof. exact glr_full_sound. Qed.
Print Assumptions C01_glr_model_sound_full.

(* FULL STATEMENT, FALSE OF THE FAITHFUL MODEL (two refutations follow): "the model returns a
   forest iff the input is a sentence, and the leaves of every tree of the forest are a
   tokenisation of the input" (i.e. the forest passes forest_ok).
   (1) a sentence is rejected (KF-C01-glr-false-reject: grammar S: A S A | EMPTY;
       A: S S | A 'b' | 'a' 'b' S;  LALR, input "b"): the model returns GLRReject although a
       derivation certified by the verified checker valid_parse/tsum exists. *)
Theorem C01_glr_model_false_reject_refuted :
  exists (c : pconf) (inp : pinput) (fuel : nat) (start : N) (t : tree),
    pc_consume c = true /\
    table_struct (pc_g c) (pc_tb c) start = true /\
    glr_parse_full c inp fuel 0 = GLRReject /\
    valid_parse c inp start 0 t = true /\
    wf_tree (pc_g c) t /\ root_sym (pc_g c) t = Some (NT start).
Proof. exact glr_model_false_reject. Qed.
Print Assumptions C01_glr_model_false_reject_refuted.

(* (2) a tree of the returned forest whose leaves are NOT a tokenisation of the input
       (KF-C01-glr-invalid-tree-overlap: S: AA | AA A | S S; A: 'a'; AA: 'aa'; SLR, "aaaaaa":
       the leaves aa[0,2) a[2,3) aa[4,6) skip the character at 3) *)
Theorem C01_glr_model_overlap_refuted :
  exists (c : pconf) (inp : pinput) (fuel : nat) (start : N) (nodes : forest) (root : nat) (t : tree),
    pc_consume c = true /\
    table_struct (pc_g c) (pc_tb c) start = true /\
    glr_parse_full c inp fuel 0 = GLRForest nodes root /\
    unfolds (glr_forest nodes root) (pred (length (glr_forest nodes root))) t /\
    ~ chain_ok (skip_ws (pc_ws c) inp) (leaves t).
Proof. exact glr_model_overlap. Qed.
Print Assumptions C01_glr_model_overlap_refuted.

(* Tokenisation, for ALL tables, scanners, inputs, set orders, positions, fuel and both
   settings of consume_input, under the condition that keeps the heads of one frontier in step: all
   tokens found at one input position by any two states have one length (stated on the token
   lists the scanner model returns, so a lexical disambiguation that restores uniformity
   counts); STOP has no recognizer match and is never shifted; ACCEPT stands in the STOP column
   only; the layout skipper [sk] never retreats.  Then every tree of the returned forest has
   leaves that begin right after the leading layout, are each matched by their recognizer and
   follow one another separated by layout only (a tokenisation of a prefix of the input: C17);
   with consume_input on only layout follows the last one.
   Together with C01_glr_model_sound: every tree is a derivation tree OF THE INPUT.
   Without the length condition the statement is false (C01_glr_model_overlap_refuted).
   Proof: a second invariant (Proofs/GLRTokProofs.v) assigning a raw position to every
   frontier number; frontier numbers stand in for node identity because links are keyed by
   "<frontier>_<state>". *)
From PV Require Import Proofs.GLRTokProofs Proofs.GLRTokFull.
Theorem C01_glr_model_tokenisation :
  forall (g : grammar) (tb : table) (start : N),
    table_struct g tb start = true ->
    forall (terms : list term_info) (rx : N -> N -> option N) (in_len stop_id : N)
           (consume lexdis : bool)
           (skipws : N -> skres) (rorder : list nat -> list nat -> list nat) (sk : N -> N),
      (forall p q, skipws p = SkOk q -> q = sk p) ->
      (forall p, p <= sk p) ->
      (forall p, rx stop_id p = None) ->
      (forall s s', ~ In (Shift s') (cell tb s stop_id)) ->
      (forall s y, In Accept (cell tb s y) -> y = stop_id) ->
      (forall s s' p y l y' l',
         In (y, l) (tokens_at tb terms rx in_len stop_id consume lexdis s p) ->
         In (y', l') (tokens_at tb terms rx in_len stop_id consume lexdis s' p) ->
         y <> stop_id -> y' <> stop_id -> l = l') ->
      forall (fuel : nat) (pos : N) (nodes : forest) (root : nat),
        glr_parse g tb terms rx in_len stop_id consume lexdis skipws rorder fuel pos = GLRForest nodes root ->
        forall t, unfolds (glr_forest nodes root) (pred (length (glr_forest nodes root))) t ->
          chain_ok sk (leaves t) /\ All (leaf_ok (tokok rx)) (leaves t) /\
          match bounds (leaves t) with
          | None => consume = true -> sk pos = in_len
          | Some (fs, le) => fs = sk pos /\ (consume = true -> le <= in_len /\ sk le = in_len)
          end.
Proof. exact glr_tok_sound. Qed.
Print Assumptions C01_glr_model_tokenisation.

(* the assembled parser under boolean conditions the harness evaluates on every
   correspondence case (command 212): consume_input on, ws layout, and glr_tok_checks =
   stop_row_zero && no_stop_shift && accept_only_stop && rx_uniform (no two terminals match
   with different lengths at one position of this input).  Conclusion: the full C01 statement
   for every tree of the model's forest. *)
Theorem C01_glr_model_valid_full :
  forall (c : pconf) (inp : pinput) (fuel : nat) (pos start : N) (nodes : forest) (root : nat),
    table_struct (pc_g c) (pc_tb c) start = true ->
    glr_tok_checks c inp = true ->
    glr_parse_full c inp fuel pos = GLRForest nodes root ->
    forall t, unfolds (glr_forest nodes root) (pred (length (glr_forest nodes root))) t ->
      wf_tree (pc_g c) t /\ root_sym (pc_g c) t = Some (NT start) /\
      chain_ok (skip_ws (pc_ws c) inp) (leaves t) /\ All (leaf_ok (tokok_of inp)) (leaves t) /\
      match bounds (leaves t) with
      | None => skip_ws (pc_ws c) inp pos = in_len inp
      | Some (fs, le) => fs = skip_ws (pc_ws c) inp pos /\ le <= in_len inp /\
                         skip_ws (pc_ws c) inp le = in_len inp
      end.
Proof. exact glr_full_tok_sound. Qed.
Print Assumptions C01_glr_model_valid_full.

(* No internal failure of the driver (the GLR counterpart of C10_lr_no_crash): with a table
   passing table_struct and table_progress the model never ends in GLRCrash -- no head without
   lookahead reaches _actor, every production reduced exists and has its goto, every state
   revisited is an active head, an accepted head has a link for Forest.__init__ -- for all
   scanners, inputs, positions, fuel; the modelled CPython set order meets the side condition
   (it only yields members of the set: Proofs/PySetProofs.v). *)
From PV Require Import Validators.TableProgress Proofs.GLRNoCrash.
Theorem C01_glr_model_no_crash :
  forall (c : pconf) (inp : pinput) (fuel : nat) (pos start : N) (code : N),
    table_struct (pc_g c) (pc_tb c) start = true ->
    table_progress (pc_g c) (pc_tb c) (pc_stop c) = true ->
    glr_parse_full c inp fuel pos <> GLRCrash code.
Proof. exact glr_full_no_crash. Qed.
Print Assumptions C01_glr_model_no_crash.

(* non-vacuity of C01_glr_model_sound: E: E '+' E | 'n' on "n+n+n" -- the table passes
   table_struct and the model returns a forest of 12 links whose root has two alternatives *)
Example C01_glr_model_nonvacuous :
  table_struct ok_g ok_tb ok_start = true /\
  (match glr_parse_full ok_conf ok_inp wfuel 0 with
   | GLRForest nodes root => Nat.eqb (length nodes) 12 && Nat.eqb (length (nth root nodes [])) 2
   | _ => false
   end) = true.
Proof. exact ok_bool. Qed.

(* ... and of C01_glr_model_valid_full: the same run meets glr_tok_checks *)
Example C01_glr_model_valid_nonvacuous :
  glr_tok_checks ok_conf ok_inp = true /\ table_progress ok_g ok_tb (pc_stop ok_conf) = true.
Proof. vm_compute. split; reflexivity. Qed.
