(* C14 -- Layout is invisible: changing layout between tokens never changes the parse.
   Statements only.  The LR parser is the whole model [parse_full] (Model/Parser.v: scanner,
   ws / LAYOUT sub-parser, driver).  The GLR driver is not modelled in this development: the
   GLR half of the property is decided on the impl only (harness/props/c14.py), hence
   [_partial] on the general theorem. *)
From Coq Require Import NArith List Bool.
From PV Require Import Base.Sx Spec.Cfg Model.Table Model.LRDriver Model.Scan Model.Parser
  Validators.Relayout Proofs.RelayoutProofs Extract.Codec.
Import ListNotations.
Local Open Scope N_scope.

(* Full statement planned in DESIGN.md (C14_relayout): the same for the GLR model run, with
   forests related node by node.  Proved here: the LR driver, for every grammar, table,
   option setting, fuel and every pair of "worlds" (layout skipping sk, token recognition nt)
   that agree along a correspondence R of boundary positions with token starts S:
     - corresponding boundaries skip to corresponding token starts (or both fail),
     - at corresponding token starts every state sees the same token, and its end is again
       a corresponding boundary.
   Then the two runs are in lockstep: same kind of outcome, same tree (productions,
   terminals, arity), same shifted tokens, same error state, all positions related by R. *)
Theorem C14_relayout_partial :
  forall (g : grammar) (tb : table) (stop_id : N) (consume_input : bool)
         (sk1 sk2 : N -> option N) (nt1 nt2 : nat -> N -> tokres) (R S : N -> N -> Prop),
    (forall q q', S q q' -> R q q') ->
    (forall p p', R p p' ->
       match sk1 p, sk2 p' with
       | None, None => True
       | Some q, Some q' => S q q'
       | _, _ => False
       end) ->
    (forall q q', S q q' -> forall st,
       nt1 st q = nt2 st q' /\
       forall y len, nt1 st q = TTok y len -> R (q + len) (q' + len)) ->
    forall fuel pos pos', R pos pos' ->
      res_rel R (lr_parse g tb sk1 nt1 stop_id consume_input false fuel pos)
                (lr_parse g tb sk2 nt2 stop_id consume_input false fuel pos').
Proof. exact lr_relayout. Qed.
Print Assumptions C14_relayout_partial.

(* what a user sees of a related pair of results: acceptance, the tree without positions,
   the token sequence and the kind of error (with the automaton state) coincide *)
Theorem C14_related_results_same_verdict :
  forall R r r', res_rel R r r' -> verdict_of r = verdict_of r'.
Proof. exact res_rel_verdict. Qed.
Print Assumptions C14_related_results_same_verdict.

(* Validator form, run by the check on the impl's real tables (main and LAYOUT), the match
   matrices of the impl's recognizers on w and relayout(w), and the finite boundary
   correspondence the generator knows: one boolean check implies the relation of the two
   whole-parser runs (scanner + ws/LAYOUT sub-parser + driver), whatever the fuel. *)
Theorem C14_relayout_check_sound :
  forall c inp inp' fuel Rl Sl pos pos',
    relayout_check c inp inp' fuel Rl Sl = true ->
    In (pos, pos') Rl ->
    res_rel (fun p p' => In (p, p') Rl) (parse_full c inp fuel pos) (parse_full c inp' fuel pos').
Proof. exact relayout_check_sound. Qed.
Print Assumptions C14_relayout_check_sound.

(* The elementary relayout step, with ws-based layout: inserting one ws character at index k
   of any input, where no token of the old input crosses k and the recognizers do not see
   the inserted character.  Every relayout by ws characters (insert, remove -- read the
   relation backwards --, replace) is a sequence of such steps.  Positions <= k are
   unchanged, positions >= k move by one. *)
Theorem C14_insert_ws_char :
  forall c inp rx' k ch fuel pos pos',
    pc_layout c = None ->
    In ch (pc_ws c) ->
    (k <= length (pi_chars inp))%nat ->
    let inp' := mkPInput (ins_at k ch (pi_chars inp)) rx' in
    let K := N.of_nat k in
    (forall t q, q < K -> rx_of inp' t q = rx_of inp t q) ->
    (forall t q len, q < K -> rx_of inp t q = Some len -> q + len <= K) ->
    (forall t q, K <= q -> rx_of inp' t (q + 1) = rx_of inp t q) ->
    ins_R K pos pos' ->
    res_rel (ins_R K) (parse_full c inp fuel pos) (parse_full c inp' fuel pos').
Proof. exact insert_ws_char. Qed.
Print Assumptions C14_insert_ws_char.

(* LAYOUT rule versus ws: if the LAYOUT sub-parser (a second LR run over the same grammar
   object with the LAYOUT table, consume_input=False) returns at every position what
   skipping the ws characters returns, the two parsers give identical results: tree, node
   positions, layout spans, shifted tokens, error kind/position/state, fuel behaviour. *)
Theorem C14_layout_rule_vs_ws :
  forall c ws inp fuel pos,
    (forall p, skipws_full c inp fuel p = Some (skip_ws ws inp p)) ->
    parse_full c inp fuel pos = parse_full (with_ws c ws) inp fuel pos.
Proof. exact layout_rule_vs_ws. Qed.
Print Assumptions C14_layout_rule_vs_ws.

(* The driver depends on layout skipping and scanning only pointwise (no hidden state). *)
Theorem C14_lr_parse_ext :
  forall g tb stop_id consume_input sk1 sk2 nt1 nt2 fuel pos,
    (forall p, sk1 p = sk2 p) -> (forall st p, nt1 st p = nt2 st p) ->
    lr_parse g tb sk1 nt1 stop_id consume_input false fuel pos =
    lr_parse g tb sk2 nt2 stop_id consume_input false fuel pos.
Proof. exact lr_parse_ext. Qed.
Print Assumptions C14_lr_parse_ext.

(* Full statement planned in DESIGN.md (C14_std_layout): for every grammar containing the
   canonical rule  LAYOUT: LayoutItem | LAYOUT LayoutItem | EMPTY; LayoutItem: WS;  the
   sub-parser returns skip_ws at every position.  Proved here for the table the impl builds
   for that rule next to  S: 'a' S | 'a'  ([ltb_std], symbol numbering of that grammar),
   for ALL inputs, positions and fuel >= 4, given that WS matches exactly the maximal
   non-empty runs of ws characters.  For every other generated grammar the check evaluates
   the hypothesis of C14_layout_rule_vs_ws position by position on the impl's sub-parser
   and on the model (command 141). *)
Theorem C14_std_layout_partial :
  forall c ws inp fuel p,
    pc_g c = g_std -> pc_terms c = terms_std -> pc_stop c = 3 -> pc_layout c = Some ltb_std ->
    (4 <= fuel)%nat ->
    (forall q, rx_of inp 3 q = None) ->
    (forall q, q < in_len inp -> rx_of inp 0 q = None -> skip_ws ws inp q = q) ->
    (forall q m, q < in_len inp -> rx_of inp 0 q = Some m ->
       skip_ws ws inp q = q + m /\ (q + m < in_len inp -> rx_of inp 0 (q + m) = None)) ->
    skipws_full c inp fuel p = Some (skip_ws ws inp p).
Proof. exact std_layout. Qed.
Print Assumptions C14_std_layout_partial.

(* ---- non-vacuity ------------------------------------------------------------------------- *)
(* the impl's dump for the grammar above: main table + LAYOUT table *)
Definition c_std : pconf := pconf_of_sx
  (L [L [L [A 0; L [L [A 1; A 1]]]; L [A 1; L [L [A 0; A 1]; L [A 1; A 1]]]; L [A 1; L [L [A 0; A 1]]]; L [A 2; L [L [A 1; A 3]]]; L [A 2; L [L [A 1; A 2]; L [A 1; A 3]]]; L [A 2; L []]; L [A 3; L [L [A 0; A 0]]]]; L [L [L [A 1; A 0]; L [L [A 1; L [L [A 0; A 2]]]]; L [L [A 1; A 1]]; L [A 1]; L [L [A 0; A 0]; L [A 1; A 0]; L [A 2; A 0]]]; L [L [A 1; A 1]; L [L [A 3; L [L [A 2]]]]; L []; L [A 0]; L [L [A 0; A 1]]]; L [L [A 0; A 1]; L [L [A 1; L [L [A 0; A 2]]]; L [A 3; L [L [A 1; A 2]]]]; L [L [A 1; A 3]]; L [A 1; A 0]; L [L [A 1; A 1]; L [A 2; A 1]; L [A 1; A 0]; L [A 2; A 0]]]; L [L [A 1; A 1]; L [L [A 3; L [L [A 1; A 1]]]]; L []; L [A 0]; L [L [A 1; A 2]]]]; L [L [A 10; A 0]; L [A 10; A 0]; L [A 10; A 0]; L [A 10; A 0]]; A 3; A 1; A 1; L []; L [L [L [L [A 1; A 0]; L [L [A 0; L [L [A 0; A 3]]]; L [A 3; L [L [A 1; A 5]]]]; L [L [A 2; A 1]; L [A 3; A 2]]; L [A 0; A 0]; L []]; L [L [A 1; A 2]; L [L [A 0; L [L [A 0; A 3]]]; L [A 3; L [L [A 2]]]]; L [L [A 3; A 4]]; L [A 0; A 0]; L []]; L [L [A 1; A 3]; L [L [A 0; L [L [A 1; A 3]]]; L [A 3; L [L [A 1; A 3]]]]; L []; L [A 0; A 0]; L []]; L [L [A 0; A 0]; L [L [A 0; L [L [A 1; A 6]]]; L [A 3; L [L [A 1; A 6]]]]; L []; L [A 0; A 0]; L []]; L [L [A 1; A 3]; L [L [A 0; L [L [A 1; A 4]]]; L [A 3; L [L [A 1; A 4]]]]; L []; L [A 0; A 0]; L []]]]]).
(* " a  a\ta " and "a a a" with the match matrices of the impl's recognizers *)
Definition w1 : pinput := pinput_of_sx
  (L [L [A 32; A 97; A 32; A 32; A 97; A 9; A 97; A 32]; L [L [A 1; A 0; A 2; A 1; A 0; A 1; A 0; A 1]; L [A 0; A 1; A 0; A 0; A 1; A 0; A 1; A 0]; L [A 0; A 0; A 0; A 0; A 0; A 0; A 0; A 0]; L [A 0; A 0; A 0; A 0; A 0; A 0; A 0; A 0]]]).
Definition w2 : pinput := pinput_of_sx
  (L [L [A 97; A 32; A 97; A 32; A 97]; L [L [A 0; A 1; A 0; A 1; A 0]; L [A 1; A 0; A 1; A 0; A 1]; L [A 0; A 0; A 0; A 0; A 0]; L [A 0; A 0; A 0; A 0; A 0]]]).
(* boundaries of w1 / w2: before the first token, token ends (before layout), end of input *)
Definition Rl12 : list (N * N) := [(0, 0); (1, 0); (2, 1); (4, 2); (5, 3); (6, 4); (7, 5); (8, 5)].
Definition Sl12 : list (N * N) := [(1, 0); (4, 2); (6, 4); (8, 5)].

Example C14_nonvacuous :
  (* the dumped LAYOUT table is the one the std-layout theorem talks about *)
  pc_g c_std = g_std /\ pc_terms c_std = terms_std /\ pc_stop c_std = 3 /\
  pc_layout c_std = Some ltb_std /\
  (* the hypotheses of the relayout theorem hold for a real relayout, through the LAYOUT
     sub-parser, and both runs accept with three tokens *)
  relayout_check c_std w1 w2 100 Rl12 Sl12 = true /\
  (exists t tr, verdict_of (parse_full c_std w1 100 0) = VAccept t tr /\ length tr = 3%nat) /\
  verdict_of (parse_full c_std w1 100 0) = verdict_of (parse_full c_std w2 100 0) /\
  (* the sub-parser really skips: position 2 of w1 is followed by two blanks *)
  skipws_full c_std w1 100 2 = Some 4 /\ skip_ws [10; 13; 9; 32] w1 2 = 4 /\
  (* and the validator is not trivially true: a correspondence that maps the end of the
     first token of w1 to the start of the last token of w2 is rejected *)
  relayout_check c_std w1 w2 100 ((2, 3) :: Rl12) Sl12 = false.
Proof. vm_compute. repeat split; try reflexivity. do 2 eexists. split; reflexivity. Qed.
