(* C17 -- With consume_input off, results parse sentence prefixes; GLR finds them all.
   Statements only. *)
From Coq Require Import NArith List Bool.
From PV Require Import Spec.Cfg Model.Forest Model.Table Model.LRDriver Validators.TableStruct
  Validators.ForestSound Validators.ForestComplete Proofs.ForestProofs Proofs.ForestSoundProofs
  Proofs.ForestCompleteProofs Proofs.LRProofs.
Import ListNotations.
Local Open Scope N_scope.

(* LR, for EVERY setting of consume_input (in particular off): whatever the driver returns
   is a derivation tree rooted in the start symbol whose leaves are exactly the tokens it
   shifted, in order -- i.e. a derivation of a prefix of the input's token sequence. *)
Theorem C17_lr_prefix :
  forall g tb skipws next_token stop_id consume_input in_layout start fuel pos t rp lay tr,
    table_struct g tb start = true ->
    lr_parse g tb skipws next_token stop_id consume_input in_layout fuel pos = LROk t rp lay tr ->
    wf_tree g t /\ root_sym g t = Some (NT start) /\ leaves t = strip tr.
Proof. exact lr_sound. Qed.
Print Assumptions C17_lr_prefix.

(* GLR: every tree of a forest that passes forest_ok with consume = false is a derivation
   whose leaves start right after the leading layout, are matched by their recognizers,
   are separated by layout only and end inside the input: a derivation of a prefix of the
   input ending at a token boundary.  Run on every forest the impl returns. *)
Theorem C17_glr_valid :
  forall (g : grammar) (tokok : N -> N -> N -> bool) (sk : N -> N) (strict : bool)
         (start pos0 in_len : N) (F : forest),
    forest_ok g tokok sk strict start pos0 in_len false F = true ->
    forall t, In t (root_trees F) ->
      wf_tree g t /\ root_sym g t = Some (NT start) /\
      chain_ok sk (leaves t) /\ All (leaf_ok tokok) (leaves t) /\
      match bounds (leaves t) with
      | None => True
      | Some (fs, le) => fs = sk pos0 /\ le <= in_len
      end.
Proof.
  intros g tokok sk strict start pos0 in_len F H t Ht.
  destruct (forest_valid g tokok sk strict start pos0 in_len false F H t Ht) as (A & B & _ & C & D & E).
  split; [exact A|]. split; [exact B|]. split; [exact C|]. split; [exact D|].
  destruct (bounds (leaves t)) as [[fs le]|]; [|exact I]. destruct E as (E1 & E2 & _). auto.
Qed.
Print Assumptions C17_glr_valid.

(* GLR, consume_input off, per forest: forest_complete (a boolean check run on every acyclic
   forest the impl returns, with a chart certificate that cannot make it pass wrongly) implies
   that EVERY derivation tree of EVERY sentence prefix -- root = start symbol, leaves tokens of
   the oracle chained by layout only from the start position, ending anywhere in the input --
   is, up to the spans of interior nodes, one of the trees of the forest. *)
Theorem C17_forest_complete :
  forall g tokok sk C toks start pos0 in_len F,
    (forall y s e, tokok y s e = true -> In (y, s, e) toks) ->
    forest_complete g tokok sk C toks start pos0 in_len false F = true ->
    forall t,
      wf_tree g t -> root_sym g t = Some (NT start) ->
      chain_ok sk (leaves t) -> All (leaf_fine tokok) (leaves t) ->
      match bounds (leaves t) with
      | None => True
      | Some (fs, le) => fs = sk pos0 /\ le <= in_len
      end ->
      exists t', In t' (root_trees F) /\ shape t' = shape t.
Proof.
  intros g tokok sk C toks start pos0 in_len F Htoks Hfc t Hw Hr Hc Hl Hb.
  apply (forest_complete_thm g tokok sk C toks start pos0 in_len false F Htoks Hfc t Hw Hr Hc Hl).
  destruct (bounds (leaves t)) as [[fs le]|]; [|discriminate].
  destruct Hb as [H1 H2]. split; [exact H1|]. split; [exact H2|discriminate].
Qed.
Print Assumptions C17_forest_complete.

(* NOT PROVED (partial; decided per generated case with certified reference derivations):
   that the impl's forest always passes the check (it does not: KF-C17-lost-derivations), each
   derivation once, and SyntaxError is raised only if no prefix is a sentence.  Inherits KF-C02-lost-derivations and
   KF-C03-duplicate-packing. *)

Definition gS : grammar := [mkProd 0 [NT 1]; mkProd 1 [T 0]; mkProd 1 [T 0; T 0]].
Definition F_pre : forest :=
  [ [ATerm 0 0 1]; [ATerm 0 1 2]; [ANT 1 0 1 [0%nat]; ANT 2 0 2 [0; 1]%nat] ].
Example C17_nonvacuous :
  forest_ok gS (fun y s e => (y =? 0) && (e =? s + 1)) (fun p => p) false 1 0 3 false F_pre = true
  /\ length (root_trees F_pre) = 2%nat.
Proof. vm_compute. split; reflexivity. Qed.

Example C17_complete_nonvacuous :
  forest_complete gS (fun y s e => (y =? 0) && (e =? s + 1)) (fun p => p)
    [(T 0, Some (0, 1)); (T 0, Some (1, 2)); (T 0, Some (2, 3));
     (NT 1, Some (0, 1)); (NT 1, Some (1, 2)); (NT 1, Some (2, 3)); (NT 1, Some (0, 2)); (NT 1, Some (1, 3));
     (NT 0, Some (0, 1)); (NT 0, Some (1, 2)); (NT 0, Some (2, 3)); (NT 0, Some (0, 2)); (NT 0, Some (1, 3))]
    [(0, 0, 1); (0, 1, 2); (0, 2, 3)] 1 0 3 false F_pre = true.
Proof. vm_compute. reflexivity. Qed.
(* ---- the GLR driver model (Model/GLR.v) with consume_input off ---------------------------------- *)
From PV Require Import Model.Scan Model.Parser Model.GLR Model.ForestGraph Spec.GLRSpec
  Proofs.GLRProofs Proofs.GLRWitness.

(* soundness for consume_input = false (instance of C01_glr_model_sound): every tree of the
   forest the model returns is a derivation tree rooted in the start symbol *)
Theorem C17_glr_model_sound :
  forall (c : pconf) (inp : pinput) (fuel : nat) (pos start : N) (nodes : forest) (root : nat),
    pc_consume c = false ->
    table_struct (pc_g c) (pc_tb c) start = true ->
    glr_parse_full c inp fuel pos = GLRForest nodes root ->
    forall t, unfolds (glr_forest nodes root) (pred (length (glr_forest nodes root))) t ->
              wf_tree (pc_g c) t /\ root_sym (pc_g c) t = Some (NT start).
Proof. intros c inp fuel pos start nodes root _. exact (glr_full_sound c inp fuel pos start nodes root). Qed.
Print Assumptions C17_glr_model_sound.

(* consume_input off, under the boolean conditions evaluated by the harness (glr_tok_checks0:
   ws layout, STOP never matched or shifted, ACCEPT only under STOP, no two terminals matching
   with different lengths at one position of this input): every tree of the model's forest is a
   derivation from the start symbol whose leaves begin right after the leading layout, are
   matched by their recognizers and are separated by layout only: a derivation of a PREFIX of
   the input.  (The merge of all accepted heads' links into the last one in Forest.__init__ can
   make that link its own child in cyclic grammars; the proof shows that the alternatives of
   shorter prefixes that enter this way still yield prefix derivations.) *)
From PV Require Import Proofs.GLRTokProofs Proofs.GLRTokFull.
Theorem C17_glr_model_prefix_valid :
  forall (c : pconf) (inp : pinput) (fuel : nat) (pos start : N) (nodes : forest) (root : nat),
    table_struct (pc_g c) (pc_tb c) start = true ->
    glr_tok_checks0 c inp = true ->
    glr_parse_full c inp fuel pos = GLRForest nodes root ->
    forall t, unfolds (glr_forest nodes root) (pred (length (glr_forest nodes root))) t ->
      wf_tree (pc_g c) t /\ root_sym (pc_g c) t = Some (NT start) /\
      chain_ok (skip_ws (pc_ws c) inp) (leaves t) /\ All (leaf_ok (tokok_of inp)) (leaves t) /\
      match bounds (leaves t) with
      | None => pc_consume c = true -> skip_ws (pc_ws c) inp pos = in_len inp
      | Some (fs, le) =>
          fs = skip_ws (pc_ws c) inp pos /\
          (pc_consume c = true -> le <= in_len inp /\ skip_ws (pc_ws c) inp le = in_len inp)
      end.
Proof. exact glr_full_tok_sound_any. Qed.
Print Assumptions C17_glr_model_prefix_valid.

(* "all derivations of all sentence prefixes" is FALSE of the faithful model: S: A A A | EMPTY;
   A: S 'b' | EMPTY;  consume_input=False, input "b": a certified derivation of a prefix is
   missing from the forest (KF-C17-lost-derivations) *)
Theorem C17_glr_model_lost_refuted :
  exists (c : pconf) (inp : pinput) (fuel : nat) (start : N) (nodes : forest) (root : nat) (t : tree),
    pc_consume c = false /\
    table_struct (pc_g c) (pc_tb c) start = true /\
    glr_parse_full c inp fuel 0 = GLRForest nodes root /\
    valid_parse c inp start 0 t = true /\
    wf_tree (pc_g c) t /\ root_sym (pc_g c) t = Some (NT start) /\
    forall t', unfolds (glr_forest nodes root) (pred (length (glr_forest nodes root))) t' ->
               shape t' <> shape t.
Proof. exact glr_model_prefix_lost. Qed.
Print Assumptions C17_glr_model_lost_refuted.

(* "each once" is FALSE of the faithful model: S: S S S | S S | 'a'; consume_input=False,
   "aaaaa": a packed node reachable from the root holds one alternative twice
   (KF-C17-duplicate-derivations) *)
Theorem C17_glr_model_duplicate_refuted :
  exists (c : pconf) (inp : pinput) (fuel : nat) (start : N) (nodes : forest) (root k : nat),
    pc_consume c = false /\
    table_struct (pc_g c) (pc_tb c) start = true /\
    glr_parse_full c inp fuel 0 = GLRForest nodes root /\
    reach nodes root k /\ nodup_alts (nth k nodes []) = false /\
    forest_nodup (glr_forest nodes root) = false.
Proof. exact glr_model_prefix_duplicates. Qed.
Print Assumptions C17_glr_model_duplicate_refuted.
