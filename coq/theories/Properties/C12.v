(* C12 -- Table cache is transparent whatever its age, origin or completeness.
   Statements only.

   The property as written is FALSE for the implementation (and for its faithful
   model): see the three _refuted theorems.  (A fourth defect, a truncated .pgc
   making construction raise JSONDecodeError, is repaired; the model follows the
   repaired create_load_table and C12_broken_cache_rebuilds states the new behaviour.)  What does hold is stated in
   C12_cache_transparent_partial (all histories of a stated class, all grammar
   loaders, all table builders), C12_absent_or_older_rebuilds,
   C12_broken_cache_rebuilds / C12_unloadable_cache_rebuilds (the clauses of the
   property that hold unconditionally) and C12_roundtrip (persistence round trip for
   all grammars and tables).

   Full statement that is refuted (kept for the record):
     forall G FP grammar_of imported pg_of create_table files h,
       reads_only_imported G grammar_of imported -> creates_wf G FP pg_of create_table ->
       run_hist .. (mkFS files None) h = spec_hist .. (mkFS files None) h.                   *)
From Coq Require Import NArith List Bool.
From PV Require Import Model.Persist Model.Cache Proofs.PersistProofs Proofs.CacheProofs.
Import ListNotations.
Local Open Scope N_scope.

(* Saving a table and loading it back, for EVERY grammar and EVERY table that is a
   well-formed LRTable of that grammar (table_wfb is also run_hist on the impl's real
   tables by the check): the load succeeds and gives the same actions, gotos, finish
   flags, the same recomputed conflicts and dynamic marks, and saving again gives
   the same JSON value (hence, json.dump(sort_keys=True) being a function of the
   value, byte-identical output). *)
Theorem C12_roundtrip :
  forall (g : pgram) (t : ptable),
    table_wfb g t = true ->
    exists t',
      from_ser g (to_ser t) = Ok t' /\
      map ps_actions t' = map ps_actions t /\
      map ps_gotos t' = map ps_gotos t /\
      map ps_finish t' = map ps_finish t /\
      calc_marks g t' = calc_marks g t /\
      to_ser t' = to_ser t.
Proof. exact roundtrip_full. Qed.
Print Assumptions C12_roundtrip.

(* A .pgc that is absent, or older than some root or imported grammar file, is
   never consulted: in EVERY state of the directory -- whatever wrote the file, with
   whatever options, complete or truncated -- the construction behaves like the
   cache-free parser, and if the table could be built the file now holds exactly its
   serialisation.  No hypothesis on the history, the loader or the builder. *)
Theorem C12_absent_or_older_rebuilds :
  forall (G FP : Type) grammar_of imported pg_of create_table
         (fs : fsys) (now : N) (lr : bool) (fp : FP),
    (fs_cache fs = None \/
     exists tc c f, fs_cache fs = Some (tc, c) /\
                    In f (imported (current G grammar_of fs)) /\ tc < mtime_of fs f) ->
    snd (snd (construct G FP grammar_of imported pg_of create_table fs now lr fp))
    = fresh G FP pg_of create_table lr (current G grammar_of fs) fp /\
    (forall t, create_table (current G grammar_of fs) fp = Ok t ->
               fs_cache (fst (construct G FP grammar_of imported pg_of create_table fs now lr fp))
               = Some (now, Full (to_ser t))).
Proof. exact construct_rebuilds. Qed.
Print Assumptions C12_absent_or_older_rebuilds.

(* A .pgc left by an interrupted write (a strict byte prefix of the document, the
   empty file included), whatever its mtime and in EVERY state of the directory: the
   construction behaves like the cache-free parser and the file is rewritten with the
   serialisation of the new table.  No hypothesis on the history, loader or builder. *)
Theorem C12_broken_cache_rebuilds :
  forall (G FP : Type) grammar_of imported pg_of create_table
         (fs : fsys) (now : N) (lr : bool) (fp : FP) (tc : N),
    fs_cache fs = Some (tc, Broken) ->
    snd (snd (construct G FP grammar_of imported pg_of create_table fs now lr fp))
    = fresh G FP pg_of create_table lr (current G grammar_of fs) fp /\
    (forall t, create_table (current G grammar_of fs) fp = Ok t ->
               fs_cache (fst (construct G FP grammar_of imported pg_of create_table fs now lr fp))
               = Some (now, Full (to_ser t))).
Proof. exact construct_broken_rebuilds. Qed.
Print Assumptions C12_broken_cache_rebuilds.

(* More generally, any .pgc that load_table cannot turn into a table of the current
   grammar (complete but foreign or stale documents that raise KeyError, IndexError or
   AttributeError included) is treated as absent. *)
Theorem C12_unloadable_cache_rebuilds :
  forall (G FP : Type) grammar_of imported pg_of create_table
         (fs : fsys) (now : N) (lr : bool) (fp : FP) (tc : N) (c : content) (e : pexn),
    fs_cache fs = Some (tc, c) ->
    load_cache G pg_of (current G grammar_of fs) c = Raise e ->
    snd (snd (construct G FP grammar_of imported pg_of create_table fs now lr fp))
    = fresh G FP pg_of create_table lr (current G grammar_of fs) fp /\
    (forall t, create_table (current G grammar_of fs) fp = Ok t ->
               fs_cache (fst (construct G FP grammar_of imported pg_of create_table fs now lr fp))
               = Some (now, Full (to_ser t))).
Proof. exact construct_unloadable_rebuilds. Qed.
Print Assumptions C12_unloadable_cache_rebuilds.

(* Transparency for ALL histories (any length, any interleaving of Parser /
   GLRParser constructions, pglr compile, edits and touches of root or imported
   grammar files, removals of the .pgc) in which
     - every completed construction and compile uses one option fingerprint fp
       (writes of the .pgc may be interrupted at any point, by processes with any
       options),
     - nobody touches (changes the mtime of) the .pgc,
     - the clock strictly advances from step to step (mtimes are distinguishable),
   for EVERY grammar loader that reads only the files it reports in imported_files
   and EVERY table builder whose results are well-formed tables:
   each construction returns exactly what the cache-free parser returns (the same
   table, hence the same behaviour on every input, or the same exception). *)
Theorem C12_cache_transparent_partial :
  forall (G FP : Type) grammar_of imported pg_of create_table,
    reads_only_imported G grammar_of imported ->
    creates_wf G FP pg_of create_table ->
    forall (fp : FP) (files : list (path * (N * N))) (t : N) (h : list (N * op FP)),
      (forall f mv, In (f, mv) files -> fst mv <= t) ->
      disciplined FP fp t h ->
      run_hist G FP grammar_of imported pg_of create_table (mkFS files None) h
      = spec_hist G FP grammar_of pg_of create_table (mkFS files None) h.
Proof. exact cache_transparent. Qed.
Print Assumptions C12_cache_transparent_partial.

(* ---- each hypothesis above is necessary: witnesses on the faithful model ---- *)

(* options are not part of the cache key: a GLRParser built after a Parser (both
   with their defaults, clock advancing, nothing else happening) gets the LR table
   with resolved conflicts instead of its own; in the other order Parser raises
   SRConflicts.  Grammar: E: E '+' E | E '*' E | 'n'. *)
Theorem C12_options_refuted :
  exists (G FP : Type) grammar_of imported pg_of create_table files
         (h1 h2 : list (N * op FP)),
    reads_only_imported G grammar_of imported /\ creates_wf G FP pg_of create_table /\
    clocked 0 h1 /\ clocked 0 h2 /\
    run_hist G FP grammar_of imported pg_of create_table (mkFS files None) h1
    <> spec_hist G FP grammar_of pg_of create_table (mkFS files None) h1 /\
    run_hist G FP grammar_of imported pg_of create_table (mkFS files None) h2
    = [Ok tbl_glr; Raise ESRConflicts] /\
    spec_hist G FP grammar_of pg_of create_table (mkFS files None) h2
    = [Ok tbl_glr; Ok tbl_lr].
Proof. exact options_refuted_full. Qed.
Print Assumptions C12_options_refuted.

(* validity is decided by mtime alone: touching the .pgc after an edit, or an edit
   within the mtime tick of the cache write, makes a stale table load (one
   fingerprint, complete files) *)
Theorem C12_touched_cache_refuted :
  exists (h : list (N * op bool)),
    clocked 0 h /\ v_run h = [Ok tbl_glr; Ok tbl_glr] /\ v_spec h = [Ok tbl_glr; Ok tbl_lr].
Proof. exact (ex_intro _ h_touch touched_cache_refuted_w). Qed.
Print Assumptions C12_touched_cache_refuted.

Theorem C12_same_tick_refuted :
  exists (h : list (N * op bool)),
    v_run h = [Ok tbl_glr; Ok tbl_glr] /\ v_spec h = [Ok tbl_glr; Ok tbl_lr].
Proof. exact (ex_intro _ h_tick same_tick_refuted_w). Qed.
Print Assumptions C12_same_tick_refuted.

(* non-vacuity: a disciplined history (edit, touch, compile, an interrupted write by a
   process with other options, five constructions) exists, the cache is really loaded
   in it, and the round-trip hypothesis holds for a
   real table with conflicts *)
Example C12_nonvacuous :
  disciplined bool false 0 h_good /\
  v_run h_good = [Ok tbl_glr; Ok tbl_glr; Ok tbl_lr; Ok tbl_lr; Ok tbl_lr] /\
  table_wfb gE tbl_glr = true /\ from_ser gE (to_ser tbl_glr) = Ok tbl_glr.
Proof. exact nonvacuous_w. Qed.
Print Assumptions C12_nonvacuous.
