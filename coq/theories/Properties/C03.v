(* C03 -- Forest packs each derivation once; counting and indexing are consistent.
   Statements only; proofs are in Proofs/ForestProofs.v. *)
From Coq Require Import NArith List Bool.
From PV Require Import Model.Forest Proofs.ForestProofs Proofs.ForestDistinctProofs.
Import ListNotations.
Local Open Scope N_scope.

(* len(forest) = number of trees the forest represents (any size, any sharing) *)
Theorem C03_count : forall F : forest,
  forest_wf F = true -> F <> [] ->
  root_count F = N.of_nat (length (root_trees F)).
Proof. exact count_correct. Qed.
Print Assumptions C03_count.

(* forest[i] (lazy, non-lazy, repeated: one decoding function) is the i-th tree *)
Theorem C03_index : forall (F : forest) (i : N),
  forest_wf F = true -> F <> [] -> i < root_count F ->
  tree_at F i = Some (nth (N.to_nat i) (root_trees F) dtree).
Proof. exact index_correct. Qed.
Print Assumptions C03_index.

(* bounds-checked access (Forest.get_tree after the fix): in range = the i-th tree,
   out of range = IndexError *)
Theorem C03_checked_in : forall (F : forest) (i : N),
  forest_wf F = true -> F <> [] -> i < root_count F ->
  tree_at_checked F i = Some (nth (N.to_nat i) (root_trees F) dtree).
Proof. exact checked_in_bounds. Qed.
Print Assumptions C03_checked_in.

Theorem C03_oob : forall (F : forest) (i : N),
  root_count F <= i -> tree_at_checked F i = None.
Proof. exact checked_out_of_bounds. Qed.
Print Assumptions C03_oob.

(* len(forest) counts DISTINCT trees and forest[i] are pairwise different, for forests of any
   size: if the local check forest_distinct_ok passes (alternatives of each packed node differ
   in production, span, arity or in the span of some child; child nodes have one span each),
   the represented trees are pairwise different and decoding is injective on [0, len). *)
Theorem C03_distinct : forall F : forest,
  forest_wf F = true -> forest_distinct_ok F = true -> NoDup (root_trees F).
Proof. exact trees_distinct. Qed.
Print Assumptions C03_distinct.

Theorem C03_index_injective : forall (F : forest) (i j : N),
  forest_wf F = true -> forest_distinct_ok F = true -> F <> [] ->
  i < root_count F -> j < root_count F -> tree_at F i = tree_at F j -> i = j.
Proof. exact index_injective. Qed.
Print Assumptions C03_index_injective.

(* every forest has at least one tree *)
Theorem C03_positive : forall F : forest,
  forest_wf F = true -> F <> [] -> 0 < root_count F.
Proof. exact count_positive. Qed.
Print Assumptions C03_positive.

(* the un-checked decoder (Tree.__init__ as it is) does NOT raise for every
   out-of-range index: E: E '+' E | 'n' on "n", index 7 *)
Definition F_single : forest := [[ATerm 0 0 1]; [ANT 2 0 1 [0%nat]]].
Theorem C03_unchecked_oob_refuted :
  exists F i, forest_wf F = true /\ root_count F <= i /\ tree_at F i <> None.
Proof. exists F_single, 7. vm_compute. repeat split; discriminate. Qed.
Print Assumptions C03_unchecked_oob_refuted.

(* non-vacuity: an ambiguous forest (n+n+n) meets the hypotheses *)
Definition F_amb : forest :=
  [ [ATerm 0 0 1]; [ATerm 1 1 2]; [ATerm 0 2 3]; [ATerm 1 3 4]; [ATerm 0 4 5];
    [ANT 2 0 1 [0%nat]]; [ANT 2 2 3 [2%nat]]; [ANT 2 4 5 [4%nat]];
    [ANT 1 0 3 [5;1;6]%nat]; [ANT 1 2 5 [6;3;7]%nat];
    [ANT 1 0 5 [8;3;7]%nat; ANT 1 0 5 [5;1;9]%nat] ].
Example C03_nonvacuous :
  forest_wf F_amb = true /\ forest_distinct_ok F_amb = true /\
  root_count F_amb = 2 /\ length (root_trees F_amb) = 2%nat
  /\ tree_at F_amb 1 <> tree_at F_amb 0.
Proof. vm_compute. repeat split; discriminate. Qed.

(* ---- the GLR driver model (Model/GLR.v) ---------------------------------------------------------
   "Each derivation is packed once" is FALSE of the faithful model of GLRParser.parse: with the
   implementation's LALR table for  S: 'b' 'b' | A; A: 'a' | S A;  on "aaaa" the model returns
   a forest in which a packed node reachable from the root holds the same alternative (same
   production, same span, same children) twice, so len(forest) counts derivations twice
   (KF-C03-duplicate-packing; the implementation returns the identical forest). *)
From PV Require Import Spec.Cfg Model.Table Model.Scan Model.Parser Model.GLR Model.ForestGraph
  Validators.TableStruct Proofs.GLRWitness.

Theorem C03_glr_model_duplicate_refuted :
  exists (c : pconf) (inp : pinput) (fuel : nat) (start : N) (nodes : forest) (root k : nat),
    pc_consume c = true /\
    table_struct (pc_g c) (pc_tb c) start = true /\
    glr_parse_full c inp fuel 0 = GLRForest nodes root /\
    reach nodes root k /\ nodup_alts (nth k nodes []) = false /\
    forest_nodup (glr_forest nodes root) = false.
Proof. exact glr_model_duplicates. Qed.
Print Assumptions C03_glr_model_duplicate_refuted.
