(* C10 -- Rejections are always reported as SyntaxError at the first offending token.
   Statements only. *)
From Coq Require Import NArith List Bool.
From PV Require Import Spec.Cfg Model.Table Model.LRDriver Validators.TableStruct Validators.TableProgress
  Model.Errors Proofs.ErrorsProofs Proofs.LRNoCrashProofs.
Import ListNotations.
Local Open Scope N_scope.

(* the reported line and column correspond to the position: for every input and every
   position inside it, line = 1 + number of newlines before the position and column =
   number of characters after the last newline before the position *)
Theorem C10_linecol : forall (w : list N) (p : N),
  p <= N.of_nat (length w) ->
  pos_to_line_col w p =
  (1 + count_nl (firstn (N.to_nat p) w), N.of_nat (length (last_line (firstn (N.to_nat p) w)))).
Proof. exact linecol_correct. Qed.
Print Assumptions C10_linecol.

(* the message says end of file exactly when the position is the end of the input *)
Theorem C10_eof : forall (w : list N) (p : N), is_eof w p = true <-> p = N.of_nat (length w).
Proof. exact eof_iff. Qed.
Print Assumptions C10_eof.

(* no other exception from the LR driver: for every table that passes table_struct and
   table_progress (both run on the impl's real table), every scanner, layout function, option
   setting, input, start position and amount of fuel, the driver model never ends in LRCrash
   (the model's stand-in for KeyError / IndexError / AttributeError inside Parser.parse): its
   outcomes are a result, SyntaxError, DisambiguationError, a SyntaxError of the LAYOUT
   sub-parser, or running out of fuel. *)
Theorem C10_lr_no_crash :
  forall g tb start skipws next_token stop_id consume_input in_layout,
    table_struct g tb start = true -> table_progress g tb stop_id = true ->
    forall fuel pos,
      is_crash (lr_parse g tb skipws next_token stop_id consume_input in_layout fuel pos) = false.
Proof. exact lr_no_crash. Qed.
Print Assumptions C10_lr_no_crash.

(* NOT PROVED (partial; decided per generated case against an Earley reference): the error
   position is the start of the first token that cannot extend any sentence prefix, it is the
   same for LR/GLR and LALR/SLR, GLR's symbols_expected are exactly the terminals that may
   come next, and no exception other than SyntaxError escapes GLRParser.parse. *)

Example C10_nonvacuous : pos_to_line_col [97; 10; 98; 99; 10; 100] 4 = (2, 2) /\ is_eof [97] 1 = true.
Proof. vm_compute. split; reflexivity. Qed.
