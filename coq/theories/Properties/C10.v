(* C10 -- Rejections are always reported as SyntaxError at the first offending token.
   Statements only. *)
From Coq Require Import NArith List Bool.
From PV Require Import Spec.Cfg Model.Table Spec.NLR Model.LRDriver Validators.TableStruct Validators.TableProgress
  Validators.ItemsSound Validators.TableComplete Model.Errors Proofs.ErrorsProofs Proofs.LRNoCrashProofs
  Proofs.LRProofs Proofs.LRTraceProofs Proofs.ViablePrefixProofs Proofs.LRErrorProofs.
Import ListNotations.
Local Open Scope N_scope.

(* the reported line and column correspond to the position: for every input and every
   position inside it, line = 1 + number of newlines before the position and column =
   number of characters after the last newline before the position *)
Theorem C10_linecol : forall (w : list N) (p : N),
  p <= N.of_nat (length w) ->
  pos_to_line_col w p =
  (1 + count_nl (firstn (N.to_nat p) w), N.of_nat (length (last_line (firstn (N.to_nat p) w)))).
Proof. exact linecol_correct. Qed.
Print Assumptions C10_linecol.

(* the message says end of file exactly when the position is the end of the input *)
Theorem C10_eof : forall (w : list N) (p : N), is_eof w p = true <-> p = N.of_nat (length w).
Proof. exact eof_iff. Qed.
Print Assumptions C10_eof.

(* no other exception from the LR driver: for every table that passes table_struct and
   table_progress (both run on the impl's real table), every scanner, layout function, option
   setting, input, start position and amount of fuel, the driver model never ends in LRCrash
   (the model's stand-in for KeyError / IndexError / AttributeError inside Parser.parse): its
   outcomes are a result, SyntaxError, DisambiguationError, a SyntaxError of the LAYOUT
   sub-parser, or running out of fuel. *)
Theorem C10_lr_no_crash :
  forall g tb start skipws next_token stop_id consume_input in_layout,
    table_struct g tb start = true -> table_progress g tb stop_id = true ->
    forall fuel pos,
      is_crash (lr_parse g tb skipws next_token stop_id consume_input in_layout fuel pos) = false.
Proof. exact lr_no_crash. Qed.
Print Assumptions C10_lr_no_crash.

(* the correct-prefix property of the LR machine of any table that passes table_struct and
   items_sound (both run on the impl's real tables with the impl's own item sets): in EVERY
   reachable configuration -- whatever the scanner, the layout, the lookahead and the conflict
   strategy -- the tokens shifted so far are the beginning of a sentence of the grammar.  An LR
   parser therefore never moves past a token that cannot continue a sentence. *)
Theorem C10_viable_prefix :
  forall g tb start look pos d c,
    table_struct g tb start = true -> items_sound g tb = true ->
    nsteps g tb look (init_cfg pos d) c ->
    exists t suffix, wf_tree g t /\ root_sym g t = Some (NT start) /\
                     leaves t = c_trace c ++ suffix.
Proof. intros g tb start look pos d c Hts His. exact (viable_prefix g tb start look Hts His pos d c). Qed.
Print Assumptions C10_viable_prefix.

(* SyntaxError at the first offending token, LR driver, consume_input on: when lr_parse ends in
   LRSyntaxError p st there is a list tr of tokens -- those shifted before the error; with the
   layout recorded for each they tile the input from the start position, and layout skipping
   after the last of them stops at p -- such that tr is the beginning of a sentence, and, the
   table being deterministic and passing table_complete, either the scanner found no token at p
   in state st, or the lookahead token (y, len) at p has no action in st and no derivation tree
   of the grammar has the leaves tr followed by that token (for STOP: tr is not a sentence). *)
Theorem C10_lr_error_at_first_offending_token :
  forall g tb ann fst_tab nul_tab stop_id start skipws next_token fuel pos0 p st,
    table_struct g tb start = true -> items_sound g tb = true ->
    table_complete g tb ann fst_tab nul_tab stop_id = true -> det_table tb = true ->
    lr_parse g tb skipws next_token stop_id true false fuel pos0 = LRSyntaxError p st ->
    exists tr,
      tiles skipws pos0 tr /\ skipws (last_end pos0 tr) = Some p /\
      (exists t suffix, wf_tree g t /\ root_sym g t = Some (NT start) /\ leaves t = strip tr ++ suffix) /\
      (next_token st p = TNone \/
       exists y len, cell tb st y = [] /\
         forall t, wf_tree g t -> root_sym g t = Some (NT start) ->
           ~ (if y =? stop_id then leaves t = strip tr
              else exists rest, leaves t = strip tr ++ (y, p, p + len) :: rest)).
Proof. exact lr_error_first_offending. Qed.
Print Assumptions C10_lr_error_at_first_offending_token.

(* NOT PROVED (partial; decided per generated case against an Earley reference): the same for
   tables with resolved conflicts and for GLR, that the position is the same for LR/GLR and
   LALR/SLR, that GLR's symbols_expected are exactly the terminals that may come next, and that
   no exception other than SyntaxError escapes GLRParser.parse. *)

Example C10_nonvacuous : pos_to_line_col [97; 10; 98; 99; 10; 100] 4 = (2, 2) /\ is_eof [97] 1 = true.
Proof. vm_compute. split; reflexivity. Qed.

(* non-vacuity of the error theorem: S' -> S ; S -> 'a' ; the empty input is rejected at 0 *)
Definition g10 : grammar := [mkProd 0 [NT 1]; mkProd 1 [T 0]].
Definition tb10 : table :=
  [ mkState (NT 0) [(0, [Shift 2%nat])] [(1, 1%nat)] [true] [(0, 0%nat); (1, 0%nat)];
    mkState (NT 1) [(1, [Accept])] [] [false] [(0, 1%nat)];
    mkState (T 0) [(1, [Reduce 1])] [] [false] [(1, 1%nat)] ].
Example C10_error_nonvacuous :
  table_struct g10 tb10 1 = true /\ items_sound g10 tb10 = true /\ det_table tb10 = true /\
  table_complete g10 tb10 [ [(0, 0%nat, []); (1, 0%nat, [1])]; [(0, 1%nat, [])]; [(1, 1%nat, [1])] ]
                 [[0]; [0]] [false; false] 1 = true /\
  lr_parse g10 tb10 (fun p => Some p) (fun st p => TTok 1 0) 1 true false 10 0 = LRSyntaxError 0 0.
Proof. repeat split; vm_compute; reflexivity. Qed.
