(* C10 -- Rejections are always reported as SyntaxError at the first offending token.
   Statements only. *)
From Coq Require Import NArith List Bool.
From PV Require Import Model.Errors Proofs.ErrorsProofs.
Import ListNotations.
Local Open Scope N_scope.

(* the reported line and column correspond to the position: for every input and every
   position inside it, line = 1 + number of newlines before the position and column =
   number of characters after the last newline before the position *)
Theorem C10_linecol : forall (w : list N) (p : N),
  p <= N.of_nat (length w) ->
  pos_to_line_col w p =
  (1 + count_nl (firstn (N.to_nat p) w), N.of_nat (length (last_line (firstn (N.to_nat p) w)))).
Proof. exact linecol_correct. Qed.
Print Assumptions C10_linecol.

(* the message says end of file exactly when the position is the end of the input *)
Theorem C10_eof : forall (w : list N) (p : N), is_eof w p = true <-> p = N.of_nat (length w).
Proof. exact eof_iff. Qed.
Print Assumptions C10_eof.

(* NOT PROVED (partial; decided per generated case against an Earley reference): the error
   position is the start of the first token that cannot extend any sentence prefix, it is the
   same for LR/GLR and LALR/SLR, GLR's symbols_expected are exactly the terminals that may
   come next, and no exception other than SyntaxError escapes GLRParser.parse. *)

Example C10_nonvacuous : pos_to_line_col [97; 10; 98; 99; 10; 100] 4 = (2, 2) /\ is_eof [97] 1 = true.
Proof. vm_compute. split; reflexivity. Qed.
