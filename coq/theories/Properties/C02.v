(* C02 -- GLR forest contains every derivation of the input.
   The universal statement is REFUTED for the unchanged implementation; what is
   proved is the witness and the exactness of the instruments the check uses. *)
From Coq Require Import NArith List Bool.
From PV Require Import Spec.Cfg Model.Forest Validators.ForestSound Validators.ForestComplete
  Proofs.ForestProofs Proofs.ForestSoundProofs Proofs.ForestCompleteProofs.
Import ListNotations.
Local Open Scope N_scope.

(* grammar: S: A A A | EMPTY; A: S 'b' | EMPTY;   input: "b"   derivations: 6, in forest: 4.
   F_w is the forest the impl returns (dumped by the harness; the check replays it on
   every run through the known finding KF-C02-lost-derivations). *)
Definition g_w : grammar :=
  [mkProd 0 [NT 1]; mkProd 1 [NT 2; NT 2; NT 2]; mkProd 1 []; mkProd 2 [NT 1; T 0]; mkProd 2 []].
Definition F_w : forest :=
  [ [ANT 4 1 1 []%nat];
    [ATerm 0 0 1];
    [ANT 2 0 0 []%nat];
    [ANT 3 0 1 [2; 1]%nat];
    [ANT 4 0 0 []%nat];
    [ANT 4 1 1 []%nat];
    [ATerm 0 0 1];
    [ANT 4 0 0 []%nat];
    [ANT 4 0 0 []%nat];
    [ANT 2 0 0 []%nat; ANT 1 0 0 [4; 8; 7]%nat];
    [ANT 3 0 1 [9; 6]%nat];
    [ANT 2 0 0 []%nat];
    [ANT 3 0 1 [11; 1]%nat];
    [ANT 1 0 1 [4; 8; 12]%nat; ANT 1 0 1 [10; 5; 0]%nat; ANT 1 0 1 [4; 3; 0]%nat] ].
Definition t_w : tree :=
  TNode 1 0 1 [TNode 4 0 0 []; TNode 4 0 0 [];
               TNode 3 0 1 [TNode 1 0 0 [TNode 4 0 0 []; TNode 4 0 0 []; TNode 4 0 0 []]; TLeaf 0 0 1]].

Lemma C02_witness_bool :
  forest_wf F_w = true /\ tree_ok g_w t_w = true /\
  forallb (fun t' => negb (tree_eqb (shape t') (shape t_w))) (root_trees F_w) = true.
Proof. vm_compute. repeat split. Qed.

(* there is an (acyclic) grammar, an input and a derivation tree of that input which no
   tree of the forest returned by the implementation equals, even up to node spans *)
Theorem C02_refuted :
  exists (g : grammar) (F : forest) (t : tree),
    forest_wf F = true /\ wf_tree g t /\ root_sym g t = Some (NT 1) /\ leaves t = [(0, 0, 1)] /\
    forall t', In t' (root_trees F) -> shape t' <> shape t.
Proof.
  exists g_w, F_w, t_w. destruct C02_witness_bool as (H1 & H2 & H3).
  split; [exact H1|]. split; [apply tree_ok_iff; exact H2|]. split; [reflexivity|].
  split; [reflexivity|].
  intros t' Hin E. rewrite forallb_forall in H3. specialize (H3 t' Hin).
  apply negb_true_iff in H3. apply (proj2 (tree_eqb_eq _ _)) in E. congruence.
Qed.
Print Assumptions C02_refuted.

(* the instruments: the derivation checker is exact, and root_trees -- what the check
   searches -- is exactly what len(forest)/forest[i] enumerate (C03) *)
Theorem C02_tree_ok_exact : forall g t, tree_ok g t = true <-> wf_tree g t.
Proof. exact tree_ok_iff. Qed.
Print Assumptions C02_tree_ok_exact.

Theorem C02_forest_enumeration_exact : forall (F : forest) (i : N),
  forest_wf F = true -> F <> [] -> i < root_count F ->
  tree_at F i = Some (nth (N.to_nat i) (root_trees F) dtree).
Proof. exact index_correct. Qed.
Print Assumptions C02_forest_enumeration_exact.

(* per forest: COMPLETENESS FROM LOCAL CHECKS.  forest_complete is a boolean check, run on every
   acyclic forest the impl returns (with a chart certificate proposed by the harness: a wrong
   chart makes it fail, never pass), under which EVERY derivation tree of the input -- root =
   start symbol, productions applied in order, every leaf a token of the recogniser oracle,
   consecutive leaves separated by layout only, first leaf right after the leading layout and
   (consume_input) only layout after the last -- is, up to the spans recorded in interior
   nodes, one of the trees the forest represents.  No enumeration, no bound on the number of
   derivations.  On the witness forest above the check fails, as it must. *)
Theorem C02_forest_complete :
  forall g tokok sk C toks start pos0 in_len consume F,
    (forall y s e, tokok y s e = true -> In (y, s, e) toks) ->
    forest_complete g tokok sk C toks start pos0 in_len consume F = true ->
    forall t,
      wf_tree g t -> root_sym g t = Some (NT start) ->
      chain_ok sk (leaves t) -> All (leaf_fine tokok) (leaves t) ->
      match bounds (leaves t) with
      | None => consume = true -> sk pos0 = in_len
      | Some (fs, le) => fs = sk pos0 /\ le <= in_len /\ (consume = true -> sk le = in_len)
      end ->
      exists t', In t' (root_trees F) /\ shape t' = shape t.
Proof. exact forest_complete_thm. Qed.
Print Assumptions C02_forest_complete.

(* the token list the extracted check uses covers the match matrix *)
Theorem C02_matrix_tokens_cover :
  forall rx y b l row,
    nth_error rx y = Some row -> nth_error row b = Some l -> l <> 0 ->
    In (N.of_nat y, N.of_nat b, N.of_nat b + l) (matrix_toks rx).
Proof. exact matrix_toks_In. Qed.
Print Assumptions C02_matrix_tokens_cover.

(* the checker used to certify reference derivations accepts exactly the derivations: together
   with C01_tree_valid (soundness) the completeness half *)
Theorem C02_tsum_complete :
  forall g tokok sk t,
    wf_tree g t -> chain_ok sk (leaves t) -> All (leaf_fine tokok) (leaves t) ->
    exists sm, tsum g tokok sk false t = Some sm /\ root_sym g t = Some (sm_sym sm) /\
               sm_fl sm = bounds (leaves t).
Proof. exact tsum_complete. Qed.
Print Assumptions C02_tsum_complete.

(* FULL STATEMENT NOT PROVED (and false as it stands): for every acyclic grammar and
   sentence w, every derivation tree of w is (up to node spans) in root_trees of the forest
   GLRParser.parse returns.  C02_partial (epsilon-free grammars) would need a model of the GLR
   driver; the check decides it per case with certified derivations instead. *)

Example C02_nonvacuous : length (root_trees F_w) = 4%nat /\ tree_ok g_w t_w = true.
Proof. vm_compute. split; reflexivity. Qed.

(* non-vacuity of C02_forest_complete: E -> E + E | n on "n+n+n" (two derivations), and the check
   rejects the witness forest F_w of the refutation *)
Definition gE2 : grammar := [mkProd 0 [NT 1]; mkProd 1 [NT 1; T 1; NT 1]; mkProd 1 [T 0]].
Definition tokE2 (y s e : N) : bool :=
  (e =? s + 1) && (((y =? 0) && ((s =? 0) || (s =? 2) || (s =? 4))) || ((y =? 1) && ((s =? 1) || (s =? 3)))).
Definition toksE2 : list (N * N * N) := [(0, 0, 1); (1, 1, 2); (0, 2, 3); (1, 3, 4); (0, 4, 5)].
Definition FE2 : forest :=
  [ [ATerm 0 0 1]; [ANT 2 0 1 [0%nat]]; [ATerm 1 1 2]; [ATerm 0 2 3]; [ANT 2 2 3 [3%nat]];
    [ATerm 1 3 4]; [ATerm 0 4 5]; [ANT 2 4 5 [6%nat]];
    [ANT 1 0 3 [1; 2; 4]%nat]; [ANT 1 2 5 [4; 5; 7]%nat];
    [ANT 1 0 5 [8; 5; 7]%nat; ANT 1 0 5 [1; 2; 9]%nat] ].
Definition CE2 : list item :=
  [ (T 0, Some (0, 1)); (T 1, Some (1, 2)); (T 0, Some (2, 3)); (T 1, Some (3, 4)); (T 0, Some (4, 5));
    (NT 1, Some (0, 1)); (NT 1, Some (2, 3)); (NT 1, Some (4, 5));
    (NT 1, Some (0, 3)); (NT 1, Some (2, 5)); (NT 1, Some (0, 5));
    (NT 0, Some (0, 1)); (NT 0, Some (2, 3)); (NT 0, Some (4, 5));
    (NT 0, Some (0, 3)); (NT 0, Some (2, 5)); (NT 0, Some (0, 5)) ].
Example C02_complete_nonvacuous :
  forest_ok gE2 tokE2 (fun p => p) false 1 0 5 true FE2 = true /\
  forest_complete gE2 tokE2 (fun p => p) CE2 toksE2 1 0 5 true FE2 = true /\
  length (root_trees FE2) = 2%nat.
Proof. vm_compute. repeat split; reflexivity. Qed.
(* ---- the GLR driver model (Model/GLR.v) ---------------------------------------------------------
   The completeness statement is FALSE of the faithful model of GLRParser.parse: with the
   implementation's own LALR table for  S: A A A | EMPTY; A: S 'b' | EMPTY;  on "b" the model
   (which agrees with the implementation on this and on every generated case, see
   harness/lib/glrcorr.py) returns a forest from which a derivation certified by the verified
   checker valid_parse (tsum + root conditions: tree_ok, root = start, leaves a tokenisation
   of the whole input) does not unfold -- not even up to the spans of interior nodes. *)
From PV Require Import Model.Table Model.Scan Model.Parser Model.GLR Spec.GLRSpec Validators.TableStruct
  Validators.ForestSound Proofs.GLRWitness.

Theorem C02_glr_model_lost_refuted :
  exists (c : pconf) (inp : pinput) (fuel : nat) (start : N) (nodes : forest) (root : nat) (t : tree),
    pc_consume c = true /\
    table_struct (pc_g c) (pc_tb c) start = true /\
    glr_parse_full c inp fuel 0 = GLRForest nodes root /\
    valid_parse c inp start 0 t = true /\
    wf_tree (pc_g c) t /\ root_sym (pc_g c) t = Some (NT start) /\
    forall t', unfolds (glr_forest nodes root) (pred (length (glr_forest nodes root))) t' ->
               shape t' <> shape t.
Proof. exact glr_model_lost. Qed.
Print Assumptions C02_glr_model_lost_refuted.

(* FULL STATEMENT NOT PROVED (false as it stands, see above; open for epsilon-free grammars):
     forall c inp fuel start nodes root t, table_struct .. = true -> table_complete .. = true ->
       glr_parse_full c inp fuel 0 = GLRForest nodes root -> valid_parse c inp start 0 t = true ->
       exists t', unfolds (glr_forest nodes root) (pred (length ..)) t' /\ shape t' = shape t. *)
