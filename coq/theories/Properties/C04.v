(* C04 -- LR parser is sound always and exact when its table is deterministic.
   Statements only. *)
From Coq Require Import NArith List Bool.
From PV Require Import Spec.Cfg Model.Table Spec.NLR Validators.TableStruct Validators.TableComplete
  Model.LRDriver Model.Scan Model.Parser Validators.LexSep Proofs.LRProofs Proofs.CompleteProofs
  Proofs.UnambigProofs Proofs.LRCompleteProofs Proofs.ScanSepProofs.
Import ListNotations.
Local Open Scope N_scope.

(* Any accepting run of the nondeterministic LR machine of a structurally valid
   table -- whatever the lookahead relation, i.e. whatever the scanner, layout and
   conflict-resolution strategy did -- yields a derivation tree rooted in the start
   symbol whose leaves are exactly the shifted tokens, in order. *)
Theorem C04_nlr_sound :
  forall (g : grammar) (tb : table) (start : N) (look : N -> N -> N -> N -> Prop),
    table_struct g tb start = true ->
    forall pos d c t,
      nsteps g tb look (init_cfg pos d) c -> naccepts tb look c t ->
      wf_tree g t /\ root_sym g t = Some (NT start) /\ leaves t = c_trace c.
Proof. exact nlr_sound. Qed.
Print Assumptions C04_nlr_sound.

(* The LR driver model (Parser.parse), for every scanner, layout function, option
   setting, start position and amount of fuel: what it returns is a derivation. *)
Theorem C04_lr_sound :
  forall g tb skipws next_token stop_id consume_input in_layout start fuel pos t rp lay tr,
    table_struct g tb start = true ->
    lr_parse g tb skipws next_token stop_id consume_input in_layout fuel pos = LROk t rp lay tr ->
    wf_tree g t /\ root_sym g t = Some (NT start) /\ leaves t = strip tr.
Proof. exact lr_sound. Qed.
Print Assumptions C04_lr_sound.

(* the derivation checker used to certify reference derivations is exact *)
Theorem C04_tree_ok_iff : forall g t, tree_ok g t = true <-> wf_tree g t.
Proof. exact tree_ok_iff. Qed.
Print Assumptions C04_tree_ok_iff.

(* Exactness for deterministic tables, part 1: if the table (annotated with the impl's LR(1)
   items and FIRST sets) passes table_complete, EVERY derivation tree of EVERY token sequence
   has an accepting run of the LR machine that builds exactly that tree: no sentence is lost
   by the table. *)
Theorem C04_every_sentence_has_a_run :
  forall (g : grammar) (tb : table) (ann : list (list litem)) (fst_tab : list (list N))
         (nul_tab : list bool) (stop_id start : N) (d t : tree),
    table_complete g tb ann fst_tab nul_tab stop_id = true ->
    (exists pr0, get_prod g 0 = Some pr0 /\ rhs pr0 = [NT start]) ->
    wf_tree g t -> root_sym g t = Some (NT start) ->
    exists st, lsteps g tb stop_id ([(O, d)], leaves t) (st, []) /\ laccepts tb stop_id st t.
Proof.
  intros g tb ann fst_tab nul_tab stop_id start d t H.
  exact (lr_machine_complete g tb ann fst_tab nul_tab stop_id H start d t).
Qed.
Print Assumptions C04_every_sentence_has_a_run.

(* part 2: if moreover every cell of the table holds a single action, the grammar is
   unambiguous: two derivation trees of the same token sequence are the same tree (up to the
   spans recorded in interior nodes). *)
Theorem C04_unambiguous :
  forall g tb ann fst_tab nul_tab stop_id start t1 t2,
    table_complete g tb ann fst_tab nul_tab stop_id = true ->
    det_table tb = true ->
    (exists pr0, get_prod g 0 = Some pr0 /\ rhs pr0 = [NT start]) ->
    wf_tree g t1 -> root_sym g t1 = Some (NT start) ->
    wf_tree g t2 -> root_sym g t2 = Some (NT start) ->
    leaves t1 = leaves t2 ->
    shape t1 = shape t2.
Proof. exact det_unambiguous. Qed.
Print Assumptions C04_unambiguous.

(* part 3: the LR DRIVER accepts every sentence of such a grammar and returns its derivation
   tree: if the scanner hands over the tokens of the sentence one by one (in every state that
   has an action for the true next token, layout skipping succeeds and the scanner returns
   exactly that token; at the end it returns STOP) the driver, given enough fuel, returns
   LROk with a tree equal to the derivation up to the spans of interior nodes. *)
Theorem C04_lr_complete :
  forall g tb ann fst_tab nul_tab stop_id start skipws next_token pos0 t,
    table_complete g tb ann fst_tab nul_tab stop_id = true ->
    det_table tb = true ->
    (exists pr0, get_prod g 0 = Some pr0 /\ rhs pr0 = [NT start]) ->
    wf_tree g t -> root_sym g t = Some (NT start) ->
    scan_ok tb skipws next_token stop_id pos0 (leaves t) ->
    exists fuel t' rp lay tr,
      lr_parse g tb skipws next_token stop_id true false fuel pos0 = LROk t' rp lay tr /\
      shape t' = shape t.
Proof. exact lr_driver_complete. Qed.
Print Assumptions C04_lr_complete.

(* part 4: the whole LR PARSER model -- table-driven scanner (token recognition in the order of
   the state's actions with priorities and finish flags, lexical disambiguation), ws-based
   layout skipping and the driver, i.e. [parse_full], the function compared with Parser.parse
   on every run -- accepts every lexically separated sentence and returns its derivation tree.
   [sep_tokens] is a boolean evaluated on the impl's table and recognizer match matrix: after
   layout skipping each token starts where the matrix says it matches with the token's length,
   and in every state with an action for that token no other terminal of the state matches
   there (the state's action keys being distinct). *)
Theorem C04_parser_complete :
  forall c inp ann fst_tab nul_tab start pos0 t,
    pc_layout c = None -> pc_consume c = true ->
    table_complete (pc_g c) (pc_tb c) ann fst_tab nul_tab (pc_stop c) = true ->
    det_table (pc_tb c) = true ->
    (exists pr0, get_prod (pc_g c) 0 = Some pr0 /\ rhs pr0 = [NT start]) ->
    wf_tree (pc_g c) t -> root_sym (pc_g c) t = Some (NT start) ->
    sep_tokens (rx_of inp) (in_len inp) (pc_stop c) (pc_tb c)
               (fun p => Some (skip_ws (pc_ws c) inp p)) pos0 (leaves t) = true ->
    exists fuel t' rp lay tr,
      parse_full c inp fuel pos0 = LROk t' rp lay tr /\ shape t' = shape t.
Proof. exact parser_complete_separated. Qed.
Print Assumptions C04_parser_complete.

(* NOT PROVED (partial): completeness for inputs that need the lexical disambiguation rules
   (several terminals of a state matching at one position; C07 relates the scanner to the
   documented order), for LAYOUT-rule layout, and that GLRParser returns exactly that tree;
   these are decided per generated case. *)

(* non-vacuity: S' -> S ; S -> 'a'   with its 3-state table *)
Definition g1 : grammar := [mkProd 0 [NT 1]; mkProd 1 [T 0]].
Definition tb1 : table :=
  [ mkState (NT 0) [(0, [Shift 2%nat])] [(1, 1%nat)] [true] [(0, 0%nat); (1, 0%nat)];
    mkState (NT 1) [(1, [Accept])] [] [false] [(0, 1%nat)];
    mkState (T 0) [(1, [Reduce 1])] [] [false] [(1, 1%nat)] ].
Example C04_nonvacuous :
  det_table tb1 = true /\
  table_complete g1 tb1 [ [(0, 0%nat, []); (1, 0%nat, [1])]; [(0, 1%nat, [])]; [(1, 1%nat, [1])] ]
                 [[0]; [0]] [false; false] 1 = true /\
  table_struct g1 tb1 1 = true /\
  exists t rp lay tr,
    lr_parse g1 tb1 (fun p => Some p)
             (fun st p => if (p =? 0) then TTok 0 1 else TTok 1 0) 1 true false 10 0
    = LROk t rp lay tr /\ leaves t = [(0, 0, 1)].
Proof.
  split; [vm_compute; reflexivity|]. split; [vm_compute; reflexivity|].
  split; [vm_compute; reflexivity|]. vm_compute. do 4 eexists. split; reflexivity.
Qed.

(* non-vacuity of part 4: the same grammar, input "a " with ws = {32}, terminal 0 matching "a" *)
Example C04_parser_nonvacuous :
  let c := mkPConf g1 tb1 [mkTerm 10 false; mkTerm 10 false] 1 true true [32] None in
  let inp := mkPInput [97; 32] [[1; 0]; [0; 0]] in
  sep_tokens (rx_of inp) (in_len inp) (pc_stop c) (pc_tb c)
             (fun p => Some (skip_ws (pc_ws c) inp p)) 0 [(0, 0, 1)] = true /\
  exists t rp lay tr, parse_full c inp 10 0 = LROk t rp lay tr /\ leaves t = [(0, 0, 1)].
Proof. split; [vm_compute; reflexivity|]. vm_compute. do 4 eexists. split; reflexivity. Qed.
(* ---- GLR on deterministic tables (GLR driver model, Model/GLR.v) ---------------------------
   With a table that passes table_struct and table_complete and holds one action per cell,
   every tree of the GLR model's forest whose leaves are the tokens the LR model shifted IS
   the LR model's tree, up to the spans of interior nodes -- for all scanners, inputs and
   fuel on both sides.  (Consequence of C04_lr_sound, C01_glr_model_sound and C04_unambiguous;
   that the forest holds exactly one tree is decided per case by the check: it would need a
   completeness theorem of the GLR exploration, which is false in general, see C02.) *)
From PV Require Import Model.Forest Model.Scan Model.GLR Validators.ForestSound Proofs.GLRAgree.
Theorem C04_glr_lr_agree_partial :
  forall (g : grammar) (tb : table) (ann : list (list litem)) (fst_tab : list (list N))
         (nul_tab : list bool) (stop_id start : N)
         (lskipws : N -> option N) (next_token : nat -> N -> tokres) (lconsume in_layout : bool)
         (lfuel : nat) (lpos : N) (t_lr : tree) rp lay tr
         (terms : list term_info) (rx : N -> N -> option N) (in_len : N) (consume lexdis : bool)
         (skipws : N -> skres) (rorder : list nat -> list nat -> list nat) (fuel : nat) (pos : N)
         (nodes : forest) (root : nat),
    table_struct g tb start = true ->
    table_complete g tb ann fst_tab nul_tab stop_id = true ->
    det_table tb = true ->
    lr_parse g tb lskipws next_token stop_id lconsume in_layout lfuel lpos = LROk t_lr rp lay tr ->
    glr_parse g tb terms rx in_len stop_id consume lexdis skipws rorder fuel pos = GLRForest nodes root ->
    forall t, unfolds (glr_forest nodes root) (pred (length (glr_forest nodes root))) t ->
      leaves t = leaves t_lr -> shape t = shape t_lr.
Proof. exact glr_lr_agree. Qed.
Print Assumptions C04_glr_lr_agree_partial.
