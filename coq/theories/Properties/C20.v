(* C20 -- A grammar split over imported files means the same as the flattened grammar.
   Statements only; proofs are in Proofs/ImportsProofs.v.

   The model (Model/Imports.v) is the impl's loader (registry, first-import-path names),
   its root-relative, local-first name resolution, override validation and the collection
   of productions from the root file.  What a user relies on:
   (1) a file is loaded once and named by ONE import path, whatever the graph shape;
   (2) a reference written in a file means the symbol of the file the reference names,
       although the impl resolves it from the root under a qualified name;
   (3) an override in the root under the qualified name reaches every user.
   (1) and (2) are theorems for all directories (any number of files, diamonds, cycles,
   aliases); (3) is a theorem for tree-shaped imports and is refuted for diamonds.

   Full statement not proved (kept for the record; covered by the differential run and
   the flatten oracle of harness/props/c20.py):
     C20_iso : for every directory d whose overrides are unambiguous,
       productions (build_grammar d) restricted to the symbols reachable from the start
       symbol = productions of the single-file grammar [flatten d] under the bijection
       fqn <-> flat name, hence equal tables, languages and results. *)
From Coq Require Import NArith List Bool.
From PV Require Import Model.Imports Proofs.ImportsProofs.
Import ListNotations.
Local Open Scope N_scope.

(* Each file contributes once: however many import paths (diamond, cycle, repeated
   imports) lead to a file, the registry of a successful load lists it once. *)
Theorem C20_once : forall (fuel : nat) (d : dir) (reg : list (nat * name)),
  load_root fuel d = LOk reg -> NoDup (map fst reg).
Proof. exact load_root_once. Qed.
Print Assumptions C20_once.

(* The qualified-name prefix given to a file (its first import path) leads from the
   root to that very file. *)
Theorem C20_first_path : forall (fuel : nat) (d : dir) (reg : list (nat * name)),
  imports_consistent d -> load_root fuel d = LOk reg ->
  forall f p, In (f, p) reg -> walk d 0%nat p = Some f.
Proof. exact load_root_paths. Qed.
Print Assumptions C20_first_path.

(* Modularity of references, any import graph: in a directory without override rules,
   the impl's resolution of a reference [nm] written in a loaded file [f] -- performed
   from the root under the name  <first path of f>.nm  -- finds exactly the symbol that
   [nm] denotes seen from [f]: follow the module names of [nm] from [f], look the last
   segment up there.  This is what makes the modular grammar equal to the grammar with
   every rule inlined under its qualified name. *)
Theorem C20_reference_denotation : forall (fuel : nat) (d : dir) (reg : list (nat * name)),
  imports_consistent d -> no_dotted_names d -> load_root fuel d = LOk reg ->
  forall f nm g n k, In f (map fst reg) -> nm <> [] ->
    (resolve d [] 0%nat (path_of reg f ++ nm) = RFound g n k <->
     spec_resolve d f nm = Some (g, n, k)).
Proof. exact reference_denotation. Qed.
Print Assumptions C20_reference_denotation.

(* With overrides present: root-relative resolution of  p.nm  still equals resolution of
   [nm] from the file reached by [p] provided no file on the way defines the rest of the
   name locally -- i.e. an override intercepts exactly the references whose path passes
   through the overriding file. *)
Theorem C20_resolution_along_path : forall (d : dir) (p : name) (f g : nat) (nm : name),
  nm <> [] -> walk d f p = Some g -> no_hit_along d f p nm ->
  resolve d [] f (p ++ nm) = resolve d [] g nm.
Proof. exact resolve_along. Qed.
Print Assumptions C20_resolution_along_path.

(* Overrides, tree-shaped imports (the part of the property that holds): a rule defined in
   the root under the qualified name  pg.x  of a rule of file g replaces it for EVERY user:
   whatever file f (reached by p) refers to it by whatever name q.x leading to g. *)
Theorem C20_override_reaches_all_users_partial : forall d : dir, import_tree d ->
  forall pg g x k, walk d 0%nat pg = Some g ->
    local_lookup (getf d 0%nat) (pg ++ [x]) = Some k ->
    forall f p q, walk d 0%nat p = Some f -> walk d f q = Some g ->
      resolve d [] 0%nat (p ++ q ++ [x]) = RFound 0%nat (pg ++ [x]) k.
Proof. exact override_reaches_all_users. Qed.
Print Assumptions C20_override_reaches_all_users_partial.

(* ... and nothing else changes: only references whose qualified name is exactly the
   overriding rule's name resolve to it. *)
Theorem C20_override_only_its_name_partial : forall d : dir, import_tree d ->
  forall o nm n k, resolve d [] 0%nat nm = RFound 0%nat n k -> n = o -> nm = o.
Proof. exact override_captures_only_its_name. Qed.
Print Assumptions C20_override_only_its_name_partial.

(* the hypotheses are decidable: these checkers are run on every generated directory *)
Theorem C20_no_dotted_check_sound : forall d, no_dotted_check d = true -> no_dotted_names d.
Proof. exact no_dotted_check_sound. Qed.
Print Assumptions C20_no_dotted_check_sound.

Theorem C20_imports_consistent_check_sound : forall d,
  imports_consistent_check d = true -> imports_consistent d.
Proof. exact imports_consistent_check_sound. Qed.
Print Assumptions C20_imports_consistent_check_sound.

(* ---- refutations: diamonds ---------------------------------------------------
   names: S=1 L=2 R=3 C=4 D=5, modules/strings l=10 r=11 base=12, 'c'=20 'd'=21 'z'=30
     root: import l, r;  S: l.L r.R;  <override>
     l: import base;  L: 'l' base.C;      r: import base;  R: 'r' base.C;
     base: C: 'c' D;  D: 'd'; *)
Definition fl := mkFile [(12, 3%nat)] [([2], [RStr 10; RRef [12; 4]])] [].
Definition fr := mkFile [(12, 3%nat)] [([3], [RStr 11; RRef [12; 4]])] [].
Definition fb := mkFile [] [([4], [RStr 20; RRef [5]]); ([5], [RStr 21])] [].
Definition froot ov :=
  mkFile [(10, 1%nat); (11, 2%nat)] (([1], [RRef [10; 2]; RRef [11; 3]]) :: ov) [].
Definition diamond ov : dir := [froot ov; fl; fr; fb].

(* Override under the first-path name  l.base.C: 'z';  -- l's use is replaced, but r's
   reference r.base.C bypasses the root's table, finds the original object, whose fqn
   l.base.C is already taken: r.R refers to a non-terminal that owns no production
   (the language becomes empty). *)
Theorem C20_first_path_override_orphan_refuted :
  exists reg c ps, build_grammar 100 (diamond [([10; 12; 4], [RStr 30])]) = GOk reg c ps /\
    In (mkGP [10; 2] 1 [2] [GT [10] 10; GNT [10; 12; 4] 0%nat [10; 12; 4] false]) ps /\
    In (mkGP [11; 3] 2 [3] [GT [11] 11; GNT [10; 12; 4] 3%nat [4] true]) ps.
Proof. vm_compute. do 3 eexists. split; [reflexivity|]. split; simpl; tauto. Qed.

(* Override under the other qualified name  r.base.C: 'z';  passes validation and
   replaces the rule for r only: the two users of base.C now see different rules. *)
Theorem C20_second_path_override_refuted :
  exists reg c ps, build_grammar 100 (diamond [([11; 12; 4], [RStr 30])]) = GOk reg c ps /\
    In (mkGP [10; 2] 1 [2] [GT [10] 10; GNT [10; 12; 4] 3%nat [4] false]) ps /\
    In (mkGP [11; 3] 2 [3] [GT [11] 11; GNT [11; 12; 4] 0%nat [11; 12; 4] false]) ps.
Proof. vm_compute. do 3 eexists. split; [reflexivity|]. split; simpl; tauto. Qed.

(* Inline string terminals carry no qualified name: the 'a' (7) of an imported file is
   unified with the root's declared terminal  a: 'x' (8)  and matches x. *)
Theorem C20_inline_terminal_captured_refuted :
  exists reg c ps,
    build_grammar 100 [mkFile [(10, 1%nat)] [([1], [RRef [10; 2]; RRef [7]])] [([7], 8)];
                       mkFile [] [([2], [RStr 7])] []] = GOk reg c ps /\
    In (mkGP [10; 2] 1 [2] [GT [7] 8]) ps.
Proof. vm_compute. do 3 eexists. split; [reflexivity|]. simpl; tauto. Qed.

(* Override validation through an import cycle meets an import that is still loading
   (pgfile = None): root imports b, d; b imports root and defines root.d.D. *)
Theorem C20_cycle_override_crash_refuted :
  build_grammar 100
    [mkFile [(10, 1%nat); (11, 2%nat)] [([1], [RRef [10; 2]; RRef [11; 3]])] [];
     mkFile [(13, 0%nat)] [([2], [RStr 10; RRef [13; 11; 3]]); ([13; 11; 3], [RStr 30])] [];
     mkFile [] [([3], [RStr 11])] []] = GCrash.
Proof. vm_compute. reflexivity. Qed.

(* ---- non-vacuity: the diamond without overrides satisfies every hypothesis; base is
   registered once under l.base and r's reference base.C means base's C *)
Example C20_nonvacuous :
  imports_consistent (diamond []) /\ no_dotted_names (diamond []) /\
  load_root 100 (diamond []) = LOk [(0%nat, []); (1%nat, [10]); (3%nat, [10; 12]); (2%nat, [11])] /\
  resolve (diamond []) [] 0%nat ([11] ++ [12; 4]) = RFound 3%nat [4] KNT /\
  spec_resolve (diamond []) 2%nat [12; 4] = Some (3%nat, [4], KNT).
Proof.
  split; [apply imports_consistent_check_sound; vm_compute; reflexivity|].
  split; [apply no_dotted_check_sound; vm_compute; reflexivity|].
  vm_compute. repeat split.
Qed.

(* non-vacuity of the override theorem: root -> l -> base (a tree), the root overrides
   l.base.D; base's own reference D (qualified l.base.D) and l's reference base.D reach it *)
Definition chain : dir :=
  [mkFile [(10, 1%nat)] [([1], [RRef [10; 2]]); ([10; 12; 5], [RStr 30])] [];
   mkFile [(12, 2%nat)] [([2], [RStr 10; RRef [12; 4]; RRef [12; 5]])] [];
   fb].
Example C20_override_nonvacuous :
  import_tree chain /\ walk chain 0%nat [10; 12] = Some 2%nat /\
  local_lookup (getf chain 0%nat) ([10; 12] ++ [5]) = Some KNT /\
  walk chain 0%nat [10] = Some 1%nat /\ walk chain 1%nat [12] = Some 2%nat /\
  resolve chain [] 0%nat ([10] ++ [12] ++ [5]) = RFound 0%nat [10; 12; 5] KNT.
Proof.
  split; [|vm_compute; repeat split].
  assert (H : forall f m g, imp_target chain f m = Some g ->
                            (f = 0%nat /\ m = 10 /\ g = 1%nat) \/ (f = 1%nat /\ m = 12 /\ g = 2%nat)).
  { intros f m g. destruct f as [|[|[|f]]]; unfold imp_target, find_import; cbn -[N.eqb].
    - destruct (10 =? m) eqn:E; simpl; [|discriminate]. apply N.eqb_eq in E.
      intro H; inversion H; subst. left. repeat split.
    - destruct (12 =? m) eqn:E; simpl; [|discriminate]. apply N.eqb_eq in E.
      intro H; inversion H; subst. right. repeat split.
    - discriminate.
    - destruct f; cbn; discriminate. }
  split.
  - intros f m E. destruct (H _ _ _ E) as [[_ [_ X]]|[_ [_ X]]]; discriminate.
  - intros f1 m1 f2 m2 g E1 E2.
    destruct (H _ _ _ E1) as [[A1 [B1 C1]]|[A1 [B1 C1]]];
      destruct (H _ _ _ E2) as [[A2 [B2 C2]]|[A2 [B2 C2]]]; subst; try discriminate;
      split; reflexivity.
Qed.
