From Coq Require Import NArith List Bool.
From PV Require Import Model.StrTerm.
Theorem C19_placeholder : True. Proof. exact I. Qed.
Print Assumptions C19_placeholder.
