(* C19 -- String terminals match their literal text; KEYWORD adds whole-word matching.
   Statements only; proofs are in Proofs/StrTermProofs.v and Proofs/StrFrontProofs.v.
   Strings are lists of code points ([str = list N]). *)
From Coq Require Import NArith List Bool.
From PV Require Import Model.StrTerm Proofs.StrTermProofs Proofs.StrFrontProofs.
Import ListNotations.
Local Open Scope N_scope.

(* A string terminal with (non-empty) text v matches at position p of w exactly when the
   text of w at p is v -- equal up to case when ignore_case is on -- whatever characters v
   consists of; what it returns is v. *)
Theorem C19_literal : forall (ic : bool) (v w : str) (p : nat) (r : str),
  v <> [] ->
  (string_rec ic v w p = Some r <->
   r = v /\ exists a m b, w = a ++ m ++ b /\ length a = p /\
                          (if ic then lower m = lower v else m = v)).
Proof. exact string_rec_literal. Qed.
Print Assumptions C19_literal.

(* Keyword terminals (after the repair of Grammar._fix_keyword_terminals: escaped text,
   \b next to a word character, lookaround next to anything else).  For EVERY non-empty
   text -- regex metacharacters, whitespace, '#', non-word first or last character
   included -- the rewritten recognizer matches at p iff the text is at p (up to case with
   ignore_case) and neither neighbour is a word character; it returns the matched input.
   Holds for every notion of word character that case folding preserves. *)
Theorem C19_keyword : forall (is_word : N -> bool),
  (forall c, is_word (lower_c c) = is_word c) ->
  forall (ic : bool) (v w : str) (p : nat),
    v <> [] ->
    kw_rec is_word ic v w p =
    if kw_spec is_word ic v w p then Some (slice w p (length v)) else None.
Proof. exact kw_rec_spec. Qed.
Print Assumptions C19_keyword.

Theorem C19_keyword_ascii : forall (ic : bool) (v w : str) (p : nat),
  v <> [] ->
  kw_rec ascii_word ic v w p =
  if kw_spec ascii_word ic v w p then Some (slice w p (length v)) else None.
Proof. exact (kw_rec_spec ascii_word ascii_word_lower). Qed.
Print Assumptions C19_keyword_ascii.

(* The repair is behaviour preserving where the old code was right: for a text that begins
   and ends with a word character the recognizer is the old one (\b on both sides). *)
Theorem C19_keyword_repair_preserving : forall (is_word : N -> bool) (ic : bool) (v w : str) (p : nat),
  first_is is_word v = true -> last_is is_word v = true ->
  kw_rec is_word ic v w p = kw_rec_bb is_word ic v w p.
Proof. exact kw_rec_preserved. Qed.
Print Assumptions C19_keyword_repair_preserving.

(* What was wrong before the repair (fixed: KF-C19-keyword-boundary-nonword-edge): with \b
   on both sides the keyword -x does not match the input -x at all and does match inside
   a-x; the repaired recognizer does the opposite. *)
Theorem C19_kw_edge_repaired :
  kw_rec_bb ascii_word false [45; 120] [45; 120] 0 = None /\
  kw_rec_bb ascii_word false [45; 120] [97; 45; 120] 1 = Some [45; 120] /\
  kw_rec ascii_word false [45; 120] [45; 120] 0 = Some [45; 120] /\
  kw_rec ascii_word false [45; 120] [97; 45; 120] 1 = None.
Proof. vm_compute. repeat split; reflexivity. Qed.
Print Assumptions C19_kw_edge_repaired.

(* String constants.  A body made of plain characters and of escapes \c with c other than
   the backslash (so backslash-quote, backslash-n, backslash-t and unknown escapes such as \d or \.) denotes, after the
   two un-escape passes of the impl, exactly its conventional single-pass reading.
   FULL STATEMENT (refuted below): the same for bodies containing escaped backslashes. *)
Theorem C19_unescape_partial : forall us : list unit_,
  forallb unit_ok us = true ->
  impl_unescape (units_src us) = units_val us /\
  impl_unescape (units_src us) = std_unescape (units_src us).
Proof.
  exact (fun us H => conj (impl_unescape_units us H) (unescape_conventional us H)).
Qed.
Print Assumptions C19_unescape_partial.

(* '\\n' (backslash backslash n) is a newline for the impl, not backslash-n; '\\\\' is one
   backslash, not two *)
Theorem C19_unescape_refuted :
  impl_unescape [92; 92; 110] = [10] /\ std_unescape [92; 92; 110] = [92; 110] /\
  impl_unescape [92; 92; 92; 92] = [92] /\ std_unescape [92; 92; 92; 92] = [92; 92].
Proof. vm_compute. repeat split; reflexivity. Qed.
Print Assumptions C19_unescape_refuted.

(* Front end.  If the declared part of a grammar is well formed ([decl_ok]) and every inline
   text is free of '.', newline and tab, is not STOP/EMPTY/KEYWORD, is not the name of a
   rule or declared terminal and not the text of a declared string terminal ([text_ok]),
   then Grammar construction succeeds and its terminals and productions are exactly the
   declarative reading [spec_build]: one string terminal per distinct text, matching that
   text (a keyword iff KEYWORD matches the text completely), every occurrence resolved to
   it -- which is also what the same text declared in the terminals section gives.
   FULL STATEMENT (refuted below): the same for every inline text.  Not proved here: the
   renaming step  build (declare names a) ~ build a  for a fresh injective naming of the
   inline texts (checked differentially on the impl: inline vs declared form). *)
Theorem C19_inline_as_declared_partial : forall (kw : str -> bool) (a : ast),
  nice a = true -> build kw a = Ok (spec_build kw a).
Proof. exact build_nice. Qed.
Print Assumptions C19_inline_as_declared_partial.

Definition s_S : str := [83].
Definition s_A : str := [65].
Definition s_ID : str := [73; 68].
Definition s_DOT : str := [68; 79; 84].
Definition nokw : str -> bool := fun _ => false.

(* S: ID '.' ID;  terminals ID: /\w+/;   is rejected ("Unexisting module"), although
   S: ID DOT ID;  terminals ID: /\w+/; DOT: '.';   is accepted and means what it says *)
Theorem C19_dot_refuted :
  build nokw (mkAst [mkRule s_S [[IRef s_ID; IStr [46]; IRef s_ID]]] [mkT s_ID (RRegex 0)])
  = Err EUnexistingModule /\
  let a' := mkAst [mkRule s_S [[IRef s_ID; IRef s_DOT; IRef s_ID]]]
                  [mkT s_ID (RRegex 0); mkT s_DOT (RStr [46])] in
  build nokw a' = Ok (spec_build nokw a').
Proof. vm_compute. split; reflexivity. Qed.
Print Assumptions C19_dot_refuted.

(* S: 'A' A; A: 'x';  -> "Rule A already defined as terminal";
   S: '<newline>' 'x'; -> "Unknown symbol" (registered under the escaped name);
   S: 'KEYWORD' 'x';   -> "KEYWORD rule must have a regex recognizer" *)
Theorem C19_name_refuted :
  build nokw (mkAst [mkRule s_S [[IStr s_A; IRef s_A]]; mkRule s_A [[IStr [120]]]] [])
  = Err ERuleIsTerminal /\
  build nokw (mkAst [mkRule s_S [[IStr [10]; IStr [120]]]] []) = Err EUnknownSymbol /\
  build nokw (mkAst [mkRule s_S [[IStr n_KEYWORD; IStr [120]]]] []) = Err EKeywordNotRegex.
Proof. vm_compute. repeat split; reflexivity. Qed.
Print Assumptions C19_name_refuted.

(* Lexical precedence.  A keyword terminal sits in the sorted action list of every state
   exactly where it would sit as a plain string terminal, and carries the same implicit
   finish flag; [kw_len_ok]: its recognizer is named by the text (the sort key uses that length). *)
Theorem C19_kw_rank : forall l : list aterm,
  forallb kw_len_ok l = true ->
  sort_acts (map as_string l) = map as_string (sort_acts l) /\
  finish_flags (map as_string l) = finish_flags l.
Proof. exact (fun l H => conj (sort_as_string l H) (finish_as_string l)). Qed.
Print Assumptions C19_kw_rank.

Theorem C19_kw_finish : forall (t : aterm) (below : option N) (v : str),
  at_rec t = FKw v -> at_finish t = None -> implicit_finish t below = true.
Proof. exact kw_finish_flag. Qed.
Print Assumptions C19_kw_finish.

(* non-vacuity:  S: 'for' ID '+' ID;  terminals ID: /\w+/; KEYWORD: /\w+/;  is [nice];
   'for' becomes a keyword, '+' stays a string terminal, and on the input "for fora" the
   keyword matches at 0 but not at 4 while the plain string '+' matches anywhere *)
Definition s_for : str := [102; 111; 114].
Definition ex_ast : ast :=
  mkAst [mkRule s_S [[IStr s_for; IRef s_ID; IStr [43]; IRef s_ID]]]
        [mkT s_ID (RRegex 0); mkT n_KEYWORD (RRegex 1)].
Definition ex_kw : str -> bool := fun v => forallb ascii_word v.
Example C19_nonvacuous :
  nice ex_ast = true /\
  (exists d, build ex_kw ex_ast = Ok d /\
     map g_rec (d_terms d) = [FRegex 0; FRegex 1; FKw s_for; FStr [43]]) /\
  kw_rec ascii_word false s_for [102; 111; 114; 32; 102; 111; 114; 97] 0 = Some s_for /\
  kw_rec ascii_word false s_for [102; 111; 114; 32; 102; 111; 114; 97] 4 = None /\
  (* the keyword c++ matches "c++ x" at 0 and does not match "ccc" *)
  kw_rec ascii_word false [99; 43; 43] [99; 43; 43; 32; 120] 0 = Some [99; 43; 43] /\
  kw_rec ascii_word false [99; 43; 43] [99; 99; 99] 0 = None /\
  string_rec false [43] [97; 43; 98] 1 = Some [43] /\
  forallb unit_ok [UPlain 97; UEsc 39; UEsc 110; UEsc 46] = true.
Proof.
  split; [vm_compute; reflexivity|]. split.
  - eexists. split; [vm_compute; reflexivity | vm_compute; reflexivity].
  - vm_compute. repeat split; reflexivity.
Qed.
Print Assumptions C19_nonvacuous.
