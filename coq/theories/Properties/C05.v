(* C05 -- Table construction terminates and is a faithful LR(1)-family table.
   Statements only. *)
From Coq Require Import NArith List Bool.
From PV Require Import Spec.Cfg Model.Table Spec.NLR Validators.TableStruct Validators.TableComplete
  Proofs.CompleteProofs.
Import ListNotations.
Local Open Scope N_scope.

(* Nothing valid is missing: if the table, annotated with LR(1) items (production, dot,
   lookahead set) per state and FIRST/nullable tables, passes the boolean check
   table_complete, then for EVERY derivation tree t of the grammar rooted in the start
   symbol the LR machine of the table, reading the leaves of t, has a run that shifts all
   of them, ends with ACCEPT on STOP and has built exactly t.  (Run on every table the impl
   builds, with the impl's own item sets, follow sets and FIRST sets as annotation.) *)
Theorem C05_nothing_missing :
  forall (g : grammar) (tb : table) (ann : list (list litem)) (fst_tab : list (list N))
         (nul_tab : list bool) (stop_id start : N) (d t : tree),
    table_complete g tb ann fst_tab nul_tab stop_id = true ->
    (exists pr0, get_prod g 0 = Some pr0 /\ rhs pr0 = [NT start]) ->
    wf_tree g t -> root_sym g t = Some (NT start) ->
    exists st, lsteps g tb stop_id ([(O, d)], leaves t) (st, []) /\ laccepts tb stop_id st t.
Proof.
  intros g tb ann fst_tab nul_tab stop_id start d t H. exact (lr_machine_complete g tb ann fst_tab nul_tab stop_id H start d t).
Qed.
Print Assumptions C05_nothing_missing.

(* and nothing invalid is present in any accepting run (structure of the automaton) *)
Theorem C05_only_derivations :
  forall (g : grammar) (tb : table) (start : N) (look : N -> N -> N -> N -> Prop),
    table_struct g tb start = true ->
    forall pos d c t,
      nsteps g tb look (init_cfg pos d) c -> naccepts tb look c t ->
      wf_tree g t /\ root_sym g t = Some (NT start) /\ leaves t = c_trace c.
Proof. exact nlr_sound. Qed.
Print Assumptions C05_only_derivations.

(* NOT PROVED (partial; decided per generated grammar against a reference canonical
   LR(1)/LALR(1) construction, and by a state budget for termination):
   - create_table terminates for every productive grammar        (false: KF-C05-lalr-divergence)
   - LALR tables offer no reduction outside the LALR(1) lookahead (false before the fixes)
   - create_table's output passes table_struct and table_complete for every grammar. *)

(* non-vacuity: S' -> S ; S -> 'a' *)
Definition g1 : grammar := [mkProd 0 [NT 1]; mkProd 1 [T 0]].
Definition tb1 : table :=
  [ mkState (NT 0) [(0, [Shift 2%nat])] [(1, 1%nat)] [true] [(0, 0%nat); (1, 0%nat)];
    mkState (NT 1) [(1, [Accept])] [] [false] [(0, 1%nat)];
    mkState (T 0) [(1, [Reduce 1])] [] [false] [(1, 1%nat)] ].
Definition ann1 : list (list litem) :=
  [ [(0, 0%nat, []); (1, 0%nat, [1])]; [(0, 1%nat, [])]; [(1, 1%nat, [1])] ].
Example C05_nonvacuous :
  table_complete g1 tb1 ann1 [[0]; [0]] [false; false] 1 = true /\ table_struct g1 tb1 1 = true.
Proof. vm_compute. split; reflexivity. Qed.
