(* C05 -- Table construction terminates and is a faithful LR(1)-family table.
   Statements only. *)
From Coq Require Import NArith List Bool.
From PV Require Import Spec.Cfg Model.Table Spec.NLR Validators.TableStruct Validators.TableComplete
  Proofs.CompleteProofs.
Import ListNotations.
Local Open Scope N_scope.

(* Nothing valid is missing: if the table, annotated with LR(1) items (production, dot,
   lookahead set) per state and FIRST/nullable tables, passes the boolean check
   table_complete, then for EVERY derivation tree t of the grammar rooted in the start
   symbol the LR machine of the table, reading the leaves of t, has a run that shifts all
   of them, ends with ACCEPT on STOP and has built exactly t.  (Run on every table the impl
   builds, with the impl's own item sets, follow sets and FIRST sets as annotation.) *)
Theorem C05_nothing_missing :
  forall (g : grammar) (tb : table) (ann : list (list litem)) (fst_tab : list (list N))
         (nul_tab : list bool) (stop_id start : N) (d t : tree),
    table_complete g tb ann fst_tab nul_tab stop_id = true ->
    (exists pr0, get_prod g 0 = Some pr0 /\ rhs pr0 = [NT start]) ->
    wf_tree g t -> root_sym g t = Some (NT start) ->
    exists st, lsteps g tb stop_id ([(O, d)], leaves t) (st, []) /\ laccepts tb stop_id st t.
Proof.
  intros g tb ann fst_tab nul_tab stop_id start d t H. exact (lr_machine_complete g tb ann fst_tab nul_tab stop_id H start d t).
Qed.
Print Assumptions C05_nothing_missing.

(* and nothing invalid is present in any accepting run (structure of the automaton) *)
Theorem C05_only_derivations :
  forall (g : grammar) (tb : table) (start : N) (look : N -> N -> N -> N -> Prop),
    table_struct g tb start = true ->
    forall pos d c t,
      nsteps g tb look (init_cfg pos d) c -> naccepts tb look c t ->
      wf_tree g t /\ root_sym g t = Some (NT start) /\ leaves t = c_trace c.
Proof. exact nlr_sound. Qed.
Print Assumptions C05_only_derivations.

(* NOT PROVED (partial; decided per generated grammar against a reference canonical
   LR(1)/LALR(1) construction, and by a state budget for termination):
   - create_table terminates for every productive grammar        (false: KF-C05-lalr-divergence)
   - LALR tables offer no reduction outside the LALR(1) lookahead (false before the fixes)
   - create_table's output passes table_struct and table_complete for every grammar. *)

(* non-vacuity: S' -> S ; S -> 'a' *)
Definition g1 : grammar := [mkProd 0 [NT 1]; mkProd 1 [T 0]].
Definition tb1 : table :=
  [ mkState (NT 0) [(0, [Shift 2%nat])] [(1, 1%nat)] [true] [(0, 0%nat); (1, 0%nat)];
    mkState (NT 1) [(1, [Accept])] [] [false] [(0, 1%nat)];
    mkState (T 0) [(1, [Reduce 1])] [] [false] [(1, 1%nat)] ].
Definition ann1 : list (list litem) :=
  [ [(0, 0%nat, []); (1, 0%nat, [1])]; [(0, 1%nat, [])]; [(1, 1%nat, [1])] ].
Example C05_nonvacuous :
  table_complete g1 tb1 ann1 [[0]; [0]] [false; false] 1 = true /\ table_struct g1 tb1 1 = true.
Proof. vm_compute. split; reflexivity. Qed.

(* ========================================================================================
   The construction itself: an executable Gallina model of create_table (Model/First.v,
   Closure.v, Automaton.v, TableBuild.v), compared with the impl's tables on every run
   (correspondence table_build_correspondence, harness/lib/tabcorr.py), and theorems about
   it for ALL grammars.
   ======================================================================================== *)
From Coq Require Import Arith.
From PV Require Import Model.First Model.Closure Model.Automaton Model.Resolve Model.TableBuild
  Model.TableSpec Proofs.SetProofs Proofs.FirstProofs Proofs.FollowProofs Proofs.ClosureProofs
  Proofs.AutomatonProofs Proofs.TableBuildProofs.

(* ---- (a) FIRST / nullable ------------------------------------------------------------ *)
(* first(grammar) needs at most |nonterminals| * |terminals| + 1 rounds: no fuel hypothesis *)
Theorem C05_first_terminates :
  forall (e : N) (nnts nterms : nat) (ps : list prod) (fuel : nat),
    prods_wfb e nnts nterms ps = true -> (first_fuel nnts nterms <= fuel)%nat ->
    exists fs, first_sets e fuel nnts ps = Some fs.
Proof.
  intros e nnts nterms ps fuel Hwf Hf.
  destruct (first_fuel_enough e nnts nterms ps Hwf fuel Hf) as (fs & H & _). exists fs. exact H.
Qed.
Print Assumptions C05_first_terminates.

(* soundness: a terminal in FIRST(a) starts a sentential form derived from a; EMPTY in
   FIRST(a) means a derives the empty string (derivations over the grammar without EMPTY) *)
Theorem C05_first_sound :
  forall (e : N) (ps : list prod) (fuel nnts : nat) (fs : fsets),
    first_sets e fuel nnts ps = Some fs ->
    forall a y, In y (fget fs a) ->
      (y = e -> derives (strip_prods e ps) [NT a] []) /\
      (y <> e -> exists beta, derives (strip_prods e ps) [NT a] (T y :: beta)).
Proof. intros e ps fuel nnts fs H. exact (first_sound e ps fuel nnts fs H). Qed.
Print Assumptions C05_first_sound.

(* completeness, in the form the validator asks of its certificate: the model's FIRST sets
   pass first_closed, so they can serve as the FIRST/nullable annotation of table_complete *)
Theorem C05_first_closed :
  forall (e : N) (ps : list prod) (fuel nnts : nat) (fs : fsets),
    first_sets e fuel nnts ps = Some fs ->
    first_closed (strip_prods e ps) (fst_tab_of e fs) (nul_tab_of e fs) = true.
Proof. exact first_closed_ok. Qed.
Print Assumptions C05_first_closed.

(* hence FIRST(a) contains EVERY terminal that starts a sentential form derived from a *)
Theorem C05_first_complete :
  forall (e : N) (ps : list prod) (fuel nnts : nat) (fs : fsets) (a : N),
    first_sets e fuel nnts ps = Some fs ->
    (forall y beta, derives (strip_prods e ps) [NT a] (T y :: beta) -> In y (fget fs a) /\ y <> e) /\
    (derives (strip_prods e ps) [NT a] [] -> In e (fget fs a)).
Proof. intros e ps fuel nnts fs a H. exact (first_complete e ps fuel nnts fs a H). Qed.
Print Assumptions C05_first_complete.

(* EMPTY symbols in right-hand sides are invisible to first(grammar): the raw grammar the impl
   holds and the grammar without EMPTY that the rest of the verification uses give the same sets *)
Theorem C05_first_ignores_empty :
  forall (e : N) (fuel nnts : nat) (ps : list prod),
    first_sets e fuel nnts ps = first_sets e fuel nnts (strip_prods e ps).
Proof. exact first_sets_strip. Qed.
Print Assumptions C05_first_ignores_empty.

(* the derivation relation agrees with the derivation trees of Spec/Cfg.v *)
Theorem C05_derives_of_tree :
  forall (g : grammar) (t : tree) (X : sym),
    wf_tree g t -> root_sym g t = Some X -> derives g [X] (leaf_syms t).
Proof. intros g t X Hwf. exact (derives_of_tree g t Hwf X). Qed.
Print Assumptions C05_derives_of_tree.

(* FOLLOW: same fuel bound, and closedness under the FOLLOW rules *)
Theorem C05_follow_terminates :
  forall (e : N) (fs : fsets) (ps : list prod) (nnts nterms : nat),
    fs_inv nnts nterms fs -> prods_wfb e nnts nterms ps = true ->
    exists fo, follow_sets e (first_fuel nnts nterms) fs nnts ps = Some fo.
Proof.
  intros e fs ps nnts nterms Hfs Hwf.
  destruct (follow_total e fs ps nnts nterms Hfs Hwf) as (fo & H & _). exists fo. exact H.
Qed.
Print Assumptions C05_follow_terminates.

Theorem C05_follow_closed :
  forall (e : N) (fs : fsets) (ps : list prod) (fuel nnts : nat) (fo : fsets),
    follow_sets e fuel fs nnts ps = Some fo ->
    forall b p pre suf y,
      (N.to_nat b < nnts)%nat -> In p ps -> rhs p = pre ++ NT b :: suf -> y <> e ->
      (In y (fst_seq (fst_tab_of e fs) (nul_tab_of e fs) (strip e suf)) \/
       (nul_seq (nul_tab_of e fs) (strip e suf) = true /\ In y (fget fo (lhs p)))) ->
      In y (fget fo b).
Proof.
  intros e fs ps fuel nnts fo H b p pre suf y Hb Hp Hr Hy Hin.
  apply (follow_closed_ok e fs ps fuel nnts fo H b p Hb Hp pre suf Hr y Hy).
  apply (sfirst_strip e fs _ suf y Hy). exact Hin.
Qed.
Print Assumptions C05_follow_closed.

(* ---- (b) closure ------------------------------------------------------------------------ *)
(* the closure keeps the given items in place (follow sets only grow), appends only items
   with the dot at position 0, is closed -- for every item A -> alpha . B beta [L] and every
   production q of B the item (q, 0) is present and, for LR_1, its follow set contains
   _new_item_follow of the source item -- and keeps the items pairwise different *)
Theorem C05_closure_closed :
  forall (ps : list prod) (e : N) (lr1 : bool) (fs : fsets) (fuel : nat) (its its' : list item),
    closure ps e lr1 fs fuel its = Some its' ->
    grows its its' /\ closed ps e lr1 fs its' /\ (pd_nodup its -> pd_nodup its').
Proof. exact closure_spec. Qed.
Print Assumptions C05_closure_closed.

(* soundness: every appended item is B -> . gamma for an item of the result with B after its
   dot, and every lookahead that was not given comes from _new_item_follow of such an item *)
Theorem C05_closure_sound :
  forall (ps : list prod) (e : N) (lr1 : bool) (fs : fsets) (fuel : nat) (its its' : list item),
    closure ps e lr1 fs fuel its = Some its' -> justified ps e fs its its'.
Proof. exact closure_sound. Qed.
Print Assumptions C05_closure_sound.

(* _new_item_follow is FIRST(beta), plus the item's own follow set when beta is nullable *)
Theorem C05_new_item_follow :
  forall (ps : list prod) (e : N) (fs : fsets) (it : item) (y : N),
    trailing_emptyb e (rhs_raw ps (it_p it)) = true ->
    (it_d it < rlen e (rhs_raw ps (it_p it)))%nat -> y <> e ->
    (In y (new_item_follow ps e fs it) <->
     In y (fst_seq (fst_tab_of e fs) (nul_tab_of e fs)
                   (skipn (S (it_d it)) (strip e (rhs_raw ps (it_p it))))) \/
     (nul_seq (nul_tab_of e fs) (skipn (S (it_d it)) (strip e (rhs_raw ps (it_p it)))) = true /\
      In y (it_f it))).
Proof. exact nif_spec. Qed.
Print Assumptions C05_new_item_follow.

(* goto / state queue: when the queue is empty every state is closed, its items are pairwise
   different, and for every item with a symbol X after the dot the state records ACCEPT
   (X = STOP), a SHIFT or a GOTO whose target contains the advanced item -- whatever LALR
   merges happened *)
Theorem C05_automaton_structure :
  forall (ps : list prod) (e stop : N) (lr1 : bool) (fs : fsets) (cfuel : nat)
         (max_states : option nat) (fuel : nat) (all : list mstate),
    ps <> [] ->
    build_loop ps e stop lr1 fs cfuel max_states fuel 0 [state0 ps] = BOk all ->
    sinv ps e stop (length all) all.
Proof.
  intros ps e stop lr1 fs cfuel ms fuel all Hne H.
  exact (build_loop_spec ps e stop lr1 fs cfuel ms fuel 0 _ all H (sinv_init ps e stop Hne)).
Qed.
Print Assumptions C05_automaton_structure.

(* the final LALR loop ends only when every state is closed with lookaheads and every
   target's kernel items contain the follow sets of the items they come from *)
Theorem C05_lalr_fixpoint :
  forall (ps : list prod) (e : N) (fs : fsets) (cfuel fuel : nat) (all all' : list mstate),
    lalr_loop ps e true fs cfuel fuel all = BOk all' ->
    (forall j s, nth_error all j = Some s -> closed0 ps e (pds (ms_items s))) ->
    same_pds all all' /\ lalr_post ps e fs all'.
Proof. exact lalr_loop_spec. Qed.
Print Assumptions C05_lalr_fixpoint.

(* ---- END TO END: the table the model builds passes table_complete ------------------------- *)
(* For EVERY grammar of the class plain_ok (well numbered; production 0 = S' -> start STOP,
   S' and STOP nowhere else; EMPTY only at the end of right-hand sides; no priorities,
   associativities, nops/nopse, prefer_shifts*: nothing that removes actions), SLR and LALR:
   if the construction returns a table (it did not run out of fuel / budget and did not
   crash), table_complete accepts it with the annotation made of the model's OWN item sets
   (LALR: their follow sets; SLR: FOLLOW(lhs)) and the model's OWN FIRST sets ... *)
Theorem C05_model_table_complete :
  forall (c : tconf) (b : tbuilt),
    plain_ok c = true -> create_table c = BOk b ->
    table_complete (cfg_std c) (tb_table b) (ann_of_built c b)
                   (fst_std c (tb_first b)) (nul_std c (tb_first b)) (tc_stop c) = true.
Proof. exact model_table_complete. Qed.
Print Assumptions C05_model_table_complete.

(* ... and therefore (C05_nothing_missing) every derivation tree of the grammar has an
   accepting run on the model-built table that builds exactly this tree *)
Theorem C05_model_table_accepts :
  forall (c : tconf) (b : tbuilt),
    plain_ok c = true -> create_table c = BOk b ->
    forall (d tr : tree),
      wf_tree (cfg_std c) tr -> root_sym (cfg_std c) tr = Some (NT (start_nt c)) ->
      exists st, lsteps (cfg_std c) (tb_table b) (tc_stop c) ([(O, d)], leaves tr) (st, []) /\
                 laccepts (tb_table b) (tc_stop c) st tr.
Proof. exact model_table_accepts. Qed.
Print Assumptions C05_model_table_accepts.

(* ... and the other half: the model's table passes table_struct, i.e. (C05_only_derivations)
   every accepting run of its LR machine, under any lookahead relation, builds a derivation
   tree of the grammar whose leaves are the shifted tokens.  The invariant behind it: the
   kernel items of the target of every X-edge come from items of the source state with X
   after the dot, and only state 0 contains the item (0, 0). *)
Theorem C05_model_table_struct :
  forall (c : tconf) (b : tbuilt),
    plain_ok c = true -> create_table c = BOk b ->
    table_struct (cfg_std c) (tb_table b) (start_nt c) = true.
Proof. exact model_table_struct. Qed.
Print Assumptions C05_model_table_struct.

Theorem C05_model_table_only_derivations :
  forall (c : tconf) (b : tbuilt),
    plain_ok c = true -> create_table c = BOk b ->
    forall (look : N -> N -> N -> N -> Prop) pos d cf tr,
      nsteps (cfg_std c) (tb_table b) look (init_cfg pos d) cf -> naccepts (tb_table b) look cf tr ->
      wf_tree (cfg_std c) tr /\ root_sym (cfg_std c) tr = Some (NT (start_nt c)) /\
      leaves tr = c_trace cf.
Proof. exact model_table_only_derivations. Qed.
Print Assumptions C05_model_table_only_derivations.

(* NOT PROVED for the model (checked per generated grammar):
   - the end-to-end theorems when priorities / associativity / prefer_shifts REMOVE actions
     (then completeness is false by design: C06; table_struct would still hold);
   - LALR precision (no reduction outside the LALR(1) lookahead);
   - termination of the state queue: false (next theorem). *)

(* ---- (c) the LALR construction does not terminate on the known-finding grammar ------------ *)
(* KF-C05-lalr-divergence witness  S: 'a' | 'a' A; A: S S 'a' | 'a';  (terminals a=0 EMPTY=1
   STOP=2, nonterminals S'=0 S=1 A=2).  After taking n states from the queue the faithful
   model holds n+1 states and the queue is still not empty, for every n tried: each refused
   merge appends a state that later look-ups never find.  SLR: 8 states. *)
Definition kf_c05_conf (lr1 : bool) (sfuel : nat) : tconf :=
  mkTC [mkProd 0 [NT 1; T 2]; mkProd 1 [T 0]; mkProd 1 [T 0; NT 2];
        mkProd 2 [NT 1; NT 1; T 0]; mkProd 2 [T 0]]
       3 3 1 2 1 lr1 false false true [] [] [] [] None 100 2000 sfuel 100.

Definition outcome (r : bres tbuilt) : N * N :=
  match r with
  | BOk b => (0, N.of_nat (length (tb_table b)))
  | BGrammarError a => (1, a)
  | BBudget n => (2, n)
  | BCrash k => (3, k)
  | BFuel _ n => (4, n)
  end.

Theorem C05_lalr_divergence_witness :
  map (fun n => outcome (create_table (kf_c05_conf true n))) [10; 20; 40; 80]%nat
  = [(4, 11); (4, 21); (4, 41); (4, 81)] /\
  outcome (create_table (kf_c05_conf false 80)) = (0, 8).
Proof. vm_compute. split; reflexivity. Qed.
Print Assumptions C05_lalr_divergence_witness.

(* ---- non-vacuity ---------------------------------------------------------------------------- *)
(* S' -> S STOP; S -> S 'a' | EMPTY   (terminals a=0 EMPTY=1 STOP=2) *)
Definition ex_conf (lr1 : bool) : tconf :=
  mkTC [mkProd 0 [NT 1; T 2]; mkProd 1 [NT 1; T 0]; mkProd 1 [T 1]]
       3 2 1 2 1 lr1 false false true [] [] [] [] None 100 2000 100 100.

Example C05_first_nonvacuous :
  prods_wfb 1 2 3 (tc_prods (ex_conf true)) = true /\
  first_sets 1 (first_fuel 2 3) 2 (tc_prods (ex_conf true)) = Some [[2; 0]; [1; 0]] /\
  follow_sets 1 (first_fuel 2 3) [[2; 0]; [1; 0]] 2 (tc_prods (ex_conf true)) = Some [[]; [2; 0]].
Proof. vm_compute. repeat split; reflexivity. Qed.

Example C05_closure_nonvacuous :
  closure (tc_prods (ex_conf true)) 1 true [[2; 0]; [1; 0]] 100 [mkItem 0 0 []]
  = Some [mkItem 0 0 []; mkItem 1 0 [2; 0]; mkItem 2 0 [2; 0]].
Proof. vm_compute. reflexivity. Qed.

Example C05_model_table_nonvacuous :
  plain_ok (ex_conf true) = true /\ plain_ok (ex_conf false) = true /\
  outcome (create_table (ex_conf true)) = (0, 3) /\ outcome (create_table (ex_conf false)) = (0, 3) /\
  match create_table (ex_conf true) with
  | BOk b => table_complete (cfg_std (ex_conf true)) (tb_table b) (ann_of_built (ex_conf true) b)
                            (fst_std (ex_conf true) (tb_first b)) (nul_std (ex_conf true) (tb_first b)) 2
             && table_struct (cfg_std (ex_conf true)) (tb_table b) (start_nt (ex_conf true))
  | _ => false
  end = true.
Proof. vm_compute. repeat split; reflexivity. Qed.
