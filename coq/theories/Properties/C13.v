(* C13 -- Repetition, optional, separator, group and greedy syntax mean what the docs say.
   Statements only; proofs are in Proofs/SugarProofs.v, the model in Model/Sugar.v. *)
From Coq Require Import NArith List Bool.
From PV Require Import Spec.Cfg Model.Sugar Proofs.SugarProofs.
Import ListNotations.
Local Open Scope N_scope.

(* ---- what the helper rules mean: language and returned values, for EVERY derivation tree
   of ANY grammar that contains the documented helper productions with the built-in actions
   (parglare/actions.py) and no other production for the helper symbol ------------------ *)

(* x+ : a tree of the helper H (H: H X | X, @collect) is a NON-EMPTY sequence of X-trees
   covering exactly its input span, and its value is the list of their values -- except that
   collect_first drops every later element whose value is None (see C13_plus_all_matches_refuted) *)
Theorem C13_plus_nonempty_list :
  forall (g : grammar) (acts : N -> N) (H : N) (X : sym) (p1 p2 : N),
    get_prod g p1 = Some (mkProd H [NT H; X]) -> get_prod g p2 = Some (mkProd H [X]) ->
    acts p1 = ACT_COLLECT_FIRST -> acts p2 = ACT_PASS_NOCHANGE ->
    (forall p pr, get_prod g p = Some pr -> lhs pr = H -> p = p1 \/ p = p2) ->
    forall t, rooted g (NT H) t ->
      exists e es, All (rooted g X) (e :: es) /\ leaves t = flat_map leaves (e :: es)
                   /\ eval acts t = VList (eval acts e :: keep (map (eval acts) es)).
Proof. exact plus_sound. Qed.
Print Assumptions C13_plus_nonempty_list.

(* ... and every non-empty sequence of X-trees is accepted (same language as x x ... x) *)
Theorem C13_plus_language :
  forall (g : grammar) (H : N) (X : sym) (p1 p2 : N),
    get_prod g p1 = Some (mkProd H [NT H; X]) -> get_prod g p2 = Some (mkProd H [X]) ->
    forall es e, All (rooted g X) (e :: es) ->
      exists t, rooted g (NT H) t /\ leaves t = flat_map leaves (e :: es).
Proof. exact plus_complete. Qed.
Print Assumptions C13_plus_language.

(* x+[sep] : elements alternate with separators; separators are matched and DROPPED *)
Theorem C13_separator_dropped :
  forall (g : grammar) (acts : N -> N) (H : N) (X Sep : sym) (p1 p2 : N),
    get_prod g p1 = Some (mkProd H [NT H; Sep; X]) -> get_prod g p2 = Some (mkProd H [X]) ->
    acts p1 = ACT_COLLECT_FIRST_SEP -> acts p2 = ACT_PASS_NOCHANGE ->
    (forall p pr, get_prod g p = Some pr -> lhs pr = H -> p = p1 \/ p = p2) ->
    forall t, rooted g (NT H) t ->
      exists e ses, rooted g X e
                    /\ All (fun se => rooted g Sep (fst se) /\ rooted g X (snd se)) ses
                    /\ leaves t = leaves e ++ flat_map pair_leaves ses
                    /\ eval acts t = VList (eval acts e :: keep (map (fun se => eval acts (snd se)) ses)).
Proof. exact plus_sep_sound. Qed.
Print Assumptions C13_separator_dropped.

(* x* : either nothing was matched and the value is the empty list, or it is x+ *)
Theorem C13_star_possibly_empty_list :
  forall (g : grammar) (acts : N -> N) (H0 : N) (H1 : sym) (q1 q2 : N),
    get_prod g q1 = Some (mkProd H0 [H1]) -> get_prod g q2 = Some (mkProd H0 []) ->
    acts q1 = ACT_STAR -> acts q2 = ACT_STAR ->
    (forall p pr, get_prod g p = Some pr -> lhs pr = H0 -> p = q1 \/ p = q2) ->
    forall t, rooted g (NT H0) t ->
      (leaves t = [] /\ eval acts t = VList [])
      \/ (exists c, rooted g H1 c /\ leaves t = leaves c /\ eval acts t = eval acts c).
Proof. exact star_sound. Qed.
Print Assumptions C13_star_possibly_empty_list.

(* x? : the match, or None when nothing was matched *)
Theorem C13_optional_match_or_none :
  forall (g : grammar) (acts : N -> N) (Ho : N) (X : sym) (q1 q2 : N),
    get_prod g q1 = Some (mkProd Ho [X]) -> get_prod g q2 = Some (mkProd Ho []) ->
    acts q1 = ACT_PASS_SINGLE -> acts q2 = ACT_PASS_NONE ->
    (forall p pr, get_prod g p = Some pr -> lhs pr = Ho -> p = q1 \/ p = q2) ->
    forall t, rooted g (NT Ho) t ->
      (leaves t = [] /\ eval acts t = VNone)
      \/ (exists c, rooted g X c /\ leaves t = leaves c /\ eval acts t = eval acts c).
Proof. exact opt_sound. Qed.
Print Assumptions C13_optional_match_or_none.

(* when no element value is None the list is the list of ALL matches *)
Theorem C13_plus_all_matches_partial :
  forall vs, forallb (fun v => negb (is_none v)) vs = true -> keep vs = vs.
Proof. exact keep_all. Qed.
Print Assumptions C13_plus_all_matches_partial.

(* ---- the grammar the impl builds vs the documented expansion ---------------------------
   iso_check is run by the harness on the dump of the impl's live Grammar object against
   doc_expand (fresh helper rule per distinct use): when it answers true the two grammars
   are the same productions, in the same order, with the same marks and built-in actions,
   up to a one-to-one renaming of symbols -- hence the same derivation trees and values
   for all inputs. *)
Theorem C13_iso_check_sound :
  forall (ds : list oprod) (ns : list nprod),
    iso_check ds ns = true ->
    exists ren, one_to_one ren /\ Forall2 (corresponds ren) ds ns.
Proof. exact iso_check_sound. Qed.
Print Assumptions C13_iso_check_sound.

(* FULL STATEMENT NOT YET PROVED (T1 in DESIGN.md section 7, kept here as the missing
   obligation; the harness checks the implication on every generated AST as a test):

   Theorem C13_expand_iso : forall (a : ast) ps nts,
     no_collision a = true -> model_expand a = Some (ps, nts) ->
     exists ds nts', doc_expand a = Some (ds, nts') /\ iso_check ds (map render ps) = true.

   i.e. whenever no two distinct symbols (user symbols, groups R_g<n>, helper rules
   x_0 / x_1 / x_opt / .._sep / .._g) carry the same generated name and "+!" is not used, the
   name-keyed expansion of the impl IS the documented expansion.  The proved part is the
   validator theorem above, instantiated on the model's own output: *)
Theorem C13_expand_iso_partial :
  forall (a : ast) ps nts ds nts',
    model_expand a = Some (ps, nts) -> doc_expand a = Some (ds, nts') ->
    iso_check ds (map render ps) = true ->
    exists ren, one_to_one ren /\ Forall2 (corresponds ren) ds (map render ps).
Proof. intros a ps nts ds nts' _ _ H. exact (iso_check_sound _ _ H). Qed.
Print Assumptions C13_expand_iso_partial.

(* the step the full theorem iterates: in ANY state of the resolution whose dictionary holds
   only symbols of K, a reference (whatever its operator, separator, greedy mark -- "+!"
   excepted) whose possible helper symbols are in K resolves to the same symbol and creates the
   same helper rules whether the dictionaries are keyed by generated NAME (what the impl does)
   or by the structure (base, operator, separator, greedy) (the documented expansion), provided
   generated names identify the symbols of K *)
Theorem C13_resolve_agree_partial :
  forall (K : list dsym) (r : fref) (st : xstate),
    (forall a b, In a K -> In b K -> neqb a b = deqb a b) ->
    incl (x_tab st) K -> incl (keys_of_ref r) K ->
    (fr_mult r = MPlus -> fr_greedy r = false) ->
    resolve neqb lkey_name r st = resolve deqb lkey_struct r st.
Proof. exact resolve_agree. Qed.
Print Assumptions C13_resolve_agree_partial.

(* ---- refutations: the faithful model violates the property as written ------------------- *)
Definition n_S : name := [83].   Definition n_a : name := [97].   Definition n_b : name := [98].
Definition n_x : name := [120].  Definition n_q : name := [113].
Definition n_a_1 : name := [97; 95; 49].
Definition n_S_g1 : name := [83; 95; 103; 49].
Definition dm : pmeta := mkMeta 0 10 false false.
Definition ref1 (n : name) := ERef n MOne false None.

(* S: a+ a_1;  a_1: 'x';   -- "a+" resolves to the USER rule a_1 *)
Definition ast_collide : ast :=
  mkAst [mkRule n_S (ACons (ECons (ERef n_a MPlus false None) (ECons (ref1 n_a_1) ENil)) dm ANil);
         mkRule n_a_1 (ACons (ECons (ref1 n_x) ENil) dm ANil)]
        [n_a; n_x].
(* S: (a b) S_g1;  S_g1: 'q';   -- the group is merged into the user rule S_g1 *)
Definition ast_group_collide : ast :=
  mkAst [mkRule n_S (ACons (ECons (EGroup (ACons (ECons (ref1 n_a) (ECons (ref1 n_b) ENil)) dm ANil)
                                          MOne false None)
                                  (ECons (ref1 n_S_g1) ENil)) dm ANil);
         mkRule n_S_g1 (ACons (ECons (ref1 n_q) ENil) dm ANil)]
        [n_a; n_b; n_q].
(* S: a* a*!;   -- both uses share the non-greedy a_0 *)
Definition ast_share : ast :=
  mkAst [mkRule n_S (ACons (ECons (ERef n_a MStar false None) (ECons (ERef n_a MStar true None) ENil)) dm ANil)]
        [n_a].
(* S: a+! b a+!;   -- the second "a+!" resolves to the plain a_1 *)
Definition ast_plus_g : ast :=
  mkAst [mkRule n_S (ACons (ECons (ERef n_a MPlus true None)
                           (ECons (ref1 n_b) (ECons (ERef n_a MPlus true None) ENil))) dm ANil)]
        [n_a; n_b].

Definition not_documented (a : ast) : Prop :=
  exists ps nts ds nts', model_expand a = Some (ps, nts) /\ doc_expand a = Some (ds, nts')
                         /\ iso_check ds (map render ps) = false.

Theorem C13_collision_refuted :
  not_documented ast_collide /\ not_documented ast_group_collide
  /\ no_collision ast_collide = false /\ no_collision ast_group_collide = false
  /\ (exists ps nts, model_expand ast_collide = Some (ps, nts)
                     /\ option_map (fun p => map nm (op_rhs p)) (hd_error ps) = Some [n_a_1; n_a_1]).
Proof.
  split; [vm_compute; do 4 eexists; repeat split; reflexivity|].
  split; [vm_compute; do 4 eexists; repeat split; reflexivity|].
  split; [vm_compute; reflexivity|]. split; [vm_compute; reflexivity|].
  vm_compute. do 2 eexists. split; reflexivity.
Qed.
Print Assumptions C13_collision_refuted.

Theorem C13_greedy_sharing_refuted :
  not_documented ast_share /\ not_documented ast_plus_g
  /\ (exists ps nts, model_expand ast_share = Some (ps, nts)
                     /\ forallb (fun p => op_assoc p =? A_NONE) ps = true)
  /\ (exists ps nts, model_expand ast_plus_g = Some (ps, nts)
                     /\ option_map (fun p => map nm (op_rhs p)) (hd_error ps)
                        = Some [[97; 95; 49; 95; 103]; n_b; n_a_1]).
Proof.
  split; [vm_compute; do 4 eexists; repeat split; reflexivity|].
  split; [vm_compute; do 4 eexists; repeat split; reflexivity|].
  split; vm_compute; do 2 eexists; split; reflexivity.
Qed.
Print Assumptions C13_greedy_sharing_refuted.

(* "x+ gives the list of matches": collect_first drops every match after the first whose
   value is None.  H: H X | X over X: 'u' (value None through pass_none) -- three matches,
   a list of one element. *)
Definition g_none : grammar :=
  [mkProd 0 [NT 1]; mkProd 1 [NT 1; NT 2]; mkProd 1 [NT 2]; mkProd 2 [T 0]].
Definition acts_none (p : N) : N :=
  match p with 1 => ACT_COLLECT_FIRST | 2 => ACT_PASS_NOCHANGE | 3 => ACT_PASS_NONE | _ => ACT_DEFAULT end.
Definition x_at (i : N) : tree := TNode 3 i (i + 1) [TLeaf 0 i (i + 1)].
Definition t_none : tree := TNode 1 0 3 [TNode 1 0 2 [TNode 2 0 1 [x_at 0]; x_at 1]; x_at 2].
Theorem C13_plus_all_matches_refuted :
  tree_ok g_none t_none = true /\ length (leaves t_none) = 3%nat
  /\ eval acts_none t_none = VList [VNone].
Proof. vm_compute. repeat split. Qed.
Print Assumptions C13_plus_all_matches_refuted.

(* ---- non-vacuity ---------------------------------------------------------------------- *)
(* The nested-groups example of docs/grammar_language.md (groups of b c repeated with separator
   comma, then groups of a-plus followed by a starred group) satisfies no_collision,
   the model's expansion is validated against the documented one, and the hypotheses of the
   helper theorems hold for its a_1 rule with a three-element tree *)
Definition n_c : name := [99].  Definition n_comma : name := [99; 111; 109; 109; 97].
Definition ast_doc : ast :=
  mkAst [mkRule n_S
           (ACons (ECons (EGroup (ACons (ECons (ref1 n_b) (ECons (ref1 n_c) ENil)) dm ANil)
                                 MStar false (Some n_comma))
                  (ECons (EGroup (ACons (ECons (ERef n_a MPlus false None)
                                        (ECons (EGroup (ACons (ECons (ref1 n_b) ENil) dm
                                                       (ACons (ECons (ref1 n_c) ENil) dm ANil))
                                                       MStar false None) ENil)) dm ANil)
                                 MPlus false (Some n_comma)) ENil)) dm ANil)]
        [n_a; n_b; n_c; n_comma].
Definition g_plus : grammar := [mkProd 0 [NT 1]; mkProd 1 [NT 1; T 0]; mkProd 1 [T 0]].
Definition acts_plus (p : N) : N := match p with 1 => ACT_COLLECT_FIRST | _ => ACT_PASS_NOCHANGE end.
Definition t_plus : tree := TNode 1 0 3 [TNode 1 0 2 [TNode 2 0 1 [TLeaf 0 0 1]; TLeaf 0 1 2]; TLeaf 0 2 3].
Example C13_nonvacuous :
  no_collision ast_doc = true
  /\ (exists ps nts ds nts', model_expand ast_doc = Some (ps, nts) /\ doc_expand ast_doc = Some (ds, nts')
                             /\ iso_check ds (map render ps) = true /\ length ps = 17%nat)
  /\ rooted g_plus (NT 1) t_plus
  /\ eval acts_plus t_plus = VList [VTok 0 0 1; VTok 0 1 2; VTok 0 2 3].
Proof.
  split; [vm_compute; reflexivity|]. split.
  - vm_compute. do 4 eexists. repeat split; reflexivity.
  - split; [|vm_compute; reflexivity].
    split; [apply tree_ok_iff; vm_compute; reflexivity|vm_compute; reflexivity].
Qed.
