From Coq Require Import NArith List Bool.
From PV Require Import Model.Sugar.
Import ListNotations.
Local Open Scope N_scope.
Example C13_nonvacuous : decimal 12 = [49; 50].
Proof. vm_compute. reflexivity. Qed.
Print Assumptions C13_nonvacuous.
