From Coq Require Import NArith List Bool.
From PV Require Import Model.Recovery.
Theorem C11_stub : spans_check 0 0 nil = true.
Proof. exact eq_refl. Qed.
Print Assumptions C11_stub.
