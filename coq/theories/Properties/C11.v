(* C11 -- Error recovery terminates, reports disjoint spans and parses the rest.
   Statements only.  The model: Model/Recovery.v = the LR driver model (Model/LRDriver.v)
   + Parser._do_recovery / default_error_recovery (parser.py:959-1008); a custom strategy is
   an arbitrary function of the parser state at the error. *)
From Coq Require Import NArith List Bool.
From PV Require Import Spec.Cfg Model.Table Spec.NLR Validators.TableStruct Model.LRDriver
  Model.Scan Model.Parser Model.Reuse Model.Recovery Proofs.LRProofs Proofs.ForestSoundProofs
  Proofs.LRSpanProofs Proofs.RecoveryProofs.
Import ListNotations.
Local Open Scope N_scope.

(* A successful default recovery (for every scanner and every parser state at the error)
   strictly increases the head position, stays inside the input, resumes with exactly the
   token the scanner finds at the new position in the state of the head, and stops at the
   FIRST position behind the error where the scanner finds one (nothing recognisable is
   skipped). *)
Theorem C11_progress :
  forall (next_token : nat -> N -> tokres) (in_len : N) (se : lrstate) (p : N) ahead,
    default_strategy next_token in_len se = SResume p ahead ->
    hpos se < p /\ p <= in_len /\
    (exists y len, ahead = Some (y, len) /\ next_token (hstate se) p = TTok y len) /\
    (forall q, hpos se < q -> q < p -> next_token (hstate se) q = TNone).
Proof. exact default_progress. Qed.
Print Assumptions C11_progress.

(* ... and it gives up only when the scanner finds no token at any later position up to
   and including the end of the input (where STOP would be found if it were expected) *)
Theorem C11_default_fails_only_at_end :
  forall (next_token : nat -> N -> tokres) (in_len : N) (se : lrstate),
    default_strategy next_token in_len se = SFail ->
    forall q, hpos se < q -> q <= in_len -> next_token (hstate se) q = TNone.
Proof. exact default_fail_complete. Qed.
Print Assumptions C11_default_fails_only_at_end.

(* Spans.  For every grammar, table, layout function that neither moves backwards nor leaves
   the input, scanner whose tokens lie inside the input, option setting, strategy that never
   moves the head backwards or out of the input (strategy_monotone: the default strategy and
   both custom strategies of the check satisfy it), every start position, and EVERY amount of
   fuel (so also for every prefix of a run): the errors recorded so far, followed by the one
   that is raised if recovery fails, have start <= end, lie inside [p0, len], are ordered
   and pairwise disjoint (the end of each is <= the start of every later one). *)
Theorem C11_spans :
  forall g tb skipws next_token stop_id consume_input strategy in_len,
    (forall p q, skipws p = Some q -> p <= q) ->
    (forall p q, skipws p = Some q -> p <= in_len -> q <= in_len) ->
    (forall st p y len, next_token st p = TTok y len -> p <= in_len -> p + len <= in_len) ->
    forall recovery fuel p0,
      strategy_monotone strategy in_len -> p0 <= in_len ->
      let errs := all_errs (rcv_parse g tb skipws next_token stop_id consume_input recovery
                                      strategy fuel p0) in
      (forall a b, In (a, b) errs -> p0 <= a /\ a <= b /\ b <= in_len) /\
      (forall i j a b c d, (i < j)%nat -> nth_error errs i = Some (a, b) ->
                           nth_error errs j = Some (c, d) -> b <= c).
Proof. exact parse_spans_facts. Qed.
Print Assumptions C11_spans.

(* the default strategy satisfies the hypothesis of C11_spans and of C11_terminates_rel *)
Theorem C11_default_strategy_progress :
  forall (next_token : nat -> N -> tokres) (in_len : N),
    (forall st p y len, next_token st p = TTok y len -> p <= in_len -> p + len <= in_len) ->
    strategy_progress (default_strategy next_token in_len) in_len.
Proof. exact default_is_progress. Qed.
Print Assumptions C11_default_strategy_progress.

Theorem C11_progress_is_monotone :
  forall strategy in_len, strategy_progress strategy in_len -> strategy_monotone strategy in_len.
Proof. exact progress_monotone. Qed.
Print Assumptions C11_progress_is_monotone.

(* Termination relative to the LR driver.  If every successful recovery strictly advances the
   head (strategy_progress), then for EVERY fuel the run has recorded at most len - p0
   recoveries plus the final unrecoverable error: recovery cannot stall or loop; a run that
   does not end can only be an error-free LR segment that does not end (which is C04/C05
   territory: the model's [LROutOfFuel], counted by the check). *)
Theorem C11_terminates_rel :
  forall g tb skipws next_token stop_id consume_input strategy in_len,
    (forall p q, skipws p = Some q -> p <= q) ->
    (forall p q, skipws p = Some q -> p <= in_len -> q <= in_len) ->
    (forall st p y len, next_token st p = TTok y len -> p <= in_len -> p + len <= in_len) ->
    forall recovery fuel p0,
      strategy_progress strategy in_len -> p0 <= in_len ->
      (forall p st e, rcv_parse g tb skipws next_token stop_id consume_input recovery strategy fuel p0
                      <> RvDisambiguation p st e) ->
      N.of_nat (length (all_errs (rcv_parse g tb skipws next_token stop_id consume_input recovery
                                            strategy fuel p0))) <= in_len - p0 + 1.
Proof. exact parse_count. Qed.
Print Assumptions C11_terminates_rel.
(* NOT PROVED (full statement): if additionally every error-free segment from a reachable
   state ends within k steps then  rcv_parse ((k+1) * (len - p0 + 2))  is not RvOutOfFuel.
   The check observes termination of the impl under a time limit on every generated case and
   counts model runs that exhaust their fuel (none). *)

(* Without strategy_progress termination is false: a strategy that reports success without
   moving the head makes the parser record error after error at the same position (20 errors
   with fuel 20 on an input of length 4), so the hypothesis of C11_terminates_rel is needed. *)
Definition g_ex : grammar := [mkProd 0 [NT 1]; mkProd 1 [T 0]].
Definition tb_ex : table :=
  [ mkState (NT 0) [(0, [Shift 2%nat])] [(1, 1%nat)] [true] [(0, 0%nat); (1, 0%nat)];
    mkState (NT 1) [(1, [Accept])] [] [false] [(0, 1%nat)];
    mkState (T 0) [(1, [Reduce 1])] [] [false] [(1, 1%nat)] ].
Definition c_ex : pconf := mkPConf g_ex tb_ex [mkTerm 10 false; mkTerm 10 false] 1 true true [32] None.
(* the input "xa y": junk, the token 'a', layout, junk *)
Definition in_ex : pinput := mkPInput [120; 97; 32; 121] [[0; 1; 0; 0]; [0; 0; 0; 0]].

Theorem C11_stalling_strategy_refuted :
  exists strategy,
    match parse_recover_with c_ex in_ex 20 true strategy 0 with
    | RvOutOfFuel errs => length errs = 20%nat /\ In (0, 0) errs
    | _ => False
    end.
Proof. exists (fun se => SResume (hpos se) None). vm_compute. split; [reflexivity|left; reflexivity]. Qed.
Print Assumptions C11_stalling_strategy_refuted.

(* Sentences are unaffected, whatever the strategy: if the parser without recovery returns a
   result, the parser with recovery returns the same result (tree, position, layout, shifted
   tokens) and records no error -- and conversely a result with no error recorded is the
   result of the parser without recovery. *)
Theorem C11_sentence_unchanged :
  forall g tb skipws next_token stop_id consume_input strategy recovery fuel pos t rp lay tr,
    lr_parse g tb skipws next_token stop_id consume_input false fuel pos = LROk t rp lay tr ->
    rcv_parse g tb skipws next_token stop_id consume_input recovery strategy fuel pos
    = RvOk t rp lay tr [].
Proof.
  exact (fun g tb skipws next_token stop_id consume_input strategy recovery fuel pos =>
           plain_ok_run g tb skipws next_token stop_id consume_input strategy recovery fuel
                        (lr_init pos) []).
Qed.
Print Assumptions C11_sentence_unchanged.

Theorem C11_no_error_means_plain_result :
  forall g tb skipws next_token stop_id consume_input strategy recovery fuel pos t rp lay tr,
    rcv_parse g tb skipws next_token stop_id consume_input recovery strategy fuel pos
    = RvOk t rp lay tr [] ->
    lr_parse g tb skipws next_token stop_id consume_input false fuel pos = LROk t rp lay tr.
Proof.
  exact (fun g tb skipws next_token stop_id consume_input strategy recovery fuel pos =>
           run_noerr_plain g tb skipws next_token stop_id consume_input strategy recovery fuel
                           (lr_init pos) []).
Qed.
Print Assumptions C11_no_error_means_plain_result.

(* The result after any number of recoveries, for EVERY strategy (recovery never touches the
   stack): with a structurally valid table the returned tree is a derivation tree rooted in
   the start symbol whose leaves are exactly the shifted tokens, in order. *)
Theorem C11_result_valid :
  forall g tb skipws next_token stop_id consume_input strategy recovery start fuel pos t rp lay tr errs,
    table_struct g tb start = true ->
    rcv_parse g tb skipws next_token stop_id consume_input recovery strategy fuel pos
    = RvOk t rp lay tr errs ->
    wf_tree g t /\ root_sym g t = Some (NT start) /\ leaves t = strip tr.
Proof.
  exact (fun g tb skipws next_token stop_id consume_input strategy recovery =>
           rcv_sound g tb skipws next_token stop_id consume_input strategy recovery).
Qed.
Print Assumptions C11_result_valid.

(* ... and its spans are well formed (start <= end everywhere, siblings in input order without
   overlap, a node spans from its first to its last child): the leaves are in input order *)
Theorem C11_result_spans :
  forall g tb skipws next_token stop_id consume_input strategy in_len,
    (forall p q, skipws p = Some q -> p <= q) ->
    (forall p q, skipws p = Some q -> p <= in_len -> q <= in_len) ->
    (forall st p y len, next_token st p = TTok y len -> p <= in_len -> p + len <= in_len) ->
    forall recovery fuel p0 t rp lay tr errs,
      strategy_monotone strategy in_len -> p0 <= in_len ->
      rcv_parse g tb skipws next_token stop_id consume_input recovery strategy fuel p0
      = RvOk t rp lay tr errs ->
      spans_ok t.
Proof. exact parse_tree_spans. Qed.
Print Assumptions C11_result_spans.

(* ... and its leaves are tokens of the input: every shifted token (y, [s, e)) is one the
   scanner returned at position s (in some state), provided the strategy takes the token it
   leaves ahead from the scanner (strategy_scans; the default strategy does) *)
Theorem C11_leaves_are_tokens :
  forall g tb skipws next_token stop_id consume_input strategy recovery fuel pos t rp lay tr errs,
    strategy_scans next_token strategy ->
    rcv_parse g tb skipws next_token stop_id consume_input recovery strategy fuel pos
    = RvOk t rp lay tr errs ->
    forall y s e l, In (y, s, e, l) tr -> exists st, next_token st s = TTok y (e - s).
Proof.
  exact (fun g tb skipws next_token stop_id consume_input strategy recovery =>
           parse_tokens g tb skipws next_token stop_id consume_input strategy recovery).
Qed.
Print Assumptions C11_leaves_are_tokens.

Theorem C11_default_strategy_scans :
  forall next_token in_len, strategy_scans next_token (default_strategy next_token in_len).
Proof. exact default_scans. Qed.
Print Assumptions C11_default_strategy_scans.

(* The validator run on the impl's parser.errors (LR and GLR): what [spans_check] = true means *)
Theorem C11_spans_check_sound :
  forall lo hi l, spans_check lo hi l = true ->
    (forall a b, In (a, b) l -> lo <= a /\ a <= b /\ b <= hi) /\
    (forall i j a b c d, (i < j)%nat -> nth_error l i = Some (a, b) ->
                         nth_error l j = Some (c, d) -> b <= c).
Proof.
  exact (fun lo hi l H =>
           conj (fun a b => chain_in lo hi l a b (proj1 (spans_check_iff lo hi l) H))
                (chain_ordered lo hi l (proj1 (spans_check_iff lo hi l) H))).
Qed.
Print Assumptions C11_spans_check_sound.

(* The recovery model that C15's history theorems use (Model/Reuse.v rec_run without an action
   budget) is this model with the default strategy, so the theorems above apply to it. *)
Theorem C11_same_model_as_C15 :
  forall g tb skipws next_token stop_id consume_input in_len recovery fuel s errs,
    rec_run g tb skipws next_token stop_id consume_input in_len recovery fuel None s errs
    = rec_of_rcv (rcv_run g tb skipws next_token stop_id consume_input recovery
                          (default_strategy next_token in_len) fuel s errs).
Proof. exact rec_run_is_rcv_run. Qed.
Print Assumptions C11_same_model_as_C15.

(* NOT PROVED (evaluated on every generated case on the impl's tree and spans with the verified
   forest checker, and on the model through the correspondence):
   C11_coverage -- for the LR parser every non-layout character lies in exactly one leaf or in
   exactly one reported span;
   C11_glr_spans -- GLR recovery has no driver model (impl-level oracle only). *)

(* non-vacuity: 'a' is found behind junk, and trailing junk is skipped up to the end of the
   input: two errors, the tree of the sentence "a" *)
Example C11_nonvacuous :
  table_struct g_ex tb_ex 1 = true /\
  parse_recover c_ex in_ex 50 true 0
  = RvOk (TNode 1 1 2 [TLeaf 0 1 2]) 4 (0, 0) [(0, 1, 2, (0, 0))] [(0, 1); (3, 4)] /\
  parse_recover c_ex in_ex 50 false 0 = RvSyntaxError 0 0 [].
Proof. vm_compute. repeat split; reflexivity. Qed.
