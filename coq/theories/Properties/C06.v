(* C06 -- Priorities and associativity give the conventional operator-precedence
   parse.  Statements only. *)
From Coq Require Import NArith List Bool.
From PV Require Import Spec.Cfg Model.Table Gen.Consts Spec.Precedence Model.Resolve
  Proofs.PrecProofs.
Import ListNotations.
Local Open Scope N_scope.

(* For EVERY operator table (any number of operators, any priorities, any left/right
   assignment -- operators of one priority need not even share an associativity) and
   every token sequence: whatever tree the precedence-climbing parser builds, the
   shift-reduce machine whose shift/reduce decisions are those of parglare's
   resolution code ([dec_of], tied to the code by C06_resolve_decides and the
   correspondence run) returns exactly that tree. *)
Theorem C06_opm_climb :
  forall (pr asc : N -> N),
    (forall o, asc o = ASSOC_LEFT \/ asc o = ASSOC_RIGHT) ->
    forall fuel ws t,
      climb pr (left_of asc) fuel ws = Some t -> opm (dec_of pr asc) ws = Some t.
Proof. exact opm_climb. Qed.
Print Assumptions C06_opm_climb.

(* the climbing parser's tree is a tree of exactly the given tokens *)
Theorem C06_climb_yield :
  forall pr left fuel ws t, climb pr left fuel ws = Some t -> flatten t = ws.
Proof. exact climb_yield. Qed.
Print Assumptions C06_climb_yield.

(* "conventional" spelled out declaratively: in the climbing parser's tree no operand
   of an operator is an unparenthesised application that binds looser -- a left
   operand's operator has higher priority, or the same priority and is left
   associative; a right operand's operator has higher priority, or the same priority
   when the parent is right associative ([prec_ok], also evaluated on the impl's trees) *)
Theorem C06_climb_prec_ok :
  forall pr left fuel ws t, climb pr left fuel ws = Some t -> prec_ok pr left t = true.
Proof. exact climb_prec_ok. Qed.
Print Assumptions C06_climb_prec_ok.

(* The model of the shift/reduce resolution (tables/__init__.py:333-376), for every
   grammar, meta-data assignment and state: when the reduction of a non-empty
   production p meets a cell holding the SHIFT of a symbol whose
   _max_prior_per_symbol entry is q, the surviving cell is the conventional decision
   between (prior p, assoc p) and q; an undeclared associativity at equal priority
   leaves both actions (a conflict) when prefer_shifts is off. *)
Theorem C06_resolve_decides :
  forall g meta pse state_sym mp p s' x q,
    state_sym s' = Some x -> sassoc x mp = Some q -> rhs_of g p <> [] ->
    resolve_one g meta false pse state_sym mp p [Shift s'] =
    Some (match decide (pm_prior (meta p)) (pm_assoc (meta p)) q with
          | DShift => [Shift s']
          | DReduce => [Reduce p]
          | DConflict => [Shift s'; Reduce p]
          end).
Proof. exact resolve_dec. Qed.
Print Assumptions C06_resolve_decides.

(* ... and with prefer_shifts on the undeclared case silently becomes a shift, which
   is why the property demands the strategies off *)
Theorem C06_prefer_shifts_hides_conflict :
  forall g meta pse state_sym mp p s' x q,
    state_sym s' = Some x -> sassoc x mp = Some q -> rhs_of g p <> [] ->
    pm_nops (meta p) = false ->
    resolve_one g meta true pse state_sym mp p [Shift s'] =
    Some (match decide (pm_prior (meta p)) (pm_assoc (meta p)) q with
          | DReduce => [Reduce p]
          | _ => [Shift s']
          end).
Proof. exact resolve_prefer_shifts. Qed.
Print Assumptions C06_prefer_shifts_hides_conflict.

(* _max_prior_per_symbol (tables/__init__.py:195-206): whatever the order of the items
   (i.e. of the alternatives in the rule), if every item with x after the dot belongs
   to a production of priority q (an operator occurs in one production) and there is
   such an item, the entry of x is q. *)
Theorem C06_max_prior_is_operator_prior :
  forall g meta x q items,
    (forall it, In it items -> sym_at g it = Some x -> pm_prior (meta (ri_prod it)) = q) ->
    (exists it, In it items /\ sym_at g it = Some x) ->
    sassoc x (max_prior_per_symbol g meta items) = Some q.
Proof. exact max_prior_uniform. Qed.
Print Assumptions C06_max_prior_is_operator_prior.

(* The three facts composed, for the whole reduce phase of a state of ANY grammar whose
   only complete item is production p (think E -> E op1 E .) with lookahead set F and
   which holds the SHIFT of x (think op2): whatever the order of the items -- hence of
   the alternatives in the rule -- and whatever else is in the state, the cell of x
   ends up as the conventional decision between p and the productions shifting x. *)
Theorem C06_operator_state_cell :
  forall g meta pse state_sym items shifts p F t s' x q c,
    work_of g items = map (fun t => (p, t)) F -> NoDup F -> In t F ->
    assoc t shifts = Some [Shift s'] -> state_sym s' = Some x ->
    (forall it, In it items -> sym_at g it = Some x -> pm_prior (meta (ri_prod it)) = q) ->
    (exists it, In it items /\ sym_at g it = Some x) ->
    rhs_of g p <> [] ->
    reduce_phase g meta false pse state_sym items shifts = Some c ->
    assoc t c = Some (match decide (pm_prior (meta p)) (pm_assoc (meta p)) q with
                      | DShift => [Shift s']
                      | DReduce => [Reduce p]
                      | DConflict => [Shift s'; Reduce p]
                      end).
Proof. exact op_state_cell. Qed.
Print Assumptions C06_operator_state_cell.

(* Adding priorities/associativities/strategies to a state whose unresolved cells are
   conflict-free changes nothing: the resolution code is reached only on an occupied
   cell.  For every grammar, state, lookahead sets and meta-data. *)
Theorem C06_noop_on_conflict_free :
  forall g meta ps pse state_sym items shifts,
    conflict_free (unresolved g items shifts) = true ->
    reduce_phase g meta ps pse state_sym items shifts = Some (unresolved g items shifts).
Proof. exact noop_on_conflict_free. Qed.
Print Assumptions C06_noop_on_conflict_free.

(* and the unresolved cells are what the construction yields with no meta-data *)
Theorem C06_default_is_unresolved :
  forall g state_sym items shifts c,
    reduce_phase g (fun _ => default_meta) false false state_sym items shifts = Some c ->
    c = unresolved g items shifts.
Proof. exact default_is_unresolved. Qed.
Print Assumptions C06_default_is_unresolved.

(* NOT PROVED (planned C06_table_opm / C06_builder_opm, DESIGN.md section 7):
     forall ot T, optable_ok ot T = true -> forall w, lr_parse T w = opm (dec_of ot) (tokens w)
     forall ot, optable_ok ot (build (G ot))
   i.e. that the LR driver on the automaton of the operator grammar *is* the machine
   [opm].  This link is covered by the correspondence run only: on every generated
   operator table the impl's LR and GLR results are compared with [climb], and every
   cell of the impl's table that decides between two operators is compared with
   [dec_of]. *)

(* ---- the hypothesis is needed: an equal-priority operator without declared
   associativity is an unresolved conflict (Parser construction raises SRConflicts) *)
Example C06_undeclared_assoc_conflicts :
  exists pr asc ws t,
    climb pr (left_of asc) 10 ws = Some t /\ opm (dec_of pr asc) ws = None.
Proof.
  exists (fun _ => 1), (fun _ => ASSOC_NONE), [TNum; TOp 0; TNum; TOp 0; TNum].
  eexists. split; vm_compute; reflexivity.
Qed.

(* ---- non-vacuity of C06_operator_state_cell: the state after "E + E" of
   E: E '+' E {left, 1} | E '*' E {left, 2} | 'n'  (terminals + = 0, * = 1, n = 2, STOP = 3) *)
Definition sg : grammar :=
  [mkProd 0 [NT 1; T 3]; mkProd 1 [NT 1; T 0; NT 1]; mkProd 1 [NT 1; T 1; NT 1]; mkProd 1 [T 2]].
Definition smeta (p : N) : pmeta :=
  match p with 1 => mkMeta 1 ASSOC_LEFT false false | 2 => mkMeta 2 ASSOC_LEFT false false
          | _ => default_meta end.
Definition sitems : list ritem :=
  [mkRItem 2 1%nat []; mkRItem 1 3%nat [0; 1; 3]; mkRItem 1 1%nat []].
Definition sshifts : actions := [(1, [Shift 5%nat]); (0, [Shift 4%nat])].
Definition sss (s : nat) : option sym :=
  match s with 4%nat => Some (T 0) | 5%nat => Some (T 1) | _ => None end.
Example C06_operator_state_nonvacuous :
  work_of sg sitems = map (fun t => (1, t)) [0; 1; 3] /\
  reduce_phase sg smeta false false sss sitems sshifts
  = Some [(1, [Shift 5%nat]); (0, [Reduce 1]); (3, [Reduce 1])].
Proof. split; vm_compute; reflexivity. Qed.

(* ---- non-vacuity: 1 + 2 * 3 ^ 4 ^ 5 - 6 with + - left 1, * left 2, ^ right 3 -- *)
Definition ex_pr (o : N) : N := match o with 0 => 1 | 1 => 1 | 2 => 2 | _ => 3 end.
Definition ex_asc (o : N) : N := match o with 3 => ASSOC_RIGHT | _ => ASSOC_LEFT end.
Example C06_nonvacuous :
  (forall o, ex_asc o = ASSOC_LEFT \/ ex_asc o = ASSOC_RIGHT) /\
  climb ex_pr (left_of ex_asc) 40
        [TNum; TOp 0; TNum; TOp 2; TNum; TOp 3; TNum; TOp 3; TNum; TOp 1; TNum]
  = Some (Bin 1 (Bin 0 Num (Bin 2 Num (Bin 3 Num (Bin 3 Num Num)))) Num) /\
  opm (dec_of ex_pr ex_asc)
      [TNum; TOp 0; TNum; TOp 2; TNum; TOp 3; TNum; TOp 3; TNum; TOp 1; TNum]
  = Some (Bin 1 (Bin 0 Num (Bin 2 Num (Bin 3 Num (Bin 3 Num Num)))) Num).
Proof.
  split; [|split; vm_compute; reflexivity].
  intros o. unfold ex_asc. destruct o as [|[[[]|[]|]|[[]|[]|]|]]; auto.
Qed.
