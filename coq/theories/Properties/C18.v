(* C18 -- The dynamic disambiguation filter sees every marked decision and only those.
   Statements only.  All theorems are about the LR driver model with a dynamic filter
   (Model/DynFilter.v), for EVERY stateful filter [filt : FS -> fcall -> bool * FS],
   every table, scanner, layout function, option setting, input position and amount of
   fuel.  The vocabulary (offered, marked_call, approved, calls_due, prods_of) is in
   Spec/DynSpec.v. *)
From Coq Require Import NArith List Bool.
From PV Require Import Spec.Cfg Model.Table Spec.NLR Validators.TableStruct Model.LRDriver
  Model.DynFilter Spec.DynSpec Proofs.DynFilterProofs.
Import ListNotations.
Local Open Scope N_scope.

(* The filtered driver wraps the C04 driver: one step of Parser.parse is the action
   selection [do_action] applied to what [lr_decide] computes; the filter pass sits
   between the two and nowhere else. *)
Theorem C18_lr_step_factors :
  forall g tb skipws next_token stop_id consume_input in_layout s,
    lr_step g tb skipws next_token stop_id consume_input in_layout s =
    match lr_decide tb skipws next_token stop_id consume_input in_layout s with
    | DecDone r => Done r
    | DecActs stk lay1 scan fb acts => do_action g tb (l_trace s) stk lay1 scan fb acts
    end.
Proof. exact step_decide. Qed.
Print Assumptions C18_lr_step_factors.

(* Trace shape.  The trace of a parse starts with the initial call; every later call
   is about a SHIFT into a state whose symbol is dynamic or a REDUCE of a dynamic
   production, and that action is offered by the table in the state the call names for
   the token ahead (or for STOP when the input need not be consumed); the recorded
   verdict is what the filter answered.  There is exactly one initial call. *)
Theorem C18_lr_trace_shape :
  forall g tb skipws next_token stop_id consume_input in_layout dyn_term dyn_prod
         (FS : Type) (filt : FS -> fcall -> bool * FS) fuel fs pos r fs' trc,
    fparse g tb skipws next_token stop_id consume_input in_layout dyn_term dyn_prod FS filt
           fuel fs pos = (r, fs', trc) ->
    exists v0 rest,
      trc = (FInit, v0) :: rest /\ v0 = fst (filt fs FInit) /\
      Forall (marked_call tb stop_id dyn_term dyn_prod) (map fst rest) /\
      (forall c v, In (c, v) rest -> exists fs0, fst (filt fs0 c) = v).
Proof. exact fparse_trace_shape. Qed.
Print Assumptions C18_lr_trace_shape.

(* Every marked decision, and only those: in a step that reaches the action selection
   with the cell [acts], the calls made are exactly the calls due for the marked actions
   of the cell -- in cell order, once each, a REDUCE with the trees of the top |rhs|
   stack entries as sub-results -- whatever the filter answers in between. *)
Theorem C18_lr_every_marked_step :
  forall g tb skipws next_token stop_id consume_input in_layout dyn_term dyn_prod
         (FS : Type) (filt : FS -> fcall -> bool * FS) fs s stk lay1 scan fb acts o fs' cs,
    lr_decide tb skipws next_token stop_id consume_input in_layout s
      = DecActs stk lay1 scan fb acts ->
    fstep g tb skipws next_token stop_id consume_input in_layout dyn_term dyn_prod FS filt fs s
      = (o, fs', cs) ->
    map fst cs = calls_due g tb dyn_term dyn_prod stk scan acts.
Proof. exact fstep_calls. Qed.
Print Assumptions C18_lr_every_marked_step.

(* Rejected actions are not taken; taken marked actions were seen and accepted: every
   leaf of a dynamic terminal and every node of a dynamic production in a returned tree
   has an accepted call in the trace -- for a node, a REDUCE call with that production
   and exactly the node's children as sub-results.
   Hypotheses: SHIFTs under terminal y lead to states accessed by y (boolean check
   [shift_sym_ok], run on the impl's table each run); the augmented production 0 is not
   marked. *)
Theorem C18_lr_result_approved :
  forall g tb skipws next_token stop_id consume_input in_layout dyn_term dyn_prod
         (FS : Type) (filt : FS -> fcall -> bool * FS) fuel fs pos t rp lay tr fs' trc,
    shift_sym_ok tb = true -> dyn_prod 0 = false ->
    fparse g tb skipws next_token stop_id consume_input in_layout dyn_term dyn_prod FS filt
           fuel fs pos = (DRes (LROk t rp lay tr), fs', trc) ->
    approved dyn_term dyn_prod trc t.
Proof. exact fparse_approved. Qed.
Print Assumptions C18_lr_result_approved.

(* The filter "reject all reductions of one production": if production k is dynamic and
   the filter (in whatever state) rejects every REDUCE of k, no returned tree uses k. *)
Theorem C18_lr_rejected_production_absent :
  forall g tb skipws next_token stop_id consume_input in_layout dyn_term dyn_prod
         (FS : Type) (filt : FS -> fcall -> bool * FS) k fuel fs pos t rp lay tr fs' trc,
    shift_sym_ok tb = true -> dyn_prod 0 = false -> dyn_prod k = true ->
    (forall fs0 from subs ah pos0, fst (filt fs0 (FReduce from k subs ah pos0)) = false) ->
    fparse g tb skipws next_token stop_id consume_input in_layout dyn_term dyn_prod FS filt
           fuel fs pos = (DRes (LROk t rp lay tr), fs', trc) ->
    ~ In k (prods_of t).
Proof. exact fparse_rejected_prod_absent. Qed.
Print Assumptions C18_lr_rejected_production_absent.

(* Whatever the filter answers, the driver only performs moves of the nondeterministic
   LR machine of its table: with a structurally valid table (C04's validator) a result
   is a derivation tree rooted in the start symbol. *)
Theorem C18_lr_filter_sound :
  forall g tb skipws next_token stop_id consume_input in_layout dyn_term dyn_prod
         (FS : Type) (filt : FS -> fcall -> bool * FS) start fuel fs pos t rp lay tr fs' trc,
    table_struct g tb start = true ->
    fparse g tb skipws next_token stop_id consume_input in_layout dyn_term dyn_prod FS filt
           fuel fs pos = (DRes (LROk t rp lay tr), fs', trc) ->
    wf_tree g t /\ root_sym g t = Some (NT start).
Proof. exact flr_sound. Qed.
Print Assumptions C18_lr_filter_sound.

(* A filter that accepts everything yields exactly the result obtained without a filter
   (tree, or error kind with its position), for every input -- provided no cell holds two
   actions among SHIFT / non-empty REDUCE ([cells_single]: true of every table the impl
   lets an LR parser be built from without a filter; checked on the impl's table). *)
Theorem C18_lr_accept_all :
  forall g tb skipws next_token stop_id consume_input in_layout dyn_term dyn_prod
         (FS : Type) (filt : FS -> fcall -> bool * FS) fuel fs pos,
    cells_single g tb = true ->
    (forall fs0 c, fst (filt fs0 c) = true) ->
    fst (fst (fparse g tb skipws next_token stop_id consume_input in_layout dyn_term dyn_prod
                     FS filt fuel fs pos))
    = DRes (lr_parse g tb skipws next_token stop_id consume_input in_layout fuel pos).
Proof. exact fparse_accept_all. Qed.
Print Assumptions C18_lr_accept_all.

(* NOT PROVED (T3, kept as statement; checked differentially on LR and GLR by the harness):
   C18_precedence_filter:
     forall operator table ot (levels, associativities) and the unresolved table tb of the
     operator grammar with every operator production and terminal marked,
       fparse ... (prec_filter ot) ... = DRes (lr_parse ... (the table statically resolved by ot) ...)
   where prec_filter accepts REDUCE p on lookahead y iff level p > level y or (equal and p is
   left associative) and accepts SHIFT iff the first REDUCE of the cell is not accepted.
   NOT MODELLED: the GLR driver (glr.py:372-376, 455-458, 486-489); C18_glr_trace_shape,
   C18_glr_every_marked, C18_glr_accept_all are evaluated as oracles on the impl only. *)

(* ---- refutation: "an action it accepts is taken" fails for EMPTY reductions -------- *)
(* S' -> S ; S -> A 'a' 'c' | 'a' 'b' ; A -> EMPTY {dynamic}   (terminals a=0 c=1 b=2 STOP=4),
   the impl's LALR table with prefer_shifts=False, prefer_shifts_over_empty=False *)
Definition g2 : grammar :=
  [mkProd 0 [NT 1]; mkProd 1 [NT 2; T 0; T 1]; mkProd 1 [T 0; T 2]; mkProd 2 []].
Definition tb2 : table :=
  [ mkState (NT 0) [(0, [Shift 3%nat; Reduce 3])] [(1, 1%nat); (2, 2%nat)] [true]
            [(0, 0%nat); (1, 0%nat); (2, 0%nat); (3, 0%nat)];
    mkState (NT 1) [(4, [Accept])] [] [false] [(0, 1%nat)];
    mkState (NT 2) [(0, [Shift 4%nat])] [] [true] [(1, 1%nat)];
    mkState (T 0) [(2, [Shift 5%nat])] [] [true] [(2, 1%nat)];
    mkState (T 0) [(1, [Shift 6%nat])] [] [true] [(1, 2%nat)];
    mkState (T 2) [(4, [Reduce 2])] [] [false] [(2, 2%nat)];
    mkState (T 1) [(4, [Reduce 1])] [] [false] [(1, 3%nat)] ].
(* the input "ac" *)
Definition scan_ac (st : nat) (p : N) : tokres :=
  match p with 0 => TTok 0 1 | 1 => TTok 1 1 | _ => TTok 4 0 end.

(* With the accept-all filter on input "ac": the filter is asked about the reduction
   A -> EMPTY in state 0 and accepts it; the driver shifts 'a' instead, raises no
   DynamicDisambiguationConflict, and ends in a SyntaxError at position 1 -- although
   taking the accepted reduction leads to the derivation S(A() a c) of the input. *)
Theorem C18_lr_accepted_empty_reduction_dropped_refuted :
  exists fs' trc,
    fparse g2 tb2 (fun p => Some p) scan_ac 4 true false (fun _ => false) (fun p => p =? 3)
           (list bool) verdict_filter 20 [] 0 = (DRes (LRSyntaxError 1 3), fs', trc) /\
    In (FReduce 0 3 [] (Some (0, 1)) 0, true) trc /\
    table_struct g2 tb2 1 = true /\ shift_sym_ok tb2 = true /\
    tree_ok g2 (TNode 1 0 2 [TNode 3 0 0 []; TLeaf 0 0 1; TLeaf 1 1 2]) = true.
Proof.
  eexists. eexists. split; [vm_compute; reflexivity|].
  split; [right; left; reflexivity|]. vm_compute. repeat split.
Qed.
Print Assumptions C18_lr_accepted_empty_reduction_dropped_refuted.

(* ---- non-vacuity -------------------------------------------------------------------- *)
(* S' -> E ; E -> E '+' E {dynamic} | 'n' ; '+' {dynamic}   (terminals +=0 n=1 STOP=3),
   the impl's unresolved LALR table (prefer_shifts=False) *)
Definition g3 : grammar := [mkProd 0 [NT 1]; mkProd 1 [NT 1; T 0; NT 1]; mkProd 1 [T 1]].
Definition tb3 : table :=
  [ mkState (NT 0) [(1, [Shift 2%nat])] [(1, 1%nat)] [true] [(0, 0%nat); (1, 0%nat); (2, 0%nat)];
    mkState (NT 1) [(0, [Shift 3%nat]); (3, [Accept])] [] [true; false] [(0, 1%nat); (1, 1%nat)];
    mkState (T 1) [(0, [Reduce 2]); (3, [Reduce 2])] [] [true; false] [(2, 1%nat)];
    mkState (T 0) [(1, [Shift 2%nat])] [(1, 4%nat)] [true] [(1, 2%nat); (1, 0%nat); (2, 0%nat)];
    mkState (NT 1) [(0, [Shift 3%nat; Reduce 1]); (3, [Reduce 1])] [] [true; false]
            [(1, 3%nat); (1, 1%nat)] ].
(* the input "n+n+n" *)
Definition scan_npnpn (st : nat) (p : N) : tokres :=
  match p with 0 | 2 | 4 => TTok 1 1 | 1 | 3 => TTok 0 1 | _ => TTok 3 0 end.

(* the hypotheses of the theorems above hold of a real table, and a parse whose filter
   (left associativity: reject the second '+' SHIFT, accept the REDUCE) is consulted six
   times returns the left-nested tree; a conflict-free table satisfies cells_single *)
Example C18_nonvacuous :
  table_struct g3 tb3 1 = true /\ shift_sym_ok tb3 = true /\ cells_single g2 tb2 = true /\
  exists t rp lay tr fs' trc,
    fparse g3 tb3 (fun p => Some p) scan_npnpn 3 true false (fun y => y =? 0) (fun p => p =? 1)
           (list bool) verdict_filter 40 [true; true; false; true; true; true] 0
    = (DRes (LROk t rp lay tr), fs', trc) /\
    length trc = 6%nat /\ prods_of t = [1; 1; 2; 2; 2] /\
    leaves t = [(1, 0, 1); (0, 1, 2); (1, 2, 3); (0, 3, 4); (1, 4, 5)].
Proof.
  split; [vm_compute; reflexivity|]. split; [vm_compute; reflexivity|].
  split; [vm_compute; reflexivity|].
  do 6 eexists. split; [vm_compute; reflexivity|]. vm_compute. repeat split.
Qed.
