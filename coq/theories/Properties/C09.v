(* C09 -- All ways of running semantic actions give the same result.
   Statements only; models in Model/Actions.v (+ LRDriver.v, Forest.v), proofs in
   Proofs/ActionsProofs.v. *)
From Coq Require Import NArith List Bool.
From PV Require Import Spec.Cfg Model.Table Model.LRDriver Model.Actions Model.Forest
  Validators.TableStruct Proofs.LRProofs Proofs.ForestProofs Proofs.ActionsProofs.
Import ListNotations.
Local Open Scope N_scope.

(* Route 1 = route 2, whole parser.  For every grammar, table (valid or not), scanner,
   layout function, option setting, action environment, pure user actions, input
   position and amount of fuel: running the LR parser with actions called during
   parsing gives exactly the outcome of running it with build_tree=True -- same
   acceptance, same error and error position, same returned position -- and on
   acceptance its result is the evaluation of the tree that build_tree returns. *)
Theorem C09_routes_equal :
  forall g env uact utact tb skipws next_token stop_id consume_input in_layout fuel pos,
    parse_actions g env uact utact tb skipws next_token stop_id consume_input in_layout fuel pos
    = map_lr (eval_lr g env uact utact)
             (lr_parse g tb skipws next_token stop_id consume_input in_layout fuel pos).
Proof. exact routes_equal. Qed.
Print Assumptions C09_routes_equal.

(* ... and that evaluation agrees with Parser.call_actions on the tree (children
   evaluated right to left, stopping at the first exception): the same value, or
   both raise. *)
Theorem C09_deferred_equal :
  forall g env uact utact tb skipws next_token stop_id consume_input in_layout fuel pos t rp lay tr,
    lr_parse g tb skipws next_token stop_id consume_input in_layout fuel pos = LROk t rp lay tr ->
    exists r,
      parse_actions g env uact utact tb skipws next_token stop_id consume_input in_layout fuel pos
      = AFOk r rp lay tr /\
      res_equiv r (call_actions g env uact utact t) /\
      (forall v, r = Ok v <-> call_actions g env uact utact t = Ok v).
Proof. exact routes_equal_accept. Qed.
Print Assumptions C09_deferred_equal.

(* an input the tree route does not accept is not accepted on the fly either *)
Theorem C09_reject_equal :
  forall g env uact utact tb skipws next_token stop_id consume_input in_layout fuel pos,
    (forall t rp lay tr,
        lr_parse g tb skipws next_token stop_id consume_input in_layout fuel pos <> LROk t rp lay tr) ->
    forall r rp lay tr,
      parse_actions g env uact utact tb skipws next_token stop_id consume_input in_layout fuel pos
      <> AFOk r rp lay tr.
Proof. exact routes_equal_reject. Qed.
Print Assumptions C09_reject_equal.

(* Which exception is raised is NOT the same on the two routes: with two raising
   actions the on-the-fly route raises the leftmost one, call_actions the rightmost.
   (Recorded as an observation: the property speaks about results.) *)
Definition g_ab : grammar := [mkProd 0 [NT 1]; mkProd 1 [NT 2; NT 3]; mkProd 2 [T 0]; mkProd 3 [T 1]].
Definition env_raise : aenv :=
  mkAEnv [SNone; SNone; SOne (AUser 0); SOne (AUser 1)] [] [] (enum_psid [] g_ab) [].
Definition raising (k p s e : N) (nodes : list val) (kw : list (N * val)) : res :=
  if k =? 0 then Err TypeError else Err ValueError.
Definition t_ab : tree := TNode 1 0 2 [TNode 2 0 1 [TLeaf 0 0 1]; TNode 3 1 2 [TLeaf 1 1 2]].
Theorem C09_exception_order_differs :
  eval_lr g_ab env_raise raising (fun _ _ _ _ => Ok VNone) t_ab = Err TypeError /\
  call_actions g_ab env_raise raising (fun _ _ _ _ => Ok VNone) t_ab = Err ValueError.
Proof. vm_compute. split; reflexivity. Qed.
Print Assumptions C09_exception_order_differs.

(* Arguments.  The action environment is the one the grammar front end builds:
   prod_symbol_id by _enumerate_productions, assignment dicts from the productions
   as written ([decls]).  For a node of a derivation whose rule has a user action
   -- a single callable, or the entry of the rule's action list at the position of
   this production among the rule's alternatives -- and whose children evaluated to
   [vs]:  that action, and no other, is called with exactly [vs], one sub-result per
   right-hand-side symbol in order (child i derives symbol i), and every named match
   is bound to the sub-result at the position where it is written ('=': the value,
   '?=': its truth value; a repeated name: the last one); no other name is bound. *)
Theorem C09_args :
  forall g env uact utact (decls : list decl),
    ae_psid env = enum_psid [] g ->
    ae_assign env = map mk_assign decls ->
    forall p pr d k s e cs vs,
      get_prod g p = Some pr ->
      nth_error decls (N.to_nat p) = Some d ->
      length d = length (rhs pr) ->
      user_action_for g env p pr k ->
      wf_tree g (TNode p s e cs) ->
      map (eval_lr g env uact utact) cs = map Ok vs ->
      length vs = length (rhs pr) /\
      map (root_sym g) cs = map Some (rhs pr) /\
      exists kw,
        eval_lr g env uact utact (TNode p s e cs) = uact k p s e vs kw /\
        (forall j n op, last_named d j n op -> assoc n kw = Some (kw_value op (nth j vs VNone))) /\
        (forall n, unnamed d n -> assoc n kw = None).
Proof. exact args_spec. Qed.
Print Assumptions C09_args.

(* prod_symbol_id, as computed by the impl's dict-counting loop, is the number of
   earlier productions of the same rule *)
Theorem C09_alternative_index :
  forall g p pr, get_prod g p = Some pr ->
    nth (N.to_nat p) (enum_psid [] g) O = count_lhs (lhs pr) (firstn (N.to_nat p) g).
Proof. exact psid_is_alternative_index. Qed.
Print Assumptions C09_alternative_index.

(* the nodes the theorems above speak about are the nodes of what the parser
   returns: with a structurally valid table every accepted parse is a derivation *)
Theorem C09_parse_tree_wf :
  forall g tb skipws next_token stop_id consume_input in_layout start fuel pos t rp lay tr,
    table_struct g tb start = true ->
    lr_parse g tb skipws next_token stop_id consume_input in_layout fuel pos = LROk t rp lay tr ->
    wf_tree g t /\ root_sym g t = Some (NT start) /\ leaves t = strip tr.
Proof. exact lr_sound. Qed.
Print Assumptions C09_parse_tree_wf.

(* Without user actions the result is the nested list mirroring the tree (a node
   with one child is replaced by that child) and no exception is possible. *)
Theorem C09_default_nested :
  forall g env uact utact t,
    (forall a, action_of_nt env a = SNone) ->
    (forall y, nth (N.to_nat y) (ae_term env) TANone = TANone) ->
    eval_lr g env uact utact t = Ok (nested t).
Proof. exact default_nested. Qed.
Print Assumptions C09_default_nested.

(* x+ and x+[sep]: for EVERY derivation of the helper rule  H: H [sep] X | X  with
   the resolved action list collect / collect_sep, the result is the flat list of
   the element results, in order -- provided no element after the first evaluates
   to None (see the refutation below). *)
Theorem C09_builtin_plus :
  forall g env uact utact (H pRec pBase : N) (X : sym) (sep : option sym),
    get_prod g pRec = Some (mkProd H (rec_rhs H X sep)) ->
    get_prod g pBase = Some (mkProd H [X]) ->
    (forall p pr, get_prod g p = Some pr -> lhs pr = H -> p = pRec \/ p = pBase) ->
    action_of_nt env H =
      SList [match sep with Some _ => ACollectFirstSep | None => ACollectFirst end; APassNoChange] ->
    psid_of env pRec = O -> psid_of env pBase = 1%nat ->
    assign_of env pRec = [] -> assign_of env pBase = [] ->
    forall t,
      wf_tree g t -> root_sym g t = Some (NT H) ->
      plus_elems pRec t <> [] /\
      Forall (fun x => root_sym g x = Some X) (plus_elems pRec t) /\
      forall vs,
        map (eval_lr g env uact utact) (plus_elems pRec t) = map Ok vs ->
        Forall (fun c => exists v, eval_lr g env uact utact c = Ok v) (plus_seps pRec t) ->
        (forall v, In v (tl vs) -> v <> VNone) ->
        eval_lr g env uact utact t = Ok (VList vs).
Proof. exact plus_collect. Qed.
Print Assumptions C09_builtin_plus.

(* x*: the helper rule  H0: H1 | EMPTY  returns [] or the list of H1 *)
Theorem C09_builtin_star :
  forall g env uact utact (H0 H1 pSome pNone : N),
    get_prod g pSome = Some (mkProd H0 [NT H1]) ->
    get_prod g pNone = Some (mkProd H0 []) ->
    (forall p pr, get_prod g p = Some pr -> lhs pr = H0 -> p = pSome \/ p = pNone) ->
    action_of_nt env H0 = SOne AStar0 ->
    assign_of env pSome = [] -> assign_of env pNone = [] ->
    forall t,
      wf_tree g t -> root_sym g t = Some (NT H0) ->
      (exists s e, t = TNode pNone s e [] /\ eval_lr g env uact utact t = Ok (VList [])) \/
      (exists s e h, t = TNode pSome s e [h] /\ root_sym g h = Some (NT H1) /\
                     forall v, eval_lr g env uact utact h = Ok v -> eval_lr g env uact utact t = Ok v).
Proof. exact star_result. Qed.
Print Assumptions C09_builtin_star.

(* x?: the helper rule  O: X | EMPTY  returns the value of X or None *)
Theorem C09_builtin_optional :
  forall g env uact utact (O pSome pNone : N) (X : sym),
    get_prod g pSome = Some (mkProd O [X]) ->
    get_prod g pNone = Some (mkProd O []) ->
    (forall p pr, get_prod g p = Some pr -> lhs pr = O -> p = pSome \/ p = pNone) ->
    action_of_nt env O = SList [APassSingle; APassNone] ->
    psid_of env pSome = 0%nat -> psid_of env pNone = 1%nat ->
    assign_of env pSome = [] -> assign_of env pNone = [] ->
    forall t,
      wf_tree g t -> root_sym g t = Some (NT O) ->
      (exists s e, t = TNode pNone s e [] /\ eval_lr g env uact utact t = Ok VNone) \/
      (exists s e x, t = TNode pSome s e [x] /\ root_sym g x = Some X /\
                     forall v, eval_lr g env uact utact x = Ok v -> eval_lr g env uact utact t = Ok v).
Proof. exact opt_result. Qed.
Print Assumptions C09_builtin_optional.

(* The flat-list statement fails without the side condition: collect_first drops an
   element whose result is None, but keeps a first one.   S' -> H;  H: H X | X;
   X: 'a' with an action returning None (e.g. @pass_none), input "a a a": the
   result is [None], not [None, None, None]. *)
Definition g_plus : grammar :=
  [mkProd 0 [NT 1]; mkProd 1 [NT 1; NT 2]; mkProd 1 [NT 2]; mkProd 2 [T 0]].
Definition env_plus : aenv :=
  mkAEnv [SNone; SList [ACollectFirst; APassNoChange]; SOne APassNone] [] []
         (enum_psid [] g_plus) [].
Definition xa (s : N) : tree := TNode 3 s (s + 1) [TLeaf 0 s (s + 1)].
Definition t_plus : tree := TNode 1 0 3 [TNode 1 0 2 [TNode 2 0 1 [xa 0]; xa 1]; xa 2].
Definition no_user (k p s e : N) (nodes : list val) (kw : list (N * val)) : res := Ok VNone.
Theorem C09_builtin_plus_none_refuted :
  wf_tree g_plus t_plus /\
  map (eval_lr g_plus env_plus no_user (fun _ _ _ _ => Ok VNone)) (plus_elems 1 t_plus)
  = [Ok VNone; Ok VNone; Ok VNone] /\
  eval_lr g_plus env_plus no_user (fun _ _ _ _ => Ok VNone) t_plus = Ok (VList [VNone]).
Proof.
  split; [apply tree_ok_iff; vm_compute; reflexivity|]. vm_compute. split; reflexivity.
Qed.
Print Assumptions C09_builtin_plus_none_refuted.

(* GLR route (partial).  Full statement wanted:
     forall grammar/table/input, if GLRParser.parse returns a forest F with len(F) = 1
     then call_actions(F[0]) equals the LR results above.
   That needs a model of the GLR driver (C01/C02), which this tree does not have.
   Proved here: for EVERY well-formed forest with exactly one tree that contains the
   LR derivation, decoding forest[0] (the Tree proxies, Model/Forest.v) and running
   call_actions on it gives the LR call_actions result, hence the on-the-fly one. *)
Theorem C09_glr_single_partial :
  forall g env uact utact F tb skipws next_token stop_id consume_input in_layout fuel pos t rp lay tr,
    forest_wf F = true -> F <> [] -> root_count F = 1 -> In t (root_trees F) ->
    lr_parse g tb skipws next_token stop_id consume_input in_layout fuel pos = LROk t rp lay tr ->
    exists r rg,
      parse_actions g env uact utact tb skipws next_token stop_id consume_input in_layout fuel pos
      = AFOk r rp lay tr /\
      glr_call_actions g env uact utact F = Some rg /\
      rg = call_actions g env uact utact t /\ res_equiv r rg.
Proof. exact glr_single_routes. Qed.
Print Assumptions C09_glr_single_partial.

(* non-vacuity:  S' -> S;  S: x=A y?=B | B;  A: 'a';  B: 'b'  with a per-alternative
   list on S; the 6-state table is structurally valid, "ab" is accepted, the three
   evaluations agree and the first alternative's action got x = result of A,
   y = True *)
Definition g_nv : grammar :=
  [mkProd 0 [NT 1]; mkProd 1 [NT 2; NT 3]; mkProd 1 [NT 3]; mkProd 2 [T 0]; mkProd 3 [T 1]].
Definition tb_nv : table :=
  [ mkState (NT 0) [(0, [Shift 3%nat]); (1, [Shift 4%nat])] [(1, 1%nat); (2, 2%nat); (3, 5%nat)]
            [false; false] [(0, 0%nat); (1, 0%nat); (2, 0%nat); (3, 0%nat); (4, 0%nat)];
    mkState (NT 1) [(2, [Accept])] [] [false] [(0, 1%nat)];
    mkState (NT 2) [(1, [Shift 4%nat])] [(3, 6%nat)] [false] [(1, 1%nat); (4, 0%nat)];
    mkState (T 0) [(1, [Reduce 3])] [] [false] [(3, 1%nat)];
    mkState (T 1) [(2, [Reduce 4])] [] [false] [(4, 1%nat)];
    mkState (NT 3) [(2, [Reduce 2])] [] [false] [(2, 1%nat)];
    mkState (NT 3) [(2, [Reduce 1])] [] [false] [(1, 2%nat)] ].
Definition decls_nv : list decl := [[None]; [Some (1, true); Some (2, false)]; [None]; [None]; [None]].
Definition env_nv : aenv :=
  mkAEnv [SNone; SList [AUser 7; AUser 8]; SNone; SNone] [] [false; true; false; false]
         (enum_psid [] g_nv) (map mk_assign decls_nv).
Definition rec_user (k p s e : N) (nodes : list val) (kw : list (N * val)) : res :=
  Ok (VUser k p s e nodes kw).
Definition scan_nv (st : nat) (p : N) : tokres :=
  if p =? 0 then TTok 0 1 else if p =? 1 then TTok 1 1 else TTok 2 0.
Example C09_nonvacuous :
  table_struct g_nv tb_nv 1 = true /\
  exists t rp lay tr,
    lr_parse g_nv tb_nv (fun p => Some p) scan_nv 2 true false 20 0 = LROk t rp lay tr /\
    parse_actions g_nv env_nv rec_user (fun _ _ _ _ => Ok VNone) tb_nv (fun p => Some p) scan_nv 2
                  true false 20 0
    = AFOk (Ok (VUser 7 1 0 2 [VStr 0 1; VStr 1 2] [(1, VStr 0 1); (2, VBool true)])) rp lay tr /\
    call_actions g_nv env_nv rec_user (fun _ _ _ _ => Ok VNone) t
    = Ok (VUser 7 1 0 2 [VStr 0 1; VStr 1 2] [(1, VStr 0 1); (2, VBool true)]).
Proof.
  split; [vm_compute; reflexivity|]. vm_compute. do 4 eexists. repeat split; reflexivity.
Qed.
