(* C15 -- Parsers are reusable and grammars are not corrupted by building parsers.
   Statements only. *)
From Coq Require Import NArith List Bool.
From PV Require Import Spec.Cfg Model.Table Model.LRDriver Model.Scan Model.Parser Model.Reuse
  Proofs.ReuseProofs.
Import ListNotations.
Local Open Scope N_scope.

(* The memoised FIRST sets (grammar._first_sets) are computed with whatever
   productions[0].rhs is at the time of the first call.  For every grammar in which S'
   occurs in no right-hand side, every pair of right-hand sides of production 0 (the
   original one, or the one of a table construction for another start production)
   and every amount of fuel for which both computations finish: the FIRST set of every
   symbol other than S' is the same. *)
Theorem C15_first_cache_ok :
  forall (empty_id aug_nt : N) (rest : list prod),
    (forall p, In p rest -> lhs p <> aug_nt /\ rhs_in (fun b => b <> aug_nt) (rhs p)) ->
    forall (aug aug' : list sym) (n m : nat) (ft ft' : ftab),
      first_sets empty_id n (mkProd aug_nt aug :: rest) = Some ft ->
      first_sets empty_id m (mkProd aug_nt aug' :: rest) = Some ft' ->
      forall b, b <> aug_nt -> ft b = ft' b.
Proof. exact first_cache_ok. Qed.
Print Assumptions C15_first_cache_ok.

(* create_table (the wrapper with its finally clause around _create_table), for every
   item-set machinery [core], every grammar state and every option set: on EVERY exit --
   normal return, GrammarError raised before the swap, an exception raised while the item
   sets are computed -- productions[0].rhs is what it was on entry. *)
Theorem C15_build_restores :
  forall (G : gstatic) core (gs : gstate) (o : bopts),
    gs_aug (fst (create_table G core gs o)) = gs_aug gs.
Proof. exact create_table_restores. Qed.
Print Assumptions C15_build_restores.

(* the same for a whole Parser/GLRParser construction (LAYOUT sub-parser, main table,
   conflict check), whichever of its steps fails *)
Theorem C15_parser_init_restores :
  forall (G : gstatic) core sr rr (gs : gstate) (o : popts),
    gs_aug (fst (parser_init G core sr rr gs o)) = gs_aug gs.
Proof. exact parser_init_restores. Qed.
Print Assumptions C15_parser_init_restores.

(* Parser.__init__: from every grammar state that differs from the freshly loaded grammar
   at most by a filled FIRST cache, the outcome (tables or exception) is the one obtained on
   the freshly loaded grammar, and afterwards -- on every exit, an interrupted construction
   included -- the grammar is again in such a state. *)
Theorem C15_parser_init_transparent :
  forall (G : gstatic) core sr rr (aug0 : list sym) (gs : gstate) (o : popts),
    ginv G aug0 gs ->
    snd (parser_init G core sr rr gs o) = snd (parser_init G core sr rr (mkG aug0 None) o) /\
    ginv G aug0 (fst (parser_init G core sr rr gs o)).
Proof. exact parser_init_inv. Qed.
Print Assumptions C15_parser_init_transparent.

(* Parser.parse: whatever the instance fields hold (left by earlier successful, failed,
   recovered or aborted parses, or absent), the outcome -- result, parser.errors, error
   raised -- of parsing [inp] is the same. *)
Theorem C15_parse_frame_lr :
  forall (sub : lr_subject) (inp : pinput) (fuel : nat) (budget : option nat) (pos : N)
         (st st' : lr_inst),
    snd (lr_parse_inst sub inp fuel budget pos st) = snd (lr_parse_inst sub inp fuel budget pos st').
Proof. exact lr_parse_frame. Qed.
Print Assumptions C15_parse_frame_lr.

(* GLRParser.parse: whichever transient fields exist on the instance (all after an aborted
   run, none after a completed one), a run never fails on a missing attribute in
   _remove_transient_state, its outcome does not depend on them, and after a completed run
   they are all gone again. *)
Theorem C15_parse_frame_glr :
  forall (path : glr_path) (clear : bool) (s s' : gstore),
    snd (glr_parse_inst path clear s) = snd (glr_parse_inst path clear s') /\
    snd (glr_parse_inst path clear s) <> GOAttributeError.
Proof. exact glr_parse_frame_both. Qed.
Print Assumptions C15_parse_frame_glr.

Theorem C15_glr_transient_removed :
  forall (path : glr_path) (s : gstore) (f : gfield),
    (forall l a, path <> GRaised l a) -> In f glr_removed ->
    fst (glr_parse_inst path true s) f = false.
Proof. exact glr_transient_removed. Qed.
Print Assumptions C15_glr_transient_removed.

(* Histories.  For every grammar, item-set machinery, conflict predicate, LR subject, GLR
   driver, and every history of any length over {LR parse of any input -- sentence or not,
   with or without recovery, possibly cut short by a raising action --, GLR parse, construction
   of another Parser/GLRParser (SLR or LALR, any prefer_shifts setting, with or without
   LAYOUT) that succeeds, fails with conflicts or a grammar error, or is interrupted by an
   exception while a table is built}: afterwards the grammar's augmented production is the
   original one, every probe parse on the subjects gives what it gives before the history,
   and constructing any parser gives what it gives on the freshly loaded grammar. *)
Theorem C15_history :
  forall (G : gstatic) core sr rr (sub : lr_subject) (glr_run : pinput -> glr_path)
         (aug0 : list sym) (w0 : world) (h : list op),
    ginv G aug0 (w_g w0) ->
    let w := run_history G core sr rr sub glr_run w0 h in
    gs_aug (w_g w) = aug0 /\
    (forall inp fuel budget pos,
        probe_lr sub w inp fuel budget pos = probe_lr sub w0 inp fuel budget pos) /\
    (forall inp, probe_glr glr_run w inp = probe_glr glr_run w0 inp) /\
    (forall o, probe_build G core sr rr w o = snd (parser_init G core sr rr (mkG aug0 None) o)).
Proof. exact history_probe. Qed.
Print Assumptions C15_history.

(* ---- the formerly excluded case (fixed in /repo: try/finally in create_table) -----------
   S' -> S STOP ; 1: S -> 'a' ; 2: LAYOUT -> WS        (a=0 STOP=1 EMPTY=2 WS=3; S'=0 S=1 LAYOUT=2)
   [core_int] gives up while building the LAYOUT automaton (state budget, KeyboardInterrupt,
   timeout); [core_slr] never does and, like the SLR reduce phase, enters a reduction of S
   under every terminal of FOLLOW(S). *)
Definition G1 : gstatic :=
  mkGS [mkProd 1 [T 0]; mkProd 2 [T 3]] [0; 1; 2] 0 1 2 (Some 2) 20.
Definition core_int (ps : list prod) (o : bopts) (ft fo : ftab) : core_res :=
  if b_start o =? 2 then CoreInterrupted
  else CoreTable [mkState (NT 0) (map (fun t => (t, [Reduce 1])) (fo 1)) [] [] []].
Definition core_slr (ps : list prod) (o : bopts) (ft fo : ftab) : core_res :=
  CoreTable [mkState (NT 0) (map (fun t => (t, [Reduce 1])) (fo 1)) [] [] []].

(* after an interrupted construction of the LAYOUT table, a later construction is handed
   the same FOLLOW sets (STOP in FOLLOW(S)) and returns the same table as on the fresh
   grammar -- the witness of the former finding, now a positive instance *)
Example C15_interrupted_build_harmless :
  let gs0 := mkG [NT 1; T 1] None in
  let o_i := mkB 2 true true true true in
  let o := mkB 1 false false false true in
  snd (create_table G1 core_int gs0 o_i) = Raise XInterrupted /\
  gs_aug (fst (create_table G1 core_int gs0 o_i)) = [NT 1; T 1] /\
  snd (create_table G1 core_slr (fst (create_table G1 core_int gs0 o_i)) o)
    = snd (create_table G1 core_slr gs0 o).
Proof. vm_compute. repeat split. Qed.
Print Assumptions C15_interrupted_build_harmless.

(* the three writes at the top of Parser.parse are what makes the frame theorem true: the
   body alone does depend on what an earlier parse left behind *)
Definition g2 : grammar := [mkProd 0 [NT 1]; mkProd 1 [T 0]].
Definition tb2 : table :=
  [ mkState (NT 0) [(0, [Shift 2%nat])] [(1, 1%nat)] [true] [(0, 0%nat); (1, 0%nat)];
    mkState (NT 1) [(1, [Accept])] [] [false] [(0, 1%nat)];
    mkState (T 0) [(1, [Reduce 1])] [] [false] [(1, 1%nat)] ].
Definition sub2 : lr_subject :=
  mkLS (mkPConf g2 tb2 [mkTerm 10 false; mkTerm 10 false] 1 true true [32] None) true.
Definition inp_a : pinput := mkPInput [97] [[1]; [0]].
Definition inp_xa : pinput := mkPInput [120; 97] [[0; 1]; [0; 0]].

Theorem C15_body_without_reset_refuted :
  exists st,
    snd (lr_body sub2 inp_a 50 None 0 st) <> snd (lr_parse_inst sub2 inp_a 50 None 0 st).
Proof. exists (mkLI (Some [(7, 9)]) None None). vm_compute. discriminate. Qed.
Print Assumptions C15_body_without_reset_refuted.

(* non-vacuity: a history with a failing construction (SRConflicts), an interrupted
   construction, a recovered parse, an aborted parse, a rejected parse and GLR parses of all
   three kinds; the hypothesis of C15_history holds and the probe parse succeeds *)
Definition G2 : gstatic := mkGS [mkProd 1 [T 0]] [0; 1] 0 1 2 None 20.
Definition core2 (ps : list prod) (o : bopts) (ft fo : ftab) : core_res :=
  if b_lr1 o then (if b_ps o then CoreInterrupted else CoreTable tb2)
  else CoreTable [mkState (NT 0) [(0, [Shift 0%nat; Reduce 1])] [] [] []].
Definition glr2 (inp : pinput) : glr_path :=
  match pi_chars inp with
  | [97] => GAccepted 1
  | [] => GRaised true false
  | _ => GSyntaxError 0
  end.
Definition w2 : world := mkW (mkG [NT 1; T 1] None) (mkLI None None None) (fun _ => false).
Definition h2 : list op :=
  [ OBuild false true false false;            (* SLR: SRConflicts *)
    OParseLR inp_xa 50 None 0;                (* recovered *)
    OBuild false false true true;             (* interrupted while the table is built *)
    OParseLR inp_a 50 (Some 0%nat) 0;         (* the first action raises *)
    OParseGLR (mkPInput [] []);               (* recognizer raises *)
    OBuild true false false false;            (* GLRParser, LALR *)
    OParseGLR inp_xa; OParseGLR inp_a;
    OParseLR (mkPInput [120] [[0]; [0]]) 50 None 0 ].
Example C15_nonvacuous :
  ginv G2 [NT 1; T 1] (w_g w2) /\
  probe_build G2 core2 sr_conflicts_of (rr_conflicts_of g2) w2 (mkP false true false false)
    = Raise XSRConflicts /\
  probe_build G2 core2 sr_conflicts_of (rr_conflicts_of g2) w2 (mkP false false true true)
    = Raise XInterrupted /\
  (exists t, probe_lr sub2 w2 inp_xa 50 None 0 = RROk t 2 [(0, 1)]) /\
  (exists t, probe_lr sub2 (run_history G2 core2 sr_conflicts_of (rr_conflicts_of g2) sub2 glr2 w2 h2)
                      inp_a 50 None 0 = RROk t 1 []).
Proof.
  split; [apply ginv_fresh|]. split; [vm_compute; reflexivity|]. split; [vm_compute; reflexivity|].
  split; vm_compute; eexists; reflexivity.
Qed.
