(* C08 -- Parse trees are positionally faithful and lossless.  Statements only. *)
From Coq Require Import NArith List Bool.
From PV Require Import Spec.Cfg Model.Forest Model.Table Model.LRDriver Validators.ForestSound
  Proofs.ForestProofs Proofs.ForestSoundProofs Proofs.LRSpanProofs Proofs.LRTraceProofs
  Proofs.LRLosslessProofs.
Import ListNotations.
Local Open Scope N_scope.

(* LR: for every grammar, table, scanner, layout function that never moves backwards,
   option setting, start position and fuel, the tree returned by the driver has
   well-formed spans: start <= end at every node, an interior node spans from the start
   of its first child to the end of its last child, siblings are in input order and do
   not overlap, a node without children has start = end. *)
Theorem C08_lr_spans :
  forall g tb skipws next_token stop_id consume_input in_layout,
    (forall p q, skipws p = Some q -> p <= q) ->
    forall fuel pos t rp lay tr,
      lr_parse g tb skipws next_token stop_id consume_input in_layout fuel pos = LROk t rp lay tr ->
      spans_ok t.
Proof. exact lr_spans. Qed.
Print Assumptions C08_lr_spans.

(* LR, losslessness at the level of positions (consume_input on): the shifted tokens with the
   layout span recorded for each tile the input from the start position to the end of the last
   token -- each token's layout_content is exactly the gap after the previous token (or the
   start), each token starts where layout skipping from there stops, start <= end: nothing is
   lost, duplicated or invented.  (The leaves of the returned tree are these tokens:
   C04_lr_sound.) *)
Theorem C08_lr_lossless :
  forall g tb skipws next_token stop_id pos0 fuel t rp lay tr,
    lr_parse g tb skipws next_token stop_id true false fuel pos0 = LROk t rp lay tr ->
    tiles skipws pos0 tr.
Proof. exact lr_trace_tiles. Qed.
Print Assumptions C08_lr_lossless.

(* LR, losslessness at the level of STRINGS: for every input text s (over any alphabet), when
   each token's layout_content is s[its layout span] and its value is s[start:end] (what the
   check compares on every generated case), concatenating over the shifted tokens from left to
   right layout_content followed by value gives exactly s[pos0 : end of the last token] -- the
   input up to trailing layout; and the pieces are in input order without overlap. *)
Theorem C08_lr_lossless_strings :
  forall (A : Type) (s : list A) g tb skipws next_token stop_id pos0 fuel t rp lay tr,
    (forall p q, skipws p = Some q -> p <= q) ->
    lr_parse g tb skipws next_token stop_id true false fuel pos0 = LROk t rp lay tr ->
    concat (map (entry_text s) tr) = slice s pos0 (last_end pos0 tr) /\
    Forall (fun x => pos0 <= fst (te_lay x) /\ fst (te_lay x) <= snd (te_lay x) /\
                     snd (te_lay x) = te_s x /\ te_s x <= te_e x /\
                     te_e x <= last_end pos0 tr) tr.
Proof.
  intros A s g tb skipws next_token stop_id pos0 fuel t rp lay tr Hm H.
  pose proof (lr_trace_tiles g tb skipws next_token stop_id pos0 fuel t rp lay tr H) as Ht.
  split; [exact (tiles_text skipws s Hm tr pos0 Ht)|exact (tiles_ordered skipws Hm tr pos0 Ht)].
Qed.
Print Assumptions C08_lr_lossless_strings.

(* the slices are Python's: "ab  cd"[2:4] = "  " *)
Example C08_slice_example : slice [1;2;3;4;5;6] 2 4 = [3;4] /\ slice [1;2;3] 1 7 = [2;3].
Proof. split; reflexivity. Qed.

(* well-formed spans give the statement of the property: every node of the tree has
   start <= end and lies inside the root's span (applied to a subtree: inside its parent) *)
Theorem C08_spans_nested : forall t, spans_ok t ->
  forall n, In n (subtrees t) ->
    t_start t <= t_start n /\ t_end n <= t_end t /\ t_start n <= t_end n.
Proof. exact spans_nested. Qed.
Print Assumptions C08_spans_nested.

(* GLR: every tree of a forest that passes the strict forest check has well-formed spans,
   leaves matched by their recognizers at [start, end) inside the input, consecutive leaves
   separated by layout only (nothing lost, duplicated or invented) *)
Theorem C08_forest_spans :
  forall (g : grammar) (tokok : N -> N -> N -> bool) (sk : N -> N)
         (start pos0 in_len : N) (consume : bool) (F : forest),
    forest_ok g tokok sk true start pos0 in_len consume F = true ->
    forall t, In t (root_trees F) ->
      spans_ok t /\ chain_ok sk (leaves t) /\ All (leaf_ok tokok) (leaves t) /\
      match bounds (leaves t) with
      | None => consume = true -> sk pos0 = in_len
      | Some (fs, le) => fs = sk pos0 /\ le <= in_len /\ (consume = true -> sk le = in_len)
      end.
Proof.
  intros g tokok sk start pos0 in_len consume F H t Ht.
  destruct (forest_valid g tokok sk true start pos0 in_len consume F H t Ht) as (_ & _ & A & B & C & D).
  split; [apply A; reflexivity|]. split; [exact B|]. split; [exact C|exact D].
Qed.
Print Assumptions C08_forest_spans.

(* NOT PROVED (checked on every generated case instead): that the impl's STRINGS layout_content
   and value are input[layout span] and input[start:end] (the model carries positions only;
   C08_lr_lossless_strings then gives the concatenation), the GLR counterpart of
   C08_lr_lossless, and that the positions passed to actions / obj equal the node's. *)

Definition t_ex : tree := TNode 1 0 3 [TNode 2 0 0 []; TLeaf 0 2 3].
Example C08_nonvacuous : spans_ok t_ex /\ In (TNode 2 0 0 []) (subtrees t_ex).
Proof.
  split.
  - cbn. repeat split; try discriminate; try reflexivity.
  - cbn. right. left. reflexivity.
Qed.
