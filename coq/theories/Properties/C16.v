(* C16 -- Tables and forests are deterministic across processes and hash seeds.
   Statements only.

   What is proved (all unbounded: every grammar, every state, every lookahead set,
   every iteration order):
     - C16_stable_sort_perm_invariant, C16_sort_state_actions_order_indep: the mechanism
       behind LRTable.sort_state_actions;
     - C16_reduce_phase_order_indep: the REDUCE phase of create_table fills every cell
       independently of the order in which lookahead sets are iterated;
     - C16_table_order_indep_partial: rows, finish flags, S/R and R/R conflict lists and
       the BYTES of json.dumps(table_to_serializable(table), sort_keys=True) are the same
       for any two set-iteration oracles;
     - C16_ser_function_of_table: what is saved reads only the four serialised
       components of the states.
   C16_sort_needs_distinct_keys and C16_unsorted_rows_depend_on_order show that the
   two hypotheses / mechanisms are necessary (the oracle is not vacuous).

   PARTIAL.  Full statements planned in DESIGN.md section 7 and not proved here:
     C16_table_order_indep:
       forall ord1 ord2 g cfg, perm_oracle ord1 -> perm_oracle ord2 ->
         create_table ord1 g cfg = create_table ord2 g cfg
       -- proved here from the end of the automaton phase on.  The automaton phase
       (closure, LALR merging/propagation, FIRST/FOLLOW; tables/__init__.py:150-310,
       closure.py) is not modelled: it never iterates a set of symbols (only union,
       difference, subset, membership; every dict keyed by symbols is insertion ordered),
       which is checked on every run by executing it under injected adversarial set
       iteration orders and under different PYTHONHASHSEEDs (state numbering, items,
       gotos and lookahead sets must be identical).
     C16_forest_order_indep:
       the GLR driver's forest (order of packed alternatives included) does not depend
       on the symbol-set oracle
       -- no GLR driver model exists in this development; covered by the differential
       run only (forest dumps and to_str() of forest[0..n) across hash seeds).          *)
From Coq Require Import NArith List Bool Permutation.
From PV Require Import Model.StrTerm Model.Determ Proofs.DetermProofs.
Import ListNotations.
Local Open Scope N_scope.

(* A stable (insertion) sort whose comparator is a strict total order on the elements
   of the list returns the same list for EVERY permutation of its input: sorting
   erases the insertion order of a dict, whatever it was. *)
Theorem C16_stable_sort_perm_invariant :
  forall (X : Type) (before : X -> X -> bool) (l l' : list X),
    NoDup l -> strict_on before l -> Permutation l l' ->
    sort_by before l = sort_by before l'.
Proof. exact @sort_by_perm_invariant. Qed.
Print Assumptions C16_stable_sort_perm_invariant.

(* sort_state_actions with parglare's own key ("{:010d}{:500s}" of priority/length
   number and fqn, reverse=True): if no two terminals of the row share a sort key, the
   sorted row is the same for every insertion order of the state's action dict. *)
Theorem C16_sort_state_actions_order_indep :
  forall (c : dconf) (d d' : dict (list act)),
    NoDup (keys d) -> keys_distinct c (keys d) = true -> Permutation d d' ->
    sort_actions c d = sort_actions c d'.
Proof. exact sort_actions_perm_b. Qed.
Print Assumptions C16_sort_state_actions_order_indep.

(* The REDUCE phase over any action dict, any items, any priorities/associativities and
   strategy flags: if the two runs visit, item by item, the same lookahead sets in
   possibly different orders, every cell ends up with the same action list (same
   order inside the cell) and the two dicts are permutations of each other. *)
Theorem C16_reduce_phase_order_indep :
  forall (c : dconf) (shp : N -> N) (its its' : list ((N * nat) * list N)) (d : dict (list act)),
    Forall2 item_rel its its' -> NoDup (keys d) ->
    (forall k, dget k (reduce_phase c shp its d) = dget k (reduce_phase c shp its' d)) /\
    Permutation (reduce_phase c shp its d) (reduce_phase c shp its' d).
Proof. exact reduce_phase_order_indep. Qed.
Print Assumptions C16_reduce_phase_order_indep.

(* From the automaton phase's output to the saved file: for ANY two set-iteration
   oracles (each returns some permutation of the set it is asked to iterate; it may
   answer differently for every state and item), the finished tables are equal --
   same action order in every row, same order inside every cell, same finish flags --
   and so are the bytes written by save_table and the S/R and R/R conflict lists.
   [tin_okb] is evaluated by the check on the data dumped from the impl: lookahead
   lists are duplicate-free and the sort keys of the row's terminals are distinct. *)
Theorem C16_table_order_indep_partial :
  forall (c : dconf) (tin : list (score * list (list N))) (ord1 ord2 : oracle),
    perm_oracle ord1 -> perm_oracle ord2 -> forallb (tin_okb c) tin = true ->
    let t1 := build_table c (apply_oracle ord1 tin) in
    let t2 := build_table c (apply_oracle ord2 tin) in
    t1 = t2 /\ table_bytes c t1 = table_bytes c t2 /\
    sr_conflicts t1 = sr_conflicts t2 /\ rr_conflicts c t1 = rr_conflicts c t2.
Proof. exact observables_oracle_indep_b. Qed.
Print Assumptions C16_table_order_indep_partial.

(* The saved bytes and the conflict reports are a function of the serialised
   components (symbol, ordered actions, ordered gotos, finish flags) and of nothing
   else in the process (items, lookahead sets, object identities). *)
Theorem C16_ser_function_of_table :
  forall (c : dconf) (t1 t2 : list sout),
    map so_symname t1 = map so_symname t2 -> map so_actions t1 = map so_actions t2 ->
    map so_gotos t1 = map so_gotos t2 -> map so_finish t1 = map so_finish t2 ->
    table_bytes c t1 = table_bytes c t2 /\ sr_conflicts t1 = sr_conflicts t2 /\
    rr_conflicts c t1 = rr_conflicts c t2.
Proof. exact bytes_function_of_table. Qed.
Print Assumptions C16_ser_function_of_table.

(* ---- necessity of the hypotheses ------------------------------------------- *)
(* two regex terminals of equal priority named "a" and "a " have the same sort key
   (the fqn is padded with spaces): the sorted row then depends on the insertion order.
   Not reachable from the grammar language (names are identifiers or the text of an
   inline string, whose length enters the key); the check evaluates keys_distinct on
   every table of the impl. *)
Theorem C16_sort_needs_distinct_keys :
  exists (c : dconf) (d d' : dict (list act)),
    NoDup (keys d) /\ Permutation d d' /\ keys_distinct c (keys d) = false /\
    sort_actions c d <> sort_actions c d'.
Proof. exact sort_needs_distinct_keys. Qed.
Print Assumptions C16_sort_needs_distinct_keys.

(* (witness data c_ex / tin_ex in Proofs/DetermProofs.v: S' -> S STOP; S -> A 'x' | A 'y';
   A -> 'q'; the state after 'q' holds the item A -> 'q' . with lookahead {x, y})
   without the final sort the row IS order dependent (this is what a table built with
   calc_finish_flags=False, or an unsorted dump, would expose) *)
Theorem C16_unsorted_rows_depend_on_order :
  exists (c : dconf) (shp : N -> N) (its its' : list ((N * nat) * list N)),
    Forall2 item_rel its its' /\
    reduce_phase c shp its [] <> reduce_phase c shp its' [] /\
    sort_actions c (reduce_phase c shp its []) = sort_actions c (reduce_phase c shp its' []).
Proof. exact unsorted_rows_depend_on_order. Qed.
Print Assumptions C16_unsorted_rows_depend_on_order.

(* non-vacuity: the hypotheses of C16_table_order_indep_partial hold for a concrete
   table, the two oracles (as listed / reversed) really present the sets differently,
   and the common result has rows with reductions in them *)
Example C16_nonvacuous :
  forallb (tin_okb c_ex) tin_ex = true /\
  perm_oracle (fun _ _ l => l) /\ perm_oracle (fun _ _ l => rev l) /\
  apply_oracle (fun _ _ l => l) tin_ex <> apply_oracle (fun _ _ l => rev l) tin_ex /\
  map so_actions (build_table c_ex (apply_oracle (fun _ _ l => rev l) tin_ex)) =
    [[(3, [AShift 2])]; [(0, [AAccept])]; [(2, [AReduce 3]); (1, [AReduce 3])];
     [(2, [AShift 5]); (1, [AShift 4])]; [(0, [AReduce 1])]; [(0, [AReduce 2])]].
Proof. exact nonvacuous. Qed.
Print Assumptions C16_nonvacuous.

(* ---- the whole construction as a function of the ORDERED grammar --------------------------
   Model/TableBuild.v models create_table including the automaton phase (closure, state
   numbering, LALR merge and propagation, FIRST/FOLLOW).  Its input [tconf] contains the
   grammar as ordered lists only (productions by prod_id, terminals and nonterminals by their
   position in the grammar's insertion-ordered dicts) and no hash seed, address or set
   iteration order; sets of terminals are lists in insertion order.  So the model's table --
   state numbering, item order, action order, finish flags -- is a function of the ordered
   grammar (this theorem; trivial in Gallina).  What it means for the impl: the
   correspondence table_build_correspondence (harness/lib/tabcorr.py) compares the impl's
   table with this function under several PYTHONHASHSEEDs, so any dependence of the impl on
   the iteration order of a set of symbols shows up as a correspondence failure. *)
From PV Require Import Model.Automaton Model.TableBuild.
Theorem C16_table_build_is_a_function :
  forall (c : tconf) (r1 r2 : bres tbuilt),
    create_table c = r1 -> create_table c = r2 -> r1 = r2.
Proof. intros c r1 r2 H1 H2. congruence. Qed.
Print Assumptions C16_table_build_is_a_function.
