(* C07 -- Token choice follows the documented lexical disambiguation order.
   Statements only.

   Vocabulary (Model/LexCell.v, Spec/LexOrder.v):
     cell               the terminals expected in one LR state, in the order of state.actions
     sorted_by_impl     that order is the one LRTable.sort_state_actions produces (sort_acts)
     impl_flags         the flags LRTable.calc_finish_flags computes for that order
     recognize          Parser._token_recognition (walk with finish flags and the
                        `prior < last_prior and tokens` exit), Model/Scan.v
     lexical_disambiguation / next_tokens   Parser._lexical_disambiguation / _next_tokens
     doc_choice         the documented order: priority, string over regex, longest, prefer
     rx                 oracle for the recognizers: any function terminal -> position -> length *)
From Coq Require Import NArith List Bool Sorting.Sorted.
From PV Require Import Spec.LexOrder Model.Table Model.Scan Model.StrTerm Model.LexCell
  Proofs.LexProofs Proofs.LexWitness.
Import ListNotations.
Local Open Scope N_scope.

(* The scanner's shortcuts are unobservable.  For every expected set (any number of terminals,
   any priorities, string / keyword / regex / custom recognizers, prefer marks; no explicit
   finish / nofinish marks), every recognizer behaviour and every position: what the parser
   gets from the sorted walk with implicit finish flags and early exit, followed by
   _lexical_disambiguation, is exactly the list of candidates the documented order leaves
   (none: no token; one: the token; several: DisambiguationError with exactly those).
   Forced hypotheses, each probed on the impl by the check:
     short_texts   string / keyword texts shorter than 1000 characters (C07_sortkey_refuted)
     no_str_tie    no two string / keyword terminals of one priority matching with the same
                   length at the position (C07_tie_refuted)
     str_len_ok    a string / keyword recognizer matches exactly its text (C19)
     rx_nonempty   recognizers never return an empty match (parser.py: `if tok:`)            *)
Theorem C07_scan_eq_doc :
  forall (terms : list term_info) (rx : N -> N -> option N) (pos : N)
         (acts : list (N * list action)) (cell : list cterm),
    map fst acts = map c_id cell -> terms_agree terms cell ->
    sorted_by_impl cell -> short_texts cell -> unmarked cell ->
    rx_nonempty rx pos cell -> str_len_ok rx pos cell -> no_str_tie rx pos cell ->
    lexical_disambiguation terms (recognize terms rx acts (impl_flags cell) pos None [])
    = doc_choice rx pos (map to_lterm cell).
Proof. exact scan_eq_doc. Qed.
Print Assumptions C07_scan_eq_doc.

(* The same at the level of Parser._next_tokens, with the STOP pseudo token: inside the input
   the LR parser's token list is the documented choice, and STOP (when it is expected and
   consume_input is off) is returned only if no expected terminal matches. *)
Theorem C07_next_tokens_doc :
  forall (terms : list term_info) (rx : N -> N -> option N) (pos in_len stop_id : N)
         (consume_input : bool) (st : state) (cell : list cterm),
    cell_of_state st cell -> st_finish st = impl_flags cell -> terms_agree terms cell ->
    sorted_by_impl cell -> short_texts cell -> unmarked cell ->
    rx_nonempty rx pos cell -> str_len_ok rx pos cell -> no_str_tie rx pos cell ->
    pos < in_len ->
    next_tokens terms rx in_len stop_id consume_input true st pos
    = doc_with_stop (has_key stop_id (st_actions st) && negb consume_input) stop_id
                    (doc_choice rx pos (map to_lterm cell)).
Proof. exact next_tokens_doc. Qed.
Print Assumptions C07_next_tokens_doc.

(* At the end of the input no recognizer is tried: the token list is STOP iff STOP is expected,
   whatever consume_input and lexical_disambiguation are. *)
Theorem C07_at_end :
  forall terms rx in_len stop_id consume_input st lexdis,
    next_tokens terms rx in_len stop_id consume_input lexdis st in_len
    = if has_key stop_id (st_actions st) then [(stop_id, 0)] else [].
Proof. exact next_tokens_at_end. Qed.
Print Assumptions C07_at_end.

(* sort_state_actions really produces the order the scanner relies on, as long as texts are
   shorter than 1000: priorities descend; inside one priority longer string / keyword texts
   come first and regex / custom recognizers (key length 0) last. *)
Theorem C07_sort_order :
  forall cell, sorted_by_impl cell -> short_texts cell ->
    StronglySorted (fun a b => c_prior b < c_prior a \/
                               (c_prior a = c_prior b /\ c_klen b <= c_klen a)) cell.
Proof. exact sorted_by_impl_key_sorted. Qed.
Print Assumptions C07_sort_order.

(* Without the length hypothesis the statement fails: a 1001-character string terminal of
   priority 10 is sorted before a regex of priority 11 (1000*10+500+1001 > 1000*11+500); both
   match; the scanner returns the priority-10 terminal, the documented order the priority-11
   one.  All other hypotheses of C07_scan_eq_doc hold.  Replayed on the impl: KF-C07-sortkey. *)
Theorem C07_sortkey_refuted :
  exists terms rx pos acts cell,
    all_hyps_but_length terms rx pos acts cell /\
    lexical_disambiguation terms (recognize terms rx acts (impl_flags cell) pos None []) = [(0, 1001)] /\
    doc_choice rx pos (map to_lterm cell) = [(1, 1001)].
Proof. exact (ex_intro _ _ (ex_intro _ _ (ex_intro _ _ (ex_intro _ _ (ex_intro _ _ sortkey_witness))))). Qed.
Print Assumptions C07_sortkey_refuted.

(* Without no_str_tie it fails too: 'ab' and 'AB' under ignore_case both match "ab" with
   length 2; the scanner stops at the first in sort order (the name that sorts last), the
   documented order has no rule left and demands DisambiguationError with both.
   Replayed on the impl: KF-C07-string-tie. *)
Theorem C07_tie_refuted :
  exists terms rx pos acts cell,
    all_hyps_but_tie terms rx pos acts cell /\
    lexical_disambiguation terms (recognize terms rx acts (impl_flags cell) pos None []) = [(1, 2)] /\
    doc_choice rx pos (map to_lterm cell) = [(1, 2); (0, 2)].
Proof. exact (ex_intro _ _ (ex_intro _ _ (ex_intro _ _ (ex_intro _ _ (ex_intro _ _ tie_witness))))). Qed.
Print Assumptions C07_tie_refuted.

(* Lexical disambiguation off (the GLR default: all finish flags False, no
   _lexical_disambiguation): the lookahead tokens are STOP, if applicable, followed by every
   matching expected terminal of the highest matching priority, in the order of the cell.
   Needs only that priorities descend along the cell; holds with any marks. *)
Theorem C07_lexdis_off :
  forall (terms : list term_info) (rx : N -> N -> option N) (pos in_len stop_id : N)
         (consume_input : bool) (st : state) (cell : list cterm),
    cell_of_state st cell -> terms_agree terms cell -> prior_sorted cell ->
    Forall (fun f => f = false) (st_finish st) -> pos < in_len ->
    next_tokens terms rx in_len stop_id consume_input false st pos
    = (if has_key stop_id (st_actions st) && negb consume_input then [(stop_id, 0)] else [])
      ++ doc_all rx pos (map to_lterm cell).
Proof. exact next_tokens_lexdis_off. Qed.
Print Assumptions C07_lexdis_off.

(* Explicit marks.  With arbitrary finish flags (hence arbitrary finish / nofinish marks) on a
   cell whose priorities descend, the walk with its last_prior bookkeeping is exactly: try the
   candidates in order, stay inside the priority of the first match, stop after the first
   match whose flag is set (Spec.LexOrder.marks_scan) ... *)
Theorem C07_marks :
  forall (terms : list term_info) (rx : N -> N -> option N) (pos : N)
         (acts : list (N * list action)) (cell : list cterm) (flags : list bool),
    map fst acts = map c_id cell -> terms_agree terms cell -> prior_sorted cell ->
    recognize terms rx acts flags pos None [] = marks_scan rx pos (map to_lterm cell) flags.
Proof. exact recognize_marks. Qed.
Print Assumptions C07_marks.

(* ... and the flag of a marked terminal is its mark, wherever it stands in the cell. *)
Theorem C07_mark_is_flag :
  forall (l : list aterm) (i : nat) (t : aterm) (m : bool),
    nth_error l i = Some t -> at_finish t = Some m -> nth_error (finish_flags l) i = Some m.
Proof. exact mark_is_flag. Qed.
Print Assumptions C07_mark_is_flag.

(* finish, in user terms: once a terminal whose finish flag is set matches, no terminal ranked
   after it in the state's action order is ever returned (any flags, any marks). *)
Theorem C07_finish_cuts :
  forall (terms : list term_info) (rx : N -> N -> option N) (pos : N)
         (acts : list (N * list action)) (pre : list cterm) (c : cterm) (post : list cterm)
         (n : N) (flags : list bool) (t : N * N),
    map fst acts = map c_id (pre ++ c :: post) -> terms_agree terms (pre ++ c :: post) ->
    prior_sorted (pre ++ c :: post) ->
    nth_error flags (length pre) = Some true -> rx (c_id c) pos = Some n ->
    In t (recognize terms rx acts flags pos None []) ->
    exists d, In d (pre ++ [c]) /\ fst t = c_id d.
Proof. exact finish_cuts. Qed.
Print Assumptions C07_finish_cuts.

(* nofinish, in user terms (the use documented by test_nofinish): when the string / keyword
   terminals of the expected set are marked nofinish and the others are unmarked, the outcome
   is the documented order with the "string over regex" rule switched off: highest priority,
   longest match, prefer.  No hypothesis on text lengths, ties or recognizers is needed beyond
   priorities descending along the cell. *)
Theorem C07_nofinish :
  forall (terms : list term_info) (rx : N -> N -> option N) (pos : N)
         (acts : list (N * list action)) (cell : list cterm),
    map fst acts = map c_id cell -> terms_agree terms cell -> prior_sorted cell ->
    strings_nofinish cell ->
    lexical_disambiguation terms (recognize terms rx acts (impl_flags cell) pos None [])
    = map tok (keep_prefer (keep_longest (keep_prior (matches rx pos (map to_lterm cell))))).
Proof. exact nofinish_doc. Qed.
Print Assumptions C07_nofinish.

(* non-vacuity: state expecting 'if', an identifier regex, a number regex {prefer} and STOP,
   input "if1" at position 0, consume_input off: every hypothesis of C07_next_tokens_doc holds
   and the token is 'if' (string over the longer regex match). *)
Example C07_nonvacuous :
  cell_of_state v_state v_cell /\ st_finish v_state = impl_flags v_cell /\
  terms_agree v_terms v_cell /\ sorted_by_impl v_cell /\ short_texts v_cell /\ unmarked v_cell /\
  rx_nonempty v_rx 0 v_cell /\ str_len_ok v_rx 0 v_cell /\ no_str_tie v_rx 0 v_cell /\
  next_tokens v_terms v_rx 3 3 false true v_state 0 = [(0, 2)] /\
  doc_choice v_rx 0 (map to_lterm v_cell) = [(0, 2)].
Proof. exact nonvacuous_witness. Qed.
