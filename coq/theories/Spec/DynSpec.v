(* Vocabulary of the C18 statements: what a recorded filter call may look like,
   and when a tree is "approved" by a call trace. *)
From Coq Require Import NArith List Bool.
From PV Require Import Spec.Cfg Model.Table Model.LRDriver Model.DynFilter.
Import ListNotations.
Local Open Scope N_scope.

Section DynSpec.
  Variable g : grammar.
  Variable tb : table.
  Variable stop_id : N.
  Variable dyn_term : N -> bool.
  Variable dyn_prod : N -> bool.

  (* action [a] is in the table cell the driver is looking at: the cell of the
     token ahead, or the STOP cell (consume_input=False fallback) *)
  Definition offered (from : nat) (ah : option (N * N)) (a : action) : Prop :=
    (exists y len, ah = Some (y, len) /\ In a (cell tb from y)) \/ In a (cell tb from stop_id).

  (* a call other than the initial one concerns a marked action of the current cell *)
  Definition marked_call (c : fcall) : Prop :=
    match c with
    | FInit => False
    | FShift from to ah _ => shift_marked tb dyn_term to = true /\ offered from ah (Shift to)
    | FReduce from p _ ah _ => dyn_prod p = true /\ offered from ah (Reduce p)
    end.

  (* every leaf of a dynamic terminal and every node of a dynamic production of [t]
     was put to the filter -- the node with exactly its children as sub-results --
     and accepted *)
  Fixpoint approved (trc : list (fcall * bool)) (t : tree) : Prop :=
    match t with
    | TLeaf y s e =>
        dyn_term y = true ->
        exists from to len, In (FShift from to (Some (y, len)) s, true) trc /\ e = s + len
    | TNode p _ _ cs =>
        (dyn_prod p = true -> exists from ah pos, In (FReduce from p cs ah pos, true) trc)
        /\ All (approved trc) cs
    end.

  (* the calls the driver owes the filter for the actions of one cell, in order *)
  Definition calls_due (stk : list entry) (scan : tokres) (acts : list action) : list fcall :=
    flat_map (fun a => match call_of g tb dyn_term dyn_prod stk scan a with
                       | Some c => [c]
                       | None => []
                       end) acts.
End DynSpec.

(* productions used in a tree *)
Fixpoint prods_of (t : tree) : list N :=
  match t with
  | TLeaf _ _ _ => []
  | TNode p _ _ cs => p :: flat_map prods_of cs
  end.
