(* What the theorems about the GLR driver model say about a result: [valid_parse] is the
   verified single-tree checker [tsum] (Validators/ForestSound.v, theorem tsum_sound) with the
   root conditions, instantiated with the scanner data of a parser configuration: the tree
   is a derivation from the start symbol whose leaves are a tokenisation of the input (each
   matched by its recognizer, consecutive ones separated by layout only; with consume_input
   only layout after the last). *)
From Coq Require Import NArith List Bool.
From PV Require Import Spec.Cfg Model.Forest Model.Table Model.Scan Model.Parser
  Validators.ForestSound.
Import ListNotations.
Local Open Scope N_scope.

Definition tokok_of (inp : pinput) (y b e : N) : bool :=
  match rx_of inp y b with
  | Some l => b + l =? e
  | None => false
  end.

Definition valid_parse (c : pconf) (inp : pinput) (start pos0 : N) (t : tree) : bool :=
  match tsum (pc_g c) (tokok_of inp) (skip_ws (pc_ws c) inp) false t with
  | Some sm => root_ok (skip_ws (pc_ws c) inp) start pos0 (in_len inp) (pc_consume c) sm
  | None => false
  end.
