(* What the theorems about the GLR driver model say about a result: [valid_parse] is the
   verified single-tree checker [tsum] (Validators/ForestSound.v, theorem tsum_sound) with the
   root conditions, instantiated with the scanner data of a parser configuration: the tree
   is a derivation from the start symbol whose leaves are a tokenisation of the input (each
   matched by its recognizer, consecutive ones separated by layout only; with consume_input
   only layout after the last). *)
From Coq Require Import NArith List Bool.
From PV Require Import Spec.Cfg Model.Forest Model.Table Model.Scan Model.Parser
  Validators.ForestSound.
Import ListNotations.
Local Open Scope N_scope.

Definition tokok_of (inp : pinput) (y b e : N) : bool :=
  match rx_of inp y b with
  | Some l => b + l =? e
  | None => false
  end.

Definition valid_parse (c : pconf) (inp : pinput) (start pos0 : N) (t : tree) : bool :=
  match tsum (pc_g c) (tokok_of inp) (skip_ws (pc_ws c) inp) false t with
  | Some sm => root_ok (skip_ws (pc_ws c) inp) start pos0 (in_len inp) (pc_consume c) sm
  | None => false
  end.

(* ---- boolean conditions of the tokenisation theorem (Proofs/GLRTokFull.v), evaluated by the
   harness on every correspondence case (command 212) --------------------------------------- *)

(* the recognizer matrix has no match for STOP *)
Definition stop_row_zero (inp : pinput) (stop : N) : bool :=
  match nth_error (pi_rx inp) (N.to_nat stop) with
  | None => true
  | Some row => forallb (N.eqb 0) row
  end.

(* STOP is never shifted *)
Definition no_stop_shift (tb : table) (stop : N) : bool :=
  forallb (fun st => match assoc stop (st_actions st) with
                     | Some l => negb (existsb is_shift l)
                     | None => true
                     end) tb.

Definition is_accept (a : action) : bool := match a with Accept => true | _ => false end.

(* ACCEPT occurs only in the STOP column *)
Definition accept_only_stop (tb : table) (stop : N) : bool :=
  forallb (fun st => forallb (fun ya => (fst ya =? stop) || negb (existsb is_accept (snd ya)))
                             (st_actions st)) tb.

(* no two terminals match with different lengths at one position *)
Definition rows_uniform (r1 r2 : list N) : bool :=
  forallb (fun ab => (fst ab =? 0) || (snd ab =? 0) || (fst ab =? snd ab)) (combine r1 r2).
Definition rx_uniform (inp : pinput) : bool :=
  forallb (fun r1 => forallb (rows_uniform r1) (pi_rx inp)) (pi_rx inp).

(* for any consume_input *)
Definition glr_tok_checks0 (c : pconf) (inp : pinput) : bool :=
  (match pc_layout c with None => true | Some _ => false end) &&
  stop_row_zero inp (pc_stop c) && no_stop_shift (pc_tb c) (pc_stop c) &&
  accept_only_stop (pc_tb c) (pc_stop c) && rx_uniform inp.

(* with consume_input on *)
Definition glr_tok_checks (c : pconf) (inp : pinput) : bool :=
  pc_consume c && glr_tok_checks0 c inp.
