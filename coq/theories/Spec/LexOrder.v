(* The documented lexical disambiguation order (docs/disambiguation.md, "Lexical
   ambiguities"), written without any reference to how the scanner is implemented.

     among the terminals expected in the state whose recognizers match at the position
       1. keep those of the highest priority;
       2. if a string (or keyword) recognizer is among them, drop the others;
       3. keep the longest matches;
       4. if several remain, keep those marked `prefer`, if any;
     none left -> no token; one -> that token; several -> DisambiguationError (those).

   Recognizers are an oracle [rx terminal position = Some length]. *)
From Coq Require Import NArith List Bool.
Import ListNotations.
Local Open Scope N_scope.

Record lterm : Type := mkL {
  l_id : N;           (* terminal *)
  l_prior : N;        (* priority *)
  l_str : bool;       (* string or keyword recognizer (as opposed to regex / custom) *)
  l_prefer : bool     (* marked prefer *)
}.

Definition cand : Type := (lterm * N)%type.      (* a terminal and its match length *)

Section Doc.
  Variable rx : N -> N -> option N.
  Variable pos : N.

  (* the expected terminals that match here, in the given order *)
  Fixpoint matches (cell : list lterm) : list cand :=
    match cell with
    | [] => []
    | t :: r => match rx (l_id t) pos with
                | Some n => (t, n) :: matches r
                | None => matches r
                end
    end.

  Definition max_prior (m : list cand) : N := fold_right (fun x a => N.max (l_prior (fst x)) a) 0 m.
  Definition max_mlen (m : list cand) : N := fold_right (fun x a => N.max (snd x) a) 0 m.

  Definition keep_prior (m : list cand) : list cand :=
    filter (fun x => l_prior (fst x) =? max_prior m) m.
  Definition keep_specific (m : list cand) : list cand :=
    if existsb (fun x => l_str (fst x)) m then filter (fun x => l_str (fst x)) m else m.
  Definition keep_longest (m : list cand) : list cand :=
    filter (fun x => snd x =? max_mlen m) m.
  Definition keep_prefer (m : list cand) : list cand :=
    match m with
    | [] | [_] => m
    | _ => match filter (fun x => l_prefer (fst x)) m with [] => m | p => p end
    end.

  Definition tok (x : cand) : N * N := (l_id (fst x), snd x).

  (* the candidates that survive the documented rules, as (terminal, length) *)
  Definition doc_choice (cell : list lterm) : list (N * N) :=
    map tok (keep_prefer (keep_longest (keep_specific (keep_prior (matches cell))))).

  (* lexical disambiguation off (GLR default): every matching expected terminal of the
     highest matching priority *)
  Definition doc_all (cell : list lterm) : list (N * N) := map tok (keep_prior (matches cell)).

  (* what explicit marks mean (Terminal.finish docstring: "if this terminal is `finish` no
     other recognizers will be checked if this succeeds"): candidates are tried in the
     order of the cell; those of a priority below the first match's are not considered;
     the scan stops at the first match whose finish flag is set *)
  Fixpoint group_scan (P : N) (cell : list lterm) (flags : list bool) : list (N * N) :=
    match cell with
    | [] => []
    | t :: r =>
        if l_prior t =? P then
          match rx (l_id t) pos with
          | Some n => if hd false flags then [(l_id t, n)]
                      else (l_id t, n) :: group_scan P r (tl flags)
          | None => group_scan P r (tl flags)
          end
        else []
    end.
  Fixpoint marks_scan (cell : list lterm) (flags : list bool) : list (N * N) :=
    match cell with
    | [] => []
    | t :: r =>
        match rx (l_id t) pos with
        | Some n => if hd false flags then [(l_id t, n)]
                    else (l_id t, n) :: group_scan (l_prior t) r (tl flags)
        | None => marks_scan r (tl flags)
        end
    end.
End Doc.

(* The outcome seen by the LR parser *)
Inductive lexres : Type :=
| LNone                                   (* no token: SyntaxError unless STOP applies *)
| LTok (t len : N)
| LAmbiguous (toks : list (N * N)).       (* DisambiguationError.tokens *)

Definition lexres_of (l : list (N * N)) : lexres :=
  match l with
  | [] => LNone
  | [(t, n)] => LTok t n
  | _ => LAmbiguous l
  end.

(* End of input: the pseudo token STOP (length 0) is available when STOP is expected in the
   state and (consume_input is off or the position is the end of the input); a real token
   always wins over it (it is longer). *)
Definition doc_with_stop (stop_ok : bool) (stop_id : N) (real : list (N * N)) : list (N * N) :=
  match real with
  | [] => if stop_ok then [(stop_id, 0)] else []
  | _ => real
  end.
