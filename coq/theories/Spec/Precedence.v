(* Operator-precedence expressions: tokens, trees, the precedence-climbing
   parser (the specification of C06) and the abstract shift-reduce machine OPM
   whose only decision is a function [dec] of the operator on the stack and the
   operator ahead.  Definitions only. *)
From Coq Require Import NArith List Bool.
Import ListNotations.
Local Open Scope N_scope.

Inductive tok : Type :=
| TNum                 (* an operand *)
| TOp (o : N)          (* binary operator number o *)
| TLp
| TRp.

Inductive ex : Type :=
| Num
| Bin (o : N) (l r : ex)
| Par (e : ex).

Fixpoint flatten (e : ex) : list tok :=
  match e with
  | Num => [TNum]
  | Bin o l r => flatten l ++ TOp o :: flatten r
  | Par e => TLp :: flatten e ++ [TRp]
  end.

(* ---- precedence climbing ------------------------------------------------- *)
Section Climb.
  Variable pr : N -> N.          (* priority of an operator: higher binds tighter *)
  Variable left : N -> bool.     (* true: left associative, false: right associative *)

  (* the smallest priority an operator to the right of [o] must have to be
     taken into o's right operand *)
  Definition thr (o : N) : N := if left o then pr o + 1 else pr o.

  (* [climb_expr f m ws]: parse an operand, then as many (operator, right
     operand) pairs of priority >= m as there are.  Returns the tree and the
     unconsumed suffix; None on a malformed expression or when out of fuel. *)
  Fixpoint climb_expr (fuel : nat) (m : N) (ws : list tok) {struct fuel}
    : option (ex * list tok) :=
    match fuel with
    | O => None
    | S f =>
        match climb_atom f ws with
        | None => None
        | Some (l, rest) => climb_loop f m l rest
        end
    end
  with climb_loop (fuel : nat) (m : N) (l : ex) (ws : list tok) {struct fuel}
    : option (ex * list tok) :=
    match fuel with
    | O => None
    | S f =>
        match ws with
        | TOp o :: rest =>
            if m <=? pr o then
              match climb_expr f (thr o) rest with
              | None => None
              | Some (r, rest') => climb_loop f m (Bin o l r) rest'
              end
            else Some (l, ws)
        | _ => Some (l, ws)
        end
    end
  with climb_atom (fuel : nat) (ws : list tok) {struct fuel} : option (ex * list tok) :=
    match fuel with
    | O => None
    | S f =>
        match ws with
        | TNum :: rest => Some (Num, rest)
        | TLp :: rest =>
            match climb_expr f 0 rest with
            | Some (e, TRp :: rest') => Some (Par e, rest')
            | _ => None
            end
        | _ => None
        end
    end.

  Definition climb (fuel : nat) (ws : list tok) : option ex :=
    match climb_expr fuel 0 ws with
    | Some (e, []) => Some e
    | _ => None
    end.

  (* the declarative reading of "conventional": no operand of an operator is an
     unparenthesised application that should have bound looser *)
  Definition root_op (e : ex) : option N := match e with Bin o _ _ => Some o | _ => None end.
  Fixpoint prec_ok (e : ex) : bool :=
    match e with
    | Num => true
    | Par e => prec_ok e
    | Bin o l r =>
        prec_ok l && prec_ok r
        && match root_op l with
           | Some ol => (pr o <? pr ol) || ((pr o =? pr ol) && left ol)
           | None => true
           end
        && match root_op r with
           | Some or_ => thr o <=? pr or_
           | None => true
           end
    end.
End Climb.

(* ---- the operator-precedence machine ------------------------------------- *)
Inductive decision : Type := DShift | DReduce | DConflict.

(* what is ahead when the machine holds a complete operand *)
Inductive ahead : Type := AOp (o : N) | ARp | AEnd.

Inductive frame : Type :=
| FOp (l : ex) (o : N)     (* "l o" waiting for its right operand *)
| FLp.                     (* an open parenthesis *)

Section OPM.
  Variable dec : N -> N -> decision.   (* operator on the stack, operator ahead *)

  Definition reduces (o1 : N) (a : ahead) : option bool :=
    match a with
    | AOp o2 => match dec o1 o2 with
                | DReduce => Some true
                | DShift => Some false
                | DConflict => None
                end
    | _ => Some true                     (* only the reduction is in the cell *)
    end.

  (* all reductions the lookahead calls for; None: an unresolved conflict *)
  Fixpoint red (a : ahead) (e : ex) (stk : list frame) : option (ex * list frame) :=
    match stk with
    | FOp l o1 :: rest =>
        match reduces o1 a with
        | Some true => red a (Bin o1 l e) rest
        | Some false => Some (e, stk)
        | None => None
        end
    | _ => Some (e, stk)
    end.

  (* [opm_need]: an operand is expected; [opm_have e]: operand [e] is complete *)
  Fixpoint opm_need (ws : list tok) (stk : list frame) {struct ws} : option ex :=
    match ws with
    | TNum :: r => opm_have r Num stk
    | TLp :: r => opm_need r (FLp :: stk)
    | _ => None
    end
  with opm_have (ws : list tok) (e : ex) (stk : list frame) {struct ws} : option ex :=
    match ws with
    | [] => match red AEnd e stk with
            | Some (e', []) => Some e'
            | _ => None
            end
    | TOp o :: r => match red (AOp o) e stk with
                    | Some (e', stk') => opm_need r (FOp e' o :: stk')
                    | None => None
                    end
    | TRp :: r => match red ARp e stk with
                  | Some (e', FLp :: stk') => opm_have r (Par e') stk'
                  | _ => None
                  end
    | _ => None
    end.

  Definition opm (ws : list tok) : option ex := opm_need ws [].
End OPM.
