(* The nondeterministic LR machine N(T) of a table T: configurations are stacks
   of (state, tree); a move is any action found in the cell of a possible
   lookahead.  The LR driver is N(T) restricted to one action per step; a GLR
   driver explores several runs of N(T). *)
From Coq Require Import NArith List Bool.
From PV Require Import Spec.Cfg Model.Table.
Import ListNotations.
Local Open Scope N_scope.

Section NLR.
  Variable g : grammar.
  Variable tb : table.
  (* [look pos y s e]: with the head at position [pos] the token (y, [s,e)) may be
     the lookahead (layout skipped, recognizer matched, or the STOP pseudo token) *)
  Variable look : N -> N -> N -> N -> Prop.

  Definition stack := list (nat * tree).    (* top first; the bottom entry is state 0 *)

  Record config : Type := mkCfg {
    c_stack : stack;
    c_pos : N;
    c_trace : list (N * N * N)               (* tokens shifted so far, in order *)
  }.

  Definition top_state (st : stack) : nat := match st with (s, _) :: _ => s | [] => O end.

  Inductive nstep : config -> config -> Prop :=
  | ns_shift st pos tr y s e s' :
      look pos y s e -> In (Shift s') (cell tb (top_state st) y) ->
      nstep (mkCfg st pos tr) (mkCfg ((s', TLeaf y s e) :: st) e (tr ++ [(y, s, e)]))
  | ns_reduce st pos tr y s e p pr popped rest s' ns ne :
      look pos y s e -> In (Reduce p) (cell tb (top_state st) y) ->
      get_prod g p = Some pr ->
      st = popped ++ rest -> length popped = length (rhs pr) ->
      goto tb (top_state rest) (lhs pr) = Some s' ->
      nstep (mkCfg st pos tr)
            (mkCfg ((s', TNode p ns ne (rev (map snd popped))) :: rest) pos tr).

  Inductive nsteps : config -> config -> Prop :=
  | nss_refl c : nsteps c c
  | nss_step c1 c2 c3 : nsteps c1 c2 -> nstep c2 c3 -> nsteps c1 c3.

  (* acceptance: ACCEPT in the cell of a possible lookahead; the result is the
     entry just above the bottom of the stack (parse_stack[1].results) *)
  Definition naccepts (c : config) (t : tree) : Prop :=
    exists y s e, look (c_pos c) y s e /\ In Accept (cell tb (top_state (c_stack c)) y) /\
                  exists s1, nth_error (rev (c_stack c)) 1 = Some (s1, t).

  Definition init_cfg (pos : N) (d : tree) : config := mkCfg [(O, d)] pos [].
End NLR.

(* The same machine over an explicit token list (the classical LR configuration
   stack + remaining input); the lookahead is the next token or STOP at the end. *)
Section LRun.
  Variable g : grammar.
  Variable tb : table.
  Variable stop_id : N.

  Definition tok : Type := (N * N * N)%type.
  Definition la (inp : list tok) : N :=
    match inp with [] => stop_id | (y, _, _) :: _ => y end.

  Inductive lstep : stack * list tok -> stack * list tok -> Prop :=
  | ls_shift st y s e rest s' :
      In (Shift s') (cell tb (top_state st) y) ->
      lstep (st, (y, s, e) :: rest) ((s', TLeaf y s e) :: st, rest)
  | ls_reduce st inp p pr popped rest s' ns ne :
      In (Reduce p) (cell tb (top_state st) (la inp)) ->
      get_prod g p = Some pr ->
      st = popped ++ rest -> length popped = length (rhs pr) -> rest <> [] ->
      goto tb (top_state rest) (lhs pr) = Some s' ->
      lstep (st, inp) ((s', TNode p ns ne (rev (map snd popped))) :: rest, inp).

  Inductive lsteps : stack * list tok -> stack * list tok -> Prop :=
  | lss_refl c : lsteps c c
  | lss_step c1 c2 c3 : lstep c1 c2 -> lsteps c2 c3 -> lsteps c1 c3.

  Lemma lsteps_trans c1 c2 c3 : lsteps c1 c2 -> lsteps c2 c3 -> lsteps c1 c3.
  Proof. induction 1; [auto|]. intros H3. econstructor; [eassumption|auto]. Qed.

  Definition laccepts (st : stack) (t : tree) : Prop :=
    In Accept (cell tb (top_state st) stop_id) /\
    exists s1, nth_error (rev st) 1 = Some (s1, t).
End LRun.
