(* The nondeterministic LR machine N(T) of a table T: configurations are stacks
   of (state, tree); a move is any action found in the cell of a possible
   lookahead.  The LR driver is N(T) restricted to one action per step; a GLR
   driver explores several runs of N(T). *)
From Coq Require Import NArith List Bool.
From PV Require Import Spec.Cfg Model.Table.
Import ListNotations.
Local Open Scope N_scope.

Section NLR.
  Variable g : grammar.
  Variable tb : table.
  (* [look pos y s e]: with the head at position [pos] the token (y, [s,e)) may be
     the lookahead (layout skipped, recognizer matched, or the STOP pseudo token) *)
  Variable look : N -> N -> N -> N -> Prop.

  Definition stack := list (nat * tree).    (* top first; the bottom entry is state 0 *)

  Record config : Type := mkCfg {
    c_stack : stack;
    c_pos : N;
    c_trace : list (N * N * N)               (* tokens shifted so far, in order *)
  }.

  Definition top_state (st : stack) : nat := match st with (s, _) :: _ => s | [] => O end.

  Inductive nstep : config -> config -> Prop :=
  | ns_shift st pos tr y s e s' :
      look pos y s e -> In (Shift s') (cell tb (top_state st) y) ->
      nstep (mkCfg st pos tr) (mkCfg ((s', TLeaf y s e) :: st) e (tr ++ [(y, s, e)]))
  | ns_reduce st pos tr y s e p pr popped rest s' ns ne :
      look pos y s e -> In (Reduce p) (cell tb (top_state st) y) ->
      get_prod g p = Some pr ->
      st = popped ++ rest -> length popped = length (rhs pr) ->
      goto tb (top_state rest) (lhs pr) = Some s' ->
      nstep (mkCfg st pos tr)
            (mkCfg ((s', TNode p ns ne (rev (map snd popped))) :: rest) pos tr).

  Inductive nsteps : config -> config -> Prop :=
  | nss_refl c : nsteps c c
  | nss_step c1 c2 c3 : nsteps c1 c2 -> nstep c2 c3 -> nsteps c1 c3.

  (* acceptance: ACCEPT in the cell of a possible lookahead; the result is the
     entry just above the bottom of the stack (parse_stack[1].results) *)
  Definition naccepts (c : config) (t : tree) : Prop :=
    exists y s e, look (c_pos c) y s e /\ In Accept (cell tb (top_state (c_stack c)) y) /\
                  exists s1, nth_error (rev (c_stack c)) 1 = Some (s1, t).

  Definition init_cfg (pos : N) (d : tree) : config := mkCfg [(O, d)] pos [].
End NLR.
