(* Context-free grammars, derivation trees with positions, and the verified
   tree checker used to certify reference derivations. *)
From Coq Require Import NArith List Bool Lia.
Import ListNotations.
Local Open Scope N_scope.

Inductive sym : Type := T (t : N) | NT (a : N).

Definition sym_eqb (x y : sym) : bool :=
  match x, y with
  | T a, T b => a =? b
  | NT a, NT b => a =? b
  | _, _ => false
  end.

Lemma sym_eqb_eq x y : sym_eqb x y = true <-> x = y.
Proof.
  destruct x, y; cbn; try (split; [discriminate|congruence]);
    rewrite N.eqb_eq; split; congruence.
Qed.

Record prod : Type := mkProd { lhs : N; rhs : list sym }.

(* productions indexed by prod_id; production 0 is the augmented S' -> start *)
Definition grammar := list prod.

Inductive tree : Type :=
| TLeaf (y s e : N)                       (* terminal y matched at [s, e) *)
| TNode (p s e : N) (cs : list tree).     (* production p applied, span [s, e) *)

Definition t_start (t : tree) : N := match t with TLeaf _ s _ => s | TNode _ s _ _ => s end.
Definition t_end (t : tree) : N := match t with TLeaf _ _ e => e | TNode _ _ e _ => e end.

Definition get_prod (g : grammar) (p : N) : option prod := nth_error g (N.to_nat p).

Definition root_sym (g : grammar) (t : tree) : option sym :=
  match t with
  | TLeaf y _ _ => Some (T y)
  | TNode p _ _ _ => option_map (fun pr => NT (lhs pr)) (get_prod g p)
  end.

Section AllDef.
  Context {X : Type} (P : X -> Prop).
  Fixpoint All (l : list X) : Prop :=
    match l with [] => True | x :: r => P x /\ All r end.
End AllDef.

Lemma All_In {X} (P : X -> Prop) l : All P l <-> forall x, In x l -> P x.
Proof.
  induction l as [|a r IH]; cbn; [tauto|]. rewrite IH. split.
  - intros [Ha Hr] x [->|Hx]; auto.
  - intros H. split; [apply H; left; reflexivity|intros x Hx; apply H; right; exact Hx].
Qed.

Lemma All_app {X} (P : X -> Prop) l1 l2 : All P (l1 ++ l2) <-> All P l1 /\ All P l2.
Proof. induction l1 as [|a r IH]; cbn; [tauto|]. rewrite IH. tauto. Qed.

(* t is a derivation tree of g: every interior node applies one production of
   the grammar to the roots of its children, in order *)
Fixpoint wf_tree (g : grammar) (t : tree) : Prop :=
  match t with
  | TLeaf _ _ _ => True
  | TNode p _ _ cs =>
      (exists pr, get_prod g p = Some pr /\ map (root_sym g) cs = map Some (rhs pr))
      /\ All (wf_tree g) cs
  end.

Fixpoint leaves (t : tree) : list (N * N * N) :=
  match t with
  | TLeaf y s e => [(y, s, e)]
  | TNode _ _ _ cs => flat_map leaves cs
  end.

(* strong induction principle for trees *)
Lemma tree_ind2 (P : tree -> Prop) :
  (forall y s e, P (TLeaf y s e)) ->
  (forall p s e cs, All P cs -> P (TNode p s e cs)) ->
  forall t, P t.
Proof.
  intros HL HN. fix IH 1. intros [y s e|p s e cs]; [apply HL|apply HN].
  induction cs as [|c r IHr]; cbn; [exact I|]. split; [apply IH|exact IHr].
Qed.

(* ---- the checker -------------------------------------------------------- *)

Definition osym_eqb (a b : option sym) : bool :=
  match a, b with
  | Some x, Some y => sym_eqb x y
  | None, None => true
  | _, _ => false
  end.

Fixpoint list_eqb {X} (eqb : X -> X -> bool) (l1 l2 : list X) : bool :=
  match l1, l2 with
  | [], [] => true
  | a :: r1, b :: r2 => eqb a b && list_eqb eqb r1 r2
  | _, _ => false
  end.

Lemma list_eqb_eq {X} (eqb : X -> X -> bool) :
  (forall a b, eqb a b = true <-> a = b) ->
  forall l1 l2, list_eqb eqb l1 l2 = true <-> l1 = l2.
Proof.
  intros H. induction l1 as [|a r IH]; intros [|b r2]; cbn;
    try (split; [discriminate|congruence]); [tauto|].
  rewrite andb_true_iff, H, IH. split; [intros [-> ->]; reflexivity|intros E; inversion E; auto].
Qed.

Lemma osym_eqb_eq a b : osym_eqb a b = true <-> a = b.
Proof.
  destruct a, b; cbn; try (split; [discriminate|congruence]); [|tauto].
  rewrite sym_eqb_eq. split; congruence.
Qed.

Fixpoint tree_ok (g : grammar) (t : tree) : bool :=
  match t with
  | TLeaf _ _ _ => true
  | TNode p _ _ cs =>
      match get_prod g p with
      | None => false
      | Some pr =>
          list_eqb osym_eqb (map (root_sym g) cs) (map Some (rhs pr))
          && forallb (tree_ok g) cs
      end
  end.

Theorem tree_ok_iff g t : tree_ok g t = true <-> wf_tree g t.
Proof.
  induction t as [y s e|p s e cs IH] using tree_ind2; cbn [tree_ok wf_tree]; [tauto|].
  assert (Hall : forallb (tree_ok g) cs = true <-> All (wf_tree g) cs).
  { induction cs as [|c r IHr]; cbn; [tauto|]. destruct IH as [Hc Hr].
    rewrite andb_true_iff, Hc, (IHr Hr). tauto. }
  destruct (get_prod g p) as [pr|].
  - rewrite andb_true_iff, (list_eqb_eq osym_eqb osym_eqb_eq), Hall. split.
    + intros [H1 H2]. split; [exists pr; auto|exact H2].
    + intros [(pr' & E & H1) H2]. inversion E; subst. auto.
  - split; [discriminate|]. intros [(pr' & E & _) _]. discriminate.
Qed.

(* ---- shapes: trees up to the spans of interior nodes ---------------------- *)

Fixpoint shape (t : tree) : tree :=
  match t with
  | TLeaf y s e => TLeaf y s e
  | TNode p _ _ cs => TNode p 0 0 (map shape cs)
  end.

Fixpoint tree_eqb (a b : tree) {struct a} : bool :=
  match a, b with
  | TLeaf y s e, TLeaf y' s' e' => (y =? y') && (s =? s') && (e =? e')
  | TNode p s e cs, TNode p' s' e' cs' =>
      (p =? p') && (s =? s') && (e =? e') &&
      (fix go (l l' : list tree) {struct l} : bool :=
         match l, l' with
         | [], [] => true
         | x :: r, x' :: r' => tree_eqb x x' && go r r'
         | _, _ => false
         end) cs cs'
  | _, _ => false
  end.

Lemma tree_eqb_eq a : forall b, tree_eqb a b = true <-> a = b.
Proof.
  induction a as [y s e|p s e cs IH] using tree_ind2; intros [y' s' e'|p' s' e' cs']; cbn [tree_eqb];
    try (split; [discriminate|congruence]).
  - rewrite !andb_true_iff, !N.eqb_eq. split; [intros [[-> ->] ->]; reflexivity|].
    intros E; inversion E; auto.
  - rewrite !andb_true_iff, !N.eqb_eq.
    assert (Hgo : forall l',
      (fix go (l l' : list tree) {struct l} : bool :=
         match l, l' with
         | [], [] => true
         | x :: r, x' :: r' => tree_eqb x x' && go r r'
         | _, _ => false
         end) cs l' = true <-> cs = l').
    { induction cs as [|c r IHr]; intros [|c' r']; try (split; [discriminate|congruence]); [tauto|].
      destruct IH as [Hc Hr]. rewrite andb_true_iff, (Hc c'), (IHr Hr r').
      split; [intros [-> ->]; reflexivity|intros E; inversion E; auto]. }
    rewrite Hgo. split; [intros [[[-> ->] ->] ->]; reflexivity|].
    intros E; inversion E; auto.
Qed.
