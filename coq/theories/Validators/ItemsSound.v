(* items_sound: boolean checks on a table annotated with LR(0) items (for impl tables: the
   impl's own state.items) and on the grammar, under which every stack the LR machine can
   reach spells a VIABLE PREFIX (Proofs/ViablePrefixProofs.v):
     - closure items of every state are justified, well-foundedly, from its kernel items
       (items with the dot after at least one symbol; S' -> . start in state 0);
     - every state that is the target of a SHIFT or GOTO, and state 0, has at least one item;
     - production 0 is the only production of the augmented symbol S';
     - every nonterminal used in a right-hand side, and S', derives some terminal string. *)
From Coq Require Import NArith List Bool Arith.
From PV Require Import Spec.Cfg Model.Table Validators.TableStruct.
Import ListNotations.
Local Open Scope N_scope.

Section Check.
  Variable g : grammar.
  Variable tb : table.

  Definition sprime : N := match get_prod g 0 with Some pr => lhs pr | None => 0 end.

  (* item (p, 0) is justified by an item of [acc] with nonterminal lhs(p) after its dot *)
  Definition just_by (acc : list (N * nat)) (p : N) : bool :=
    match get_prod g p with
    | Some pr =>
        existsb (fun it => match get_prod g (fst it) with
                           | Some q => osym_eqb (nth_error (rhs q) (snd it)) (Some (NT (lhs pr)))
                           | None => false
                           end) acc
    | None => false
    end.

  Fixpoint close (n : nat) (its acc : list (N * nat)) : list (N * nat) :=
    match n with
    | O => acc
    | S n' => close n' its (acc ++ filter (fun it => Nat.eqb (snd it) 0 && just_by acc (fst it)) its)
    end.

  Definition kernel (s : nat) (its : list (N * nat)) : list (N * nat) :=
    filter (fun it => negb (Nat.eqb (snd it) 0)) its ++ (if Nat.eqb s 0 then [(0, O)] else []).

  Definition closure_ok (s : nat) (its : list (N * nat)) : bool :=
    let cl := close (length its) its (kernel s its) in
    forallb (fun it => has_item cl (fst it) (snd it)) its.

  Definition nonempty_items (s : nat) : bool :=
    match items tb s with [] => false | _ => true end.

  Definition targets_ok (st : state) : bool :=
    forallb (fun ya => forallb (fun a => match a with Shift s' => nonempty_items s' | _ => true end) (snd ya))
            (st_actions st) &&
    forallb (fun as' => nonempty_items (snd as')) (st_gotos st).

  Fixpoint states_closure_ok (s : nat) (sts : list state) : bool :=
    match sts with
    | [] => true
    | st :: r => closure_ok s (st_items st) && targets_ok st && states_closure_ok (S s) r
    end.

  (* productive nonterminals, by rounds *)
  Definition sym_productive (acc : list N) (x : sym) : bool :=
    match x with T _ => true | NT a => existsb (N.eqb a) acc end.

  Fixpoint prod_iter (n : nat) : list N :=
    match n with
    | O => []
    | S n' =>
        let acc := prod_iter n' in
        acc ++ map lhs (filter (fun pr => forallb (sym_productive acc) (rhs pr)) g)
    end.

  Definition all_productive : bool :=
    let acc := prod_iter (S (length g)) in
    forallb (fun pr => forallb (sym_productive acc) (rhs pr)) g && existsb (N.eqb sprime) acc.

  Definition sprime_unique : bool :=
    match g with
    | [] => false
    | _ :: r => forallb (fun pr => negb (lhs pr =? sprime)) r
    end.

  Definition items_sound : bool :=
    states_closure_ok 0 tb && nonempty_items 0 && all_productive && sprime_unique.
End Check.
