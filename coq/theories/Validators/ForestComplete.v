(* forest_complete: a boolean check on an (acyclic) packed forest, relative to a CHART
   certificate proposed by the harness, under which the forest contains EVERY derivation of
   the input (Proofs/ForestCompleteProofs.v).

   A chart item (X, fl) says: symbol X derives a stretch of tokens whose first token starts at
   s and whose last token ends at e (fl = Some (s, e)), or the empty stretch (fl = None) --
   the same summary the soundness checker [tsum] / [forest_ok] computes in relaxed mode.
     - [chart_closed]: the chart contains every token of the match matrix and is closed under
       the productions (all ways of chaining items for a right-hand side, layout between
       consecutive stretches).  A closed chart contains the summary of every derivation tree.
     - [forest_complete]: every packed node labelled (A, fl) holds, for every production of A
       and every decomposition of fl into chart items for its right-hand side, an alternative
       whose children carry exactly those labels; the same for the root and the start symbol.
   The chart is only a certificate: a wrong chart makes the check fail, never pass wrongly. *)
From Coq Require Import NArith List Bool.
From PV Require Import Spec.Cfg Model.Forest Validators.ForestSound.
Import ListNotations.
Local Open Scope N_scope.

Definition fl : Type := option (N * N).
Definition fl_eqb (a b : fl) : bool :=
  match a, b with
  | None, None => true
  | Some (x, y), Some (x', y') => (x =? x') && (y =? y')
  | _, _ => false
  end.

Definition item : Type := (sym * fl)%type.
Definition item_eqb (a b : item) : bool := sym_eqb (fst a) (fst b) && fl_eqb (snd a) (snd b).
Definition item_of (sm : nsum) : item := (sm_sym sm, sm_fl sm).

(* productions with their ids *)
Definition iprods (g : grammar) : list (N * prod) :=
  combine (map N.of_nat (seq 0 (length g))) g.

Section FC.
  Variable g : grammar.
  Variable sk : N -> N.
  Variable C : list item.

  Definition in_chart (it : item) : bool := existsb (item_eqb it) C.

  (* one step of [chain] *)
  Definition step_fl (cur f : fl) : option fl :=
    match f, cur with
    | None, _ => Some cur
    | Some (fs, le), None => Some (Some (fs, le))
    | Some (fs, le), Some (fs0, le0) => if sk le0 =? fs then Some (Some (fs0, le)) else None
    end.

  (* all decompositions of a right-hand side over the chart: child summaries, result *)
  Fixpoint decomps (rhs : list sym) (cur : fl) : list (list fl * fl) :=
    match rhs with
    | [] => [([], cur)]
    | X :: r =>
        flat_map (fun it =>
                    if sym_eqb (fst it) X then
                      match step_fl cur (snd it) with
                      | Some cur' => map (fun d => (snd it :: fst d, snd d)) (decomps r cur')
                      | None => []
                      end
                    else []) C
    end.

  Definition toks_in (toks : list (N * N * N)) : bool :=
    forallb (fun t => in_chart (T (fst (fst t)), Some (snd (fst t), snd t))) toks.

  Definition prods_closed : bool :=
    forallb (fun pr => forallb (fun d => in_chart (NT (lhs pr), snd d)) (decomps (rhs pr) None)) g.

  Definition chart_closed (toks : list (N * N * N)) : bool := toks_in toks && prods_closed.

  (* ---- the forest against the chart ---- *)

  Definition kid_matches (labels : list (option nsum)) (c : nat) (X : sym) (f : fl) : bool :=
    match nth c labels None with
    | Some sm => item_eqb (item_of sm) (X, f)
    | None => false
    end.

  Fixpoint kids_match (labels : list (option nsum)) (cs : list nat) (rhs : list sym) (fls : list fl) : bool :=
    match cs, rhs, fls with
    | [], [], [] => true
    | c :: cs', X :: rhs', f :: fls' => kid_matches labels c X f && kids_match labels cs' rhs' fls'
    | _, _, _ => false
    end.

  Definition alt_matches (labels : list (option nsum)) (p : N) (rhs : list sym) (fls : list fl) (a : alt) : bool :=
    match a with
    | ANT p' _ _ cs => (p' =? p) && kids_match labels cs rhs fls
    | ATerm _ _ _ => false
    end.

  (* every decomposition (over the productions of A) whose result satisfies [want] is an
     alternative of the node *)
  Definition alts_closed (labels : list (option nsum)) (n : pnode) (A : N) (want : fl -> bool) : bool :=
    forallb (fun ip =>
               negb (lhs (snd ip) =? A) ||
               forallb (fun d => negb (want (snd d)) ||
                                 existsb (alt_matches labels (fst ip) (rhs (snd ip)) (fst d)) n)
                       (decomps (rhs (snd ip)) None))
            (iprods g).

  Definition node_closed (labels : list (option nsum)) (n : pnode) (lab : option nsum) : bool :=
    match lab with
    | None => false
    | Some sm =>
        match sm_sym sm with
        | T _ => true
        | NT A => alts_closed labels n A (fl_eqb (sm_fl sm))
        end
    end.

  Fixpoint nodes_closed (labels : list (option nsum)) (k : nat) (ns : forest) : bool :=
    match ns with
    | [] => true
    | n :: r => node_closed labels n (nth k labels None) && nodes_closed labels (S k) r
    end.
End FC.

Definition forest_complete (g : grammar) (tokok : N -> N -> N -> bool) (sk : N -> N) (C : list item)
           (toks : list (N * N * N)) (start pos0 in_len : N) (consume : bool) (F : forest) : bool :=
  chart_closed g sk C toks &&
  match rev F with
  | [] => false
  | root :: rbelow =>
      let below := rev rbelow in
      let sums := build (fsum_node g tokok sk false) [] below in
      nodes_closed g sk C sums 0 below &&
      alts_closed g sk C sums root start
                  (fun f => root_ok sk start pos0 in_len consume (NT start, 0, 0, f))
  end.

(* the tokens of a match matrix: (terminal, start, end) for every non-zero entry *)
Definition row_toks (y : N) (row : list N) : list (N * N * N) :=
  flat_map (fun bl => match snd bl with
                      | 0 => []
                      | l => [(y, N.of_nat (fst bl), N.of_nat (fst bl) + l)]
                      end)
           (combine (seq 0 (length row)) row).

Definition matrix_toks (rx : list (list N)) : list (N * N * N) :=
  flat_map (fun yr => row_toks (N.of_nat (fst yr)) (snd yr)) (combine (seq 0 (length rx)) rx).
