(* table_complete: a boolean check on a table annotated with LR(1) items
   (production, dot, lookahead set) per state and with FIRST/nullable tables, such that
   every derivation tree of a token sequence has an accepting run in the LR machine of
   the table (nothing valid is missing).  For impl tables the annotation is the impl's
   own state.items with their follow sets (LALR) or FOLLOW(lhs) (SLR) and its first sets. *)
From Coq Require Import NArith List Bool.
From PV Require Import Spec.Cfg Model.Table.
Import ListNotations.
Local Open Scope N_scope.

Definition litem : Type := (N * nat * list N)%type.     (* production, dot, lookaheads *)
Definition li_p (i : litem) : N := fst (fst i).
Definition li_d (i : litem) : nat := snd (fst i).
Definition li_L (i : litem) : list N := snd i.

Definition mem (x : N) (l : list N) : bool := existsb (N.eqb x) l.
Definition subset (a b : list N) : bool := forallb (fun x => mem x b) a.

Section Check.
  Variable g : grammar.
  Variable tb : table.
  Variable ann : list (list litem).          (* per state *)
  Variable fst_tab : list (list N).          (* FIRST per nonterminal id *)
  Variable nul_tab : list bool.              (* nullable per nonterminal id *)
  Variable stop_id : N.

  Definition fst_nt (a : N) : list N := nth (N.to_nat a) fst_tab [].
  Definition nul_nt (a : N) : bool := nth (N.to_nat a) nul_tab false.

  Definition nul_sym (x : sym) : bool := match x with T _ => false | NT a => nul_nt a end.
  Definition fst_sym (x : sym) : list N := match x with T t => [t] | NT a => fst_nt a end.

  (* FIRST of a sequence and whether it is nullable, from the tables *)
  Fixpoint fst_seq (xs : list sym) : list N :=
    match xs with
    | [] => []
    | x :: r => fst_sym x ++ (if nul_sym x then fst_seq r else [])
    end.
  Definition nul_seq (xs : list sym) : bool := forallb nul_sym xs.

  (* effective lookahead of an item: production 0 is followed by STOP *)
  Definition eff_L (i : litem) : list N := if li_p i =? 0 then [stop_id] else li_L i.

  (* terminals that may follow the symbol after the dot of item i *)
  Definition after (pr : prod) (i : litem) : list N :=
    let rest := skipn (S (li_d i)) (rhs pr) in
    fst_seq rest ++ (if nul_seq rest then eff_L i else []).

  Definition ann_of (s : nat) : list litem := nth s ann [].

  Definition has_litem (s : nat) (p : N) (d : nat) (L : list N) : bool :=
    existsb (fun j => (li_p j =? p) && Nat.eqb (li_d j) d && subset L (eff_L j)) (ann_of s).

  Definition first_closed : bool :=
    forallb (fun pr =>
               subset (fst_seq (rhs pr)) (fst_nt (lhs pr)) &&
               (negb (nul_seq (rhs pr)) || nul_nt (lhs pr))) g.

  Definition prods_of (b : N) : list N :=
    map (fun k => N.of_nat k)
        (filter (fun k => match nth_error g k with
                          | Some pr => (lhs pr =? b)
                          | None => false
                          end) (seq 0 (length g))).

  Definition item_ok (s : nat) (i : litem) : bool :=
    match get_prod g (li_p i) with
    | None => false
    | Some pr =>
        match nth_error (rhs pr) (li_d i) with
        | Some (T a) =>
            existsb (fun act => match act with
                                | Shift s' => has_litem s' (li_p i) (S (li_d i)) (eff_L i)
                                | _ => false
                                end) (cell tb s a)
        | Some (NT b) =>
            match goto tb s b with
            | Some s' => has_litem s' (li_p i) (S (li_d i)) (eff_L i)
            | None => false
            end &&
            forallb (fun q => has_litem s q 0 (after pr i)) (prods_of b)
        | None =>
            if li_p i =? 0 then existsb (action_eqb Accept) (cell tb s stop_id)
            else forallb (fun a => existsb (action_eqb (Reduce (li_p i))) (cell tb s a)) (eff_L i)
        end
    end.

  Fixpoint states_complete (s : nat) (anns : list (list litem)) : bool :=
    match anns with
    | [] => true
    | its :: r => forallb (item_ok s) its && states_complete (S s) r
    end.

  (* the augmented symbol (lhs of production 0) occurs in no right-hand side *)
  Definition aug_ok : bool :=
    match get_prod g 0 with
    | None => false
    | Some pr0 =>
        forallb (fun pr => forallb (fun x => negb (sym_eqb x (NT (lhs pr0)))) (rhs pr)) g
    end.

  Definition table_complete : bool :=
    first_closed && aug_ok &&
    Nat.eqb (length ann) (length tb) &&
    states_complete 0 ann &&
    existsb (fun j => (li_p j =? 0) && Nat.eqb (li_d j) 0) (ann_of 0).
End Check.
