(* table_struct: a boolean check on a table annotated with LR(0) items per state
   (for impl tables: the impl's own state.items) and the theorem that under it
   every accepting run of N(T) yields a derivation tree of the shifted tokens. *)
From Coq Require Import NArith List Bool Lia Arith.
From PV Require Import Spec.Cfg Model.Table Spec.NLR.
Import ListNotations.
Local Open Scope N_scope.

Definition item_eqb (a b : N * nat) : bool := (fst a =? fst b) && Nat.eqb (snd a) (snd b).
Definition has_item (its : list (N * nat)) (p : N) (d : nat) : bool :=
  existsb (item_eqb (p, d)) its.

Lemma has_item_In its p d : has_item its p d = true <-> In (p, d) its.
Proof.
  unfold has_item. rewrite existsb_exists. split.
  - intros ([p' d'] & Hin & He). unfold item_eqb in He. cbn in He.
    apply andb_true_iff in He. destruct He as [H1 H2].
    apply N.eqb_eq in H1. apply Nat.eqb_eq in H2. subst. exact Hin.
  - intros H. exists (p, d). split; [exact H|]. unfold item_eqb. cbn.
    rewrite N.eqb_refl, Nat.eqb_refl. reflexivity.
Qed.

Section Check.
  Variable g : grammar.
  Variable tb : table.

  (* an edge s --X--> s' of the automaton: kernel items of s' come from s *)
  Definition edge_ok (s : nat) (X : sym) (s' : nat) : bool :=
    negb (Nat.eqb s' 0) &&
    forallb (fun it =>
               match snd it with
               | O => true
               | S d' =>
                   has_item (items tb s) (fst it) d' &&
                   match get_prod g (fst it) with
                   | Some pr => osym_eqb (nth_error (rhs pr) d') (Some X)
                   | None => false
                   end
               end) (items tb s').

  Definition action_ok (s : nat) (y : N) (a : action) : bool :=
    match a with
    | Shift s' => edge_ok s (T y) s'
    | Reduce p =>
        match get_prod g p with
        | Some pr => has_item (items tb s) p (length (rhs pr))
        | None => false
        end
    | Accept => has_item (items tb s) 0 1
    end.

  Definition state_ok (s : nat) (st : state) : bool :=
    forallb (fun ya => forallb (action_ok s (fst ya)) (snd ya)) (st_actions st) &&
    forallb (fun as' => edge_ok s (NT (fst as')) (snd as')) (st_gotos st) &&
    (Nat.eqb s 0 || negb (has_item (st_items st) 0 0)).

  Fixpoint states_ok (s : nat) (sts : list state) : bool :=
    match sts with
    | [] => true
    | st :: r => state_ok s st && states_ok (S s) r
    end.

  Definition table_struct (start : N) : bool :=
    states_ok 0 tb &&
    forallb (fun it => Nat.eqb (snd it) 0) (items tb 0) &&
    match get_prod g 0 with
    | Some pr => list_eqb sym_eqb (rhs pr) [NT start]
    | None => false
    end.
End Check.

(* ------------------------------------------------------------------------ *)

Lemma firstn_S_nth {X} (l : list X) d x :
  nth_error l d = Some x -> firstn (S d) l = firstn d l ++ [x].
Proof.
  revert d. induction l as [|a r IH]; intros [|d] H; cbn in H; try discriminate.
  - inversion H; subst. reflexivity.
  - change (firstn (S (S d)) (a :: r)) with (a :: firstn (S d) r).
    rewrite (IH d H). reflexivity.
Qed.

Section Sound.
  Variable g : grammar.
  Variable tb : table.
  Variable start : N.
  Variable look : N -> N -> N -> N -> Prop.
  Hypothesis Hts : table_struct g tb start = true.

  Lemma states_ok_nth k sts s st :
    states_ok g tb k sts = true -> nth_error sts s = Some st ->
    state_ok g tb (k + s) st = true.
  Proof.
    revert k s. induction sts as [|x r IH]; intros k s H Hn; [destruct s; discriminate|].
    cbn in H. apply andb_true_iff in H. destruct H as [Hx Hr].
    destruct s as [|s]; cbn in Hn.
    - inversion Hn; subst. rewrite Nat.add_0_r. exact Hx.
    - replace (k + S s)%nat with (S k + s)%nat by lia. apply IH; assumption.
  Qed.

  Lemma state_ok_at s st : get_state tb s = Some st -> state_ok g tb s st = true.
  Proof.
    intros H. unfold table_struct in Hts.
    apply andb_true_iff in Hts. destruct Hts as [H1 _].
    apply andb_true_iff in H1. destruct H1 as [H1 _].
    exact (states_ok_nth 0 tb s st H1 H).
  Qed.

  Lemma items0 p d : In (p, d) (items tb 0) -> d = O.
  Proof.
    intros H. unfold table_struct in Hts.
    apply andb_true_iff in Hts. destruct Hts as [H1 _].
    apply andb_true_iff in H1. destruct H1 as [_ H2].
    rewrite forallb_forall in H2. specialize (H2 _ H). cbn in H2.
    apply Nat.eqb_eq in H2. exact H2.
  Qed.

  Lemma prod0 : exists pr, get_prod g 0 = Some pr /\ rhs pr = [NT start].
  Proof.
    unfold table_struct in Hts. apply andb_true_iff in Hts. destruct Hts as [_ H].
    destruct (get_prod g 0) as [pr|]; [|discriminate].
    exists pr. split; [reflexivity|].
    apply (list_eqb_eq sym_eqb sym_eqb_eq). exact H.
  Qed.

  (* edges of the automaton *)
  Definition edge (s : nat) (X : sym) (s' : nat) : Prop :=
    match X with
    | T y => In (Shift s') (cell tb s y)
    | NT a => goto tb s a = Some s'
    end.

  Lemma assoc_In {V} k (l : list (N * V)) v : assoc k l = Some v -> In (k, v) l.
  Proof.
    induction l as [|[k' v'] r IH]; cbn; [discriminate|].
    destruct (N.eqb_spec k k') as [->|Hne].
    - intros E; inversion E; subst. left; reflexivity.
    - intros E. right. apply IH. exact E.
  Qed.

  Lemma edge_edge_ok s X s' : edge s X s' -> edge_ok g tb s X s' = true.
  Proof.
    destruct X as [y|a]; cbn [edge].
    - unfold cell. destruct (get_state tb s) as [st|] eqn:Es; [|intros []].
      destruct (assoc y (st_actions st)) as [l|] eqn:Ea; [|intros []].
      intros Hin. pose proof (state_ok_at s st Es) as Hok. unfold state_ok in Hok.
      apply andb_true_iff in Hok. destruct Hok as [Hok _].
      apply andb_true_iff in Hok. destruct Hok as [Hok _].
      rewrite forallb_forall in Hok. specialize (Hok _ (assoc_In _ _ _ Ea)). cbn in Hok.
      rewrite forallb_forall in Hok. exact (Hok _ Hin).
    - unfold goto. destruct (get_state tb s) as [st|] eqn:Es; [|discriminate].
      intros Ea. pose proof (state_ok_at s st Es) as Hok. unfold state_ok in Hok.
      apply andb_true_iff in Hok. destruct Hok as [Hok _].
      apply andb_true_iff in Hok. destruct Hok as [_ Hok].
      rewrite forallb_forall in Hok. exact (Hok _ (assoc_In _ _ _ Ea)).
  Qed.

  Lemma edge_back s X s' p d' :
    edge s X s' -> In (p, S d') (items tb s') ->
    s' <> O /\ In (p, d') (items tb s) /\
    exists pr, get_prod g p = Some pr /\ nth_error (rhs pr) d' = Some X.
  Proof.
    intros He Hin. apply edge_edge_ok in He. unfold edge_ok in He.
    apply andb_true_iff in He. destruct He as [Hne Hall].
    rewrite forallb_forall in Hall. specialize (Hall _ Hin). cbn in Hall.
    apply andb_true_iff in Hall. destruct Hall as [Hi Hp].
    split; [intros ->; discriminate|]. split; [apply has_item_In; exact Hi|].
    destruct (get_prod g p) as [pr|]; [|discriminate]. exists pr. split; [reflexivity|].
    apply osym_eqb_eq. exact Hp.
  Qed.

  Lemma edge_nonzero s X s' : edge s X s' -> s' <> O.
  Proof.
    intros He. apply edge_edge_ok in He. unfold edge_ok in He.
    apply andb_true_iff in He. destruct He as [Hne _]. intros ->. discriminate.
  Qed.

  (* the stack invariant: bottom is state 0; consecutive entries are edges
     labelled by the root of the upper tree; trees are derivations *)
  Inductive stack_ok : stack -> Prop :=
  | so_bot d : stack_ok [(O, d)]
  | so_push s t X st :
      stack_ok st -> root_sym g t = Some X -> edge (top_state st) X s ->
      wf_tree g t -> stack_ok ((s, t) :: st).

  Lemma stack_ok_nonempty st : stack_ok st -> st <> [].
  Proof. destruct 1; discriminate. Qed.

  (* path lemma: an item (p, d) in the top state is backed by d stack entries *)
  Lemma path st : stack_ok st -> forall p d pr,
    In (p, d) (items tb (top_state st)) -> get_prod g p = Some pr ->
    exists popped rest,
      st = popped ++ rest /\ length popped = d /\ stack_ok rest /\
      map (root_sym g) (rev (map snd popped)) = map Some (firstn d (rhs pr)) /\
      In (p, O) (items tb (top_state rest)) /\
      All (wf_tree g) (map snd popped).
  Proof.
    induction 1 as [d0|s t X st Hst IH Hroot Hedge Hwf]; intros p d pr Hin Hp.
    - cbn [top_state] in Hin. pose proof (items0 _ _ Hin) as Hd. subst d.
      exists [], [(O, d0)]. cbn.
      split; [reflexivity|]. split; [reflexivity|]. split; [constructor|].
      split; [reflexivity|]. split; [exact Hin|exact I].
    - destruct d as [|d'].
      + exists [], ((s, t) :: st). cbn.
        split; [reflexivity|]. split; [reflexivity|].
        split; [econstructor; eassumption|].
        split; [reflexivity|]. split; [exact Hin|exact I].
      + cbn [top_state] in Hin.
        destruct (edge_back _ _ _ _ _ Hedge Hin) as (_ & Hin' & pr' & Hp' & Hnth).
        rewrite Hp in Hp'. inversion Hp'; subst pr'.
        destruct (IH p d' pr Hin' Hp) as (popped & rest & E & Hlen & Hrest & Hroots & H0 & Hall).
        exists ((s, t) :: popped), rest. cbn [app length map rev snd].
        split; [rewrite E; reflexivity|]. split; [rewrite Hlen; reflexivity|].
        split; [exact Hrest|]. split.
        * rewrite map_app, Hroots. cbn [map].
          rewrite (firstn_S_nth _ _ _ Hnth), map_app, Hroot. reflexivity.
        * split; [exact H0|]. cbn [All]. split; [exact Hwf|exact Hall].
  Qed.

  (* leaves of the stack above the bottom entry, bottom-up *)
  Definition stack_leaves (st : stack) : list (N * N * N) :=
    flat_map leaves (rev (map snd (removelast st))).

  Definition cfg_inv (c : config) : Prop :=
    stack_ok (c_stack c) /\ stack_leaves (c_stack c) = c_trace c.

  Lemma removelast_cons {X} (x : X) l : l <> [] -> removelast (x :: l) = x :: removelast l.
  Proof. destruct l; [congruence|reflexivity]. Qed.

  Lemma removelast_app_ne {X} (l1 l2 : list X) : l2 <> [] ->
    removelast (l1 ++ l2) = l1 ++ removelast l2.
  Proof. intros H. apply removelast_app. exact H. Qed.

  Lemma flat_map_app {X Y} (f : X -> list Y) l1 l2 :
    flat_map f (l1 ++ l2) = flat_map f l1 ++ flat_map f l2.
  Proof. induction l1 as [|a r IH]; cbn; [reflexivity|]. rewrite IH, app_assoc. reflexivity. Qed.

  Lemma nstep_inv c1 c2 : cfg_inv c1 -> nstep g tb look c1 c2 -> cfg_inv c2.
  Proof.
    intros [Hst Htr] Hstep. destruct Hstep as
      [st pos tr y s e s' Hl Hin | st pos tr y s e p pr popped rest s' ns ne Hl Hin Hp E Hlen Hg];
      unfold cfg_inv; cbn [c_stack c_trace c_pos] in *.
    - split.
      + econstructor; [exact Hst|reflexivity|exact Hin|exact I].
      + unfold stack_leaves in *.
        rewrite removelast_cons by (apply stack_ok_nonempty; exact Hst).
        cbn [map rev]. rewrite flat_map_app. cbn. rewrite Htr. reflexivity.
    - assert (Hitem : In (p, length (rhs pr)) (items tb (top_state st))).
      { unfold cell in Hin. destruct (get_state tb (top_state st)) as [sta|] eqn:Es; [|destruct Hin].
        destruct (assoc y (st_actions sta)) as [l|] eqn:Ea; [|destruct Hin].
        pose proof (state_ok_at _ sta Es) as Hok. unfold state_ok in Hok.
        apply andb_true_iff in Hok. destruct Hok as [Hok _].
        apply andb_true_iff in Hok. destruct Hok as [Hok _].
        rewrite forallb_forall in Hok. specialize (Hok _ (assoc_In _ _ _ Ea)). cbn in Hok.
        rewrite forallb_forall in Hok. specialize (Hok _ Hin). cbn in Hok.
        rewrite Hp in Hok. apply has_item_In in Hok. exact Hok. }
      destruct (path st Hst p _ pr Hitem Hp) as (popped' & rest' & E' & Hlen' & Hrest & Hroots & _ & Hall).
      assert (popped' = popped /\ rest' = rest) as [-> ->].
      { subst st. clear -E' Hlen Hlen'. rewrite <- Hlen' in Hlen. clear Hlen'.
        revert popped' E' Hlen. induction popped as [|a r IH]; intros [|b r'] E' Hl; cbn in *;
          try discriminate; auto.
        inversion E'; subst. destruct (IH r' H1) as [-> ->]; [congruence|]. auto. }
      rewrite firstn_all in Hroots.
      split.
      + apply (so_push _ _ (NT (lhs pr))); [exact Hrest| |exact Hg|].
        * cbn. rewrite Hp. reflexivity.
        * cbn. split; [exists pr; split; [exact Hp|exact Hroots]|].
          apply All_In. intros x Hx. apply in_rev in Hx.
          rewrite All_In in Hall. apply Hall. exact Hx.
      + unfold stack_leaves in *. rewrite <- Htr, E.
        rewrite removelast_cons by (apply stack_ok_nonempty; exact Hrest).
        rewrite removelast_app_ne by (apply stack_ok_nonempty; exact Hrest).
        cbn [map rev]. rewrite map_app, rev_app_distr, !flat_map_app. cbn [flat_map leaves].
        rewrite app_nil_r. reflexivity.
  Qed.

  Lemma nsteps_inv c1 c2 : cfg_inv c1 -> nsteps g tb look c1 c2 -> cfg_inv c2.
  Proof.
    intros H Hs. induction Hs as [c|c1 c2 c3 H12 IH H23]; [exact H|].
    eapply nstep_inv; [apply IH; exact H|exact H23].
  Qed.

  Lemma init_inv pos d : cfg_inv (init_cfg pos d).
  Proof. split; [constructor|reflexivity]. Qed.

  (* zero appears only at the bottom *)
  Lemma stack_top_zero st : stack_ok st -> top_state st = O -> exists d, st = [(O, d)].
  Proof.
    destruct 1 as [d|s t X st Hst Hr He Hw]; intros Hz; [eauto|].
    cbn in Hz. subst s. exfalso. eapply edge_nonzero; eauto.
  Qed.

  Theorem nlr_sound pos d c t :
    nsteps g tb look (init_cfg pos d) c -> naccepts tb look c t ->
    wf_tree g t /\ root_sym g t = Some (NT start) /\ leaves t = c_trace c.
  Proof.
    intros Hsteps (y & s & e & Hl & Hacc & s1 & Hn1).
    destruct (nsteps_inv _ _ (init_inv pos d) Hsteps) as [Hst Htr].
    destruct prod0 as (pr0 & Hp0 & Hr0).
    assert (Hitem : In (0, 1%nat) (items tb (top_state (c_stack c)))).
    { unfold cell in Hacc. destruct (get_state tb (top_state (c_stack c))) as [sta|] eqn:Es; [|destruct Hacc].
      destruct (assoc y (st_actions sta)) as [l|] eqn:Ea; [|destruct Hacc].
      pose proof (state_ok_at _ sta Es) as Hok. unfold state_ok in Hok.
      apply andb_true_iff in Hok. destruct Hok as [Hok _].
      apply andb_true_iff in Hok. destruct Hok as [Hok _].
      rewrite forallb_forall in Hok. specialize (Hok _ (assoc_In _ _ _ Ea)). cbn in Hok.
      rewrite forallb_forall in Hok. specialize (Hok _ Hacc). cbn in Hok.
      apply has_item_In in Hok. exact Hok. }
    destruct (path _ Hst 0 1%nat pr0 Hitem Hp0) as (popped & rest & E & Hlen & Hrest & Hroots & H0 & Hall).
    destruct popped as [|[s' t'] [|? ?]]; try discriminate. cbn in E, Hroots, Hall.
    rewrite Hr0 in Hroots. cbn in Hroots.
    (* the state below holds item (0,0), hence is state 0, hence is the bottom *)
    assert (Hz : top_state rest = O).
    { destruct rest as [|[sr tr] rr]; [exfalso; eapply stack_ok_nonempty; eauto|].
      cbn [top_state] in *. destruct sr as [|sr]; [reflexivity|].
      exfalso. unfold items in H0. destruct (get_state tb (S sr)) as [sta|] eqn:Es; [|destruct H0].
      pose proof (state_ok_at _ sta Es) as Hok. unfold state_ok in Hok.
      apply andb_true_iff in Hok. destruct Hok as [_ Hok]. cbn in Hok.
      apply negb_true_iff in Hok. apply has_item_In in H0. congruence. }
    destruct (stack_top_zero _ Hrest Hz) as [d' ->].
    rewrite E in Hn1, Htr. cbn in Hn1. inversion Hn1; subst s1 t.
    split; [apply Hall|]. split.
    - inversion Hroots. reflexivity.
    - rewrite <- Htr. unfold stack_leaves. cbn. rewrite app_nil_r. reflexivity.
  Qed.
End Sound.
