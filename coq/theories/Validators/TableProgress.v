(* table_progress: conditions under which the LR driver can always carry out the action it
   selected (no KeyError / IndexError inside the driver). *)
From Coq Require Import NArith List Bool.
From PV Require Import Spec.Cfg Model.Table.
Import ListNotations.
Local Open Scope N_scope.

(* progress conditions on a table (checked on the impl's table):
   P1 the STOP column holds no SHIFT;
   P2 in a cell that starts with a REDUCE, every action is a REDUCE;
   P3 a state with a closure item (q, 0) has a goto on the left-hand side of q;
   P4 production 0 is never reduced. *)
Definition cell_shape_ok (stop_id : N) (ya : N * list action) : bool :=
  (negb (fst ya =? stop_id) || forallb (fun a => negb (is_shift a)) (snd ya)) &&
  forallb (fun a => negb (action_eqb a (Reduce 0))) (snd ya) &&
  match snd ya with
  | Reduce _ :: r => forallb is_reduce r
  | _ => true
  end.

Definition table_progress (g : grammar) (tb : table) (stop_id : N) : bool :=
  forallb (fun st =>
             forallb (cell_shape_ok stop_id) (st_actions st) &&
             forallb (fun it => match snd it with
                                | O => (fst it =? 0) ||
                                       match get_prod g (fst it) with
                                       | Some pr => match assoc (lhs pr) (st_gotos st) with
                                                    | Some _ => true | None => false end
                                       | None => false
                                       end
                                | S _ => true
                                end) (st_items st)) tb.

