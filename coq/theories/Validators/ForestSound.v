(* forest_ok: a local check on a packed forest such that EVERY tree the forest
   represents is a derivation tree of the input: productions applied correctly,
   spans nested and ordered, leaves a tokenisation of the input (each leaf
   matched by its recognizer, consecutive leaves separated by layout only). *)
From Coq Require Import NArith List Bool Lia.
From PV Require Import Spec.Cfg Model.Forest.
Import ListNotations.
Local Open Scope N_scope.

(* summary of a (sub)tree: root symbol, span, first-leaf start / last-leaf end *)
Definition nsum : Type := (sym * N * N * option (N * N))%type.
Definition sm_sym (k : nsum) : sym := fst (fst (fst k)).
Definition sm_s (k : nsum) : N := snd (fst (fst k)).
Definition sm_e (k : nsum) : N := snd (fst k).
Definition sm_fl (k : nsum) : option (N * N) := snd k.

Fixpoint all_some {X} (l : list (option X)) : option (list X) :=
  match l with
  | [] => Some []
  | None :: _ => None
  | Some x :: r => match all_some r with Some xs => Some (x :: xs) | None => None end
  end.

Section Check.
  Variable g : grammar.
  Variable tokok : N -> N -> N -> bool.    (* terminal y is recognised at [s, e) *)
  Variable sk : N -> N.                     (* position after the layout that starts at p *)
  Variable strict : bool.                   (* also check the spans of interior nodes (C08) *)

  Fixpoint ordered (kids : list nsum) : bool :=
    match kids with
    | k1 :: ((k2 :: _) as r) => (sm_e k1 <=? sm_s k2) && ordered r
    | _ => true
    end.

  Fixpoint chain (kids : list nsum) (cur : option (N * N)) : option (option (N * N)) :=
    match kids with
    | [] => Some cur
    | k :: r =>
        match sm_fl k, cur with
        | None, _ => chain r cur
        | Some (fs, le), None => chain r (Some (fs, le))
        | Some (fs, le), Some (fs0, le0) =>
            if sk le0 =? fs then chain r (Some (fs0, le)) else None
        end
    end.

  Definition check_leaf (y s e : N) : option nsum :=
    if tokok y s e && (s <=? e)
    then Some (T y, if strict then s else 0, if strict then e else 0, Some (s, e)) else None.

  Definition check_node (p s e : N) (kids : list nsum) : option nsum :=
    match get_prod g p with
    | None => None
    | Some pr =>
        if negb (list_eqb sym_eqb (map sm_sym kids) (rhs pr)) then None else
        if strict && negb (s <=? e) then None else
        if strict && negb (match kids with
                 | [] => s =? e
                 | k0 :: _ => (s =? sm_s k0) && (e =? sm_e (last kids k0)) && ordered kids
                 end) then None else
        match chain kids None with
        | None => None
        | Some fl => Some (NT (lhs pr), if strict then s else 0, if strict then e else 0, fl)
        end
    end.

  (* tree-level checker *)
  Fixpoint tsum (t : tree) : option nsum :=
    match t with
    | TLeaf y s e => check_leaf y s e
    | TNode p s e cs =>
        match all_some (map tsum cs) with
        | Some kids => check_node p s e kids
        | None => None
        end
    end.

  (* forest-level checker: one summary per packed node, all alternatives agree *)
  Definition fsum_alt (acc : list (option nsum)) (a : alt) : option nsum :=
    match a with
    | ATerm y s e => check_leaf y s e
    | ANT p s e cs =>
        match all_some (map (fun c => nth c acc None) cs) with
        | Some kids => check_node p s e kids
        | None => None
        end
    end.

  Definition nsum_eqb (a b : nsum) : bool :=
    sym_eqb (sm_sym a) (sm_sym b) && (sm_s a =? sm_s b) && (sm_e a =? sm_e b) &&
    match sm_fl a, sm_fl b with
    | None, None => true
    | Some (x, y), Some (x', y') => (x =? x') && (y =? y')
    | _, _ => false
    end.

  Definition fsum_node (acc : list (option nsum)) (n : pnode) : option nsum :=
    match n with
    | [] => None
    | a :: r =>
        match fsum_alt acc a with
        | None => None
        | Some sm =>
            if forallb (fun b => match fsum_alt acc b with
                                 | Some sm' => nsum_eqb sm sm'
                                 | None => false
                                 end) r
            then Some sm else None
        end
    end.

  (* root conditions: start symbol; the leaves start right after the leading layout
     and (consume_input) only layout follows the last one *)
  Variable start : N.
  Variable pos0 : N.
  Variable in_len : N.
  Variable consume : bool.

  Definition root_ok (sm : nsum) : bool :=
    sym_eqb (sm_sym sm) (NT start) &&
    match sm_fl sm with
    | None => negb consume || (sk pos0 =? in_len)
    | Some (fs, le) => (fs =? sk pos0) && (negb consume || (sk le =? in_len)) && (le <=? in_len)
    end.

  Definition forest_ok (F : forest) : bool :=
    match rev F with
    | [] => false
    | root :: rbelow =>
        let below := rev rbelow in
        let sums := build fsum_node [] below in
        negb (match root with [] => true | _ => false end) &&
        forallb (fun a => match fsum_alt sums a with
                          | Some sm => root_ok sm
                          | None => false
                          end) root
    end.
End Check.

(* ---- labelled variant: works for cyclic forests too ----------------------------------
   Instead of computing the node summaries bottom-up (which needs a topological order), the
   summaries are GIVEN (a certificate proposed by the harness) and only checked for local
   consistency: every alternative of node k, evaluated with the labels of its children,
   yields label k.  Every finite tree that unfolds from the forest then has the label of
   its node as summary (by induction on the tree), whatever cycles the forest has. *)

Inductive unfolds (F : forest) : nat -> tree -> Prop :=
| u_term k y s e : In (ATerm y s e) (nth k F []) -> unfolds F k (TLeaf y s e)
| u_nt k p s e cs ts :
    In (ANT p s e cs) (nth k F []) -> unfolds_list F cs ts -> unfolds F k (TNode p s e ts)
with unfolds_list (F : forest) : list nat -> list tree -> Prop :=
| ul_nil : unfolds_list F [] []
| ul_cons c cs t ts : unfolds F c t -> unfolds_list F cs ts -> unfolds_list F (c :: cs) (t :: ts).

Section Labelled.
  Variable g : grammar.
  Variable tokok : N -> N -> N -> bool.
  Variable sk : N -> N.
  Variable strict : bool.

  Definition onsum_eqb (a b : option nsum) : bool :=
    match a, b with
    | Some x, Some y => nsum_eqb x y
    | _, _ => false
    end.

  (* labels : one summary per node; node k is consistent if all its alternatives evaluate to it *)
  Definition node_consistent (labels : list (option nsum)) (k : nat) (n : pnode) : bool :=
    forallb (fun a => onsum_eqb (fsum_alt g tokok sk strict labels a) (nth k labels None)) n.

  Fixpoint nodes_consistent (labels : list (option nsum)) (k : nat) (ns : forest) : bool :=
    match ns with
    | [] => true
    | n :: r => node_consistent labels k n && nodes_consistent labels (S k) r
    end.

  Variables (start pos0 in_len : N) (consume : bool).

  (* all nodes but the root (the last one) are consistent; the root's alternatives are checked
     one by one (they may have different spans when consume_input is off) *)
  Definition forest_ok_labelled (F : forest) (labels : list (option nsum)) : bool :=
    match rev F with
    | [] => false
    | root :: rbelow =>
        nodes_consistent labels 0 (rev rbelow) &&
        negb (match root with [] => true | _ => false end) &&
        forallb (fun a => match fsum_alt g tokok sk strict labels a with
                          | Some sm => root_ok sk start pos0 in_len consume sm
                          | None => false
                          end) root
    end.
End Labelled.

(* full labelled mode (the root may take part in cycles): every node, the root included, is
   consistent with its label and the root's label satisfies the root conditions *)
Definition forest_ok_labelled_full (g : grammar) (tokok : N -> N -> N -> bool) (sk : N -> N)
           (strict : bool) (start pos0 in_len : N) (consume : bool)
           (F : forest) (labels : list (option nsum)) : bool :=
  nodes_consistent g tokok sk strict labels 0 F &&
  match nth (pred (length F)) labels None with
  | Some sm => root_ok sk start pos0 in_len consume sm
  | None => false
  end &&
  negb (Nat.eqb (length F) 0).
