(* Validator: the input is lexically separated along a token list -- at every token start, in
   every state that has an action for the true token, that token's recognizer matches exactly
   the token's text and no other terminal of the state matches there (Proofs/ScanSepProofs.v:
   this implies the scanner contract scan_ok of the LR completeness theorem). *)
From Coq Require Import NArith List Bool.
From PV Require Import Spec.Cfg Model.Table Spec.NLR.
Import ListNotations.
Local Open Scope N_scope.

Definition optN_eqb (a b : option N) : bool :=
  match a, b with
  | Some x, Some y => x =? y
  | None, None => true
  | _, _ => false
  end.

Fixpoint nodupN (l : list N) : bool :=
  match l with
  | [] => true
  | x :: r => negb (existsb (N.eqb x) r) && nodupN r
  end.

Section Sep.
  Variable rx : N -> N -> option N.
  Variable in_len : N.
  Variable stop_id : N.
  Variable tb : table.
  Variable skipws : N -> option N.

  Definition keys (st : state) : list N := map fst (st_actions st).

  (* in state [st], at position [s], only terminal [y] matches *)
  Definition state_sep (st : state) (y s : N) : bool :=
    forallb (fun t => (t =? y) || match rx t s with None => true | Some _ => false end) (keys st).

  Definition has_cell (st : state) (y : N) : bool :=
    match assoc y (st_actions st) with Some (_ :: _) => true | _ => false end.

  Definition tok_sep (y s e : N) : bool :=
    (s <? e) && (s <? in_len) && negb (y =? stop_id) && optN_eqb (rx y s) (Some (e - s)) &&
    forallb (fun st => negb (has_cell st y) || (state_sep st y s && nodupN (keys st))) tb.

  Fixpoint sep_tokens (p : N) (w : list tok) : bool :=
    match w with
    | [] => optN_eqb (skipws p) (Some in_len)
    | (y, s, e) :: r => optN_eqb (skipws p) (Some s) && tok_sep y s e && sep_tokens e r
    end.

End Sep.
