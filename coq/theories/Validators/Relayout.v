(* C14: what "the same result up to layout" means, and the executable validator that
   decides the hypotheses of the relayout theorem on concrete artefacts (the impl's real
   tables, the recognizer matrix of two concrete inputs and a finite correspondence of
   token boundaries).  Definitions only. *)
From Coq Require Import NArith List Bool.
From PV Require Import Spec.Cfg Model.Table Model.LRDriver Model.Scan Model.Parser.
Import ListNotations.
Local Open Scope N_scope.

(* ---- results related by a correspondence of positions -------------------------------- *)
Section Rel.
  Variable R : N -> N -> Prop.

  (* same productions, same terminals, same arity everywhere; positions correspond *)
  Fixpoint tree_rel (a b : tree) {struct a} : Prop :=
    match a, b with
    | TLeaf y s e, TLeaf y' s' e' => y = y' /\ R s s' /\ R e e'
    | TNode p s e cs, TNode p' s' e' cs' =>
        p = p' /\ R s s' /\ R e e' /\
        (fix go (l l' : list tree) {struct l} : Prop :=
           match l, l' with
           | [], [] => True
           | x :: r, x' :: r' => tree_rel x x' /\ go r r'
           | _, _ => False
           end) cs cs'
    | _, _ => False
    end.

  (* layout spans: the literal "no layout yet" span (0,0), or corresponding end points *)
  Definition span_rel (l l' : N * N) : Prop :=
    (l = (0, 0) /\ l' = (0, 0)) \/ (R (fst l) (fst l') /\ R (snd l) (snd l')).

  Definition tok_rel (x x' : N * N * N * (N * N)) : Prop :=
    match x, x' with
    | (y, s, e, l), (y', s', e', l') => y = y' /\ R s s' /\ R e e' /\ span_rel l l'
    end.

  Definition res_rel (r r' : lr_result) : Prop :=
    match r, r' with
    | LROk t rp lay tr, LROk t' rp' lay' tr' =>
        tree_rel t t' /\ R rp rp' /\ span_rel lay lay' /\ Forall2 tok_rel tr tr'
    | LRSyntaxError pos st, LRSyntaxError pos' st' => R pos pos' /\ st = st'
    | LRDisambiguation pos st, LRDisambiguation pos' st' => R pos pos' /\ st = st'
    | LROutOfFuel, LROutOfFuel => True
    | LRLayoutError pos, LRLayoutError pos' => R pos pos'
    | LRCrash c, LRCrash c' => c = c'
    | _, _ => False
    end.
End Rel.

(* what survives any relayout: the tree without its positions / the kind of failure *)
Fixpoint erase (t : tree) : tree :=
  match t with
  | TLeaf y _ _ => TLeaf y 0 0
  | TNode p _ _ cs => TNode p 0 0 (map erase cs)
  end.

Inductive verdict : Type :=
| VAccept (t : tree) (tokens : list N)
| VSyntaxError (st : nat)
| VDisambiguation (st : nat)
| VOutOfFuel
| VLayoutError
| VCrash (c : N).

Definition verdict_of (r : lr_result) : verdict :=
  match r with
  | LROk t _ _ tr => VAccept (erase t) (map (fun x => fst (fst (fst x))) tr)
  | LRSyntaxError _ st => VSyntaxError st
  | LRDisambiguation _ st => VDisambiguation st
  | LROutOfFuel => VOutOfFuel
  | LRLayoutError _ => VLayoutError
  | LRCrash c => VCrash c
  end.

(* ---- the executable validator ---------------------------------------------------------- *)
Definition pair_in (l : list (N * N)) (p p' : N) : bool :=
  existsb (fun x => (fst x =? p) && (snd x =? p')) l.

Definition tokres_eqb (a b : tokres) : bool :=
  match a, b with
  | TNone, TNone => true
  | TTok y l, TTok y' l' => (y =? y') && (l =? l')
  | TDis, TDis => true
  | _, _ => false
  end.

Section Check.
  Variable sk1 sk2 : N -> option N.
  Variable nt1 nt2 : nat -> N -> tokres.
  Variable nstates : nat.
  Variable Rl Sl : list (N * N).   (* all boundaries / token starts, as pairs (in w, in w') *)

  Definition skip_ok (pp : N * N) : bool :=
    match sk1 (fst pp), sk2 (snd pp) with
    | None, None => true
    | Some q, Some q' => pair_in Sl q q'
    | _, _ => false
    end.

  Definition tok_ok (qq : N * N) : bool :=
    forallb (fun st =>
               tokres_eqb (nt1 st (fst qq)) (nt2 st (snd qq)) &&
               match nt1 st (fst qq) with
               | TTok _ len => pair_in Rl (fst qq + len) (snd qq + len)
               | _ => true
               end) (seq 0 nstates).

  Definition hyp_check : bool :=
    forallb skip_ok Rl && forallb tok_ok Sl && forallb (fun x => pair_in Rl (fst x) (snd x)) Sl.
End Check.

(* the whole parser on two inputs *)
Definition nt_full (c : pconf) (inp : pinput) : nat -> N -> tokres :=
  next_token_of (pc_terms c) (rx_of inp) (in_len inp) (pc_stop c) (pc_consume c) (pc_lexdis c)
                (pc_tb c).

Definition relayout_check (c : pconf) (inp inp' : pinput) (fuel : nat) (Rl Sl : list (N * N)) : bool :=
  hyp_check (skipws_full c inp fuel) (skipws_full c inp' fuel) (nt_full c inp) (nt_full c inp')
            (length (pc_tb c)) Rl Sl.

(* insertion of one character at index k *)
Definition ins_at {X} (k : nat) (x : X) (l : list X) : list X := firstn k l ++ x :: skipn k l.

(* positions before and after the insertion point: k itself corresponds to both k and k+1 *)
Definition ins_R (k : N) (p p' : N) : Prop := (p <= k /\ p' = p) \/ (k <= p /\ p' = p + 1).
(* token starts: strictly before k, or from k on *)
Definition ins_S (k : N) (q q' : N) : Prop := (q < k /\ q' = q) \/ (k <= q /\ q' = q + 1).

(* the same parser with the LAYOUT sub-parser replaced by the ws parameter *)
Definition with_ws (c : pconf) (ws : list N) : pconf :=
  mkPConf (pc_g c) (pc_tb c) (pc_terms c) (pc_stop c) (pc_consume c) (pc_lexdis c) ws None.

(* The canonical ws-equivalent LAYOUT rule of the documentation,
     S: 'a' S | 'a';  LAYOUT: LayoutItem | LAYOUT LayoutItem | EMPTY;  LayoutItem: WS;
     terminals WS: /[ \t\r\n]+/;
   as the impl builds it (terminals WS=0 'a'=1 EMPTY=2 STOP=3; productions 3..6 are the
   LAYOUT ones) and the table of its LAYOUT sub-parser exactly as dumped from the impl
   (the check compares this constant with a fresh dump on every run). *)
Definition g_std : grammar :=
  [mkProd 0 [NT 1]; mkProd 1 [T 1; NT 1]; mkProd 1 [T 1];
   mkProd 2 [NT 3]; mkProd 2 [NT 2; NT 3]; mkProd 2 []; mkProd 3 [T 0]].
Definition ltb_std : table :=
  [mkState (NT 0) [(0, [Shift 3%nat]); (3, [Reduce 5])] [(2, 1%nat); (3, 2%nat)] [false; false] [];
   mkState (NT 2) [(0, [Shift 3%nat]); (3, [Accept])] [(3, 4%nat)] [false; false] [];
   mkState (NT 3) [(0, [Reduce 3]); (3, [Reduce 3])] [] [false; false] [];
   mkState (T 0) [(0, [Reduce 6]); (3, [Reduce 6])] [] [false; false] [];
   mkState (NT 3) [(0, [Reduce 4]); (3, [Reduce 4])] [] [false; false] []].
Definition terms_std : list term_info := [mkTerm 10 false; mkTerm 10 false; mkTerm 10 false; mkTerm 10 false].

