(* Completeness of the LR machine of a table that passes table_complete:
   every derivation tree of a token sequence has an accepting run producing it. *)
From Coq Require Import NArith List Bool Lia Arith.
From PV Require Import Spec.Cfg Model.Table Spec.NLR Validators.TableComplete.
Import ListNotations.
Local Open Scope N_scope.

Lemma mem_In x l : mem x l = true <-> In x l.
Proof.
  unfold mem. rewrite existsb_exists. split.
  - intros (y & Hy & E). apply N.eqb_eq in E. subst. exact Hy.
  - intros H. exists x. split; [exact H|apply N.eqb_refl].
Qed.

Lemma subset_spec a b : subset a b = true <-> (forall x, In x a -> In x b).
Proof.
  unfold subset. rewrite forallb_forall. split.
  - intros H x Hx. apply mem_In. apply H. exact Hx.
  - intros H x Hx. apply mem_In. apply H. exact Hx.
Qed.

Section Complete.
  Variable g : grammar.
  Variable tb : table.
  Variable ann : list (list litem).
  Variable fst_tab : list (list N).
  Variable nul_tab : list bool.
  Variable stop_id : N.
  Hypothesis Htc : table_complete g tb ann fst_tab nul_tab stop_id = true.

  Notation fst_sym := (fst_sym fst_tab).
  Notation nul_sym := (nul_sym nul_tab).
  Notation fst_seq := (fst_seq fst_tab nul_tab).
  Notation nul_seq := (nul_seq nul_tab).
  Notation eff_L := (eff_L stop_id).
  Notation after := (after fst_tab nul_tab stop_id).
  Notation ann_of := (ann_of ann).
  Notation has_litem := (has_litem ann stop_id).
  Notation item_ok := (item_ok g tb ann fst_tab nul_tab stop_id).
  Notation la := (la stop_id).
  Notation lsteps := (lsteps g tb stop_id).

  (* ---- unpacking the validator ------------------------------------------ *)

  Lemma tc_unpack :
    first_closed g fst_tab nul_tab = true /\ aug_ok g = true /\
    states_complete g tb ann fst_tab nul_tab stop_id 0 ann = true /\
    existsb (fun j : litem => (li_p j =? 0) && Nat.eqb (li_d j) 0) (ann_of 0) = true.
  Proof.
    pose proof Htc as H. unfold table_complete in H. repeat rewrite andb_true_iff in H. tauto.
  Qed.

  Lemma tc_first : first_closed g fst_tab nul_tab = true.
  Proof. exact (proj1 tc_unpack). Qed.

  Lemma tc_aug : aug_ok g = true.
  Proof. exact (proj1 (proj2 tc_unpack)). Qed.

  Lemma tc_states : states_complete g tb ann fst_tab nul_tab stop_id 0 ann = true.
  Proof. exact (proj1 (proj2 (proj2 tc_unpack))). Qed.

  Lemma tc_start : exists i0, In i0 (ann_of 0) /\ li_p i0 = 0 /\ li_d i0 = O.
  Proof.
    pose proof (proj2 (proj2 (proj2 tc_unpack))) as H.
    apply existsb_exists in H. destruct H as (j & Hj & H).
    apply andb_true_iff in H. destruct H as [H1 H2].
    apply N.eqb_eq in H1. apply Nat.eqb_eq in H2. exists j. auto.
  Qed.

  Lemma states_complete_nth k anns s its :
    states_complete g tb ann fst_tab nul_tab stop_id k anns = true ->
    nth_error anns s = Some its ->
    forall i, In i its -> item_ok (k + s) i = true.
  Proof.
    revert k s. induction anns as [|x r IH]; intros k s H Hn i Hi; [destruct s; discriminate|].
    cbn in H. apply andb_true_iff in H. destruct H as [Hx Hr].
    destruct s as [|s]; cbn in Hn.
    - inversion Hn; subst. rewrite Nat.add_0_r. rewrite forallb_forall in Hx. apply Hx. exact Hi.
    - replace (k + S s)%nat with (S k + s)%nat by lia. eapply IH; eassumption.
  Qed.

  Lemma item_ok_at s i : In i (ann_of s) -> item_ok s i = true.
  Proof.
    intros Hi. unfold TableComplete.ann_of in Hi.
    destruct (nth_error ann s) as [its|] eqn:E.
    - rewrite (nth_error_nth _ _ _ E) in Hi.
      exact (states_complete_nth 0 ann s its tc_states E i Hi).
    - apply nth_error_None in E. rewrite nth_overflow in Hi by exact E. destruct Hi.
  Qed.

  Lemma has_litem_spec s p d L :
    has_litem s p d L = true ->
    exists j, In j (ann_of s) /\ li_p j = p /\ li_d j = d /\ (forall x, In x L -> In x (eff_L j)).
  Proof.
    unfold TableComplete.has_litem. intros H. apply existsb_exists in H.
    destruct H as (j & Hj & H). apply andb_true_iff in H. destruct H as [H H3].
    apply andb_true_iff in H. destruct H as [H1 H2].
    apply N.eqb_eq in H1. apply Nat.eqb_eq in H2. exists j.
    split; [exact Hj|]. split; [exact H1|]. split; [exact H2|]. apply subset_spec. exact H3.
  Qed.

  (* ---- FIRST is sound for derivation trees ------------------------------ *)

  Lemma first_closed_prod p pr :
    get_prod g p = Some pr ->
    (forall x, In x (fst_seq (rhs pr)) -> In x (fst_nt fst_tab (lhs pr))) /\
    (nul_seq (rhs pr) = true -> nul_nt nul_tab (lhs pr) = true).
  Proof.
    intros Hp. pose proof tc_first as H. unfold first_closed in H. rewrite forallb_forall in H.
    unfold get_prod in Hp. apply nth_error_In in Hp. specialize (H pr Hp).
    apply andb_true_iff in H. destruct H as [H1 H2]. split.
    - apply subset_spec. exact H1.
    - intros Hn. rewrite Hn in H2. cbn in H2. exact H2.
  Qed.

  Definition first_fact (X : sym) (lv : list (N * N * N)) : Prop :=
    match lv with
    | [] => nul_sym X = true
    | (y, _, _) :: _ => In y (fst_sym X)
    end.

  Definition first_fact_seq (xs : list sym) (lv : list (N * N * N)) : Prop :=
    match lv with
    | [] => nul_seq xs = true
    | (y, _, _) :: _ => In y (fst_seq xs)
    end.

  Lemma first_seq_sound ts : forall xs,
    map (root_sym g) ts = map Some xs ->
    All (fun t => forall X, root_sym g t = Some X -> first_fact X (leaves t)) ts ->
    first_fact_seq xs (flat_map leaves ts).
  Proof.
    induction ts as [|t r IH]; intros xs Hroots Hall.
    - destruct xs; [reflexivity|discriminate].
    - destruct xs as [|x xs']; [discriminate|]. cbn [map] in Hroots. inversion Hroots as [[Hx Hr]].
      destruct Hall as [Ht Hrest]. specialize (Ht x Hx). specialize (IH xs' Hr Hrest).
      cbn [flat_map]. unfold first_fact_seq, first_fact in *.
      destruct (leaves t) as [|[[y s] e] lt]; cbn [app].
      + destruct (flat_map leaves r) as [|[[y s] e] lr].
        * cbn [TableComplete.nul_seq forallb]. rewrite Ht. exact IH.
        * cbn [TableComplete.fst_seq]. rewrite Ht. apply in_or_app. right. exact IH.
      + cbn [TableComplete.fst_seq]. apply in_or_app. left. exact Ht.
  Qed.

  Lemma first_sound t : wf_tree g t -> forall X, root_sym g t = Some X -> first_fact X (leaves t).
  Proof.
    induction t as [y s e|p s e cs IH] using tree_ind2; intros Hwf X HX.
    - cbn in HX. inversion HX; subst. cbn. left. reflexivity.
    - cbn [wf_tree] in Hwf. destruct Hwf as [(pr & Hp & Hroots) Hall].
      cbn [root_sym] in HX. rewrite Hp in HX. cbn in HX. inversion HX; subst X.
      assert (Hseq : first_fact_seq (rhs pr) (flat_map leaves cs)).
      { apply first_seq_sound; [exact Hroots|].
        apply All_In. intros c Hc. rewrite All_In in IH. rewrite All_In in Hall.
        apply IH; [exact Hc|apply Hall; exact Hc]. }
      destruct (first_closed_prod p pr Hp) as [H1 H2].
      cbn [leaves]. unfold first_fact, first_fact_seq in *.
      destruct (flat_map leaves cs) as [|[[y s'] e'] l].
      + cbn [TableComplete.nul_sym]. apply H2. exact Hseq.
      + cbn [TableComplete.fst_sym]. apply H1. exact Hseq.
  Qed.

  (* the lookahead after a suffix of a right-hand side *)
  Lemma la_after ts xs L rest :
    map (root_sym g) ts = map Some xs -> All (wf_tree g) ts ->
    In (la rest) L ->
    In (la (flat_map leaves ts ++ rest)) (fst_seq xs ++ (if nul_seq xs then L else [])).
  Proof.
    intros Hroots Hall Hla.
    assert (Hseq : first_fact_seq xs (flat_map leaves ts)).
    { apply first_seq_sound; [exact Hroots|]. apply All_In. intros c Hc X HX.
      rewrite All_In in Hall. apply first_sound; [apply Hall; exact Hc|exact HX]. }
    unfold first_fact_seq in Hseq. destruct (flat_map leaves ts) as [|[[y s] e] l]; cbn [app].
    - rewrite Hseq. apply in_or_app. right. exact Hla.
    - cbn. apply in_or_app. left. exact Hseq.
  Qed.

  (* ---- the main induction ------------------------------------------------ *)

  Definition P_tree (t : tree) : Prop :=
    wf_tree g t ->
    forall st i pr X rest,
      st <> [] ->
      In i (ann_of (top_state st)) -> get_prod g (li_p i) = Some pr ->
      nth_error (rhs pr) (li_d i) = Some X -> root_sym g t = Some X ->
      In (la rest) (after pr i) ->
      exists s' j,
        lsteps (st, leaves t ++ rest) ((s', t) :: st, rest) /\
        In j (ann_of s') /\ li_p j = li_p i /\ li_d j = S (li_d i) /\
        (forall x, In x (eff_L i) -> In x (eff_L j)).

  Lemma children_run ts :
    All P_tree ts -> All (wf_tree g) ts ->
    forall st i pr rest,
      st <> [] ->
      In i (ann_of (top_state st)) -> get_prod g (li_p i) = Some pr ->
      map (root_sym g) ts = map Some (skipn (li_d i) (rhs pr)) ->
      In (la rest) (eff_L i) ->
      exists st' j,
        lsteps (st, flat_map leaves ts ++ rest) (st' ++ st, rest) /\
        rev (map snd st') = ts /\ length st' = length ts /\
        In j (ann_of (top_state (st' ++ st))) /\ li_p j = li_p i /\
        li_d j = (li_d i + length ts)%nat /\
        (forall x, In x (eff_L i) -> In x (eff_L j)).
  Proof.
    induction ts as [|t r IH]; intros HP Hwf st i pr rest Hne Hi Hp Hroots Hla.
    - exists [], i. cbn. repeat split; auto; try lia. constructor.
    - destruct HP as [HPt HPr]. destruct Hwf as [Hwt Hwr].
      destruct (skipn (li_d i) (rhs pr)) as [|X xs] eqn:Hskip; [discriminate|].
      cbn [map] in Hroots. inversion Hroots as [[HX Hxs]].
      assert (Hnth : nth_error (rhs pr) (li_d i) = Some X).
      { clear -Hskip. revert Hskip. generalize (li_d i) as d. generalize (rhs pr) as l.
        induction l as [|a l IHl]; intros [|d] H; cbn in *; try discriminate.
        - inversion H; reflexivity.
        - apply IHl. exact H. }
      assert (Hxs' : skipn (S (li_d i)) (rhs pr) = xs).
      { clear -Hskip. revert Hskip. generalize (li_d i) as d. generalize (rhs pr) as l.
        induction l as [|a l IHl]; intros [|d] H; cbn in *; try discriminate.
        - inversion H; reflexivity.
        - apply IHl. exact H. }
      assert (Hla1 : In (la (flat_map leaves r ++ rest)) (after pr i)).
      { unfold TableComplete.after. rewrite Hxs'. apply la_after; assumption. }
      cbn [flat_map]. rewrite <- app_assoc.
      destruct (HPt Hwt st i pr X (flat_map leaves r ++ rest) Hne Hi Hp Hnth HX Hla1)
        as (s' & j1 & Hrun1 & Hj1 & Hp1 & Hd1 & HL1).
      assert (Hp' : get_prod g (li_p j1) = Some pr) by (rewrite Hp1; exact Hp).
      assert (Hroots' : map (root_sym g) r = map Some (skipn (li_d j1) (rhs pr))).
      { rewrite Hd1, Hxs'. exact Hxs. }
      destruct (IH HPr Hwr ((s', t) :: st) j1 pr rest ltac:(discriminate) Hj1 Hp' Hroots' (HL1 _ Hla))
        as (st' & j & Hrun2 & Hrev & Hlen & Hj & Hpj & Hdj & HL2).
      exists (st' ++ [(s', t)]), j. rewrite <- app_assoc. cbn [app].
      split; [eapply lsteps_trans; eassumption|].
      split; [rewrite map_app, rev_app_distr; cbn; rewrite Hrev; reflexivity|].
      split; [rewrite app_length; cbn; lia|].
      split; [exact Hj|]. split; [congruence|]. split; [cbn [length]; lia|].
      intros x Hx. apply HL2. apply HL1. exact Hx.
  Qed.

  Lemma aug_not_in_rhs p pr d pr0 :
    get_prod g 0 = Some pr0 -> get_prod g p = Some pr ->
    nth_error (rhs pr) d = Some (NT (lhs pr0)) -> False.
  Proof.
    intros H0 Hp Hn. pose proof tc_aug as Ha. unfold aug_ok in Ha. rewrite H0 in Ha.
    rewrite forallb_forall in Ha. unfold get_prod in Hp. apply nth_error_In in Hp.
    specialize (Ha pr Hp). rewrite forallb_forall in Ha. apply nth_error_In in Hn.
    specialize (Ha _ Hn). apply negb_true_iff in Ha.
    assert (sym_eqb (NT (lhs pr0)) (NT (lhs pr0)) = true) by (apply sym_eqb_eq; reflexivity).
    congruence.
  Qed.

  Lemma prods_of_In q prq : get_prod g q = Some prq -> In q (prods_of g (lhs prq)).
  Proof.
    intros Hq. unfold prods_of. apply in_map_iff. exists (N.to_nat q).
    split; [apply N2Nat.id|]. apply filter_In. split.
    - apply in_seq. unfold get_prod in Hq.
      assert (N.to_nat q < length g)%nat by (apply nth_error_Some; congruence). lia.
    - unfold get_prod in Hq. rewrite Hq. apply N.eqb_refl.
  Qed.

  Lemma tree_run t : P_tree t.
  Proof.
    induction t as [y s e|q s e cs IH] using tree_ind2; intros Hwf st i pr X rest Hne Hi Hp Hnth HX Hla.
    - cbn in HX. inversion HX; subst X.
      pose proof (item_ok_at _ _ Hi) as Hok. unfold TableComplete.item_ok in Hok.
      rewrite Hp, Hnth in Hok. apply existsb_exists in Hok. destruct Hok as (act & Hact & Hok).
      destruct act as [s'| |]; try discriminate.
      destruct (has_litem_spec _ _ _ _ Hok) as (j & Hj & Hpj & Hdj & HL).
      exists s', j. split; [|auto].
      cbn [leaves app]. econstructor; [|constructor]. constructor. exact Hact.
    - cbn [wf_tree] in Hwf. destruct Hwf as [(prq & Hq & Hroots) Hall].
      cbn [root_sym] in HX. rewrite Hq in HX. cbn in HX. inversion HX; subst X.
      pose proof (item_ok_at _ _ Hi) as Hok. unfold TableComplete.item_ok in Hok.
      rewrite Hp, Hnth in Hok. apply andb_true_iff in Hok. destruct Hok as [Hgoto Hclos].
      destruct (goto tb (top_state st) (lhs prq)) as [s'|] eqn:Hg; [|discriminate].
      destruct (has_litem_spec _ _ _ _ Hgoto) as (j & Hj & Hpj & Hdj & HL).
      rewrite forallb_forall in Hclos. specialize (Hclos q (prods_of_In q prq Hq)).
      destruct (has_litem_spec _ _ _ _ Hclos) as (j0 & Hj0 & Hpj0 & Hdj0 & HL0).
      assert (Hq0 : get_prod g (li_p j0) = Some prq) by (rewrite Hpj0; exact Hq).
      assert (Hr0 : map (root_sym g) cs = map Some (skipn (li_d j0) (rhs prq))).
      { rewrite Hdj0. exact Hroots. }
      destruct (children_run cs IH Hall st j0 prq rest Hne Hj0 Hq0 Hr0 (HL0 _ Hla))
        as (st' & jf & Hrun & Hrev & Hlen & Hjf & Hpjf & Hdjf & HLf).
      (* the final item has the dot at the end: reduce *)
      assert (Hlen_rhs : length cs = length (rhs prq)).
      { rewrite <- (map_length (root_sym g) cs), Hroots, map_length. reflexivity. }
      pose proof (item_ok_at _ _ Hjf) as Hokf. unfold TableComplete.item_ok in Hokf.
      rewrite Hpjf, Hq0 in Hokf.
      assert (Hend : nth_error (rhs prq) (li_d jf) = None).
      { apply nth_error_None. rewrite Hdjf, Hdj0. lia. }
      rewrite Hend in Hokf.
      assert (Hq_ne : li_p j0 =? 0 = false).
      { apply N.eqb_neq. intros Hz.
        assert (Hq' : get_prod g 0 = Some prq) by (rewrite <- Hz, Hpj0; exact Hq).
        eapply (aug_not_in_rhs _ pr (li_d i) prq Hq' Hp). exact Hnth. }
      rewrite Hq_ne in Hokf. rewrite forallb_forall in Hokf.
      specialize (Hokf (la rest) (HLf _ (HL0 _ Hla))).
      apply existsb_exists in Hokf. destruct Hokf as (act & Hact & Hae).
      destruct act as [|p'|]; try discriminate. cbn in Hae. apply N.eqb_eq in Hae. subst p'.
      exists s', j. split; [|auto].
      cbn [leaves]. eapply lsteps_trans; [exact Hrun|].
      assert (Hstep : lstep g tb stop_id (st' ++ st, rest) ((s', TNode q s e cs) :: st, rest)).
      { rewrite <- Hrev, <- Hpj0.
        apply (ls_reduce g tb stop_id (st' ++ st) rest (li_p j0) prq st' st s' s e);
          [exact Hact|exact Hq0|reflexivity|lia|exact Hne|exact Hg]. }
      econstructor; [exact Hstep|constructor].
  Qed.

  (* ---- the theorem -------------------------------------------------------- *)

  Theorem lr_machine_complete start d t :
    (exists pr0, get_prod g 0 = Some pr0 /\ rhs pr0 = [NT start]) ->
    wf_tree g t -> root_sym g t = Some (NT start) ->
    exists st, lsteps ([(O, d)], leaves t) (st, []) /\ laccepts tb stop_id st t.
  Proof.
    intros (pr0 & Hp0 & Hr0) Hwf Hroot.
    destruct tc_start as (i0 & Hi0 & Hip & Hid).
    assert (Hp : get_prod g (li_p i0) = Some pr0) by (rewrite Hip; exact Hp0).
    assert (Hnth : nth_error (rhs pr0) (li_d i0) = Some (NT start)) by (rewrite Hid, Hr0; reflexivity).
    assert (Hla : In (la []) (after pr0 i0)).
    { unfold TableComplete.after. rewrite Hid, Hr0. cbn. unfold TableComplete.eff_L.
      rewrite Hip. cbn. left. reflexivity. }
    destruct (tree_run t Hwf [(O, d)] i0 pr0 (NT start) [] ltac:(discriminate) Hi0 Hp Hnth Hroot Hla)
      as (s' & j & Hrun & Hj & Hpj & Hdj & _).
    rewrite app_nil_r in Hrun.
    exists [(s', t); (O, d)]. split; [exact Hrun|].
    pose proof (item_ok_at _ _ Hj) as Hok. unfold TableComplete.item_ok in Hok.
    rewrite Hpj, Hp, Hdj, Hid, Hr0 in Hok. cbn [nth_error] in Hok. rewrite Hip in Hok. cbn in Hok.
    apply existsb_exists in Hok. destruct Hok as (act & Hact & Hae).
    destruct act; try discriminate.
    split; [exact Hact|]. exists s'. reflexivity.
  Qed.
End Complete.
