(* Round trip of the table persistence model (Model/Persist.v). *)
From Coq Require Import NArith List Bool Lia.
From PV Require Import Gen.Consts Model.Persist.
Import ListNotations.
Local Open Scope N_scope.

Lemma mem_In : forall n l, mem n l = true <-> In n l.
Proof.
  intros n l. unfold mem. rewrite existsb_exists. split.
  - intros [x [Hin Heq]]. apply N.eqb_eq in Heq. subst. exact Hin.
  - intros Hin. exists n. split; [exact Hin | apply N.eqb_refl].
Qed.

Lemma mem_false_In : forall n l, mem n l = false <-> ~ In n l.
Proof.
  intros n l. rewrite <- mem_In. destruct (mem n l); split; intros H; try discriminate; auto.
  exfalso. apply H. reflexivity.
Qed.

Lemma nodupb_NoDup : forall l, nodupb l = true -> NoDup l.
Proof.
  induction l as [|x r IH]; simpl; intros H.
  - constructor.
  - apply andb_true_iff in H. destruct H as [Hx Hr].
    apply negb_true_iff in Hx. apply mem_false_In in Hx.
    constructor; auto.
Qed.

Lemma dict_set_fresh : forall (V : Type) k (v : V) l,
    ~ In k (map fst l) -> dict_set k v l = l ++ [(k, v)].
Proof.
  intros V k v l. induction l as [|[k' v'] r IH]; simpl; intros Hn.
  - reflexivity.
  - destruct (k =? k') eqn:E.
    + apply N.eqb_eq in E. subst. exfalso. apply Hn. left. reflexivity.
    + rewrite IH; [reflexivity|]. intros Hin. apply Hn. right. exact Hin.
Qed.

Lemma dump_action_rt : forall g ids a,
    action_wfb g ids a = true -> load_action g ids (dump_action a) = Ok a.
Proof.
  intros g ids [k s p] H. unfold action_wfb in H. simpl in H.
  apply andb_true_iff in H. destruct H as [Hs Hp].
  unfold load_action, dump_action. simpl.
  destruct s as [s|]; destruct p as [p|]; simpl in *;
    try rewrite Hs; try rewrite Hp; reflexivity.
Qed.

Lemma dump_actions_rt : forall g ids l,
    forallb (action_wfb g ids) l = true ->
    load_actions g ids (map dump_action l) = Ok l.
Proof.
  intros g ids l. induction l as [|a r IH]; simpl; intros H.
  - reflexivity.
  - apply andb_true_iff in H. destruct H as [Ha Hr].
    rewrite (dump_action_rt _ _ _ Ha). simpl. rewrite (IH Hr). reflexivity.
Qed.

Lemma get_terminal_known : forall g n,
    mem n (map fst (pg_terms g)) = true -> get_terminal g n = n.
Proof. intros g n H. unfold get_terminal. rewrite H. reflexivity. Qed.

Lemma get_nonterminal_known : forall g n,
    mem n (pg_nonterms g) = true -> get_nonterminal g n = n.
Proof. intros g n H. unfold get_nonterminal. rewrite H. reflexivity. Qed.

Lemma load_cells_rt : forall g ids (l acc : list (name * list paction)),
    forallb (fun ta => mem (fst ta) (map fst (pg_terms g))
                       && forallb (action_wfb g ids) (snd ta)) l = true ->
    NoDup (map fst acc ++ map fst l) ->
    load_cells g ids (map (fun ta : name * list paction =>
                             (fst ta, map dump_action (snd ta))) l) acc
    = Ok (acc ++ l).
Proof.
  intros g ids l. induction l as [|[n acts] r IH]; simpl; intros acc Hall Hnd.
  - rewrite app_nil_r. reflexivity.
  - apply andb_true_iff in Hall. destruct Hall as [Hc Hr].
    apply andb_true_iff in Hc. destruct Hc as [Hn Ha]. simpl in Hn, Ha.
    rewrite (dump_actions_rt _ _ _ Ha). simpl.
    rewrite (get_terminal_known _ _ Hn).
    pose proof (NoDup_remove_2 _ _ _ Hnd) as Hfresh.
    rewrite dict_set_fresh.
    + rewrite IH.
      * rewrite <- app_assoc. reflexivity.
      * exact Hr.
      * rewrite map_app. simpl. rewrite <- app_assoc. simpl. exact Hnd.
    + intros Hin. apply Hfresh. apply in_or_app. left. exact Hin.
Qed.

Lemma load_gotos_rt : forall g ids (l acc : list (name * N)),
    forallb (fun ns => mem (fst ns) (pg_nonterms g) && mem (snd ns) ids) l = true ->
    NoDup (map fst acc ++ map fst l) ->
    load_gotos g ids l acc = Ok (acc ++ l).
Proof.
  intros g ids l. induction l as [|[n s] r IH]; simpl; intros acc Hall Hnd.
  - rewrite app_nil_r. reflexivity.
  - apply andb_true_iff in Hall. destruct Hall as [Hc Hr].
    apply andb_true_iff in Hc. destruct Hc as [Hn Hs]. simpl in Hn, Hs.
    rewrite Hs. rewrite (get_nonterminal_known _ _ Hn).
    pose proof (NoDup_remove_2 _ _ _ Hnd) as Hfresh.
    rewrite dict_set_fresh.
    + rewrite IH.
      * rewrite <- app_assoc. reflexivity.
      * exact Hr.
      * rewrite map_app. simpl. rewrite <- app_assoc. simpl. exact Hnd.
    + intros Hin. apply Hfresh. apply in_or_app. left. exact Hin.
Qed.

Lemma dump_state_rt : forall g ids s,
    state_wfb g ids s = true -> load_state g ids (dump_state s) = Ok s.
Proof.
  intros g ids [i y acts gts fin] H. unfold state_wfb in H. simpl in H.
  repeat (apply andb_true_iff in H; destruct H as [H ?]).
  unfold load_state, dump_state. simpl.
  rewrite (load_cells_rt g ids acts []).
  - simpl. rewrite (load_gotos_rt g ids gts []).
    + simpl. apply N.eqb_eq in H. rewrite H. reflexivity.
    + exact H0.
    + simpl. apply nodupb_NoDup. exact H1.
  - exact H2.
  - simpl. apply nodupb_NoDup. exact H3.
Qed.

Lemma dump_states_rt : forall g ids t,
    forallb (state_wfb g ids) t = true -> load_states g ids (to_ser t) = Ok t.
Proof.
  intros g ids t. induction t as [|s r IH]; simpl; intros H.
  - reflexivity.
  - apply andb_true_iff in H. destruct H as [Hs Hr].
    rewrite (dump_state_rt _ _ _ Hs). simpl. rewrite (IH Hr). reflexivity.
Qed.

Lemma to_ser_ids : forall t, map js_id (to_ser t) = map ps_id t.
Proof.
  intros t. unfold to_ser. rewrite map_map. apply map_ext. intros s. reflexivity.
Qed.

Lemma unpack_to_ser : forall g t,
    forallb (state_wfb g (map ps_id t)) t = true -> unpack g (to_ser t) = Ok t.
Proof.
  intros g t H. unfold unpack. rewrite to_ser_ids. apply dump_states_rt. exact H.
Qed.

(* the round trip: loading what was saved gives back the table itself *)
Lemma from_ser_to_ser : forall g t,
    table_wfb g t = true -> from_ser g (to_ser t) = Ok t.
Proof.
  intros g t H. unfold table_wfb in H. apply andb_true_iff in H. destruct H as [Hs Hm].
  unfold from_ser. rewrite (unpack_to_ser _ _ Hs). simpl.
  destruct (calc_marks g t); [reflexivity | discriminate].
Qed.

(* the statement of C12's round-trip clause, spelled out *)
Lemma roundtrip_full : forall g t,
    table_wfb g t = true ->
    exists t',
      from_ser g (to_ser t) = Ok t' /\
      map ps_actions t' = map ps_actions t /\
      map ps_gotos t' = map ps_gotos t /\
      map ps_finish t' = map ps_finish t /\
      calc_marks g t' = calc_marks g t /\
      to_ser t' = to_ser t.
Proof.
  intros g t H. exists t. rewrite (from_ser_to_ser _ _ H). repeat split; reflexivity.
Qed.

(* loading never invents content: whatever a load returns, saving it again and
   loading that is a fixed point (second-generation caches are stable) *)
Lemma load_action_dump : forall g ids a a',
    load_action g ids a = Ok a' -> dump_action a' = a.
Proof.
  intros g ids [k s p] a' H. unfold load_action in H. simpl in H.
  destruct s as [s|]; destruct p as [p|];
    repeat match type of H with
           | context [if ?c then _ else _] => destruct c
           end; inversion H; reflexivity.
Qed.
