(* C08 for the LR driver model: every tree it returns has well-formed spans
   (start <= end everywhere, a node spans from its first to its last child, siblings in
   input order without overlap, empty nodes have start = end). *)
From Coq Require Import NArith List Bool Lia Arith.
From PV Require Import Spec.Cfg Model.Table Model.LRDriver Proofs.ForestSoundProofs.
Import ListNotations.
Local Open Scope N_scope.

(* top-first stack: each entry starts at or after the end of the one below it *)
Fixpoint sorted (stk : list entry) : Prop :=
  match stk with
  | u :: ((l :: _) as r) => t_end (e_tree l) <= t_start (e_tree u) /\ sorted r
  | _ => True
  end.

Definition stack_good (stk : list entry) : Prop :=
  All (fun e => spans_ok (e_tree e)) stk /\ sorted stk.

Definition lr_inv (s : lrstate) : Prop :=
  stack_good (l_stack s) /\
  match l_stack s with top :: _ => t_end (e_tree top) <= e_pos top | [] => True end.

Lemma sorted_tail u r : sorted (u :: r) -> sorted r.
Proof. destruct r; cbn; tauto. Qed.

Lemma sorted_skipn n stk : sorted stk -> sorted (skipn n stk).
Proof.
  revert stk. induction n as [|n IH]; intros stk H; [exact H|].
  destruct stk as [|u r]; [exact I|]. cbn [skipn]. apply IH. eapply sorted_tail; eauto.
Qed.

Lemma sorted_firstn n stk : sorted stk -> sorted (firstn n stk).
Proof.
  revert stk. induction n as [|n IH]; intros stk H; [exact I|].
  destruct stk as [|u r]; [exact I|]. cbn [firstn].
  destruct n as [|n']; [destruct r; exact I|].
  destruct r as [|l r']; [exact I|].
  cbn [sorted] in H. destruct H as [H1 H2].
  specialize (IH (l :: r') H2). cbn [firstn] in IH |- *. cbn [sorted]. split; assumption.
Qed.

Lemma All_firstn {X} (P : X -> Prop) n l : All P l -> All P (firstn n l).
Proof.
  revert l. induction n as [|n IH]; intros l H; [exact I|]. destruct l as [|x r]; [exact I|].
  cbn. destruct H. split; auto.
Qed.

Lemma All_skipn {X} (P : X -> Prop) n l : All P l -> All P (skipn n l).
Proof.
  revert l. induction n as [|n IH]; intros l H; [exact H|]. destruct l as [|x r]; [exact I|].
  cbn. destruct H. auto.
Qed.

Lemma last_default_irrel {X} (l : list X) d1 d2 : l <> [] -> last l d1 = last l d2.
Proof.
  induction l as [|a r IH]; intros H; [congruence|].
  destruct r as [|b r']; [reflexivity|]. cbn [last] in *. apply IH. discriminate.
Qed.

(* the boundary between the popped part and the rest *)
Lemma sorted_boundary n stk d r0 rest :
  sorted stk -> skipn n stk = r0 :: rest ->
  forall dp, last (firstn n stk) d = dp -> firstn n stk <> [] ->
  t_end (e_tree r0) <= t_start (e_tree dp).
Proof.
  revert stk. induction n as [|n IH]; intros stk Hs Hsk dp Hl Hne; [cbn in Hne; congruence|].
  destruct stk as [|u r]; [discriminate|]. cbn [skipn firstn] in *.
  destruct n as [|n'].
  - cbn in Hsk. subst r. cbn in Hl. subst dp. cbn [sorted] in Hs. tauto.
  - destruct r as [|l r']; [discriminate|].
    assert (Hne' : firstn (S n') (l :: r') <> []) by (cbn; discriminate).
    apply (IH (l :: r') (sorted_tail _ _ Hs) Hsk dp); [|exact Hne'].
    rewrite <- Hl. rewrite last_cons_default. apply last_default_irrel. exact Hne'.
Qed.

(* children of a reduction, in input order *)
Lemma ordered_rev popped :
  sorted popped -> ordered_t (rev (map e_tree popped)).
Proof.
  induction popped as [|u r IH]; intros Hs; [exact I|].
  cbn [map rev]. specialize (IH (sorted_tail _ _ Hs)).
  destruct r as [|l r']; [exact I|].
  cbn [sorted] in Hs. destruct Hs as [Hlu _].
  (* rev (map e_tree (l :: r')) ends with e_tree l *)
  cbn [map rev] in *.
  remember (rev (map e_tree r')) as pre.
  clear Heqpre. induction pre as [|a pre IHp]; cbn [app] in *.
  - split; [exact Hlu|exact I].
  - destruct pre as [|b pre']; cbn [app] in *.
    + destruct IH as [H1 _]. split; [exact H1|]. split; [exact Hlu|exact I].
    + destruct IH as [H1 H2]. split; [exact H1|]. apply IHp. exact H2.
Qed.

Lemma chain_le popped d :
  sorted popped -> All (fun e => spans_ok (e_tree e)) popped -> popped <> [] ->
  t_start (e_tree (last popped d)) <= t_end (e_tree (hd d popped)).
Proof.
  induction popped as [|u r IH]; intros Hs Ha Hne; [congruence|].
  destruct Ha as [Hu Hr]. pose proof (spans_le _ Hu) as Hle.
  destruct r as [|l r']; [cbn; exact Hle|].
  cbn [sorted] in Hs. destruct Hs as [Hlu Hs'].
  assert (Hne' : l :: r' <> []) by discriminate.
  specialize (IH Hs' Hr Hne'). rewrite last_cons_default. cbn [hd] in *.
  change (last (l :: r') u) with (last (l :: r') u).
  rewrite last_cons_default. rewrite last_cons_default in IH.
  destruct Hr as [Hl _]. pose proof (spans_le _ Hl). lia.
Qed.

Section LRSpans.
  Variable g : grammar.
  Variable tb : table.
  Variable skipws : N -> option N.
  Variable next_token : nat -> N -> tokres.
  Variable stop_id : N.
  Variable consume_input in_layout : bool.
  (* layout skipping never moves backwards *)
  Hypothesis skip_mono : forall p q, skipws p = Some q -> p <= q.

  Notation step := (lr_step g tb skipws next_token stop_id consume_input in_layout).
  Notation run := (lr_run g tb skipws next_token stop_id consume_input in_layout).

  Definition out_inv (o : outcome) : Prop :=
    match o with
    | Continue s' => lr_inv s'
    | Done (LROk t _ _ _) => spans_ok t
    | Done _ => True
    end.

  Lemma hd_rev_last {X} (l : list X) d : hd d (rev l) = last l d.
  Proof.
    induction l as [|a r IH]; [reflexivity|]. cbn [rev].
    destruct r as [|b r']; [reflexivity|].
    rewrite last_cons_default, (last_default_irrel (b :: r') a d) by discriminate.
    rewrite <- IH. cbn [rev].
    destruct (rev r' ++ [b]) eqn:E; [destruct (rev r'); discriminate|reflexivity].
  Qed.

  Lemma do_reduce_inv tr stk pos1 lay1 ah p pr :
    stack_good stk ->
    match stk with top :: _ => t_end (e_tree top) <= pos1 | [] => True end ->
    out_inv (do_reduce tb tr stk pos1 lay1 ah p pr).
  Proof.
    intros [Hall Hsorted] Hpos. unfold do_reduce.
    set (n := length (rhs pr)).
    destruct (Nat.eqb (length (firstn n stk)) n) eqn:Hlen; cbn [negb]; [|exact I].
    apply Nat.eqb_eq in Hlen.
    destruct (skipn n stk) as [|r0 rest] eqn:Hrest; [exact I|].
    destruct (goto tb (e_state r0) (lhs pr)) as [s'|]; [|exact I].
    destruct stk as [|top below]; [destruct n; cbn in Hrest; discriminate|].
    set (popped := firstn n (top :: below)) in *.
    destruct (rev popped) as [|deepest rp] eqn:Hrev.
    - (* empty reduction *)
      assert (popped = []) by (destruct popped; [reflexivity|cbn in Hrev; destruct (rev popped); discriminate]).
      assert (n = O) by (rewrite H in Hlen; cbn in Hlen; lia).
      subst popped. rewrite H0 in Hrest. cbn in Hrest. inversion Hrest; subst r0 rest.
      rewrite H. cbn [map rev]. cbv beta iota zeta. unfold out_inv, lr_inv, stack_good; cbn [l_stack].
      split; [split|].
      + cbn [All e_tree]. split; [|exact Hall]. cbn. split; [lia|]. split; [reflexivity|exact I].
      + cbn [sorted e_tree t_start t_end]. split; [lia|exact Hsorted].
      + cbn [e_tree e_pos t_end]. exact Hpos.
    - (* proper reduction *)
      assert (Hne : popped <> []) by (intros E; rewrite E in Hrev; discriminate).
      assert (Hdeep : deepest = last popped top).
      { rewrite <- (hd_rev_last popped top), Hrev. reflexivity. }
      unfold out_inv, lr_inv, stack_good; cbn [l_stack].
      assert (Hp_all : All (fun e => spans_ok (e_tree e)) popped) by (apply All_firstn; exact Hall).
      assert (Hp_sorted : sorted popped) by (apply sorted_firstn; exact Hsorted).
      assert (Hr_all : All (fun e => spans_ok (e_tree e)) (r0 :: rest))
        by (rewrite <- Hrest; apply All_skipn; exact Hall).
      assert (Hr_sorted : sorted (r0 :: rest)) by (rewrite <- Hrest; apply sorted_skipn; exact Hsorted).
      assert (Htop : hd top popped = top).
      { unfold popped. destruct n; [cbn in Hne; congruence|reflexivity]. }
      pose proof (chain_le popped top Hp_sorted Hp_all Hne) as Hchain. rewrite Htop, <- Hdeep in Hchain.
      pose proof (sorted_boundary n (top :: below) top r0 rest Hsorted Hrest deepest
                                  (eq_sym Hdeep) Hne) as Hbound.
      assert (Hcs : rev (map e_tree popped) = e_tree deepest :: map e_tree rp).
      { rewrite <- map_rev, Hrev. reflexivity. }
      assert (Hlast : last (map e_tree rp) (e_tree deepest) = e_tree top).
      { assert (E : last (e_tree deepest :: map e_tree rp) (e_tree deepest) = e_tree top).
        { rewrite <- Hcs. unfold popped. destruct n as [|n']; [cbn in Hne; congruence|].
          cbn [firstn map rev]. apply last_last. }
        rewrite last_cons_default in E. exact E. }
      rewrite Hcs.
      split; [split|].
      + cbn [All e_tree]. split; [|exact Hr_all].
        cbn [spans_ok]. split; [exact Hchain|]. split.
        * split; [reflexivity|]. split.
          -- rewrite last_cons_default, Hlast. reflexivity.
          -- rewrite <- Hcs. apply ordered_rev. exact Hp_sorted.
        * rewrite <- Hcs. apply All_In. intros c Hc. apply in_rev in Hc. apply in_map_iff in Hc.
          destruct Hc as (e0 & <- & He0).
          rewrite All_In in Hp_all. apply Hp_all. exact He0.
      + cbn [sorted e_tree t_start]. split; [exact Hbound|exact Hr_sorted].
      + cbn [e_tree e_pos t_end]. exact Hpos.
  Qed.

  Lemma do_action_inv tr stk lay1 scan fb acts :
    stack_good stk ->
    match stk with top :: _ => t_end (e_tree top) <= e_pos top | [] => True end ->
    out_inv (do_action g tb tr stk lay1 scan fb acts).
  Proof.
    intros Hgood Hpos. unfold do_action.
    destruct stk as [|top below]; [exact I|].
    destruct acts as [|act more]; [exact I|].
    destruct act as [s'|p0|].
    - destruct scan as [|y len|]; try exact I. destruct fb; [exact I|].
      unfold out_inv, lr_inv, stack_good; cbn [l_stack]. destruct Hgood as [Hall Hs].
      split; [split|].
      + cbn [All e_tree spans_ok]. split; [lia|exact Hall].
      + cbn [sorted e_tree t_start]. split; [exact Hpos|exact Hs].
      + cbn. lia.
    - destruct (select_prod g p0 more) as [[p pr]|]; [|exact I].
      apply do_reduce_inv; assumption.
    - destruct (nth_error (rev (top :: below)) 1) as [r|] eqn:Hn; [|exact I].
      cbn [out_inv]. destruct Hgood as [Hall _]. apply nth_error_In in Hn. apply in_rev in Hn.
      rewrite All_In in Hall. apply Hall. exact Hn.
  Qed.

  Lemma step_inv s : lr_inv s -> out_inv (step s).
  Proof.
    intros [Hgood Hpos]. unfold lr_step.
    destruct (l_stack s) as [|top0 below] eqn:Hstk; [exact I|].
    destruct (lookahead skipws next_token in_layout s top0) as [[[top lay1] scan]|] eqn:Hla; [|exact I].
    assert (Htop : e_tree top = e_tree top0 /\ e_pos top0 <= e_pos top).
    { unfold lookahead in Hla. destruct (l_ahead s).
      - inversion Hla; subst. split; [reflexivity|lia].
      - destruct in_layout.
        + inversion Hla; subst. split; [reflexivity|lia].
        + destruct (skipws (e_pos top0)) as [p1|] eqn:Hsk; [|discriminate].
          inversion Hla; subst. split; [reflexivity|]. cbn. apply skip_mono. exact Hsk. }
    destruct Htop as [Htt Htp].
    assert (Hgood' : stack_good (top :: below)).
    { destruct Hgood as [Hall Hs]. split.
      - cbn [All] in *. rewrite Htt. exact Hall.
      - destruct below as [|l r]; [exact I|]. cbn [sorted] in *. rewrite Htt. exact Hs. }
    assert (Hpos' : t_end (e_tree top) <= e_pos top) by (rewrite Htt; lia).
    destruct scan as [|y len|]; [| |exact I].
    - destruct consume_input; apply do_action_inv; assumption.
    - destruct (cell tb (e_state top) y); [destruct consume_input|]; apply do_action_inv; assumption.
  Qed.

  Lemma run_inv fuel : forall s t rp lay tr,
    lr_inv s -> run fuel s = LROk t rp lay tr -> spans_ok t.
  Proof.
    induction fuel as [|f IH]; intros s t rp lay tr Hinv Hrun; cbn [lr_run] in Hrun; [discriminate|].
    pose proof (step_inv s Hinv) as Hs. destruct (step s) as [s'|r].
    - eapply IH; eassumption.
    - subst r. exact Hs.
  Qed.

  Theorem lr_spans fuel pos t rp lay tr :
    lr_parse g tb skipws next_token stop_id consume_input in_layout fuel pos = LROk t rp lay tr ->
    spans_ok t.
  Proof.
    intros H. unfold lr_parse in H. eapply run_inv; [|exact H].
    unfold lr_init, lr_inv, stack_good. cbn. repeat split; lia.
  Qed.
End LRSpans.
