(* Refutation witnesses of the GLR driver model (Model/GLR.v): the faithful model reproduces
   the recorded defects of the implementation on the witnesses of known_findings.json.
   Data: Proofs/GLRWitnessData.v (generated); every claim is re-established here by
   computation inside Coq. *)
From Coq Require Import NArith Arith List Bool Lia.
From PV Require Import Spec.Cfg Model.Table Model.Forest Model.ForestGraph Model.Scan Model.Parser
  Model.GLR Validators.TableStruct Validators.ForestSound Spec.GLRSpec
  Proofs.ForestSoundProofs Proofs.ForestGraphProofs Proofs.GLRWitnessData.
Import ListNotations.
Local Open Scope N_scope.

Definition wfuel : nat := N.to_nat 100000.

(* valid_parse is the verified single-tree checker: its meaning *)
Lemma valid_parse_sound c inp start pos0 t :
  valid_parse c inp start pos0 t = true ->
  wf_tree (pc_g c) t /\ root_sym (pc_g c) t = Some (NT start) /\
  chain_ok (skip_ws (pc_ws c) inp) (leaves t) /\ All (leaf_ok (tokok_of inp)) (leaves t) /\
  match bounds (leaves t) with
  | None => pc_consume c = true -> skip_ws (pc_ws c) inp pos0 = in_len inp
  | Some (fs, le) => fs = skip_ws (pc_ws c) inp pos0 /\ le <= in_len inp /\
                     (pc_consume c = true -> skip_ws (pc_ws c) inp le = in_len inp)
  end.
Proof.
  unfold valid_parse. intros H.
  destruct (tsum (pc_g c) (tokok_of inp) (skip_ws (pc_ws c) inp) false t) as [sm|] eqn:Hsm; [|discriminate].
  destruct (tsum_sound _ _ _ _ t sm Hsm) as (Hwf & Hrs & _ & Hch & Hb & Hlf).
  unfold root_ok in H. apply andb_true_iff in H. destruct H as [Hsym Hfl].
  apply sym_eqb_eq in Hsym. rewrite Hsym in Hrs.
  split; [exact Hwf|]. split; [exact Hrs|]. split; [exact Hch|]. split; [exact Hlf|].
  rewrite Hb. destruct (sm_fl sm) as [[fs le]|].
  - apply andb_true_iff in Hfl. destruct Hfl as [Hfl Hle].
    apply andb_true_iff in Hfl. destruct Hfl as [Hfs Hcons].
    apply N.eqb_eq in Hfs. apply N.leb_le in Hle. split; [exact Hfs|]. split; [exact Hle|].
    intros Hc. rewrite Hc in Hcons. cbn in Hcons. apply N.eqb_eq in Hcons. exact Hcons.
  - intros Hc. rewrite Hc in Hfl. cbn in Hfl. apply N.eqb_eq in Hfl. exact Hfl.
Qed.

(* ---- lost derivations (KF-C02-lost-derivations, KF-C17-lost-derivations) ----------------- *)

Definition lost_check (c : pconf) (inp : pinput) (start : N) (ts : list tree) : bool :=
  match glr_parse_full c inp wfuel 0 with
  | GLRForest nodes root =>
      forallb (fun t => valid_parse c inp start 0 t &&
                        negb (shape_in (glr_forest nodes root) t (length nodes))) ts
  | _ => false
  end.

Lemma lost_bool :
  table_struct lost_g lost_tb lost_start = true /\
  lost_check lost_conf lost_inp lost_start lost_missing = true /\ length lost_missing = 2%nat.
Proof. vm_compute. repeat split. Qed.

Lemma plost_bool :
  table_struct plost_g plost_tb plost_start = true /\
  lost_check plost_conf plost_inp plost_start plost_missing = true /\ length plost_missing = 2%nat.
Proof. vm_compute. repeat split. Qed.

Lemma lost_check_sound c inp start ts :
  lost_check c inp start ts = true ->
  exists nodes root,
    glr_parse_full c inp wfuel 0 = GLRForest nodes root /\
    forall t, In t ts ->
      valid_parse c inp start 0 t = true /\
      forall t', unfolds (glr_forest nodes root) (pred (length (glr_forest nodes root))) t' ->
                 shape t' <> shape t.
Proof.
  unfold lost_check. destruct (glr_parse_full c inp wfuel 0) as [nodes root| | | |]; try discriminate.
  intros H. exists nodes, root. split; [reflexivity|]. intros t Ht.
  rewrite forallb_forall in H. specialize (H t Ht). apply andb_true_iff in H. destruct H as [Hv Hn].
  split; [exact Hv|]. apply negb_true_iff in Hn.
  replace (pred (length (glr_forest nodes root))) with (length nodes)
    by (unfold glr_forest; rewrite app_length; cbn; lia).
  apply shape_in_false. exact Hn.
Qed.

(* the statement used by C02 and C17 *)
Definition model_loses (consume : bool) : Prop :=
  exists (c : pconf) (inp : pinput) (fuel : nat) (start : N) (nodes : forest) (root : nat) (t : tree),
    pc_consume c = consume /\
    table_struct (pc_g c) (pc_tb c) start = true /\
    glr_parse_full c inp fuel 0 = GLRForest nodes root /\
    valid_parse c inp start 0 t = true /\
    wf_tree (pc_g c) t /\ root_sym (pc_g c) t = Some (NT start) /\
    forall t', unfolds (glr_forest nodes root) (pred (length (glr_forest nodes root))) t' ->
               shape t' <> shape t.

Lemma model_loses_of c inp start ts t0 :
  table_struct (pc_g c) (pc_tb c) start = true ->
  lost_check c inp start ts = true -> In t0 ts -> model_loses (pc_consume c).
Proof.
  intros Hts H Hin. destruct (lost_check_sound _ _ _ _ H) as (nodes & root & Hrun & Hall).
  destruct (Hall t0 Hin) as [Hv Hno].
  destruct (valid_parse_sound _ _ _ _ _ Hv) as (Hwf & Hrs & _).
  exists c, inp, wfuel, start, nodes, root, t0.
  split; [reflexivity|]. split; [exact Hts|]. split; [exact Hrun|]. split; [exact Hv|].
  split; [exact Hwf|]. split; [exact Hrs|exact Hno].
Qed.

Theorem glr_model_lost : model_loses true.
Proof.
  destruct lost_bool as (Hts & Hl & _).
  apply (model_loses_of lost_conf lost_inp lost_start lost_missing (hd (TLeaf 0 0 0) lost_missing));
    [exact Hts|exact Hl|left; reflexivity].
Qed.

Theorem glr_model_prefix_lost : model_loses false.
Proof.
  destruct plost_bool as (Hts & Hl & _).
  apply (model_loses_of plost_conf plost_inp plost_start plost_missing (hd (TLeaf 0 0 0) plost_missing));
    [exact Hts|exact Hl|left; reflexivity].
Qed.

(* ---- duplicate packing (KF-C03-duplicate-packing, KF-C17-duplicate-derivations) ---------- *)

Definition dup_check (c : pconf) (inp : pinput) (k : nat) : bool :=
  match glr_parse_full c inp wfuel 0 with
  | GLRForest nodes root =>
      negb (nodup_alts (nth k nodes [])) && existsb (Nat.eqb k) (reach_from nodes 64 [root])
  | _ => false
  end.

Lemma dup_bool :
  table_struct dup_g dup_tb dup_start = true /\ dup_check dup_conf dup_inp dup_node = true.
Proof. vm_compute. split; reflexivity. Qed.

Lemma pdup_bool :
  table_struct pdup_g pdup_tb pdup_start = true /\ dup_check pdup_conf pdup_inp pdup_node = true.
Proof. vm_compute. split; reflexivity. Qed.

(* a packed node reachable from the root holds the same alternative twice: the trees through
   it are enumerated (and counted by len(forest)) twice *)
Definition model_duplicates (consume : bool) : Prop :=
  exists (c : pconf) (inp : pinput) (fuel : nat) (start : N) (nodes : forest) (root k : nat),
    pc_consume c = consume /\
    table_struct (pc_g c) (pc_tb c) start = true /\
    glr_parse_full c inp fuel 0 = GLRForest nodes root /\
    reach nodes root k /\ nodup_alts (nth k nodes []) = false /\
    forest_nodup (glr_forest nodes root) = false.

Lemma forest_nodup_false F k : nodup_alts (nth k F []) = false -> forest_nodup F = false.
Proof.
  intros H. unfold forest_nodup. destruct (forallb nodup_alts F) eqn:E; [|reflexivity].
  rewrite forallb_forall in E.
  destruct (nth_in_or_default k F []) as [Hin|Hd].
  - rewrite (E _ Hin) in H. discriminate.
  - rewrite Hd in H. discriminate.
Qed.

Lemma model_duplicates_of c inp start k :
  table_struct (pc_g c) (pc_tb c) start = true ->
  dup_check c inp k = true -> model_duplicates (pc_consume c).
Proof.
  unfold dup_check. intros Hts H.
  destruct (glr_parse_full c inp wfuel 0) as [nodes root| | | |] eqn:Hrun; try discriminate.
  apply andb_true_iff in H. destruct H as [Hd Hr]. apply negb_true_iff in Hd.
  apply existsb_exists in Hr. destruct Hr as (k' & Hin & Hk). apply Nat.eqb_eq in Hk. subst k'.
  destruct (reach_from_sound _ _ _ _ Hin) as (r & [<-|[]] & Hreach).
  exists c, inp, wfuel, start, nodes, root, k.
  split; [reflexivity|]. split; [exact Hts|]. split; [exact Hrun|]. split; [exact Hreach|].
  split; [exact Hd|].
  apply (forest_nodup_false _ k). unfold glr_forest.
  destruct (Nat.lt_ge_cases k (length nodes)) as [Hlt|Hge].
  - rewrite app_nth1 by exact Hlt. exact Hd.
  - rewrite (nth_overflow nodes) in Hd by exact Hge. discriminate.
Qed.

Theorem glr_model_duplicates : model_duplicates true.
Proof.
  destruct dup_bool as (Hts & Hd).
  exact (model_duplicates_of dup_conf dup_inp dup_start dup_node Hts Hd).
Qed.

Theorem glr_model_prefix_duplicates : model_duplicates false.
Proof.
  destruct pdup_bool as (Hts & Hd).
  exact (model_duplicates_of pdup_conf pdup_inp pdup_start pdup_node Hts Hd).
Qed.

(* ---- false rejection (KF-C01-glr-false-reject) ------------------------------------------- *)

Definition reject_check (c : pconf) (inp : pinput) : bool :=
  match glr_parse_full c inp wfuel 0 with GLRReject => true | _ => false end.

Lemma reject_check_sound c inp : reject_check c inp = true -> glr_parse_full c inp wfuel 0 = GLRReject.
Proof. unfold reject_check. destruct (glr_parse_full c inp wfuel 0); try discriminate. reflexivity. Qed.

Lemma rej_bool :
  table_struct rej_g rej_tb rej_start = true /\
  reject_check rej_conf rej_inp = true /\
  valid_parse rej_conf rej_inp rej_start 0 rej_tree = true.
Proof. vm_compute. repeat split. Qed.

Theorem glr_model_false_reject :
  exists (c : pconf) (inp : pinput) (fuel : nat) (start : N) (t : tree),
    pc_consume c = true /\
    table_struct (pc_g c) (pc_tb c) start = true /\
    glr_parse_full c inp fuel 0 = GLRReject /\
    valid_parse c inp start 0 t = true /\
    wf_tree (pc_g c) t /\ root_sym (pc_g c) t = Some (NT start).
Proof.
  destruct rej_bool as (Hts & Hr & Hv).
  destruct (valid_parse_sound _ _ _ _ _ Hv) as (Hwf & Hrs & _).
  exists rej_conf, rej_inp, wfuel, rej_start, rej_tree.
  split; [reflexivity|]. split; [exact Hts|]. split.
  - apply reject_check_sound. exact Hr.
  - split; [exact Hv|]. split; [exact Hwf|exact Hrs].
Qed.

(* ---- a tree that is not a tokenisation of the input (KF-C01-glr-invalid-tree-overlap) ----- *)

Definition member_check (c : pconf) (inp : pinput) (t : tree) : bool :=
  match glr_parse_full c inp wfuel 0 with
  | GLRForest nodes root => tree_in (glr_forest nodes root) t (length nodes)
  | _ => false
  end.

Lemma member_check_sound c inp t :
  member_check c inp t = true ->
  exists nodes root,
    glr_parse_full c inp wfuel 0 = GLRForest nodes root /\
    unfolds (glr_forest nodes root) (pred (length (glr_forest nodes root))) t.
Proof.
  unfold member_check. destruct (glr_parse_full c inp wfuel 0) as [nodes root| | | |]; try discriminate.
  intros H. exists nodes, root. split; [reflexivity|].
  replace (pred (length (glr_forest nodes root))) with (length nodes)
    by (unfold glr_forest; rewrite app_length; cbn; lia).
  apply tree_in_sound. exact H.
Qed.

Lemma ovl_bool :
  table_struct ovl_g ovl_tb ovl_start = true /\
  member_check ovl_conf ovl_inp ovl_bad = true /\
  leaves ovl_bad = [(1, 0, 2); (0, 2, 3); (1, 4, 6)] /\
  skip_ws (pc_ws ovl_conf) ovl_inp 3 = 3.
Proof. vm_compute. repeat split. Qed.

Theorem glr_model_overlap :
  exists (c : pconf) (inp : pinput) (fuel : nat) (start : N) (nodes : forest) (root : nat) (t : tree),
    pc_consume c = true /\
    table_struct (pc_g c) (pc_tb c) start = true /\
    glr_parse_full c inp fuel 0 = GLRForest nodes root /\
    unfolds (glr_forest nodes root) (pred (length (glr_forest nodes root))) t /\
    ~ chain_ok (skip_ws (pc_ws c) inp) (leaves t).
Proof.
  destruct ovl_bool as (Hts & Hr & Hl & Hsk).
  destruct (member_check_sound _ _ _ Hr) as (nodes & root & Hrun & Hu).
  exists ovl_conf, ovl_inp, wfuel, ovl_start, nodes, root, ovl_bad.
  split; [reflexivity|]. split; [exact Hts|]. split; [exact Hrun|]. split; [exact Hu|].
  rewrite Hl. cbn [chain_ok]. intros (_ & H & _). cbn [lf_e lf_s fst snd] in H.
  rewrite Hsk in H. discriminate.
Qed.

(* ---- non-vacuity data: runs that return forests with all their derivations ---------------- *)

Lemma ok_bool :
  table_struct ok_g ok_tb ok_start = true /\
  (match glr_parse_full ok_conf ok_inp wfuel 0 with
   | GLRForest nodes root => Nat.eqb (length nodes) 12 && Nat.eqb (length (nth root nodes [])) 2
   | _ => false
   end) = true.
Proof. vm_compute. split; reflexivity. Qed.
