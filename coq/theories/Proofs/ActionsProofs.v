(* Proofs about Model/Actions.v:
   1. the on-the-fly driver is the homomorphic image of the tree-building driver
      (LRDriver.lr_run) under any evaluator that is compositional;
   2. left-to-right poisoned evaluation and Parser.call_actions agree (exactly on
      values, up to the identity of the exception otherwise);
   3. which action is called with which arguments;
   4. the built-in actions behind + * ? and separators. *)
From Coq Require Import NArith List Bool Lia Arith.
From PV Require Import Spec.Cfg Model.Table Model.LRDriver Model.Actions Model.Forest
  Validators.TableStruct Proofs.LRProofs Proofs.ForestProofs.
Import ListNotations.
Local Open Scope N_scope.

(* ------------------------------------------------------------------------- *)
(* 1. simulation                                                              *)
Section Sim.
  Variable R : Type.
  Variable sh : N -> N -> N -> R.
  Variable rd : N -> N -> N -> list R -> R.
  Variable ev : tree -> R.
  Hypothesis ev_leaf : forall y s e, ev (TLeaf y s e) = sh y s e.
  Hypothesis ev_node : forall p s e cs, ev (TNode p s e cs) = rd p s e (map ev cs).
  Variable g : grammar.
  Variable tb : table.
  Variable skipws : N -> option N.
  Variable next_token : nat -> N -> tokres.
  Variable stop_id : N.
  Variable consume_input in_layout : bool.

  Definition absE (e : entry) : aentry R :=
    mkAE (e_state e) (t_start (e_tree e)) (t_end (e_tree e)) (e_pos e) (e_lay e) (ev (e_tree e)).
  Definition absS (s : lrstate) : afstate R :=
    mkAF (map absE (l_stack s)) (l_ahead s) (l_lay_ahead s) (l_trace s).
  Definition absO (o : outcome) : af_outcome R :=
    match o with
    | Continue s => AContinue (absS s)
    | Done r => ADone (map_lr ev r)
    end.

  Lemma absE_node s' p a b cs pos lay :
    absE (mkEntry s' (TNode p a b cs) pos lay) = mkAE s' a b pos lay (rd p a b (map ev cs)).
  Proof. unfold absE. cbn. rewrite ev_node. reflexivity. Qed.

  Lemma absE_leaf s' y a b pos lay :
    absE (mkEntry s' (TLeaf y a b) pos lay) = mkAE s' a b pos lay (sh y a b).
  Proof. unfold absE. cbn. rewrite ev_leaf. reflexivity. Qed.

  Lemma lookahead_abs s top0 :
    af_lookahead R skipws next_token in_layout (absS s) (absE top0) =
    match lookahead skipws next_token in_layout s top0 with
    | Some (t, l, sc) => Some (absE t, l, sc)
    | None => None
    end.
  Proof.
    unfold af_lookahead, lookahead. cbn [absS f_ahead f_lay_ahead].
    destruct (l_ahead s) as [tk|]; [reflexivity|].
    destruct in_layout; [reflexivity|].
    cbn [absE a_pos a_state]. destruct (skipws (e_pos top0)); reflexivity.
  Qed.

  Lemma do_reduce_abs tr stk pos1 lay1 ah p pr :
    af_do_reduce R rd tb tr (map absE stk) pos1 lay1 ah p pr =
    absO (do_reduce tb tr stk pos1 lay1 ah p pr).
  Proof.
    unfold af_do_reduce, do_reduce.
    rewrite firstn_map, skipn_map, map_length.
    destruct (negb (Nat.eqb (length (firstn (length (rhs pr)) stk)) (length (rhs pr))));
      [reflexivity|].
    destruct (skipn (length (rhs pr)) stk) as [|r0 rest] eqn:Hrest; [reflexivity|].
    cbn [map absE a_state]. change (a_state (absE r0)) with (e_state r0).
    destruct (goto tb (e_state r0) (lhs pr)) as [s'|]; [|reflexivity].
    rewrite <- map_rev.
    assert (Hend : match map absE stk with top :: _ => a_end top | [] => 0 end =
                   match stk with top :: _ => t_end (e_tree top) | [] => 0 end).
    { destruct stk; reflexivity. }
    rewrite Hend.
    destruct (rev (firstn (length (rhs pr)) stk)) as [|deepest more] eqn:Hrev; cbn [map];
      unfold absO, absS; cbn [l_stack map l_ahead l_lay_ahead l_trace]; rewrite absE_node;
      rewrite !map_rev, !map_map; reflexivity.
  Qed.

  Lemma do_action_abs tr stk lay1 scan fb acts :
    af_do_action R sh rd g tb tr (map absE stk) lay1 scan fb acts =
    absO (do_action g tb tr stk lay1 scan fb acts).
  Proof.
    unfold af_do_action, do_action.
    destruct stk as [|top below]; [reflexivity|].
    cbn [map]. change (a_pos (absE top)) with (e_pos top).
    change (a_state (absE top)) with (e_state top).
    destruct acts as [|a more]; [reflexivity|].
    destruct a as [s'|p0|].
    - destruct scan as [|y len|]; try reflexivity.
      destruct fb; [reflexivity|].
      unfold absO, absS; cbn [l_stack map l_ahead l_lay_ahead l_trace]. rewrite absE_leaf. reflexivity.
    - destruct (select_prod g p0 more) as [[p pr]|]; [|reflexivity].
      change (absE top :: map absE below) with (map absE (top :: below)).
      apply do_reduce_abs.
    - change (absE top :: map absE below) with (map absE (top :: below)).
      rewrite <- map_rev, nth_error_map.
      destruct (nth_error (rev (top :: below)) 1); reflexivity.
  Qed.

  Lemma step_abs s :
    af_step R sh rd g tb skipws next_token stop_id consume_input in_layout (absS s) =
    absO (lr_step g tb skipws next_token stop_id consume_input in_layout s).
  Proof.
    unfold af_step, lr_step. unfold absS. cbn [f_stack f_trace].
    destruct (l_stack s) as [|top0 below] eqn:Hstk; [reflexivity|].
    cbn [map].
    pose proof (lookahead_abs s top0) as Hla. unfold absS in Hla. rewrite Hstk in Hla.
    cbn [map] in Hla. rewrite Hla. clear Hla.
    destruct (lookahead skipws next_token in_layout s top0) as [[[top lay1] scan]|];
      [|reflexivity].
    change (a_state (absE top)) with (e_state top).
    change (a_pos (absE top)) with (e_pos top).
    change (absE top :: map absE below) with (map absE (top :: below)).
    destruct scan as [|y len|]; [| |reflexivity].
    - destruct consume_input; apply do_action_abs.
    - destruct (cell tb (e_state top) y) as [|a0 acts0].
      + destruct consume_input; apply do_action_abs.
      + apply do_action_abs.
  Qed.

  Lemma run_abs fuel : forall s,
    af_run R sh rd g tb skipws next_token stop_id consume_input in_layout fuel (absS s) =
    map_lr ev (lr_run g tb skipws next_token stop_id consume_input in_layout fuel s).
  Proof.
    induction fuel as [|f IH]; intros s; cbn [af_run lr_run]; [reflexivity|].
    rewrite step_abs.
    destruct (lr_step g tb skipws next_token stop_id consume_input in_layout s) as [s'|r];
      cbn [absO]; [apply IH|reflexivity].
  Qed.

  Theorem af_parse_is_image fuel pos :
    af_parse R sh rd g tb skipws next_token stop_id consume_input in_layout fuel pos =
    map_lr ev (lr_parse g tb skipws next_token stop_id consume_input in_layout fuel pos).
  Proof.
    unfold af_parse, lr_parse. rewrite <- run_abs. f_equal.
    unfold af_init, absS, lr_init. cbn [l_stack map l_ahead l_lay_ahead l_trace].
    unfold bottom_tree. rewrite absE_node. reflexivity.
  Qed.
End Sim.

(* ------------------------------------------------------------------------- *)
(* 2. left-to-right (on the fly) and right-to-left (call_actions) evaluation   *)
Definition res_equiv (a b : res) : Prop :=
  match a, b with
  | Ok x, Ok y => x = y
  | Err _, Err _ => True
  | _, _ => False
  end.

Lemma res_equiv_refl a : res_equiv a a.
Proof. destruct a; cbn; auto. Qed.

Lemma seq_vals_map_ok l : seq_vals (map Ok l) = inl l.
Proof. induction l as [|v r IH]; cbn; [reflexivity|]. rewrite IH. reflexivity. Qed.

Lemma seq_vals_inl rs l : seq_vals rs = inl l -> rs = map Ok l.
Proof.
  revert l. induction rs as [|a r IH]; intros l H; cbn in H.
  - inversion H. reflexivity.
  - destruct a as [v|x]; [|discriminate].
    destruct (seq_vals r) as [l'|x]; [|discriminate].
    inversion H; subst. cbn. rewrite (IH l' eq_refl). reflexivity.
Qed.

Lemma seq_vals_inr rs x : seq_vals rs = inr x -> In (Err x) rs.
Proof.
  induction rs as [|a r IH]; intros H; cbn in H; [discriminate|].
  destruct a as [v|y].
  - destruct (seq_vals r) as [l'|y]; [discriminate|]. inversion H; subst. right. apply IH. reflexivity.
  - inversion H; subst. left. reflexivity.
Qed.

Lemma seq_vals_in_err rs x : In (Err x) rs -> exists y, seq_vals rs = inr y.
Proof.
  induction rs as [|a r IH]; intros H; [destruct H|].
  destruct a as [v|y]; cbn.
  - destruct H as [H|H]; [discriminate|]. destruct (IH H) as (z & Hz). rewrite Hz. eauto.
  - eauto.
Qed.

Lemma forall2_equiv_ok rs2 : forall l, Forall2 res_equiv (map Ok l) rs2 -> rs2 = map Ok l.
Proof.
  induction rs2 as [|b r IH]; intros l H; destruct l as [|v l']; inversion H; subst; [reflexivity|].
  destruct b as [w|x]; cbn in *; [|contradiction].
  match goal with Heq : v = w |- _ => subst w end.
  f_equal. apply IH. assumption.
Qed.

Lemma forall2_equiv_err rs1 rs2 x :
  Forall2 res_equiv rs1 rs2 -> In (Err x) rs1 -> exists y, In (Err y) rs2.
Proof.
  induction 1 as [|a b r1 r2 Hab Hr IH]; intros Hin; [destruct Hin|].
  destruct Hin as [->|Hin].
  - destruct b as [w|y]; cbn in Hab; [contradiction|]. exists y. left. reflexivity.
  - destruct (IH Hin) as (y & Hy). exists y. right. exact Hy.
Qed.

Lemma seq_agree rs1 rs2 :
  Forall2 res_equiv rs1 rs2 ->
  match seq_vals rs1, seq_vals_rl rs2 with
  | inl a, inl b => a = b
  | inr _, inr _ => True
  | _, _ => False
  end.
Proof.
  intros H. unfold seq_vals_rl.
  destruct (seq_vals rs1) as [a|x] eqn:E1.
  - apply seq_vals_inl in E1. subst rs1. apply forall2_equiv_ok in H. subst rs2.
    rewrite <- map_rev, seq_vals_map_ok. symmetry. apply rev_involutive.
  - apply seq_vals_inr in E1. destruct (forall2_equiv_err _ _ _ H E1) as (y & Hy).
    apply in_rev in Hy. destruct (seq_vals_in_err _ _ Hy) as (z & Hz). rewrite Hz. exact I.
Qed.

Section EvalAgree.
  Variable g : grammar.
  Variable env : aenv.
  Variable uact : N -> N -> N -> N -> list val -> list (N * val) -> res.
  Variable utact : N -> N -> N -> N -> res.

  Theorem eval_agree t :
    res_equiv (eval_lr g env uact utact t) (call_actions g env uact utact t).
  Proof.
    induction t as [y s e|p s e cs IH] using tree_ind2; cbn [eval_lr call_actions];
      [apply res_equiv_refl|].
    assert (HF : Forall2 res_equiv (map (eval_lr g env uact utact) cs)
                                   (map (call_actions g env uact utact) cs)).
    { induction cs as [|c r IHr]; cbn; [constructor|]. destruct IH as [Hc Hr].
      constructor; [exact Hc|apply IHr; exact Hr]. }
    pose proof (seq_agree _ _ HF) as Hs. unfold reduce_res.
    destruct (seq_vals (map (eval_lr g env uact utact) cs)) as [a|x];
      destruct (seq_vals_rl (map (call_actions g env uact utact) cs)) as [b|y];
      try contradiction; [subst b; apply res_equiv_refl|exact I].
  Qed.

  (* all three observable routes, for the whole parser *)
  Theorem routes_equal tb skipws next_token stop_id consume_input in_layout fuel pos :
    parse_actions g env uact utact tb skipws next_token stop_id consume_input in_layout fuel pos
    = map_lr (eval_lr g env uact utact)
             (lr_parse g tb skipws next_token stop_id consume_input in_layout fuel pos).
  Proof.
    unfold parse_actions. apply af_parse_is_image; intros; reflexivity.
  Qed.

  Corollary routes_equal_accept tb skipws next_token stop_id consume_input in_layout fuel pos
            t rp lay tr :
    lr_parse g tb skipws next_token stop_id consume_input in_layout fuel pos = LROk t rp lay tr ->
    exists r,
      parse_actions g env uact utact tb skipws next_token stop_id consume_input in_layout fuel pos
      = AFOk r rp lay tr /\
      res_equiv r (call_actions g env uact utact t) /\
      (forall v, r = Ok v <-> call_actions g env uact utact t = Ok v).
  Proof.
    intros H. exists (eval_lr g env uact utact t). rewrite routes_equal, H. cbn [map_lr].
    split; [reflexivity|]. pose proof (eval_agree t) as Ha. split; [exact Ha|].
    intros v. destruct (eval_lr g env uact utact t) as [a|x];
      destruct (call_actions g env uact utact t) as [b|y]; cbn in Ha; try contradiction.
    - subst b. tauto.
    - split; discriminate.
  Qed.

  Corollary routes_equal_reject tb skipws next_token stop_id consume_input in_layout fuel pos :
    (forall t rp lay tr,
        lr_parse g tb skipws next_token stop_id consume_input in_layout fuel pos <> LROk t rp lay tr) ->
    forall r rp lay tr,
      parse_actions g env uact utact tb skipws next_token stop_id consume_input in_layout fuel pos
      <> AFOk r rp lay tr.
  Proof.
    intros H r rp lay tr. rewrite routes_equal.
    destruct (lr_parse g tb skipws next_token stop_id consume_input in_layout fuel pos) eqn:E;
      cbn [map_lr]; try discriminate.
    exfalso. eapply H. reflexivity.
  Qed.

  (* ----------------------------------------------------------------------- *)
  (* default result: the nested list mirroring the tree                       *)
  Fixpoint nested (t : tree) : val :=
    match t with
    | TLeaf _ s e => VStr s e
    | TNode _ _ _ cs => default_result (map nested cs)
    end.

  Theorem default_nested t :
    (forall a, action_of_nt env a = SNone) ->
    (forall y, nth (N.to_nat y) (ae_term env) TANone = TANone) ->
    eval_lr g env uact utact t = Ok (nested t).
  Proof.
    intros Hnt Ht. induction t as [y s e|p s e cs IH] using tree_ind2; cbn [eval_lr nested].
    - unfold shift_action. rewrite Ht. reflexivity.
    - assert (Hm : map (eval_lr g env uact utact) cs = map Ok (map nested cs)).
      { induction cs as [|c r IHr]; cbn; [reflexivity|]. destruct IH as [Hc Hr].
        rewrite Hc, (IHr Hr). reflexivity. }
      unfold reduce_res. rewrite Hm, seq_vals_map_ok. unfold reduce_action. rewrite Hnt. reflexivity.
  Qed.
End EvalAgree.

(* ------------------------------------------------------------------------- *)
(* 3. which action, which arguments                                            *)
Lemma assoc_dict_set {V} k k' (v : V) d :
  assoc k (dict_set k' v d) = if k =? k' then Some v else assoc k d.
Proof.
  induction d as [|[k0 v0] r IH]; cbn.
  - destruct (k =? k'); reflexivity.
  - destruct (k' =? k0) eqn:E0; cbn.
    + apply N.eqb_eq in E0. subst k0. destruct (k =? k'); reflexivity.
    + destruct (k =? k0) eqn:E1.
      * apply N.eqb_eq in E1. subst k0. rewrite N.eqb_sym in E0. rewrite E0. reflexivity.
      * exact IH.
Qed.

Lemma in_dict_set {V} k (v : V) d x : In x (dict_set k v d) -> x = (k, v) \/ In x d.
Proof.
  induction d as [|[k0 v0] r IH]; cbn.
  - intros [H|[]]; auto.
  - destruct (k =? k0); cbn; intros [H|H]; auto. destruct (IH H); auto.
Qed.

(* number of productions of nonterminal [a] in a list *)
Definition count_lhs (a : N) (l : list prod) : nat :=
  length (filter (fun pr => lhs pr =? a) l).

Lemma enum_psid_spec : forall prods counts i pr,
  nth_error prods i = Some pr ->
  nth_error (enum_psid counts prods) i =
  Some ((match assoc (lhs pr) counts with Some c => c | None => O end
         + count_lhs (lhs pr) (firstn i prods))%nat).
Proof.
  induction prods as [|pr0 r IH]; intros counts i pr Hi; [destruct i; discriminate|].
  destruct i as [|i']; cbn in Hi.
  - inversion Hi; subst. cbn. rewrite Nat.add_0_r. reflexivity.
  - cbn [enum_psid nth_error firstn]. rewrite (IH _ _ _ Hi), assoc_dict_set.
    unfold count_lhs. cbn [filter]. f_equal.
    destruct (lhs pr =? lhs pr0) eqn:E.
    + apply N.eqb_eq in E. rewrite E, N.eqb_refl. cbn [length]. lia.
    + rewrite N.eqb_sym in E. rewrite E. reflexivity.
Qed.

(* prod_symbol_id of production p = number of earlier productions of the same rule *)
Theorem psid_is_alternative_index g p pr :
  get_prod g p = Some pr ->
  nth (N.to_nat p) (enum_psid [] g) O = count_lhs (lhs pr) (firstn (N.to_nat p) g).
Proof.
  intros H. unfold get_prod in H.
  pose proof (enum_psid_spec g [] _ _ H) as Hs. cbn in Hs.
  apply nth_error_nth with (d := O) in Hs. exact Hs.
Qed.

(* assignments: the dict built from the written production *)
Definition named_at (d : decl) (j : nat) (n : N) (op : bool) : Prop :=
  nth_error d j = Some (Some (n, op)).
Definition last_named (d : decl) (j : nat) (n : N) (op : bool) : Prop :=
  named_at d j n op /\ forall j' op', (j < j')%nat -> ~ named_at d j' n op'.
Definition unnamed (d : decl) (n : N) : Prop := forall j op, ~ named_at d j n op.

Lemma mk_assign_unnamed : forall d i acc n,
  unnamed d n -> assoc n (mk_assign_from i d acc) = assoc n acc.
Proof.
  induction d as [|x r IH]; intros i acc n Hn; cbn; [reflexivity|].
  assert (Hr : unnamed r n). { intros j op Hj. apply (Hn (S j) op). exact Hj. }
  destruct x as [[m op]|].
  - rewrite (IH _ _ _ Hr), assoc_dict_set.
    destruct (n =? m) eqn:E; [|reflexivity].
    apply N.eqb_eq in E. subst m. exfalso. apply (Hn O op). reflexivity.
  - apply IH. exact Hr.
Qed.

Lemma mk_assign_last : forall d i acc j n op,
  last_named d j n op -> assoc n (mk_assign_from i d acc) = Some (op, (i + j)%nat).
Proof.
  induction d as [|x r IH]; intros i acc j n op [Hj Hlast]; [destruct j; discriminate|].
  destruct j as [|j'].
  - cbn in Hj. inversion Hj; subst x. cbn [mk_assign_from].
    rewrite mk_assign_unnamed.
    + rewrite assoc_dict_set, N.eqb_refl, Nat.add_0_r. reflexivity.
    + intros j' op' Hj'. apply (Hlast (S j') op'); [lia|exact Hj'].
  - assert (Hr : last_named r j' n op).
    { split; [exact Hj|]. intros j2 op2 Hlt Hn2. apply (Hlast (S j2) op2); [lia|exact Hn2]. }
    cbn [mk_assign_from]. destruct x as [[m op0]|]; rewrite (IH _ _ _ _ _ Hr); f_equal; f_equal; lia.
Qed.

Lemma mk_assign_index_bound : forall d i acc n op k,
  In (n, (op, k)) (mk_assign_from i d acc) ->
  In (n, (op, k)) acc \/ (i <= k < i + length d)%nat.
Proof.
  induction d as [|x r IH]; intros i acc n op k H; cbn in H; [left; exact H|].
  destruct x as [[m op0]|].
  - destruct (IH _ _ _ _ _ H) as [Hin|Hb]; [|right; cbn [length]; lia].
    destruct (in_dict_set _ _ _ _ Hin) as [E|Hin']; [|left; exact Hin'].
    inversion E; subst. right. cbn [length]. lia.
  - destruct (IH _ _ _ _ _ H) as [Hin|Hb]; [left; exact Hin|right; cbn [length]; lia].
Qed.

Definition kw_value (is_eq : bool) (v : val) : val := if is_eq then v else VBool (truthy v).

Lemma bind_kw_total : forall asg subs,
  (forall n op k, In (n, (op, k)) asg -> (k < length subs)%nat) ->
  exists kw, bind_kw asg subs = Some kw /\
             forall n, assoc n kw =
                       match assoc n asg with
                       | Some (op, k) => Some (kw_value op (nth k subs VNone))
                       | None => None
                       end.
Proof.
  induction asg as [|[m [op k]] r IH]; intros subs Hb.
  - exists []. split; reflexivity.
  - destruct (IH subs) as (kw & Hkw & Hl).
    { intros n op' k' Hin. apply (Hb n op' k'). right. exact Hin. }
    assert (Hk : (k < length subs)%nat) by (apply (Hb m op k); left; reflexivity).
    destruct (nth_error subs k) as [v|] eqn:Ev; [|apply nth_error_None in Ev; lia].
    exists ((m, kw_value op v) :: kw). cbn [bind_kw]. rewrite Ev, Hkw. split; [reflexivity|].
    intros n. cbn [assoc]. destruct (n =? m); [|apply Hl].
    rewrite (nth_error_nth _ _ VNone Ev). reflexivity.
Qed.

(* a named match is bound to the sub-result at the position where it is written *)
Theorem named_binding d subs :
  length subs = length d ->
  exists kw,
    bind_kw (mk_assign d) subs = Some kw /\
    (forall j n op, last_named d j n op -> assoc n kw = Some (kw_value op (nth j subs VNone))) /\
    (forall n, unnamed d n -> assoc n kw = None).
Proof.
  intros Hlen. destruct (bind_kw_total (mk_assign d) subs) as (kw & Hkw & Hl).
  { intros n op k Hin. destruct (mk_assign_index_bound d O [] n op k Hin) as [[]|Hb]. lia. }
  exists kw. split; [exact Hkw|]. split.
  - intros j n op Hlast. rewrite Hl. unfold mk_assign. rewrite (mk_assign_last d O [] j n op Hlast).
    reflexivity.
  - intros n Hun. rewrite Hl. unfold mk_assign. rewrite (mk_assign_unnamed d O [] n Hun). reflexivity.
Qed.

Section Args.
  Variable g : grammar.
  Variable env : aenv.
  Variable uact : N -> N -> N -> N -> list val -> list (N * val) -> res.
  Variable utact : N -> N -> N -> N -> res.
  Variable decls : list decl.            (* by prod id: the production as written *)
  Hypothesis Hpsid : ae_psid env = enum_psid [] g.
  Hypothesis Hasg : ae_assign env = map mk_assign decls.

  (* the user action registered for production p: the rule's single action, or the
     entry of the rule's action list at the position of p among the rule's
     alternatives *)
  Definition user_action_for (p : N) (pr : prod) (k : N) : Prop :=
    action_of_nt env (lhs pr) = SOne (AUser k) \/
    exists l, action_of_nt env (lhs pr) = SList l /\
              nth_error l (count_lhs (lhs pr) (firstn (N.to_nat p) g)) = Some (AUser k).

  Theorem args_spec p pr d k s e cs vs :
    get_prod g p = Some pr ->
    nth_error decls (N.to_nat p) = Some d ->
    length d = length (rhs pr) ->
    user_action_for p pr k ->
    wf_tree g (TNode p s e cs) ->
    map (eval_lr g env uact utact) cs = map Ok vs ->
    length vs = length (rhs pr) /\
    map (root_sym g) cs = map Some (rhs pr) /\
    exists kw,
      eval_lr g env uact utact (TNode p s e cs) = uact k p s e vs kw /\
      (forall j n op, last_named d j n op -> assoc n kw = Some (kw_value op (nth j vs VNone))) /\
      (forall n, unnamed d n -> assoc n kw = None).
  Proof.
    intros Hp Hd Hlen Hact Hwf Hvs.
    destruct Hwf as [(pr' & Hp' & Hroots) _]. rewrite Hp in Hp'. inversion Hp'; subst pr'.
    assert (Hlv : length vs = length (rhs pr)).
    { rewrite <- (map_length Ok vs), <- Hvs, map_length, <- (map_length (root_sym g) cs), Hroots,
        map_length. reflexivity. }
    split; [exact Hlv|]. split; [exact Hroots|].
    cbn [eval_lr]. unfold reduce_res. rewrite Hvs, seq_vals_map_ok. unfold reduce_action.
    assert (Hlhs : lhs_of g p = lhs pr) by (unfold lhs_of; rewrite Hp; reflexivity).
    assert (Hassign : assign_of env p = mk_assign d).
    { unfold assign_of. rewrite Hasg. apply nth_error_nth. rewrite nth_error_map, Hd. reflexivity. }
    destruct (named_binding d vs) as (kw & Hkw & Hb1 & Hb2); [lia|].
    rewrite Hlhs, Hassign.
    assert (Hempty : mk_assign d = [] -> kw = []).
    { intros E. rewrite E in Hkw. cbn in Hkw. inversion Hkw. reflexivity. }
    exists kw. split; [|split; assumption].
    destruct Hact as [Hone|(l & Hl & Hnth)].
    - rewrite Hone. cbv beta zeta.
      destruct (mk_assign d) as [|a0 r0] eqn:E.
      + rewrite (Hempty eq_refl). reflexivity.
      + rewrite Hkw. reflexivity.
    - rewrite Hl. destruct l as [|b0 l']; [destruct (count_lhs _ _); discriminate|].
      cbv beta zeta. unfold psid_of.
      rewrite Hpsid, (psid_is_alternative_index g p pr Hp), Hnth.
      destruct (mk_assign d) as [|a0 r0] eqn:E.
      + rewrite (Hempty eq_refl). reflexivity.
      + rewrite Hkw. reflexivity.
  Qed.
End Args.

(* ------------------------------------------------------------------------- *)
(* 4. built-in actions behind + * ? and separators                             *)
Lemma map_eq_app_inv {X Y} (f : X -> Y) l : forall l1 l2,
  map f l = l1 ++ l2 -> exists a b, l = a ++ b /\ map f a = l1 /\ map f b = l2.
Proof.
  induction l as [|x r IH]; intros l1 l2 H; cbn in H.
  - destruct l1; [|discriminate]. destruct l2; [|discriminate]. exists [], []. auto.
  - destruct l1 as [|y l1'].
    + exists [], (x :: r). cbn in *. auto.
    + cbn in H. inversion H as [[Hy Hr]]. destruct (IH _ _ Hr) as (a & b & E & Ha & Hb).
      exists (x :: a), b. subst. cbn. auto.
Qed.

Lemma map_ok_inj l1 l2 : map Ok l1 = map Ok l2 -> l1 = l2.
Proof.
  revert l2. induction l1 as [|a r IH]; intros [|b r2] H; cbn in H; try discriminate; [reflexivity|].
  inversion H. f_equal. apply IH. assumption.
Qed.

Section Builtins.
  Variable g : grammar.
  Variable env : aenv.
  Variable uact : N -> N -> N -> N -> list val -> list (N * val) -> res.
  Variable utact : N -> N -> N -> N -> res.
  Notation EL := (eval_lr g env uact utact).

  Section Plus.
    (* the helper rule of  x+  /  x+[sep]:   H: H [sep] X | X;   with collect[_sep] *)
    Variables (H pRec pBase : N) (X : sym) (sep : option sym).
    Definition rec_rhs : list sym :=
      NT H :: match sep with Some c => [c; X] | None => [X] end.
    Hypothesis Hrec : get_prod g pRec = Some (mkProd H rec_rhs).
    Hypothesis Hbase : get_prod g pBase = Some (mkProd H [X]).
    Hypothesis Honly : forall p pr, get_prod g p = Some pr -> lhs pr = H -> p = pRec \/ p = pBase.
    Hypothesis Hact : action_of_nt env H =
                      SList [match sep with Some _ => ACollectFirstSep | None => ACollectFirst end;
                             APassNoChange].
    Hypothesis Hps_rec : psid_of env pRec = O.
    Hypothesis Hps_base : psid_of env pBase = 1%nat.
    Hypothesis Hasg_rec : assign_of env pRec = [].
    Hypothesis Hasg_base : assign_of env pBase = [].

    (* the element subtrees of a derivation of H, left to right *)
    Fixpoint plus_elems (t : tree) : list tree :=
      match t with
      | TLeaf _ _ _ => []
      | TNode p _ _ cs =>
          if p =? pRec then
            match cs with
            | h :: rest => plus_elems h ++ [last rest h]
            | [] => []
            end
          else cs
      end.

    (* the separator subtrees *)
    Fixpoint plus_seps (t : tree) : list tree :=
      match t with
      | TLeaf _ _ _ => []
      | TNode p _ _ cs =>
          if p =? pRec then
            match cs with
            | h :: rest => plus_seps h ++ removelast rest
            | [] => []
            end
          else []
      end.

    Lemma reduce_base s e v : reduce_action g env uact pBase s e [v] = Ok (VList [v]).
    Proof.
      unfold reduce_action, lhs_of. rewrite Hbase. cbn [lhs]. rewrite Hact, Hasg_base, Hps_base.
      reflexivity.
    Qed.

    Lemma reduce_rec_nosep s e l v :
      sep = None -> v <> VNone ->
      reduce_action g env uact pRec s e [VList l; v] = Ok (VList (l ++ [v])).
    Proof.
      intros Hs Hv. unfold reduce_action, lhs_of. rewrite Hrec. cbn [lhs].
      rewrite Hact, Hasg_rec, Hps_rec, Hs. cbn. destruct v; try reflexivity. contradiction.
    Qed.

    Lemma reduce_rec_sep s e l c v sv :
      sep = Some c -> v <> VNone ->
      reduce_action g env uact pRec s e [VList l; sv; v] = Ok (VList (l ++ [v])).
    Proof.
      intros Hs Hv. unfold reduce_action, lhs_of. rewrite Hrec. cbn [lhs].
      rewrite Hact, Hasg_rec, Hps_rec, Hs. cbn. destruct v; try reflexivity. contradiction.
    Qed.

    Theorem plus_collect t :
      wf_tree g t -> root_sym g t = Some (NT H) ->
      plus_elems t <> [] /\
      Forall (fun x => root_sym g x = Some X) (plus_elems t) /\
      forall vs,
        map EL (plus_elems t) = map Ok vs ->
        Forall (fun c => exists v, EL c = Ok v) (plus_seps t) ->
        (forall v, In v (tl vs) -> v <> VNone) ->
        EL t = Ok (VList vs).
    Proof.
      induction t as [y s e|p s e cs IH] using tree_ind2; intros Hwf Hroot; [discriminate|].
      destruct Hwf as [(pr & Hp & Hroots) Hall]. cbn in Hroot. rewrite Hp in Hroot.
      cbn in Hroot. inversion Hroot as [Hl].
      destruct (Honly p pr Hp Hl) as [-> | ->].
      - (* recursive alternative *)
        rewrite Hrec in Hp. inversion Hp; subst pr. clear Hp.
        cbn [plus_elems plus_seps]. rewrite N.eqb_refl.
        unfold rec_rhs in Hroots. cbn [rhs] in Hroots.
        destruct cs as [|h rest]; [discriminate|].
        cbn [map] in Hroots. injection Hroots as Hh Hrest.
        destruct IH as [IHh _]. destruct Hall as [Hwfh Hwfrest].
        destruct (IHh Hwfh Hh) as (Hne & Hfa & Hev).
        split; [intros E; apply app_eq_nil in E; destruct E; discriminate|].
        assert (Hcase : (exists c, sep = Some c) \/ sep = None) by (destruct sep; eauto).
        destruct Hcase as [(c & Hsep)|Hsep]; rewrite Hsep in Hrest.
        + destruct rest as [|sc [|x [|]]]; try discriminate. cbn [last removelast].
          cbn [map] in Hrest. injection Hrest as Hsc Hx.
          split; [apply Forall_app; split; [exact Hfa|constructor; [exact Hx|constructor]]|].
          intros vs Hvs Hseps Hnn.
          rewrite map_app in Hvs. symmetry in Hvs.
          apply map_eq_app_inv in Hvs. destruct Hvs as (a & b & Evs & Ha & Hb).
          destruct b as [|vx [|]]; try discriminate. cbn in Hb. injection Hb as Hvx. subst vs.
          symmetry in Ha, Hvx.
          apply Forall_app in Hseps. destruct Hseps as [Hs1 Hs2].
          inversion Hs2 as [|? ? [sv Hsv] _]; subst.
          assert (Ha_ne : a <> []).
          { intros ->. destruct (plus_elems h); [apply Hne; reflexivity|discriminate]. }
          assert (Htl : tl (a ++ [vx]) = tl a ++ [vx]) by (destruct a; [contradiction|reflexivity]).
          rewrite Htl in Hnn.
          cbn [eval_lr map]. unfold reduce_res. rewrite (Hev a Ha Hs1), Hsv, Hvx.
          * cbn [seq_vals]. eapply reduce_rec_sep; [exact Hsep|].
            apply Hnn. apply in_or_app. right. left. reflexivity.
          * intros v Hv. apply Hnn. apply in_or_app. left. exact Hv.
        + destruct rest as [|x [|]]; try discriminate. cbn [last removelast].
          cbn [map] in Hrest. injection Hrest as Hx.
          split; [apply Forall_app; split; [exact Hfa|constructor; [exact Hx|constructor]]|].
          intros vs Hvs Hseps Hnn. rewrite app_nil_r in Hseps.
          rewrite map_app in Hvs. symmetry in Hvs.
          apply map_eq_app_inv in Hvs. destruct Hvs as (a & b & Evs & Ha & Hb).
          destruct b as [|vx [|]]; try discriminate. cbn in Hb. injection Hb as Hvx. subst vs.
          symmetry in Ha, Hvx.
          assert (Ha_ne : a <> []).
          { intros ->. destruct (plus_elems h); [apply Hne; reflexivity|discriminate]. }
          assert (Htl : tl (a ++ [vx]) = tl a ++ [vx]) by (destruct a; [contradiction|reflexivity]).
          rewrite Htl in Hnn.
          cbn [eval_lr map]. unfold reduce_res. rewrite (Hev a Ha Hseps), Hvx.
          * cbn [seq_vals]. apply reduce_rec_nosep; [exact Hsep|].
            apply Hnn. apply in_or_app. right. left. reflexivity.
          * intros v Hv. apply Hnn. apply in_or_app. left. exact Hv.
      - (* base alternative *)
        rewrite Hbase in Hp. inversion Hp; subst pr. clear Hp.
        cbn [plus_elems plus_seps].
        assert (Hn : (pBase =? pRec) = false) by (apply N.eqb_neq; congruence).
        rewrite Hn. cbn [rhs] in Hroots.
        destruct cs as [|x [|]]; try discriminate. cbn [map] in Hroots. injection Hroots as Hx.
        split; [discriminate|]. split; [constructor; [exact Hx|constructor]|].
        intros vs Hvs _ _. destruct vs as [|vx [|]]; try discriminate. cbn in Hvs.
        injection Hvs as Hvx. cbn [eval_lr map]. unfold reduce_res. rewrite Hvx. cbn [seq_vals].
        apply reduce_base.
    Qed.
  End Plus.

  Section Star.
    (* the helper rule of  x*:   H0: H1 | EMPTY;   with the closure action *)
    Variables (H0 H1 pSome pNone : N).
    Hypothesis Hsome : get_prod g pSome = Some (mkProd H0 [NT H1]).
    Hypothesis Hnone : get_prod g pNone = Some (mkProd H0 []).
    Hypothesis Honly : forall p pr, get_prod g p = Some pr -> lhs pr = H0 -> p = pSome \/ p = pNone.
    Hypothesis Hact : action_of_nt env H0 = SOne AStar0.
    Hypothesis Hasg_some : assign_of env pSome = [].
    Hypothesis Hasg_none : assign_of env pNone = [].

    Theorem star_result t :
      wf_tree g t -> root_sym g t = Some (NT H0) ->
      (exists s e, t = TNode pNone s e [] /\ EL t = Ok (VList [])) \/
      (exists s e h, t = TNode pSome s e [h] /\ root_sym g h = Some (NT H1) /\
                     forall v, EL h = Ok v -> EL t = Ok v).
    Proof.
      destruct t as [y s e|p s e cs]; intros Hwf Hroot; [discriminate|].
      destruct Hwf as [(pr & Hp & Hroots) _]. cbn in Hroot. rewrite Hp in Hroot. cbn in Hroot.
      inversion Hroot as [Hl]. destruct (Honly p pr Hp Hl) as [-> | ->].
      - right. rewrite Hsome in Hp. inversion Hp; subst pr. cbn [rhs map] in Hroots.
        destruct cs as [|h [|]]; try discriminate. cbn [map] in Hroots. injection Hroots as Hh.
        exists s, e, h. split; [reflexivity|]. split; [exact Hh|].
        intros v Hv. cbn [eval_lr map]. unfold reduce_res. rewrite Hv. cbn [seq_vals].
        unfold reduce_action, lhs_of. rewrite Hsome. cbn [lhs]. rewrite Hact, Hasg_some. reflexivity.
      - left. rewrite Hnone in Hp. inversion Hp; subst pr. cbn [rhs map] in Hroots.
        destruct cs; [|discriminate]. exists s, e. split; [reflexivity|].
        cbn [eval_lr map]. unfold reduce_res. cbn [seq_vals].
        unfold reduce_action, lhs_of. rewrite Hnone. cbn [lhs]. rewrite Hact, Hasg_none. reflexivity.
    Qed.
  End Star.

  Section Opt.
    (* the helper rule of  x?:   O: X | EMPTY;   with optional = [pass_single, pass_none] *)
    Variables (O pSome pNone : N) (X : sym).
    Hypothesis Hsome : get_prod g pSome = Some (mkProd O [X]).
    Hypothesis Hnone : get_prod g pNone = Some (mkProd O []).
    Hypothesis Honly : forall p pr, get_prod g p = Some pr -> lhs pr = O -> p = pSome \/ p = pNone.
    Hypothesis Hact : action_of_nt env O = SList [APassSingle; APassNone].
    Hypothesis Hps_some : psid_of env pSome = 0%nat.
    Hypothesis Hps_none : psid_of env pNone = 1%nat.
    Hypothesis Hasg_some : assign_of env pSome = [].
    Hypothesis Hasg_none : assign_of env pNone = [].

    Theorem opt_result t :
      wf_tree g t -> root_sym g t = Some (NT O) ->
      (exists s e, t = TNode pNone s e [] /\ EL t = Ok VNone) \/
      (exists s e x, t = TNode pSome s e [x] /\ root_sym g x = Some X /\
                     forall v, EL x = Ok v -> EL t = Ok v).
    Proof.
      destruct t as [y s e|p s e cs]; intros Hwf Hroot; [discriminate|].
      destruct Hwf as [(pr & Hp & Hroots) _]. cbn in Hroot. rewrite Hp in Hroot. cbn in Hroot.
      inversion Hroot as [Hl]. destruct (Honly p pr Hp Hl) as [-> | ->].
      - right. rewrite Hsome in Hp. inversion Hp; subst pr. cbn [rhs map] in Hroots.
        destruct cs as [|x [|]]; try discriminate. cbn [map] in Hroots. injection Hroots as Hx.
        exists s, e, x. split; [reflexivity|]. split; [exact Hx|].
        intros v Hv. cbn [eval_lr map]. unfold reduce_res. rewrite Hv. cbn [seq_vals].
        unfold reduce_action, lhs_of. rewrite Hsome. cbn [lhs].
        rewrite Hact, Hasg_some, Hps_some. reflexivity.
      - left. rewrite Hnone in Hp. inversion Hp; subst pr. cbn [rhs map] in Hroots.
        destruct cs; [|discriminate]. exists s, e. split; [reflexivity|].
        cbn [eval_lr map]. unfold reduce_res. cbn [seq_vals].
        unfold reduce_action, lhs_of. rewrite Hnone. cbn [lhs].
        rewrite Hact, Hasg_none, Hps_none. reflexivity.
    Qed.
  End Opt.
End Builtins.

(* ------------------------------------------------------------------------- *)
(* 5. GLR route: call_actions over forest[0] (Tree proxies decode the forest,   *)
(*    Model/Forest.v) when the forest has a single tree                         *)
Definition glr_call_actions g env uact utact (F : forest) : option res :=
  option_map (call_actions g env uact utact) (tree_at F 0).

Theorem glr_single g env uact utact F t :
  forest_wf F = true -> F <> [] -> root_count F = 1 ->
  In t (root_trees F) ->
  glr_call_actions g env uact utact F = Some (call_actions g env uact utact t).
Proof.
  intros Hwf Hne Hc Hin. unfold glr_call_actions.
  rewrite (index_correct F 0 Hwf Hne) by lia.
  pose proof (count_correct F Hwf Hne) as Hlen. rewrite Hc in Hlen.
  destruct (root_trees F) as [|t0 [|t1 r]]; cbn in Hlen; try lia.
  destruct Hin as [Ht|[]]. subst t0. reflexivity.
Qed.

Corollary glr_single_routes g env uact utact F tb skipws next_token stop_id consume_input
          in_layout fuel pos t rp lay tr :
  forest_wf F = true -> F <> [] -> root_count F = 1 -> In t (root_trees F) ->
  lr_parse g tb skipws next_token stop_id consume_input in_layout fuel pos = LROk t rp lay tr ->
  exists r rg,
    parse_actions g env uact utact tb skipws next_token stop_id consume_input in_layout fuel pos
    = AFOk r rp lay tr /\
    glr_call_actions g env uact utact F = Some rg /\
    rg = call_actions g env uact utact t /\ res_equiv r rg.
Proof.
  intros Hwf Hne Hc Hin Hlr.
  destruct (routes_equal_accept g env uact utact _ _ _ _ _ _ _ _ _ _ _ _ Hlr) as (r & Hr & Heq & _).
  exists r, (call_actions g env uact utact t). split; [exact Hr|].
  split; [apply glr_single; assumption|]. split; [reflexivity|exact Heq].
Qed.
