(* Proofs about Model/Actions.v:
   1. the on-the-fly driver is the homomorphic image of the tree-building driver
      (LRDriver.lr_run) under any evaluator that is compositional;
   2. left-to-right poisoned evaluation and Parser.call_actions agree (exactly on
      values, up to the identity of the exception otherwise);
   3. which action is called with which arguments;
   4. the built-in actions behind + * ? and separators. *)
From Coq Require Import NArith List Bool Lia Arith.
From PV Require Import Spec.Cfg Model.Table Model.LRDriver Model.Actions Model.Forest
  Validators.TableStruct Proofs.LRProofs Proofs.ForestProofs.
Import ListNotations.
Local Open Scope N_scope.

(* ------------------------------------------------------------------------- *)
(* 1. simulation                                                              *)
Section Sim.
  Variable R : Type.
  Variable sh : N -> N -> N -> R.
  Variable rd : N -> N -> N -> list R -> R.
  Variable ev : tree -> R.
  Hypothesis ev_leaf : forall y s e, ev (TLeaf y s e) = sh y s e.
  Hypothesis ev_node : forall p s e cs, ev (TNode p s e cs) = rd p s e (map ev cs).
  Variable g : grammar.
  Variable tb : table.
  Variable skipws : N -> option N.
  Variable next_token : nat -> N -> tokres.
  Variable stop_id : N.
  Variable consume_input in_layout : bool.

  Definition absE (e : entry) : aentry R :=
    mkAE (e_state e) (t_start (e_tree e)) (t_end (e_tree e)) (e_pos e) (e_lay e) (ev (e_tree e)).
  Definition absS (s : lrstate) : afstate R :=
    mkAF (map absE (l_stack s)) (l_ahead s) (l_lay_ahead s) (l_trace s).
  Definition absO (o : outcome) : af_outcome R :=
    match o with
    | Continue s => AContinue (absS s)
    | Done r => ADone (map_lr ev r)
    end.

  Lemma absE_node s' p a b cs pos lay :
    absE (mkEntry s' (TNode p a b cs) pos lay) = mkAE s' a b pos lay (rd p a b (map ev cs)).
  Proof. unfold absE. cbn. rewrite ev_node. reflexivity. Qed.

  Lemma absE_leaf s' y a b pos lay :
    absE (mkEntry s' (TLeaf y a b) pos lay) = mkAE s' a b pos lay (sh y a b).
  Proof. unfold absE. cbn. rewrite ev_leaf. reflexivity. Qed.

  Lemma lookahead_abs s top0 :
    af_lookahead R skipws next_token in_layout (absS s) (absE top0) =
    match lookahead skipws next_token in_layout s top0 with
    | Some (t, l, sc) => Some (absE t, l, sc)
    | None => None
    end.
  Proof.
    unfold af_lookahead, lookahead. cbn [absS f_ahead f_lay_ahead].
    destruct (l_ahead s) as [tk|]; [reflexivity|].
    destruct in_layout; [reflexivity|].
    cbn [absE a_pos a_state]. destruct (skipws (e_pos top0)); reflexivity.
  Qed.

  Lemma do_reduce_abs tr stk pos1 lay1 ah p pr :
    af_do_reduce R rd tb tr (map absE stk) pos1 lay1 ah p pr =
    absO (do_reduce tb tr stk pos1 lay1 ah p pr).
  Proof.
    unfold af_do_reduce, do_reduce.
    rewrite firstn_map, skipn_map, map_length.
    destruct (negb (Nat.eqb (length (firstn (length (rhs pr)) stk)) (length (rhs pr))));
      [reflexivity|].
    destruct (skipn (length (rhs pr)) stk) as [|r0 rest] eqn:Hrest; [reflexivity|].
    cbn [map absE a_state]. change (a_state (absE r0)) with (e_state r0).
    destruct (goto tb (e_state r0) (lhs pr)) as [s'|]; [|reflexivity].
    rewrite <- map_rev.
    assert (Hend : match map absE stk with top :: _ => a_end top | [] => 0 end =
                   match stk with top :: _ => t_end (e_tree top) | [] => 0 end).
    { destruct stk; reflexivity. }
    rewrite Hend.
    destruct (rev (firstn (length (rhs pr)) stk)) as [|deepest more] eqn:Hrev; cbn [map];
      unfold absO, absS; cbn [l_stack map l_ahead l_lay_ahead l_trace]; rewrite absE_node;
      rewrite !map_rev, !map_map; reflexivity.
  Qed.

  Lemma do_action_abs tr stk lay1 scan fb acts :
    af_do_action R sh rd g tb tr (map absE stk) lay1 scan fb acts =
    absO (do_action g tb tr stk lay1 scan fb acts).
  Proof.
    unfold af_do_action, do_action.
    destruct stk as [|top below]; [reflexivity|].
    cbn [map]. change (a_pos (absE top)) with (e_pos top).
    change (a_state (absE top)) with (e_state top).
    destruct acts as [|a more]; [reflexivity|].
    destruct a as [s'|p0|].
    - destruct scan as [|y len|]; try reflexivity.
      destruct fb; [reflexivity|].
      unfold absO, absS; cbn [l_stack map l_ahead l_lay_ahead l_trace]. rewrite absE_leaf. reflexivity.
    - destruct (select_prod g p0 more) as [[p pr]|]; [|reflexivity].
      change (absE top :: map absE below) with (map absE (top :: below)).
      apply do_reduce_abs.
    - change (absE top :: map absE below) with (map absE (top :: below)).
      rewrite <- map_rev, nth_error_map.
      destruct (nth_error (rev (top :: below)) 1); reflexivity.
  Qed.

  Lemma step_abs s :
    af_step R sh rd g tb skipws next_token stop_id consume_input in_layout (absS s) =
    absO (lr_step g tb skipws next_token stop_id consume_input in_layout s).
  Proof.
    unfold af_step, lr_step. unfold absS. cbn [f_stack f_trace].
    destruct (l_stack s) as [|top0 below] eqn:Hstk; [reflexivity|].
    cbn [map].
    pose proof (lookahead_abs s top0) as Hla. unfold absS in Hla. rewrite Hstk in Hla.
    cbn [map] in Hla. rewrite Hla. clear Hla.
    destruct (lookahead skipws next_token in_layout s top0) as [[[top lay1] scan]|];
      [|reflexivity].
    change (a_state (absE top)) with (e_state top).
    change (a_pos (absE top)) with (e_pos top).
    change (absE top :: map absE below) with (map absE (top :: below)).
    destruct scan as [|y len|]; [| |reflexivity].
    - destruct consume_input; apply do_action_abs.
    - destruct (cell tb (e_state top) y) as [|a0 acts0].
      + destruct consume_input; apply do_action_abs.
      + apply do_action_abs.
  Qed.

  Lemma run_abs fuel : forall s,
    af_run R sh rd g tb skipws next_token stop_id consume_input in_layout fuel (absS s) =
    map_lr ev (lr_run g tb skipws next_token stop_id consume_input in_layout fuel s).
  Proof.
    induction fuel as [|f IH]; intros s; cbn [af_run lr_run]; [reflexivity|].
    rewrite step_abs.
    destruct (lr_step g tb skipws next_token stop_id consume_input in_layout s) as [s'|r];
      cbn [absO]; [apply IH|reflexivity].
  Qed.

  Theorem af_parse_is_image fuel pos :
    af_parse R sh rd g tb skipws next_token stop_id consume_input in_layout fuel pos =
    map_lr ev (lr_parse g tb skipws next_token stop_id consume_input in_layout fuel pos).
  Proof.
    unfold af_parse, lr_parse. rewrite <- run_abs. f_equal.
    unfold af_init, absS, lr_init. cbn [l_stack map l_ahead l_lay_ahead l_trace].
    unfold bottom_tree. rewrite absE_node. reflexivity.
  Qed.
End Sim.

(* ------------------------------------------------------------------------- *)
(* 2. left-to-right (on the fly) and right-to-left (call_actions) evaluation   *)
Definition res_equiv (a b : res) : Prop :=
  match a, b with
  | Ok x, Ok y => x = y
  | Err _, Err _ => True
  | _, _ => False
  end.

Lemma res_equiv_refl a : res_equiv a a.
Proof. destruct a; cbn; auto. Qed.

Lemma seq_vals_map_ok l : seq_vals (map Ok l) = inl l.
Proof. induction l as [|v r IH]; cbn; [reflexivity|]. rewrite IH. reflexivity. Qed.

Lemma seq_vals_inl rs l : seq_vals rs = inl l -> rs = map Ok l.
Proof.
  revert l. induction rs as [|a r IH]; intros l H; cbn in H.
  - inversion H. reflexivity.
  - destruct a as [v|x]; [|discriminate].
    destruct (seq_vals r) as [l'|x]; [|discriminate].
    inversion H; subst. cbn. rewrite (IH l' eq_refl). reflexivity.
Qed.

Lemma seq_vals_inr rs x : seq_vals rs = inr x -> In (Err x) rs.
Proof.
  induction rs as [|a r IH]; intros H; cbn in H; [discriminate|].
  destruct a as [v|y].
  - destruct (seq_vals r) as [l'|y]; [discriminate|]. inversion H; subst. right. apply IH. reflexivity.
  - inversion H; subst. left. reflexivity.
Qed.

Lemma seq_vals_in_err rs x : In (Err x) rs -> exists y, seq_vals rs = inr y.
Proof.
  induction rs as [|a r IH]; intros H; [destruct H|].
  destruct a as [v|y]; cbn.
  - destruct H as [H|H]; [discriminate|]. destruct (IH H) as (z & Hz). rewrite Hz. eauto.
  - eauto.
Qed.

Lemma forall2_equiv_ok rs2 : forall l, Forall2 res_equiv (map Ok l) rs2 -> rs2 = map Ok l.
Proof.
  induction rs2 as [|b r IH]; intros l H; destruct l as [|v l']; inversion H; subst; [reflexivity|].
  destruct b as [w|x]; cbn in *; [|contradiction].
  match goal with Heq : v = w |- _ => subst w end.
  f_equal. apply IH. assumption.
Qed.

Lemma forall2_equiv_err rs1 rs2 x :
  Forall2 res_equiv rs1 rs2 -> In (Err x) rs1 -> exists y, In (Err y) rs2.
Proof.
  induction 1 as [|a b r1 r2 Hab Hr IH]; intros Hin; [destruct Hin|].
  destruct Hin as [->|Hin].
  - destruct b as [w|y]; cbn in Hab; [contradiction|]. exists y. left. reflexivity.
  - destruct (IH Hin) as (y & Hy). exists y. right. exact Hy.
Qed.

Lemma seq_agree rs1 rs2 :
  Forall2 res_equiv rs1 rs2 ->
  match seq_vals rs1, seq_vals_rl rs2 with
  | inl a, inl b => a = b
  | inr _, inr _ => True
  | _, _ => False
  end.
Proof.
  intros H. unfold seq_vals_rl.
  destruct (seq_vals rs1) as [a|x] eqn:E1.
  - apply seq_vals_inl in E1. subst rs1. apply forall2_equiv_ok in H. subst rs2.
    rewrite <- map_rev, seq_vals_map_ok. symmetry. apply rev_involutive.
  - apply seq_vals_inr in E1. destruct (forall2_equiv_err _ _ _ H E1) as (y & Hy).
    apply in_rev in Hy. destruct (seq_vals_in_err _ _ Hy) as (z & Hz). rewrite Hz. exact I.
Qed.

Section EvalAgree.
  Variable g : grammar.
  Variable env : aenv.
  Variable uact : N -> N -> N -> N -> list val -> list (N * val) -> res.
  Variable utact : N -> N -> N -> N -> res.

  Theorem eval_agree t :
    res_equiv (eval_lr g env uact utact t) (call_actions g env uact utact t).
  Proof.
    induction t as [y s e|p s e cs IH] using tree_ind2; cbn [eval_lr call_actions];
      [apply res_equiv_refl|].
    assert (HF : Forall2 res_equiv (map (eval_lr g env uact utact) cs)
                                   (map (call_actions g env uact utact) cs)).
    { induction cs as [|c r IHr]; cbn; [constructor|]. destruct IH as [Hc Hr].
      constructor; [exact Hc|apply IHr; exact Hr]. }
    pose proof (seq_agree _ _ HF) as Hs. unfold reduce_res.
    destruct (seq_vals (map (eval_lr g env uact utact) cs)) as [a|x];
      destruct (seq_vals_rl (map (call_actions g env uact utact) cs)) as [b|y];
      try contradiction; [subst b; apply res_equiv_refl|exact I].
  Qed.

  (* all three observable routes, for the whole parser *)
  Theorem routes_equal tb skipws next_token stop_id consume_input in_layout fuel pos :
    parse_actions g env uact utact tb skipws next_token stop_id consume_input in_layout fuel pos
    = map_lr (eval_lr g env uact utact)
             (lr_parse g tb skipws next_token stop_id consume_input in_layout fuel pos).
  Proof.
    unfold parse_actions. apply af_parse_is_image; intros; reflexivity.
  Qed.

  Corollary routes_equal_accept tb skipws next_token stop_id consume_input in_layout fuel pos
            t rp lay tr :
    lr_parse g tb skipws next_token stop_id consume_input in_layout fuel pos = LROk t rp lay tr ->
    exists r,
      parse_actions g env uact utact tb skipws next_token stop_id consume_input in_layout fuel pos
      = AFOk r rp lay tr /\
      res_equiv r (call_actions g env uact utact t) /\
      (forall v, r = Ok v <-> call_actions g env uact utact t = Ok v).
  Proof.
    intros H. exists (eval_lr g env uact utact t). rewrite routes_equal, H. cbn [map_lr].
    split; [reflexivity|]. pose proof (eval_agree t) as Ha. split; [exact Ha|].
    intros v. destruct (eval_lr g env uact utact t) as [a|x];
      destruct (call_actions g env uact utact t) as [b|y]; cbn in Ha; try contradiction.
    - subst b. tauto.
    - split; discriminate.
  Qed.

  Corollary routes_equal_reject tb skipws next_token stop_id consume_input in_layout fuel pos :
    (forall t rp lay tr,
        lr_parse g tb skipws next_token stop_id consume_input in_layout fuel pos <> LROk t rp lay tr) ->
    forall r rp lay tr,
      parse_actions g env uact utact tb skipws next_token stop_id consume_input in_layout fuel pos
      <> AFOk r rp lay tr.
  Proof.
    intros H r rp lay tr. rewrite routes_equal.
    destruct (lr_parse g tb skipws next_token stop_id consume_input in_layout fuel pos) eqn:E;
      cbn [map_lr]; try discriminate.
    exfalso. eapply H. reflexivity.
  Qed.

  (* ----------------------------------------------------------------------- *)
  (* default result: the nested list mirroring the tree                       *)
  Fixpoint nested (t : tree) : val :=
    match t with
    | TLeaf _ s e => VStr s e
    | TNode _ _ _ cs => default_result (map nested cs)
    end.

  Theorem default_nested t :
    (forall a, action_of_nt env a = SNone) ->
    (forall y, nth (N.to_nat y) (ae_term env) TANone = TANone) ->
    eval_lr g env uact utact t = Ok (nested t).
  Proof.
    intros Hnt Ht. induction t as [y s e|p s e cs IH] using tree_ind2; cbn [eval_lr nested].
    - unfold shift_action. rewrite Ht. reflexivity.
    - assert (Hm : map (eval_lr g env uact utact) cs = map Ok (map nested cs)).
      { induction cs as [|c r IHr]; cbn; [reflexivity|]. destruct IH as [Hc Hr].
        rewrite Hc, (IHr Hr). reflexivity. }
      unfold reduce_res. rewrite Hm, seq_vals_map_ok. unfold reduce_action. rewrite Hnt. reflexivity.
  Qed.
End EvalAgree.
