(* Proofs about the LR driver with a dynamic disambiguation filter
   (Model/DynFilter.v), for every stateful filter, table, scanner and input. *)
From Coq Require Import NArith List Bool Lia Arith.
From PV Require Import Spec.Cfg Model.Table Spec.NLR Validators.TableStruct Model.LRDriver
  Proofs.LRProofs Model.DynFilter Spec.DynSpec.
Import ListNotations.
Local Open Scope N_scope.

Section DynProofs.
  Variable g : grammar.
  Variable tb : table.
  Variable skipws : N -> option N.
  Variable next_token : nat -> N -> tokres.
  Variable stop_id : N.
  Variable consume_input in_layout : bool.
  Variable dyn_term : N -> bool.
  Variable dyn_prod : N -> bool.
  Variable FS : Type.
  Variable filt : FS -> fcall -> bool * FS.

  Notation decide := (lr_decide tb skipws next_token stop_id consume_input in_layout).
  Notation step := (lr_step g tb skipws next_token stop_id consume_input in_layout).
  Notation run := (lr_run g tb skipws next_token stop_id consume_input in_layout).
  Notation callof := (call_of g tb dyn_term dyn_prod).
  Notation rfilter := (run_filter g tb dyn_term dyn_prod FS filt).
  Notation fstep' := (fstep g tb skipws next_token stop_id consume_input in_layout
                            dyn_term dyn_prod FS filt).
  Notation frun' := (frun g tb skipws next_token stop_id consume_input in_layout
                          dyn_term dyn_prod FS filt).
  Notation fparse' := (fparse g tb skipws next_token stop_id consume_input in_layout
                              dyn_term dyn_prod FS filt).
  Notation marked := (marked_call tb stop_id dyn_term dyn_prod).
  Notation appr := (approved dyn_term dyn_prod).

  (* ---- the unfiltered driver is do_action after lr_decide ------------------ *)
  Lemma step_decide s :
    step s = match decide s with
             | DecDone r => Done r
             | DecActs stk lay1 scan fb acts => do_action g tb (l_trace s) stk lay1 scan fb acts
             end.
  Proof.
    unfold lr_step, lr_decide.
    destruct (l_stack s) as [|top0 below]; [reflexivity|].
    destruct (lookahead skipws next_token in_layout s top0) as [[[top lay1] scan]|]; [|reflexivity].
    destruct scan as [|y len|]; [ | |reflexivity].
    - destruct consume_input; reflexivity.
    - destruct (cell tb (e_state top) y); [destruct consume_input; reflexivity|reflexivity].
  Qed.

  Lemma decide_done s r : decide s = DecDone r ->
    match r with LROk _ _ _ _ => False | _ => True end.
  Proof.
    unfold lr_decide.
    destruct (l_stack s) as [|top0 below]; [intros E; inversion E; exact I|].
    destruct (lookahead skipws next_token in_layout s top0) as [[[top lay1] scan]|];
      [|intros E; inversion E; exact I].
    destruct scan as [|y len|]; [ | |intros E; inversion E; exact I].
    - destruct consume_input; discriminate.
    - destruct (cell tb (e_state top) y); [destruct consume_input; discriminate|discriminate].
  Qed.

  (* what lr_decide hands to the action selection *)
  Lemma decide_spec s stk lay1 scan fb acts :
    decide s = DecActs stk lay1 scan fb acts ->
    exists top below,
      stk = top :: below /\ to_stack stk = to_stack (l_stack s) /\
      map e_tree stk = map e_tree (l_stack s) /\
      (acts = [] \/
       (fb = false /\ exists y len, scan = TTok y len /\ acts = cell tb (e_state top) y) \/
       (fb = true /\ acts = cell tb (e_state top) stop_id)).
  Proof.
    unfold lr_decide.
    destruct (l_stack s) as [|top0 below] eqn:Hstk; [discriminate|].
    destruct (lookahead skipws next_token in_layout s top0) as [[[top lay1'] scan']|] eqn:Hla;
      [|discriminate].
    assert (Htop : e_state top = e_state top0 /\ e_tree top = e_tree top0).
    { unfold lookahead in Hla. destruct (l_ahead s).
      - inversion Hla; subst; auto.
      - destruct in_layout.
        + inversion Hla; subst; auto.
        + destruct (skipws (e_pos top0)); [|discriminate]. inversion Hla; subst; auto. }
    destruct Htop as [Hts Htt].
    assert (H1 : to_stack (top :: below) = to_stack (top0 :: below)).
    { cbn. rewrite Hts, Htt. reflexivity. }
    assert (H2 : map e_tree (top :: below) = map e_tree (top0 :: below)).
    { cbn. rewrite Htt. reflexivity. }
    destruct scan' as [|y len|]; [ | |discriminate].
    - destruct consume_input; intros E; inversion E; subst; exists top, below;
        (split; [reflexivity|]; split; [exact H1|]; split; [exact H2|]).
      + left; reflexivity.
      + right; right. split; reflexivity.
    - destruct (cell tb (e_state top) y) as [|a0 acts0] eqn:Hcell.
      + destruct consume_input; intros E; inversion E; subst; exists top, below;
          (split; [reflexivity|]; split; [exact H1|]; split; [exact H2|]).
        * left; reflexivity.
        * right; right. split; reflexivity.
      + intros E; inversion E; subst. exists top, below.
        split; [reflexivity|]. split; [exact H1|]. split; [exact H2|].
        right; left. split; [reflexivity|]. exists y, len. split; [reflexivity|].
        symmetry; exact Hcell.
  Qed.

  (* ---- the filter pass over one cell ---------------------------------------- *)
  Lemma run_filter_spec stk scan acts : forall fs kept fs' cs,
    rfilter fs stk scan acts = (kept, fs', cs) ->
    map fst cs = calls_due g tb dyn_term dyn_prod stk scan acts /\
    (forall a, In a kept ->
       In a acts /\
       (callof stk scan a = None \/ exists c, callof stk scan a = Some c /\ In (c, true) cs)) /\
    (forall c v, In (c, v) cs -> exists fs0, fst (filt fs0 c) = v).
  Proof.
    unfold calls_due.
    induction acts as [|a r IH]; intros fs kept fs' cs H; cbn [run_filter] in H.
    - inversion H; subst. split; [reflexivity|]. split; [intros a []|intros c v []].
    - cbn [flat_map]. destruct (callof stk scan a) as [c|] eqn:Hc.
      + destruct (filt fs c) as [v fs1] eqn:Hf.
        destruct (rfilter fs1 stk scan r) as [[k fs2] cs2] eqn:Hr.
        inversion H; subst. destruct (IH _ _ _ _ Hr) as (I1 & I2 & I3).
        split; [cbn; rewrite I1; reflexivity|]. split.
        * intros a' Ha'.
          assert (Hk : In a' k -> In a' (a :: r) /\
                    (callof stk scan a' = None \/
                     exists c0, callof stk scan a' = Some c0 /\ In (c0, true) ((c, v) :: cs2))).
          { intros Hin. destruct (I2 _ Hin) as (J1 & J2). split; [right; exact J1|].
            destruct J2 as [J2|(c0 & J2 & J3)]; [left; exact J2|].
            right. exists c0. split; [exact J2|right; exact J3]. }
          destruct v; [|exact (Hk Ha')].
          destruct Ha' as [<-|Ha']; [|exact (Hk Ha')].
          split; [left; reflexivity|]. right. exists c. split; [exact Hc|left; reflexivity].
        * intros c0 v0 [E|Hin]; [|exact (I3 _ _ Hin)].
          inversion E; subst. exists fs. rewrite Hf. reflexivity.
      + destruct (rfilter fs stk scan r) as [[k fs2] cs2] eqn:Hr.
        inversion H; subst. destruct (IH _ _ _ _ Hr) as (I1 & I2 & I3).
        split; [exact I1|]. split; [|exact I3].
        intros a' [<-|Ha'].
        * split; [left; reflexivity|]. left; exact Hc.
        * destruct (I2 _ Ha') as (J1 & J2). split; [right; exact J1|exact J2].
  Qed.

  Lemma run_filter_accept_all stk scan acts :
    (forall fs c, fst (filt fs c) = true) ->
    forall fs, fst (fst (rfilter fs stk scan acts)) = acts.
  Proof.
    intros Hall. induction acts as [|a r IH]; intros fs; cbn [run_filter]; [reflexivity|].
    destruct (callof stk scan a) as [c|].
    - pose proof (Hall fs c) as Hv. destruct (filt fs c) as [v fs1]. cbn in Hv. subst v.
      specialize (IH fs1). destruct (rfilter fs1 stk scan r) as [[k fs2] cs2]. cbn in *.
      rewrite IH. reflexivity.
    - specialize (IH fs). destruct (rfilter fs stk scan r) as [[k fs2] cs2]. cbn in *.
      rewrite IH. reflexivity.
  Qed.

  (* ---- the filtered driver performs moves of N(T) -------------------------- *)
  Definition fsim_outcome (c : config) (o : foutcome) : Prop :=
    match o with
    | FContinue s' => exists c', nstep g tb anylook c c' /\ c_stack c' = to_stack (l_stack s')
    | FDone (DRes (LROk t _ _ _)) => naccepts tb anylook c t
    | FDone _ => True
    end.

  Lemma lift_sim c o : sim_outcome_stack g tb c o -> fsim_outcome c (lift o).
  Proof. destruct o as [s'|r]; cbn; [tauto|]. destruct r; tauto. Qed.

  Lemma acts_in_cell s stk lay1 scan fb acts :
    decide s = DecActs stk lay1 scan fb acts ->
    exists y, (forall a, In a acts -> In a (cell tb (top_state (to_stack stk)) y)) /\
              (fb = false -> match scan with TTok y' _ => y' = y | _ => True end).
  Proof.
    intros Hd. destruct (decide_spec _ _ _ _ _ _ Hd) as (top & below & -> & _ & _ & Hacts).
    cbn [to_stack map top_state].
    destruct Hacts as [->|[(-> & y & len & -> & ->)|(-> & ->)]].
    - exists stop_id. split; [intros a []|]. destruct fb; [discriminate|].
      intros _. destruct scan; exact I || idtac.
      (* fb = false with no actions cannot come from lr_decide, but any y serves *)
      unfold lr_decide in Hd.
      destruct (l_stack s) as [|top0 below0]; [discriminate|].
      destruct (lookahead skipws next_token in_layout s top0) as [[[top1 lay1'] scan']|];
        [|discriminate].
      destruct scan' as [|y' len'|]; [ | |discriminate].
      + destruct consume_input; discriminate.
      + destruct (cell tb (e_state top1) y'); [destruct consume_input; discriminate|discriminate].
    - exists y. split; [intros a Ha; exact Ha|]. intros _. reflexivity.
    - exists stop_id. split; [intros a Ha; exact Ha|]. discriminate.
  Qed.

  Lemma fstep_sim fs s c :
    c_stack c = to_stack (l_stack s) -> fsim_outcome c (fst (fst (fstep' fs s))).
  Proof.
    intros Hc. unfold fstep.
    destruct (decide s) as [r|stk lay1 scan fb acts] eqn:Hd.
    - cbn. pose proof (decide_done _ _ Hd) as Hr. destruct r; try exact I. destruct Hr.
    - destruct (acts_in_cell _ _ _ _ _ _ Hd) as (y & Hsub & Hy).
      destruct (decide_spec _ _ _ _ _ _ Hd) as (top & below & Estk & Hto & _ & _).
      assert (Hc' : c_stack c = to_stack stk) by (rewrite Hto; exact Hc).
      destruct acts as [|a0 acts0].
      + cbn. apply lift_sim.
        apply (do_action_sim_stack g tb c _ _ lay1 scan fb [] y Hc'); [intros a []|exact Hy].
      + destruct (rfilter fs stk scan (a0 :: acts0)) as [[kept fs'] cs] eqn:Hr.
        destruct (run_filter_spec _ _ _ _ _ _ _ Hr) as (_ & Hk & _).
        destruct (Nat.ltb 1 (dd_count g kept)); [exact I|].
        destruct kept as [|k0 kept0]; [exact I|].
        cbn [fst]. apply lift_sim.
        apply (do_action_sim_stack g tb c _ _ lay1 scan fb _ y Hc'); [|exact Hy].
        intros a Ha. apply Hsub. exact (proj1 (Hk a Ha)).
  Qed.

  Lemma frun_sim fuel : forall fs s c t rp lay tr fs' trc,
    c_stack c = to_stack (l_stack s) ->
    frun' fuel fs s = (DRes (LROk t rp lay tr), fs', trc) ->
    exists c', nsteps g tb anylook c c' /\ naccepts tb anylook c' t.
  Proof.
    induction fuel as [|f IH]; intros fs s c t rp lay tr fs' trc Hc Hrun; cbn [frun] in Hrun;
      [discriminate|].
    pose proof (fstep_sim fs s c Hc) as Hsim.
    destruct (fstep' fs s) as [[o fs1] cs]. cbn [fst] in Hsim.
    destruct o as [s'|r].
    - destruct Hsim as (c1 & Hstep & Hc1).
      destruct (frun' f fs1 s') as [[r2 fs2] tr2] eqn:Hrec.
      inversion Hrun; subst.
      destruct (IH _ _ c1 _ _ _ _ _ _ Hc1 Hrec) as (c' & Hsteps & Hacc).
      exists c'. split; [|exact Hacc].
      clear -Hstep Hsteps. induction Hsteps as [c1|c1 c2 c3 H12 IH2 H23].
      + eapply nss_step; [apply nss_refl|exact Hstep].
      + eapply nss_step; [apply IH2; exact Hstep|exact H23].
    - inversion Hrun; subst. cbn in Hsim. exists c. split; [apply nss_refl|exact Hsim].
  Qed.

  (* whatever the filter answers, a result is a derivation tree of the grammar *)
  Theorem flr_sound start fuel fs pos t rp lay tr fs' trc :
    table_struct g tb start = true ->
    fparse' fuel fs pos = (DRes (LROk t rp lay tr), fs', trc) ->
    wf_tree g t /\ root_sym g t = Some (NT start).
  Proof.
    intros Hts Hrun. unfold fparse in Hrun.
    destruct (filt fs FInit) as [v0 fs0].
    destruct (frun' fuel fs0 (lr_init pos)) as [[r fs1] tr1] eqn:Hrec.
    inversion Hrun; subst.
    destruct (frun_sim fuel _ (lr_init pos) (init_cfg pos (bottom_tree pos)) _ _ _ _ _ _
                       eq_refl Hrec) as (c' & Hsteps & Hacc).
    destruct (nlr_sound g tb start anylook Hts pos _ c' t Hsteps Hacc) as (H1 & H2 & _).
    split; assumption.
  Qed.

  (* ---- shape of the trace ---------------------------------------------------- *)
  Lemma callof_marked stk scan a c top below :
    stk = top :: below -> callof stk scan a = Some c ->
    offered tb stop_id (e_state top) (ahead_of scan) a -> marked c.
  Proof.
    intros -> Hc Hoff. cbn [call_of] in Hc. destruct a as [to|p|]; [| |discriminate].
    - destruct (shift_marked tb dyn_term to) eqn:Hm; [|discriminate].
      inversion Hc; subst. cbn. split; [exact Hm|exact Hoff].
    - destruct (dyn_prod p) eqn:Hm; [|discriminate].
      inversion Hc; subst. cbn. split; [exact Hm|exact Hoff].
  Qed.

  Lemma decide_offered s stk lay1 scan fb acts top below :
    decide s = DecActs stk lay1 scan fb acts -> stk = top :: below ->
    forall a, In a acts -> offered tb stop_id (e_state top) (ahead_of scan) a.
  Proof.
    intros Hd Estk a Ha.
    destruct (decide_spec _ _ _ _ _ _ Hd) as (top' & below' & E' & _ & _ & Hacts).
    rewrite Estk in E'. inversion E'; subst top' below'.
    destruct Hacts as [->|[(_ & y & len & -> & ->)|(_ & ->)]]; [destruct Ha| |].
    - left. exists y, len. split; [reflexivity|exact Ha].
    - right. exact Ha.
  Qed.

  (* the calls of one step are exactly the calls due for the marked actions of the
     cell, in cell order, once each *)
  Lemma fstep_calls fs s stk lay1 scan fb acts o fs' cs :
    decide s = DecActs stk lay1 scan fb acts ->
    fstep' fs s = (o, fs', cs) ->
    map fst cs = calls_due g tb dyn_term dyn_prod stk scan acts.
  Proof.
    intros Hd H. unfold fstep in H. rewrite Hd in H.
    destruct acts as [|a0 acts0]; [inversion H; reflexivity|].
    destruct (rfilter fs stk scan (a0 :: acts0)) as [[kept fs1] cs1] eqn:Hr.
    destruct (run_filter_spec _ _ _ _ _ _ _ Hr) as (H1 & _ & _).
    destruct (Nat.ltb 1 (dd_count g kept)); [inversion H; subst; exact H1|].
    destruct kept; inversion H; subst; exact H1.
  Qed.

  Lemma fstep_done_calls fs s r o fs' cs :
    decide s = DecDone r -> fstep' fs s = (o, fs', cs) -> cs = [].
  Proof. intros Hd H. unfold fstep in H. rewrite Hd in H. inversion H. reflexivity. Qed.

  Lemma calls_due_marked stk scan acts top below :
    stk = top :: below ->
    (forall a, In a acts -> offered tb stop_id (e_state top) (ahead_of scan) a) ->
    Forall marked (calls_due g tb dyn_term dyn_prod stk scan acts).
  Proof.
    intros Estk Hoff. unfold calls_due. apply Forall_forall. intros c Hc.
    apply in_flat_map in Hc. destruct Hc as (a & Ha & Hc).
    destruct (callof stk scan a) as [c'|] eqn:Hca; [|destruct Hc].
    destruct Hc as [<-|[]]. eapply callof_marked; [exact Estk|exact Hca|apply Hoff; exact Ha].
  Qed.

  Lemma fstep_marked fs s o fs' cs :
    fstep' fs s = (o, fs', cs) -> Forall marked (map fst cs).
  Proof.
    intros H. destruct (decide s) as [r|stk lay1 scan fb acts] eqn:Hd.
    - rewrite (fstep_done_calls _ _ _ _ _ _ Hd H). constructor.
    - rewrite (fstep_calls _ _ _ _ _ _ _ _ _ _ Hd H).
      destruct (decide_spec _ _ _ _ _ _ Hd) as (top & below & Estk & _).
      eapply calls_due_marked; [exact Estk|].
      eapply decide_offered; [exact Hd|exact Estk].
  Qed.

  Lemma fstep_verdicts fs s o fs' cs :
    fstep' fs s = (o, fs', cs) -> forall c v, In (c, v) cs -> exists fs0, fst (filt fs0 c) = v.
  Proof.
    intros H. unfold fstep in H.
    destruct (decide s) as [r|stk lay1 scan fb acts]; [inversion H; intros c v []|].
    destruct acts as [|a0 acts0]; [inversion H; intros c v []|].
    destruct (rfilter fs stk scan (a0 :: acts0)) as [[kept fs1] cs1] eqn:Hr.
    destruct (run_filter_spec _ _ _ _ _ _ _ Hr) as (_ & _ & H3).
    destruct (Nat.ltb 1 (dd_count g kept)); [inversion H; subst; exact H3|].
    destruct kept; inversion H; subst; exact H3.
  Qed.

  Lemma frun_marked fuel : forall fs s r fs' trc,
    frun' fuel fs s = (r, fs', trc) ->
    Forall marked (map fst trc) /\
    (forall c v, In (c, v) trc -> exists fs0, fst (filt fs0 c) = v).
  Proof.
    induction fuel as [|f IH]; intros fs s r fs' trc H; cbn [frun] in H.
    - inversion H; subst. split; [constructor|intros c v []].
    - destruct (fstep' fs s) as [[o fs1] cs] eqn:Hs.
      pose proof (fstep_marked _ _ _ _ _ Hs) as Hm.
      pose proof (fstep_verdicts _ _ _ _ _ Hs) as Hv.
      destruct o as [s'|r1].
      + destruct (frun' f fs1 s') as [[r2 fs2] tr2] eqn:Hrec. inversion H; subst.
        destruct (IH _ _ _ _ _ Hrec) as (I1 & I2).
        split; [rewrite map_app; apply Forall_app; split; assumption|].
        intros c v Hin. apply in_app_or in Hin. destruct Hin; [eapply Hv|eapply I2]; eassumption.
      + inversion H; subst. split; assumption.
  Qed.

  (* the trace of a parse: one initial call, then only calls about marked actions
     offered by the table in the current state; each verdict is the filter's *)
  Theorem fparse_trace_shape fuel fs pos r fs' trc :
    fparse' fuel fs pos = (r, fs', trc) ->
    exists v0 rest,
      trc = (FInit, v0) :: rest /\ v0 = fst (filt fs FInit) /\
      Forall marked (map fst rest) /\
      (forall c v, In (c, v) rest -> exists fs0, fst (filt fs0 c) = v).
  Proof.
    intros H. unfold fparse in H. destruct (filt fs FInit) as [v0 fs0].
    destruct (frun' fuel fs0 (lr_init pos)) as [[r1 fs1] tr1] eqn:Hrec.
    inversion H; subst. exists v0, tr1. split; [reflexivity|]. split; [reflexivity|].
    exact (frun_marked _ _ _ _ _ _ Hrec).
  Qed.

  (* ---- nothing marked enters the result without the filter's approval ------ *)
  Lemma approved_mono t : forall trc more, appr trc t -> appr (trc ++ more) t.
  Proof.
    induction t as [y s e|p s e cs IH] using tree_ind2; intros trc more H; cbn [approved] in *.
    - intros Hd. destruct (H Hd) as (from & to & len & Hin & He).
      exists from, to, len. split; [apply in_or_app; left; exact Hin|exact He].
    - destruct H as [Hn Hc]. split.
      + intros Hd. destruct (Hn Hd) as (from & ah & pos & Hin).
        exists from, ah, pos. apply in_or_app; left; exact Hin.
      + clear Hn. induction cs as [|c0 r IHr]; cbn [All] in *; [exact I|].
        destruct IH as [I0 Ir]. destruct Hc as [H0 Hr].
        split; [apply I0; exact H0|apply IHr; assumption].
  Qed.

  Lemma approved_mono_l t trc pre : appr trc t -> appr (pre ++ trc) t.
  Proof.
    revert trc pre.
    induction t as [y s e|p s e cs IH] using tree_ind2; intros trc pre H; cbn [approved] in *.
    - intros Hd. destruct (H Hd) as (from & to & len & Hin & He).
      exists from, to, len. split; [apply in_or_app; right; exact Hin|exact He].
    - destruct H as [Hn Hc]. split.
      + intros Hd. destruct (Hn Hd) as (from & ah & pos & Hin).
        exists from, ah, pos. apply in_or_app; right; exact Hin.
      + clear Hn. induction cs as [|c0 r IHr]; cbn [All] in *; [exact I|].
        destruct IH as [I0 Ir]. destruct Hc as [H0 Hr].
        split; [apply I0; exact H0|apply IHr; assumption].
  Qed.

  Lemma All_mono_app trc more l : All (appr trc) l -> All (appr (trc ++ more)) l.
  Proof.
    rewrite !All_In. intros H x Hx. apply approved_mono. apply H. exact Hx.
  Qed.

  Lemma assoc_In' {V} k (l : list (N * V)) v : assoc k l = Some v -> In (k, v) l.
  Proof.
    induction l as [|[k' v'] r IH]; cbn; [discriminate|].
    destruct (N.eqb_spec k k') as [->|Hne].
    - intros E; inversion E; subst. left; reflexivity.
    - intros E. right. apply IH. exact E.
  Qed.

  Lemma shift_sym_ok_spec s y to :
    shift_sym_ok tb = true -> In (Shift to) (cell tb s y) ->
    shift_marked tb dyn_term to = dyn_term y.
  Proof.
    intros Hok Hin. unfold cell in Hin.
    destruct (get_state tb s) as [st|] eqn:Es; [|destruct Hin].
    destruct (assoc y (st_actions st)) as [l|] eqn:Ea; [|destruct Hin].
    unfold shift_sym_ok in Hok. rewrite forallb_forall in Hok.
    specialize (Hok st (nth_error_In _ _ Es)). rewrite forallb_forall in Hok.
    specialize (Hok _ (assoc_In' _ _ _ Ea)). cbn [fst snd] in Hok.
    rewrite forallb_forall in Hok. specialize (Hok _ Hin). cbn in Hok.
    unfold shift_marked. destruct (get_state tb to) as [st'|]; [|discriminate].
    apply sym_eqb_eq in Hok. rewrite Hok. reflexivity.
  Qed.

  Lemma In_skipn {X} n (l : list X) x : In x (skipn n l) -> In x l.
  Proof. intros H. rewrite <- (firstn_skipn n l). apply in_or_app. right. exact H. Qed.
  Lemma In_firstn {X} n (l : list X) x : In x (firstn n l) -> In x l.
  Proof. intros H. rewrite <- (firstn_skipn n l). apply in_or_app. left. exact H. Qed.

  (* one action taken from a list of approved actions keeps the stack approved *)
  Lemma do_action_approved trc tr top below lay1 scan fb kept :
    shift_sym_ok tb = true ->
    All (appr trc) (map e_tree (top :: below)) ->
    (forall a, In a kept ->
       (fb = false -> exists y len, scan = TTok y len /\ In a (cell tb (e_state top) y)) /\
       (callof (top :: below) scan a = None \/
        exists c, callof (top :: below) scan a = Some c /\ In (c, true) trc)) ->
    match do_action g tb tr (top :: below) lay1 scan fb kept with
    | Continue s' => All (appr trc) (map e_tree (l_stack s'))
    | Done (LROk t _ _ _) => appr trc t
    | Done _ => True
    end.
  Proof.
    intros Hsym Hstk Hk. unfold do_action.
    destruct kept as [|act more]; [exact I|].
    destruct act as [s'|p0|].
    - destruct scan as [|y len|]; try exact I. destruct fb; [exact I|].
      cbn [l_stack map All e_tree]. split; [|exact Hstk].
      cbn [approved]. intros Hd.
      destruct (Hk (Shift s') (or_introl eq_refl)) as (Hcell & Hcall).
      destruct (Hcell eq_refl) as (y' & len' & E & Hin). inversion E; subst y' len'.
      pose proof (shift_sym_ok_spec _ _ _ Hsym Hin) as Hm. rewrite Hd in Hm.
      cbn [call_of] in Hcall. rewrite Hm in Hcall.
      destruct Hcall as [Hc|(c & Hc & Hin')]; [discriminate|].
      inversion Hc; subst c. cbn [ahead_of] in Hin'.
      exists (e_state top), s', len. split; [exact Hin'|reflexivity].
    - destruct (select_prod g p0 more) as [[p pr]|] eqn:Hsel; [|exact I].
      destruct (select_prod_spec _ _ _ _ _ Hsel) as [Hp Hin].
      destruct (Hk (Reduce p) Hin) as (_ & Hcall).
      unfold do_reduce.
      destruct (Nat.eqb (length (firstn (length (rhs pr)) (top :: below))) (length (rhs pr)));
        cbn [negb]; [|exact I].
      destruct (skipn (length (rhs pr)) (top :: below)) as [|r0 rest'] eqn:Hrest; [exact I|].
      destruct (goto tb (e_state r0) (lhs pr)) as [s2|]; [|exact I].
      destruct (match rev (firstn (length (rhs pr)) (top :: below)) with
                | [] => _ | deepest :: _ => _ end) as [startp lay].
      cbn [l_stack map e_tree All]. split.
      + cbn [approved]. split.
        * intros Hd. cbn [call_of] in Hcall. rewrite Hd in Hcall.
          destruct Hcall as [Hc|(c & Hc & Hin')]; [discriminate|].
          inversion Hc; subst c. unfold subresults, rhs_len in Hin'. rewrite Hp in Hin'.
          exists (e_state top), (ahead_of scan), (e_pos top). exact Hin'.
        * apply All_In. intros x Hx. apply in_rev in Hx. apply in_map_iff in Hx.
          destruct Hx as (e0 & <- & He0). apply In_firstn in He0.
          rewrite All_In in Hstk. apply Hstk. apply in_map. exact He0.
      + change (All (appr trc) (map e_tree (r0 :: rest'))).
        rewrite All_In in Hstk. apply All_In. intros x Hx. apply Hstk.
        apply in_map_iff in Hx. destruct Hx as (e0 & <- & He0).
        apply in_map. apply (In_skipn (length (rhs pr))). rewrite Hrest. exact He0.
    - destruct (nth_error (rev (top :: below)) 1) as [r|] eqn:Hn; [|exact I].
      rewrite All_In in Hstk. apply Hstk. apply in_map.
      apply in_rev. eapply nth_error_In. exact Hn.
  Qed.

  Lemma fstep_approved fs s o fs' cs pre :
    shift_sym_ok tb = true ->
    All (appr pre) (map e_tree (l_stack s)) ->
    fstep' fs s = (o, fs', cs) ->
    match o with
    | FContinue s' => All (appr (pre ++ cs)) (map e_tree (l_stack s'))
    | FDone (DRes (LROk t _ _ _)) => appr (pre ++ cs) t
    | FDone _ => True
    end.
  Proof.
    intros Hsym Hinv H. unfold fstep in H.
    destruct (decide s) as [r|stk lay1 scan fb acts] eqn:Hd.
    - inversion H; subst. pose proof (decide_done _ _ Hd) as Hr. destruct r; try exact I.
      destruct Hr.
    - destruct (decide_spec _ _ _ _ _ _ Hd) as (top & below & -> & _ & Htrees & Hacts).
      rewrite <- Htrees in Hinv.
      destruct acts as [|a0 acts0].
      + inversion H; subst. cbn [do_action lift]. exact I.
      + destruct (rfilter fs (top :: below) scan (a0 :: acts0)) as [[kept fs1] cs1] eqn:Hr.
        destruct (run_filter_spec _ _ _ _ _ _ _ Hr) as (_ & Hk & _).
        destruct (Nat.ltb 1 (dd_count g kept)); [inversion H; subst; exact I|].
        destruct kept as [|k0 kept0]; [inversion H; subst; exact I|].
        remember (do_action g tb (l_trace s) (top :: below) lay1 scan fb (k0 :: kept0)) as da eqn:Eda.
        assert (Ho : o = lift da /\ cs = cs1) by (inversion H; split; reflexivity).
        destruct Ho as [-> ->]. clear H.
        pose proof (do_action_approved (pre ++ cs1) (l_trace s) top below lay1 scan fb (k0 :: kept0)
                      Hsym (All_mono_app _ _ _ Hinv)) as Hda.
        assert (Hpre : forall a, In a (k0 :: kept0) ->
                  (fb = false -> exists y len, scan = TTok y len /\ In a (cell tb (e_state top) y)) /\
                  (callof (top :: below) scan a = None \/
                   exists c, callof (top :: below) scan a = Some c /\ In (c, true) (pre ++ cs1))).
        { intros a Ha. destruct (Hk a Ha) as (Hin & Hcall). split.
          - intros ->. destruct Hacts as [E|[(_ & y & len & -> & E)|(E & _)]];
              [discriminate| |discriminate].
            exists y, len. split; [reflexivity|]. rewrite <- E. exact Hin.
          - destruct Hcall as [Hc|(c & Hc & Hin')]; [left; exact Hc|].
            right. exists c. split; [exact Hc|apply in_or_app; right; exact Hin']. }
        specialize (Hda Hpre). rewrite <- Eda in Hda.
        destruct da as [s'|r]; cbn [lift]; [exact Hda|].
        destruct r; try exact I. exact Hda.
  Qed.

  Lemma frun_approved fuel : forall fs s pre t rp lay tr fs' trc,
    shift_sym_ok tb = true ->
    All (appr pre) (map e_tree (l_stack s)) ->
    frun' fuel fs s = (DRes (LROk t rp lay tr), fs', trc) ->
    appr (pre ++ trc) t.
  Proof.
    induction fuel as [|f IH]; intros fs s pre t rp lay tr fs' trc Hsym Hinv H; cbn [frun] in H;
      [discriminate|].
    destruct (fstep' fs s) as [[o fs1] cs] eqn:Hs.
    pose proof (fstep_approved _ _ _ _ _ pre Hsym Hinv Hs) as Hst.
    destruct o as [s'|r1].
    - destruct (frun' f fs1 s') as [[r2 fs2] tr2] eqn:Hrec. inversion H; subst.
      rewrite app_assoc. eapply IH; [exact Hsym|exact Hst|exact Hrec].
    - inversion H; subst. exact Hst.
  Qed.

  Theorem fparse_approved fuel fs pos t rp lay tr fs' trc :
    shift_sym_ok tb = true -> dyn_prod 0 = false ->
    fparse' fuel fs pos = (DRes (LROk t rp lay tr), fs', trc) ->
    appr trc t.
  Proof.
    intros Hsym Hd0 H. unfold fparse in H. destruct (filt fs FInit) as [v0 fs0].
    destruct (frun' fuel fs0 (lr_init pos)) as [[r1 fs1] tr1] eqn:Hrec.
    inversion H; subst.
    change ((FInit, v0) :: tr1) with ([(FInit, v0)] ++ tr1).
    eapply frun_approved; [exact Hsym| |exact Hrec].
    cbn. split; [|exact I]. split; [|exact I].
    intros Hd. rewrite Hd0 in Hd. discriminate.
  Qed.
  (* ---- a production whose reductions the filter always rejects ---------------- *)
  Lemma approved_no_prod k trc t :
    dyn_prod k = true ->
    (forall from subs ah pos, ~ In (FReduce from k subs ah pos, true) trc) ->
    appr trc t -> ~ In k (prods_of t).
  Proof.
    intros Hk Hno.
    induction t as [y s e|p s e cs IH] using tree_ind2; intros H; cbn [prods_of]; [intros []|].
    cbn [approved] in H. destruct H as [Hn Hc]. intros [->|Hin].
    - destruct (Hn Hk) as (from & ah & pos & Hcall). exact (Hno _ _ _ _ Hcall).
    - apply in_flat_map in Hin. destruct Hin as (c0 & Hc0 & Hin).
      rewrite All_In in IH, Hc. exact (IH c0 Hc0 (Hc c0 Hc0) Hin).
  Qed.

  Theorem fparse_rejected_prod_absent k fuel fs pos t rp lay tr fs' trc :
    shift_sym_ok tb = true -> dyn_prod 0 = false -> dyn_prod k = true ->
    (forall fs0 from subs ah pos, fst (filt fs0 (FReduce from k subs ah pos)) = false) ->
    fparse' fuel fs pos = (DRes (LROk t rp lay tr), fs', trc) ->
    ~ In k (prods_of t).
  Proof.
    intros Hsym Hd0 Hk Hrej H.
    pose proof (fparse_approved _ _ _ _ _ _ _ _ _ Hsym Hd0 H) as Happ.
    destruct (fparse_trace_shape _ _ _ _ _ _ H) as (v0 & rest & -> & _ & _ & Hv).
    apply (approved_no_prod k ((FInit, v0) :: rest) t Hk); [|exact Happ].
    intros from subs ah pos1 [E|Hin]; [discriminate|].
    destruct (Hv _ _ Hin) as (fs0 & Hf). rewrite Hrej in Hf. discriminate.
  Qed.

  (* ---- a filter that accepts everything ------------------------------------------ *)
  Lemma cells_single_spec s y :
    cells_single g tb = true -> (dd_count g (cell tb s y) <= 1)%nat.
  Proof.
    intros Hok. unfold cell.
    destruct (get_state tb s) as [st|] eqn:Es; [|cbn; lia].
    destruct (assoc y (st_actions st)) as [l|] eqn:Ea; [|cbn; lia].
    unfold cells_single in Hok. rewrite forallb_forall in Hok.
    specialize (Hok st (nth_error_In _ _ Es)). rewrite forallb_forall in Hok.
    specialize (Hok _ (assoc_In' _ _ _ Ea)). cbn [snd] in Hok.
    apply Nat.leb_le in Hok. exact Hok.
  Qed.

  Lemma fstep_accept_all fs s :
    cells_single g tb = true -> (forall fs0 c, fst (filt fs0 c) = true) ->
    fst (fst (fstep' fs s)) = lift (step s).
  Proof.
    intros Hcs Hall. rewrite step_decide. unfold fstep.
    destruct (decide s) as [r|stk lay1 scan fb acts] eqn:Hd; [reflexivity|].
    destruct acts as [|a0 acts0]; [reflexivity|].
    pose proof (run_filter_accept_all stk scan (a0 :: acts0) Hall fs) as Hk.
    destruct (rfilter fs stk scan (a0 :: acts0)) as [[kept fs1] cs1]. cbn [fst] in Hk. subst kept.
    assert (Hle : (dd_count g (a0 :: acts0) <= 1)%nat).
    { destruct (decide_spec _ _ _ _ _ _ Hd) as (top & below & _ & _ & _ & Hacts).
      destruct Hacts as [E|[(_ & y & len & _ & ->)|(_ & ->)]]; [discriminate| |];
        apply cells_single_spec; exact Hcs. }
    destruct (Nat.ltb_spec 1 (dd_count g (a0 :: acts0))) as [Hlt|_]; [lia|].
    reflexivity.
  Qed.

  Lemma frun_accept_all fuel : forall fs s,
    cells_single g tb = true -> (forall fs0 c, fst (filt fs0 c) = true) ->
    fst (fst (frun' fuel fs s)) = DRes (run fuel s).
  Proof.
    induction fuel as [|f IH]; intros fs s Hcs Hall; cbn [frun lr_run]; [reflexivity|].
    pose proof (fstep_accept_all fs s Hcs Hall) as Hs.
    destruct (fstep' fs s) as [[o fs1] cs]. cbn [fst] in Hs. subst o.
    destruct (step s) as [s'|r]; cbn [lift]; [|reflexivity].
    specialize (IH fs1 s' Hcs Hall).
    destruct (frun' f fs1 s') as [[r2 fs2] tr2]. exact IH.
  Qed.

  (* with a table an LR parser can be built from without a filter, the accept-all
     filter changes nothing: same tree, same error, same position *)
  Theorem fparse_accept_all fuel fs pos :
    cells_single g tb = true -> (forall fs0 c, fst (filt fs0 c) = true) ->
    fst (fst (fparse' fuel fs pos)) =
    DRes (lr_parse g tb skipws next_token stop_id consume_input in_layout fuel pos).
  Proof.
    intros Hcs Hall. unfold fparse, lr_parse. destruct (filt fs FInit) as [v0 fs0].
    pose proof (frun_accept_all fuel fs0 (lr_init pos) Hcs Hall) as H.
    destruct (frun' fuel fs0 (lr_init pos)) as [[r fs1] tr1]. exact H.
  Qed.
End DynProofs.
