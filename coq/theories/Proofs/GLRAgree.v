(* GLR / LR agreement on deterministic, complete tables -- the part that follows from the
   soundness of both driver models and the unambiguity theorem: every tree of the GLR model's
   forest over the token sequence the LR model shifted IS the LR model's tree (up to the spans
   recorded in interior nodes).  That the GLR forest holds exactly one tree would need a
   completeness theorem of the GLR exploration (false in general, see C02). *)
From Coq Require Import NArith List Bool.
From PV Require Import Spec.Cfg Model.Table Model.Forest Model.LRDriver Model.Scan Model.Parser Model.GLR
  Validators.TableStruct Validators.TableComplete Validators.ForestSound
  Proofs.LRProofs Proofs.UnambigProofs Proofs.GLRProofs.
Import ListNotations.

Theorem glr_lr_agree
  (g : grammar) (tb : table) (ann : list (list litem)) (fst_tab : list (list N)) (nul_tab : list bool)
  (stop_id start : N)
  (* the LR run *)
  (lskipws : N -> option N) (next_token : nat -> N -> tokres) (lconsume in_layout : bool)
  (lfuel : nat) (lpos : N) (t_lr : tree) rp lay tr
  (* the GLR run *)
  (terms : list term_info) (rx : N -> N -> option N) (in_len : N) (consume lexdis : bool)
  (skipws : N -> skres) (rorder : list nat -> list nat -> list nat) (fuel : nat) (pos : N)
  (nodes : forest) (root : nat) :
  table_struct g tb start = true ->
  table_complete g tb ann fst_tab nul_tab stop_id = true ->
  det_table tb = true ->
  lr_parse g tb lskipws next_token stop_id lconsume in_layout lfuel lpos = LROk t_lr rp lay tr ->
  glr_parse g tb terms rx in_len stop_id consume lexdis skipws rorder fuel pos = GLRForest nodes root ->
  forall t, unfolds (glr_forest nodes root) (pred (length (glr_forest nodes root))) t ->
    leaves t = leaves t_lr -> shape t = shape t_lr.
Proof.
  intros Hts Htc Hdet Hlr Hglr t Ht Hl.
  destruct (lr_sound _ _ _ _ _ _ _ _ _ _ _ _ _ _ Hts Hlr) as (W1 & R1 & _).
  destruct (glr_sound g tb start Hts _ _ _ _ _ _ _ _ _ _ _ _ Hglr t Ht) as (W2 & R2).
  eapply det_unambiguous; try eassumption.
  destruct (prod0 g tb start Hts) as (pr0 & Hp0 & Hr0). exists pr0. auto.
Qed.
