(* End-to-end: the table built by the model of create_table passes the validator
   table_complete with the annotation derived from the model's own item sets, for every
   grammar of the class [plain_ok] (no priorities / associativities / prefer-shifts, i.e.
   nothing that removes actions), SLR item sets.  With CompleteProofs.lr_machine_complete:
   every derivation of the grammar has an accepting run on the model-built table. *)
From Coq Require Import NArith List Bool Lia Arith Permutation.
From PV Require Import Spec.Cfg Model.Table Spec.NLR Model.First Model.Closure Model.Automaton
  Model.Resolve Model.TableBuild Model.TableSpec Validators.TableComplete Gen.Consts
  Proofs.SetProofs Proofs.CompleteProofs Proofs.FirstProofs Proofs.FollowProofs
  Proofs.ClosureProofs Proofs.AutomatonProofs Proofs.PrecProofs.
From PV Require Model.Determ Proofs.DetermProofs.
Import ListNotations.
Local Open Scope N_scope.

(* ---- ordered dicts -------------------------------------------------------------------- *)
Lemma assoc_In_iff {V} k (v : V) l : NoDup (map fst l) -> (assoc k l = Some v <-> In (k, v) l).
Proof.
  induction l as [|[a w] r IH]; cbn; intros Hnd; [split; [discriminate|intros []]|].
  inversion Hnd; subst. destruct (N.eqb_spec k a) as [->|Hne].
  - split; [intros H; inversion H; left; reflexivity|].
    intros [H|H]; [inversion H; reflexivity|].
    exfalso. apply H1. apply in_map_iff. exists (a, v). auto.
  - rewrite (IH H2). split; [auto|]. intros [H|H]; [inversion H; congruence|exact H].
Qed.

Lemma assoc_perm {V} k (l l' : list (N * V)) :
  Permutation l l' -> NoDup (map fst l) -> assoc k l' = assoc k l.
Proof.
  intros Hp Hnd.
  assert (Hnd' : NoDup (map fst l')).
  { eapply Permutation_NoDup; [apply Permutation_map; exact Hp|exact Hnd]. }
  destruct (assoc k l) as [v|] eqn:E.
  - apply assoc_In_iff; [exact Hnd'|]. eapply Permutation_in; [exact Hp|].
    apply assoc_In_iff; assumption.
  - destruct (assoc k l') as [v|] eqn:E'; [|reflexivity].
    apply (assoc_In_iff k v l' Hnd') in E'. apply Permutation_sym in Hp.
    apply (Permutation_in _ Hp) in E'. apply (assoc_In_iff k v l Hnd) in E'. congruence.
Qed.

(* ---- the table with no resolution ------------------------------------------------------- *)
Lemma raw_step_nodup acts pt : NoDup (map fst acts) -> NoDup (map fst (raw_step acts pt)).
Proof.
  destruct pt as [p t]. unfold raw_step. destruct (assoc t acts); apply aset_nodup.
Qed.

Lemma raw_fold_nodup w : forall acts,
  NoDup (map fst acts) -> NoDup (map fst (fold_left raw_step w acts)).
Proof.
  induction w as [|pt w IH]; intros acts H; cbn; [exact H|]. apply IH. apply raw_step_nodup. exact H.
Qed.

Lemma raw_step_keeps pt acts t l a :
  assoc t acts = Some l -> In a l ->
  exists l', assoc t (raw_step acts pt) = Some l' /\ In a l'.
Proof.
  destruct pt as [p t0]. intros H Ha. unfold raw_step.
  destruct (assoc t0 acts) as [l0|] eqn:E0; rewrite assoc_aset; destruct (N.eqb_spec t t0) as [->|Hne].
  - rewrite H in E0. inversion E0; subst l0. eexists. split; [reflexivity|].
    apply in_or_app. left. exact Ha.
  - exists l. auto.
  - congruence.
  - exists l. auto.
Qed.

Lemma raw_fold_keeps w : forall acts t l a,
  assoc t acts = Some l -> In a l ->
  exists l', assoc t (fold_left raw_step w acts) = Some l' /\ In a l'.
Proof.
  induction w as [|pt w IH]; intros acts t l a H Ha; cbn [fold_left].
  - exists l. auto.
  - destruct (raw_step_keeps pt acts t l a H Ha) as (l1 & H1 & Ha1). eapply IH; eassumption.
Qed.

Lemma raw_fold_adds w : forall acts p t,
  In (p, t) w -> exists l', assoc t (fold_left raw_step w acts) = Some l' /\ In (Reduce p) l'.
Proof.
  induction w as [|pt w IH]; intros acts p t Hin; [destruct Hin|]. cbn [fold_left].
  destruct Hin as [->|Hin]; [|apply IH; exact Hin].
  assert (H1 : exists l1, assoc t (raw_step acts (p, t)) = Some l1 /\ In (Reduce p) l1).
  { unfold raw_step. destruct (assoc t acts) as [l0|]; rewrite assoc_aset, N.eqb_refl;
      eexists; (split; [reflexivity|]); [apply in_or_app; right|]; left; reflexivity. }
  destruct H1 as (l1 & H1 & Ha1). eapply raw_fold_keeps; eassumption.
Qed.

(* ---- the REDUCE phase depends on the production meta-data pointwise ---------------------- *)
Lemma fold_left_ext {A B} (f g : A -> B -> A) l : (forall a b, f a b = g a b) ->
  forall a, fold_left f l a = fold_left g l a.
Proof. intros H. induction l as [|b r IH]; intros a; cbn; [reflexivity|]. rewrite H. apply IH. Qed.

Lemma reduce_phase_ext g m1 m2 ps pse ss items shifts :
  (forall p, m1 p = m2 p) ->
  reduce_phase g m1 ps pse ss items shifts = reduce_phase g m2 ps pse ss items shifts.
Proof.
  intros Hm. unfold reduce_phase.
  assert (Hmp : max_prior_per_symbol g m1 items = max_prior_per_symbol g m2 items).
  { unfold max_prior_per_symbol. apply fold_left_ext. intros a b. unfold max_prior_step.
    rewrite Hm. reflexivity. }
  rewrite Hmp. apply fold_left_ext. intros a [p t]. unfold step. destruct a as [acts|]; [|reflexivity].
  destruct (assoc t acts) as [l|]; [|reflexivity].
  assert (Hr : resolve_one g m1 ps pse ss (max_prior_per_symbol g m2 items) p l =
               resolve_one g m2 ps pse ss (max_prior_per_symbol g m2 items) p l).
  { unfold resolve_one. rewrite Hm.
    destruct (filter is_reduce l) as [|[s|p0|] r]; try reflexivity. rewrite (Hm p0). reflexivity. }
  rewrite Hr. reflexivity.
Qed.
