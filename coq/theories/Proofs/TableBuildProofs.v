(* End-to-end: the table built by the model of create_table passes the validator
   table_complete with the annotation derived from the model's own item sets, for every
   grammar of the class [plain_ok] (no priorities / associativities / prefer-shifts, i.e.
   nothing that removes actions), SLR item sets.  With CompleteProofs.lr_machine_complete:
   every derivation of the grammar has an accepting run on the model-built table. *)
From Coq Require Import NArith List Bool Lia Arith Permutation.
From PV Require Import Spec.Cfg Model.Table Spec.NLR Model.First Model.Closure Model.Automaton
  Model.Resolve Model.TableBuild Model.TableSpec Validators.TableComplete Gen.Consts
  Proofs.SetProofs Proofs.CompleteProofs Proofs.FirstProofs Proofs.FollowProofs
  Proofs.ClosureProofs Proofs.AutomatonProofs Proofs.PrecProofs.
From PV Require Model.Determ Proofs.DetermProofs.
Import ListNotations.
Local Open Scope N_scope.

(* ---- ordered dicts -------------------------------------------------------------------- *)
Lemma assoc_In_iff {V} k (v : V) l : NoDup (map fst l) -> (assoc k l = Some v <-> In (k, v) l).
Proof.
  induction l as [|[a w] r IH]; cbn; intros Hnd; [split; [discriminate|intros []]|].
  inversion Hnd; subst. destruct (N.eqb_spec k a) as [->|Hne].
  - split; [intros H; inversion H; left; reflexivity|].
    intros [H|H]; [inversion H; reflexivity|].
    exfalso. apply H1. apply in_map_iff. exists (a, v). auto.
  - rewrite (IH H2). split; [auto|]. intros [H|H]; [inversion H; congruence|exact H].
Qed.

Lemma assoc_perm {V} k (l l' : list (N * V)) :
  Permutation l l' -> NoDup (map fst l) -> assoc k l' = assoc k l.
Proof.
  intros Hp Hnd.
  assert (Hnd' : NoDup (map fst l')).
  { eapply Permutation_NoDup; [apply Permutation_map; exact Hp|exact Hnd]. }
  destruct (assoc k l) as [v|] eqn:E.
  - apply assoc_In_iff; [exact Hnd'|]. eapply Permutation_in; [exact Hp|].
    apply assoc_In_iff; assumption.
  - destruct (assoc k l') as [v|] eqn:E'; [|reflexivity].
    apply (assoc_In_iff k v l' Hnd') in E'. apply Permutation_sym in Hp.
    apply (Permutation_in _ Hp) in E'. apply (assoc_In_iff k v l Hnd) in E'. congruence.
Qed.

(* ---- the table with no resolution ------------------------------------------------------- *)
Lemma raw_step_nodup acts pt : NoDup (map fst acts) -> NoDup (map fst (raw_step acts pt)).
Proof.
  destruct pt as [p t]. unfold raw_step. destruct (assoc t acts); apply aset_nodup.
Qed.

Lemma raw_fold_nodup w : forall acts,
  NoDup (map fst acts) -> NoDup (map fst (fold_left raw_step w acts)).
Proof.
  induction w as [|pt w IH]; intros acts H; cbn; [exact H|]. apply IH. apply raw_step_nodup. exact H.
Qed.

Lemma raw_step_keeps pt acts t l a :
  assoc t acts = Some l -> In a l ->
  exists l', assoc t (raw_step acts pt) = Some l' /\ In a l'.
Proof.
  destruct pt as [p t0]. intros H Ha. unfold raw_step.
  destruct (assoc t0 acts) as [l0|] eqn:E0; rewrite assoc_aset; destruct (N.eqb_spec t t0) as [->|Hne].
  - rewrite H in E0. inversion E0; subst l0. eexists. split; [reflexivity|].
    apply in_or_app. left. exact Ha.
  - exists l. auto.
  - congruence.
  - exists l. auto.
Qed.

Lemma raw_fold_keeps w : forall acts t l a,
  assoc t acts = Some l -> In a l ->
  exists l', assoc t (fold_left raw_step w acts) = Some l' /\ In a l'.
Proof.
  induction w as [|pt w IH]; intros acts t l a H Ha; cbn [fold_left].
  - exists l. auto.
  - destruct (raw_step_keeps pt acts t l a H Ha) as (l1 & H1 & Ha1). eapply IH; eassumption.
Qed.

Lemma raw_fold_adds w : forall acts p t,
  In (p, t) w -> exists l', assoc t (fold_left raw_step w acts) = Some l' /\ In (Reduce p) l'.
Proof.
  induction w as [|pt w IH]; intros acts p t Hin; [destruct Hin|]. cbn [fold_left].
  destruct Hin as [->|Hin]; [|apply IH; exact Hin].
  assert (H1 : exists l1, assoc t (raw_step acts (p, t)) = Some l1 /\ In (Reduce p) l1).
  { unfold raw_step. destruct (assoc t acts) as [l0|]; rewrite assoc_aset, N.eqb_refl;
      eexists; (split; [reflexivity|]); [apply in_or_app; right|]; left; reflexivity. }
  destruct H1 as (l1 & H1 & Ha1). eapply raw_fold_keeps; eassumption.
Qed.

(* ---- the REDUCE phase depends on the production meta-data pointwise ---------------------- *)
Lemma fold_left_ext {A B} (f g : A -> B -> A) l : (forall a b, f a b = g a b) ->
  forall a, fold_left f l a = fold_left g l a.
Proof. intros H. induction l as [|b r IH]; intros a; cbn; [reflexivity|]. rewrite H. apply IH. Qed.

Lemma reduce_phase_ext g m1 m2 ps pse ss items shifts :
  (forall p, m1 p = m2 p) ->
  reduce_phase g m1 ps pse ss items shifts = reduce_phase g m2 ps pse ss items shifts.
Proof.
  intros Hm. unfold reduce_phase.
  assert (Hmp : max_prior_per_symbol g m1 items = max_prior_per_symbol g m2 items).
  { unfold max_prior_per_symbol. apply fold_left_ext. intros a b. unfold max_prior_step.
    rewrite Hm. reflexivity. }
  rewrite Hmp. apply fold_left_ext. intros a [p t]. unfold step. destruct a as [acts|]; [|reflexivity].
  destruct (assoc t acts) as [l|]; [|reflexivity].
  assert (Hr : resolve_one g m1 ps pse ss (max_prior_per_symbol g m2 items) p l =
               resolve_one g m2 ps pse ss (max_prior_per_symbol g m2 items) p l).
  { unfold resolve_one. rewrite Hm.
    destruct (filter is_reduce l) as [|[s|p0|] r]; try reflexivity. rewrite (Hm p0). reflexivity. }
  rewrite Hr. reflexivity.
Qed.

(* ---- unpacking plain_ok ------------------------------------------------------------------ *)
Lemma prod_eqb_eq a b : prod_eqb a b = true <-> a = b.
Proof.
  unfold prod_eqb. rewrite andb_true_iff, N.eqb_eq, (list_eqb_eq sym_eqb sym_eqb_eq).
  destruct a, b; cbn. split; [intros [-> ->]; reflexivity|intros H; inversion H; auto].
Qed.

Lemma meta_default_eq m : meta_is_default m = true -> m = default_meta.
Proof.
  unfold meta_is_default. rewrite !andb_true_iff, !N.eqb_eq, !negb_true_iff.
  destruct m; cbn. intros [[[-> ->] ->] ->]. reflexivity.
Qed.

Record plain (c : tconf) : Prop := mkPlain {
  pl_ps : tc_ps c = false;
  pl_pse : tc_pse c = false;
  pl_meta : forall p, meta_of c p = default_meta;
  pl_wf : prods_wfb (tc_empty c) (tc_nnts c) (tc_nterms c) (tc_prods c) = true;
  pl_swap : swap_start c = tc_prods c;
  pl_trail : forall p, In p (tc_prods c) -> trailing_emptyb (tc_empty c) (rhs p) = true;
  pl_aug : aug_ok (cfg_std c) = true;
  pl_aug1 : forall p, In p (tl (tc_prods c)) -> lhs p <> aug_nt c;
  pl_stop : tc_stop c <> tc_empty c;
  pl_stop1 : forall p, In p (tl (tc_prods c)) -> ~ In (T (tc_stop c)) (rhs p)
}.

Lemma plain_ok_plain c : plain_ok c = true -> plain c.
Proof.
  unfold plain_ok. rewrite !andb_true_iff, !negb_true_iff.
  intros [[[[[[[[[H1 H2] H3] H4] H5] H6] H7] H8] H9] H10].
  constructor; try assumption.
  - intros p. unfold meta_of. rewrite forallb_forall in H3.
    destruct (nth_in_or_default (N.to_nat p) (tc_meta c) default_meta) as [Hin|Heq];
      [|rewrite Heq; reflexivity].
    apply meta_default_eq. apply H3. exact Hin.
  - apply (list_eqb_eq prod_eqb prod_eqb_eq). exact H5.
  - rewrite forallb_forall in H6. exact H6.
  - rewrite forallb_forall in H8. intros p Hp. specialize (H8 p Hp).
    apply negb_true_iff, N.eqb_neq in H8. exact H8.
  - apply N.eqb_neq. exact H9.
  - rewrite forallb_forall in H10. intros p Hp Hin. specialize (H10 p Hp).
    rewrite forallb_forall in H10. specialize (H10 _ Hin). rewrite sym_eqb_refl in H10. discriminate.
Qed.

Lemma In_skipn {X} (x : X) n l : In x (skipn n l) -> In x l.
Proof.
  revert n. induction l as [|y r IH]; intros [|n] H; cbn in *; auto. right. eapply IH. exact H.
Qed.

Lemma nth_error_strip_prods e ps k :
  nth_error (strip_prods e ps) k =
  option_map (fun p => mkProd (lhs p) (strip e (rhs p))) (nth_error ps k).
Proof. unfold strip_prods. apply nth_error_map. Qed.

Lemma prods_of_same_lhs (g1 g2 : list prod) b :
  map lhs g1 = map lhs g2 -> prods_of g1 b = prods_of g2 b.
Proof.
  intros H. unfold prods_of.
  assert (Hlen : length g1 = length g2) by (rewrite <- (map_length lhs g1), H, map_length; reflexivity).
  rewrite Hlen. f_equal. apply filter_ext. intros k.
  assert (Hk : option_map lhs (nth_error g1 k) = option_map lhs (nth_error g2 k))
    by (rewrite <- !nth_error_map, H; reflexivity).
  destruct (nth_error g1 k), (nth_error g2 k); cbn in Hk; try discriminate; [|reflexivity].
  inversion Hk. reflexivity.
Qed.

Lemma reduce_all_spec c fo all l : forall t,
  reduce_all c fo all l = Some t ->
  length t = length l /\
  forall s st, nth_error l s = Some st ->
    exists acts, reduce_state c fo all st = Some acts /\ nth_error t s = Some (finish_state c st acts).
Proof.
  induction l as [|st0 r IH]; intros t H; cbn [reduce_all] in H.
  - inversion H; subst. split; [reflexivity|]. intros s st Hs. destruct s; discriminate.
  - destruct (reduce_state c fo all st0) as [a|] eqn:Ea; [|discriminate].
    destruct (reduce_all c fo all r) as [t'|] eqn:Er; [|discriminate]. inversion H; subst t.
    destruct (IH t' eq_refl) as [Hl Hn]. split; [cbn; congruence|].
    intros s st Hs. destruct s as [|s]; cbn in Hs.
    + inversion Hs; subst st0. exists a. auto.
    + apply Hn. exact Hs.
Qed.

(* ---- the built table ------------------------------------------------------------------------ *)
Section Built.
  Variable c : tconf.
  Hypothesis Hpl : plain c.
  Hypothesis Hlr0 : tc_lr1 c = false.

  Notation e := (tc_empty c).
  Notation stop := (tc_stop c).
  Notation ps := (tc_prods c).
  Notation nnts := (tc_nnts c).
  Notation nterms := (tc_nterms c).
  Notation g := (cfg_of c).
  Notation g0 := (cfg_std c).
  Notation aug := (aug_nt c).
  Notation s0 := (start_nt c).

  (* ---- the grammars ------------------------------------------------------------------------ *)
  Lemma ps_shape : exists p0 rest, ps = p0 :: rest /\ lhs p0 = aug /\ rhs p0 = [NT s0; T stop].
  Proof.
    pose proof (pl_swap c Hpl) as Hs. pose proof (pl_aug c Hpl) as Ha.
    unfold swap_start in Hs. destruct ps as [|p0 rest] eqn:Eps.
    - exfalso. unfold cfg_std, cfg_of, swap_start in Ha. rewrite Eps in Ha. cbn in Ha. discriminate.
    - exists p0, rest. split; [reflexivity|]. inversion Hs as [[H0]].
      split; [unfold aug_nt, lhs_of; rewrite Eps; reflexivity|].
      apply (f_equal rhs) in H0. cbn [rhs] in H0. unfold start_nt. rewrite Eps. symmetry. first [exact H0|reflexivity].
  Qed.

  Lemma g_eq : g = strip_prods e ps.
  Proof. unfold cfg_of. rewrite (pl_swap c Hpl). reflexivity. Qed.

  Lemma strip_prod0 : strip e [NT s0; T stop] = [NT s0; T stop].
  Proof.
    unfold strip. cbn. destruct (N.eqb_spec stop e) as [H|_]; [|reflexivity].
    exfalso. exact (pl_stop c Hpl H).
  Qed.

  Lemma g0_eq : exists p0 rest, ps = p0 :: rest /\ lhs p0 = aug /\ rhs p0 = [NT s0; T stop] /\
                                g0 = mkProd aug [NT s0] :: strip_prods e rest.
  Proof.
    destruct ps_shape as (p0 & rest & Eps & Hl & Hr). exists p0, rest.
    split; [exact Eps|]. split; [exact Hl|]. split; [exact Hr|].
    unfold cfg_std. rewrite g_eq, Eps. cbn. rewrite Hl. reflexivity.
  Qed.

  Lemma get_prod_g0_0 : get_prod g0 0 = Some (mkProd aug [NT s0]).
  Proof. destruct g0_eq as (p0 & rest & _ & _ & _ & ->). reflexivity. Qed.

  Lemma get_prod_g0 p : p <> 0 ->
    get_prod g0 p = option_map (fun pr => mkProd (lhs pr) (strip e (rhs pr))) (nth_error ps (N.to_nat p)).
  Proof.
    intros Hp. destruct g0_eq as (p0 & rest & Eps & _ & _ & ->). unfold get_prod. rewrite Eps.
    destruct (N.to_nat p) as [|k] eqn:Ek; [lia|]. cbn. apply nth_error_strip_prods.
  Qed.

  Lemma rhs_of_g p : rhs_of g p = strip e (rhs_raw ps p).
  Proof.
    unfold rhs_of, get_prod, rhs_raw. rewrite g_eq, nth_error_strip_prods.
    destruct (nth_error ps (N.to_nat p)); reflexivity.
  Qed.

  Lemma trailing_raw p : trailing_emptyb e (rhs_raw ps p) = true.
  Proof.
    unfold rhs_raw. destruct (nth_error ps (N.to_nat p)) as [pr|] eqn:E; [|reflexivity].
    apply (pl_trail c Hpl). eapply nth_error_In. exact E.
  Qed.

  Lemma sym_at_strip p d : sym_at ps e p d = nth_error (strip e (rhs_raw ps p)) d.
  Proof. unfold sym_at. apply rget_strip. apply trailing_raw. Qed.

  Lemma rhs_raw_0 : rhs_raw ps 0 = [NT s0; T stop].
  Proof. destruct ps_shape as (p0 & rest & Eps & _ & Hr). unfold rhs_raw. rewrite Eps. exact Hr. Qed.

  Lemma lhs_of_0 : lhs_of ps 0 = aug.
  Proof. reflexivity. Qed.

  Lemma map_lhs_g0 : map lhs g0 = map lhs ps.
  Proof.
    destruct g0_eq as (p0 & rest & Eps & Hl & _ & ->). rewrite Eps. cbn. rewrite Hl. f_equal.
    unfold strip_prods. rewrite map_map. reflexivity.
  Qed.

  (* S' occurs in no right-hand side *)
  Lemma aug_not_in_raw p d : sym_at ps e p d <> Some (NT aug).
  Proof.
    intros H. rewrite sym_at_strip in H. pose proof (pl_aug c Hpl) as Ha. unfold aug_ok in Ha.
    rewrite get_prod_g0_0 in Ha. cbn [lhs] in Ha. rewrite forallb_forall in Ha.
    destruct (N.eq_dec p 0) as [->|Hp].
    - rewrite rhs_raw_0, strip_prod0 in H.
      assert (Hin : In (mkProd aug [NT s0]) g0) by (apply (nth_error_In g0 (N.to_nat 0)); exact get_prod_g0_0).
      specialize (Ha _ Hin). cbn [rhs] in Ha. rewrite forallb_forall in Ha.
      destruct d as [|[|d]]; cbn in H; inversion H as [E].
      specialize (Ha (NT s0) (or_introl eq_refl)). rewrite E, sym_eqb_refl in Ha.
      discriminate.
      destruct d; discriminate.
    - pose proof (get_prod_g0 p Hp) as Hg. unfold rhs_raw in H.
      destruct (nth_error ps (N.to_nat p)) as [pr|] eqn:E; [|destruct d; discriminate].
      cbn in Hg. assert (Hin : In (mkProd (lhs pr) (strip e (rhs pr))) g0).
      { unfold get_prod in Hg. eapply nth_error_In. exact Hg. }
      specialize (Ha _ Hin). cbn [rhs] in Ha. rewrite forallb_forall in Ha.
      apply nth_error_In in H. specialize (Ha _ H). rewrite sym_eqb_refl in Ha. discriminate.
  Qed.

  (* ---- the pieces of create_table ------------------------------------------------------- *)
  Variables (fs fo : fsets) (all : list mstate) (t : table).
  Hypothesis Hfs : first_sets e (tc_ffuel c) nnts ps = Some fs.
  Hypothesis Hfo : follow_sets e (tc_ffuel c) fs nnts ps = Some fo.
  Hypothesis Hinv : sinv ps e stop (length all) all.
  Hypothesis Ht : reduce_all c fo all all = Some t.

  Notation FT := (fst_tab_of e fs).
  Notation NTb := (nul_tab_of e fs).
  Notation FT0 := (fst_std c fs).
  Notation NT0 := (nul_std c fs).
  Definition ann : list (list litem) := map (map (litem_of c fo)) (map ms_items all).

  Lemma Hfsinv : fs_inv nnts nterms fs.
  Proof. eapply first_inv; [exact (pl_wf c Hpl)|exact Hfs]. Qed.

  Lemma Hfoinv : fo_inv e nnts nterms fo.
  Proof. eapply follow_inv; [exact Hfsinv|exact (pl_wf c Hpl)|exact Hfo]. Qed.

  Lemma state_of s st : nth_error all s = Some st ->
    state_wf ps e stop st /\ state_done ps e stop all st.
  Proof.
    intros Hs. split; [apply (si_nodup _ _ _ _ _ Hinv s st Hs)|].
    apply (si_done _ _ _ _ _ Hinv s st); [|exact Hs]. apply nth_error_Some. congruence.
  Qed.

  Lemma table_state s st : nth_error all s = Some st ->
    nth_error t s = Some (finish_state c st (unresolved g (ritems_of c fo st) (ms_acts st))).
  Proof.
    intros Hs. destruct (reduce_all_spec c fo all all t Ht) as [_ Hn].
    destruct (Hn s st Hs) as (acts & Hr & Hts). rewrite Hts. f_equal. f_equal.
    unfold reduce_state in Hr.
    rewrite (reduce_phase_ext g (meta_of c) (fun _ => default_meta) _ _ _ _ _ (pl_meta c Hpl)) in Hr.
    rewrite (pl_ps c Hpl), (pl_pse c Hpl) in Hr.
    apply default_is_unresolved in Hr. exact Hr.
  Qed.

  Lemma table_length : length t = length all.
  Proof. exact (proj1 (reduce_all_spec c fo all all t Ht)). Qed.

  Lemma cell_eq s st a : nth_error all s = Some st ->
    cell t s a = match assoc a (unresolved g (ritems_of c fo st) (ms_acts st)) with
                 | Some l => l | None => [] end.
  Proof.
    intros Hs. unfold cell, get_state. rewrite (table_state s st Hs). cbn [finish_state st_actions].
    unfold sort_cells. set (acts := unresolved g (ritems_of c fo st) (ms_acts st)).
    assert (Hp : Permutation acts (Determ.sort_by (cell_before c) acts))
      by (apply Permutation_sym, DetermProofs.sort_by_perm).
    assert (Hnd : NoDup (map fst acts)).
    { unfold acts, unresolved. apply raw_fold_nodup. apply (proj2 (proj1 (state_of s st Hs))). }
    rewrite (assoc_perm a acts _ Hp Hnd). reflexivity.
  Qed.

  Lemma cell_keeps s st a l x : nth_error all s = Some st ->
    assoc a (ms_acts st) = Some l -> In x l -> In x (cell t s a).
  Proof.
    intros Hs Ha Hx. rewrite (cell_eq s st a Hs). unfold unresolved.
    destruct (raw_fold_keeps (work_of g (ritems_of c fo st)) (ms_acts st) a l x Ha Hx) as (l' & H1 & H2).
    rewrite H1. exact H2.
  Qed.

  Lemma goto_eq s st b : nth_error all s = Some st -> goto t s b = assoc b (ms_gotos st).
  Proof.
    intros Hs. unfold goto, get_state. rewrite (table_state s st Hs). reflexivity.
  Qed.

  Lemma cell_reduce s st p d a : nth_error all s = Some st ->
    In (p, d) (pds (ms_items st)) -> d = length (strip e (rhs_raw ps p)) ->
    In a (fget fo (lhs_of ps p)) -> In (Reduce p) (cell t s a).
  Proof.
    intros Hs Hin Hd Ha. rewrite (cell_eq s st a Hs). unfold unresolved.
    destruct (raw_fold_adds (work_of g (ritems_of c fo st)) (ms_acts st) p a) as (l' & H1 & H2).
    - unfold work_of. apply in_flat_map. apply pds_In in Hin. destruct Hin as (it & Hit & Hpd).
      unfold pd in Hpd. inversion Hpd as [[Ep Ed]]. clear Hpd.
      exists (mkRItem (it_p it) (it_d it) (fget fo (lhs_of ps (it_p it)))). split.
      + unfold ritems_of. apply in_map_iff. exists it. split; [|exact Hit].
        rewrite Hlr0, (pl_swap c Hpl). reflexivity.
      + unfold at_end. cbn [ri_prod ri_dot ri_follow]. rewrite rhs_of_g, Ep, Ed, <- Hd, Nat.eqb_refl.
        apply in_map_iff. exists a. auto.
    - rewrite H1. exact H2.
  Qed.

  (* ---- the annotation ---------------------------------------------------------------------- *)
  Lemma ann_of_nth s st : nth_error all s = Some st ->
    ann_of ann s = map (litem_of c fo) (ms_items st).
  Proof.
    intros Hs. unfold ann_of, ann. rewrite map_map.
    apply (nth_error_nth _ _ []). rewrite nth_error_map, Hs. reflexivity.
  Qed.

  Definition litem_pd (p : N) (d : nat) : litem := (p, d, fget fo (lhs_of ps p)).

  Lemma litem_of_pd it : litem_of c fo it = litem_pd (it_p it) (it_d it).
  Proof. unfold litem_of, litem_pd. rewrite Hlr0, (pl_swap c Hpl). reflexivity. Qed.

  Lemma has_litem_intro s st p d L : nth_error all s = Some st ->
    In (p, d) (pds (ms_items st)) ->
    (forall x, In x L -> In x (eff_L stop (litem_pd p d))) ->
    has_litem ann stop s p d L = true.
  Proof.
    intros Hs Hin HL. unfold has_litem. rewrite (ann_of_nth s st Hs). apply existsb_exists.
    apply pds_In in Hin. destruct Hin as (it & Hit & Hpd). unfold pd in Hpd. inversion Hpd; subst p d.
    exists (litem_of c fo it). split; [apply in_map; exact Hit|]. rewrite litem_of_pd.
    unfold litem_pd, li_p, li_d. cbn [fst snd]. rewrite N.eqb_refl, Nat.eqb_refl. cbn [andb].
    apply subset_spec. exact HL.
  Qed.

  (* ---- the FIRST / nullable certificate for the grammar with S' -> start ------------------ *)
  Lemma aug_lt : (N.to_nat aug < length fs)%nat.
  Proof.
    destruct ps_shape as (p0 & rest & Eps & Hl & _). rewrite (proj1 Hfsinv), <- Hl.
    apply (wf_prod e nnts nterms ps (pl_wf c Hpl) p0). rewrite Eps. left. reflexivity.
  Qed.

  Lemma fst_nt0 a :
    fst_nt FT0 a = if a =? aug then nremove e (fget fs s0) else fst_nt FT a.
  Proof.
    unfold fst_nt, fst_std. destruct (N.eqb_spec a aug) as [->|Hne].
    - apply nth_upd_nth_eq. unfold fst_tab_of. rewrite map_length. exact aug_lt.
    - apply nth_upd_nth_neq. intros E. apply Hne. apply N2Nat.inj. congruence.
  Qed.

  Lemma nul_nt0 a :
    nul_nt NT0 a = if a =? aug then nmem e (fget fs s0) else nul_nt NTb a.
  Proof.
    unfold nul_nt, nul_std. destruct (N.eqb_spec a aug) as [->|Hne].
    - apply nth_upd_nth_eq. unfold nul_tab_of. rewrite map_length. exact aug_lt.
    - apply nth_upd_nth_neq. intros E. apply Hne. apply N2Nat.inj. congruence.
  Qed.

  Lemma seq_same xs : (forall x, In x xs -> x <> NT aug) ->
    fst_seq FT0 NT0 xs = fst_seq FT NTb xs /\ nul_seq NT0 xs = nul_seq NTb xs.
  Proof.
    induction xs as [|x r IH]; intros H; [split; reflexivity|].
    destruct (IH (fun y Hy => H y (or_intror Hy))) as [IH1 IH2].
    assert (Hx : fst_sym FT0 x = fst_sym FT x /\ nul_sym NT0 x = nul_sym NTb x).
    { destruct x as [a|a]; [split; reflexivity|]. cbn [fst_sym nul_sym].
      rewrite fst_nt0, nul_nt0. destruct (N.eqb_spec a aug) as [->|_]; [|split; reflexivity].
      exfalso. apply (H (NT aug)); [left; reflexivity|reflexivity]. }
    destruct Hx as [Hx1 Hx2]. cbn [fst_seq nul_seq forallb]. unfold nul_seq in IH2.
    rewrite Hx1, Hx2, IH1, IH2. split; reflexivity.
  Qed.

  Lemma strip_no_aug p x : In x (strip e (rhs_raw ps p)) -> x <> NT aug.
  Proof.
    intros Hin ->. apply In_nth_error in Hin. destruct Hin as (d & Hd).
    apply (aug_not_in_raw p d). rewrite sym_at_strip. exact Hd.
  Qed.

  Lemma first_closed_std : first_closed g0 FT0 NT0 = true.
  Proof.
    pose proof (first_closed_ok e ps _ _ fs Hfs) as Hc. unfold first_closed in *.
    rewrite forallb_forall in Hc. apply forallb_forall. intros pr Hpr.
    destruct g0_eq as (p0 & rest & Eps & Hl & Hr & Eg0). rewrite Eg0 in Hpr.
    destruct Hpr as [<-|Hpr].
    - cbn [lhs rhs]. assert (Hs0 : s0 <> aug).
      { intros E. apply (aug_not_in_raw 0 0). rewrite sym_at_strip, rhs_raw_0, strip_prod0. cbn. congruence. }
      cbn [fst_seq nul_seq forallb fst_sym nul_sym]. rewrite !fst_nt0, !nul_nt0.
      rewrite N.eqb_refl. apply N.eqb_neq in Hs0. rewrite Hs0. apply andb_true_iff. split.
      + apply subset_spec. intros y Hy. apply in_app_iff in Hy. destruct Hy as [Hy|Hy].
        * rewrite fst_nt_tab in Hy. exact Hy.
        * destruct (nul_nt NTb s0); destruct Hy.
      + rewrite andb_true_r, nul_nt_tab. destruct (nmem e (fget fs s0)); reflexivity.
    - unfold strip_prods in Hpr. apply in_map_iff in Hpr. destruct Hpr as (praw & <- & Hraw).
      assert (Hin : In praw ps) by (rewrite Eps; right; exact Hraw).
      specialize (Hc (mkProd (lhs praw) (strip e (rhs praw))) (in_strip_prods e ps praw Hin)).
      cbn [lhs rhs] in *.
      apply In_nth_error in Hin. destruct Hin as (k & Hk).
      assert (Hraw' : rhs_raw ps (N.of_nat k) = rhs praw) by (unfold rhs_raw; rewrite Nat2N.id, Hk; reflexivity).
      destruct (seq_same (strip e (rhs praw))) as [E1 E2].
      { intros x Hx. apply (strip_no_aug (N.of_nat k)). rewrite Hraw'. exact Hx. }
      rewrite E1, E2, fst_nt0, nul_nt0.
      assert (Hne : lhs praw <> aug).
      { apply (pl_aug1 c Hpl). rewrite Eps. exact Hraw. }
      apply N.eqb_neq in Hne. rewrite Hne. exact Hc.
  Qed.

  (* ---- FOLLOW covers what follows a nonterminal in an item ----------------------------------- *)
  Lemma trailing_prefix r : trailing_emptyb e r = true ->
    exists tl, r = strip e r ++ tl /\ forallb (is_EMPTY e) tl = true.
  Proof.
    induction r as [|x r IH]; intros H; [exists []; auto|]. cbn [trailing_emptyb] in H.
    destruct (is_EMPTY e x) eqn:Ex.
    - exists (x :: r). assert (Hall : forallb (is_EMPTY e) (x :: r) = true) by (cbn; rewrite Ex; exact H).
      rewrite (strip_all_empty e _ Hall). auto.
    - destruct (IH H) as (tl & E & Htl). exists tl. unfold strip. cbn [filter]. rewrite Ex. cbn [negb app].
      split; [f_equal; exact E|exact Htl].
  Qed.

  Lemma fst_seq_no_e xs y : (forall x, In x xs -> is_EMPTY e x = false) ->
    In y (fst_seq FT NTb xs) -> y <> e.
  Proof.
    induction xs as [|x r IH]; intros Hx Hy; [destruct Hy|]. cbn [fst_seq] in Hy.
    apply in_app_iff in Hy. destruct Hy as [Hy|Hy].
    - apply (fst_sym_tab e fs x y (Hx x (or_introl eq_refl))) in Hy. tauto.
    - destruct (nul_sym NTb x); [|destruct Hy]. apply IH; [|exact Hy].
      intros z Hz. apply Hx. right. exact Hz.
  Qed.

  Lemma strip_not_empty r x : In x (strip e r) -> is_EMPTY e x = false.
  Proof. unfold strip. intros H. apply filter_In in H. apply negb_true_iff. tauto. Qed.

  Lemma after_sub p d b pr :
    get_prod g0 p = Some pr -> nth_error (rhs pr) d = Some (NT b) -> (N.to_nat b < nnts)%nat ->
    forall y, In y (after FT0 NT0 stop pr (litem_pd p d)) -> In y (fget fo b).
  Proof.
    intros Hp Hd Hb y Hy. pose proof (follow_closed_ok e fs ps _ nnts fo Hfo) as Hclosed.
    destruct (N.eq_dec p 0) as [->|Hne].
    - rewrite get_prod_g0_0 in Hp. inversion Hp; subst pr. cbn [rhs] in Hd.
      destruct d as [|d]; [|destruct d; discriminate]. cbn in Hd. inversion Hd; subst b.
      unfold after, litem_pd, li_d, eff_L, li_p in Hy. cbn in Hy. destruct Hy as [<-|[]].
      destruct ps_shape as (p0 & rest & Eps & Hl & Hr).
      assert (Hin : In p0 ps) by (rewrite Eps; left; reflexivity).
      apply (Hclosed s0 p0 Hb Hin [] [T stop]); [rewrite Hr; reflexivity|exact (pl_stop c Hpl)|].
      cbn. left. left. reflexivity.
    - rewrite (get_prod_g0 p Hne) in Hp.
      destruct (nth_error ps (N.to_nat p)) as [praw|] eqn:Eraw; [|discriminate].
      cbn in Hp. inversion Hp; subst pr. cbn [rhs] in Hd.
      assert (Hraw : rhs_raw ps p = rhs praw) by (unfold rhs_raw; rewrite Eraw; reflexivity).
      assert (Hlhs : lhs_of ps p = lhs praw) by (unfold lhs_of; rewrite Eraw; reflexivity).
      assert (Htr : trailing_emptyb e (rhs praw) = true) by (rewrite <- Hraw; apply trailing_raw).
      destruct (trailing_prefix _ Htr) as (tl & Etl & _).
      assert (Hdlt : (d < length (strip e (rhs praw)))%nat) by (apply nth_error_Some; congruence).
      assert (Hnraw : nth_error (rhs praw) d = Some (NT b)).
      { rewrite Etl, nth_error_app1 by exact Hdlt. exact Hd. }
      destruct (nth_error_split _ _ Hnraw) as (pre & suf & Esplit & Hlen).
      assert (Hsuf : strip e suf = skipn (S d) (strip e (rhs praw))).
      { rewrite <- (rslice_strip e (rhs praw) Htr (S d)) by (unfold rlen, strip in *; lia).
        unfold rslice. rewrite Esplit. f_equal.
        rewrite <- Hlen. clear. induction pre as [|x r IH]; [reflexivity|exact IH]. }
      assert (Hin : In praw ps) by (eapply nth_error_In; exact Eraw).
      unfold after, litem_pd, li_d, eff_L, li_p, li_L in Hy. cbn [fst snd rhs] in Hy.
      apply N.eqb_neq in Hne. rewrite Hne in Hy.
      destruct (seq_same (skipn (S d) (strip e (rhs praw)))) as [E1 E2].
      { intros x Hx. apply (strip_no_aug p). rewrite Hraw. eapply In_skipn; exact Hx. }
      rewrite E1, E2, Hlhs in Hy.
      assert (Hye : y <> e).
      { apply in_app_iff in Hy. destruct Hy as [Hy|Hy].
        - eapply fst_seq_no_e; [|exact Hy]. intros x Hx. apply (strip_not_empty (rhs praw)).
          eapply In_skipn; exact Hx.
        - destruct (nul_seq NTb _); [|destruct Hy]. intros ->. exact (proj2 Hfoinv (lhs praw) Hy). }
      apply (Hclosed b praw Hb Hin pre suf Esplit y Hye).
      apply (sfirst_strip e fs _ suf y Hye). rewrite Hsuf.
      apply in_app_iff in Hy. destruct Hy as [Hy|Hy]; [left; exact Hy|right].
      destruct (nul_seq NTb _); [auto|destruct Hy].
  Qed.

  (* ---- every annotated item passes item_ok ------------------------------------------------- *)
  Lemma eff_L_pd p d : eff_L stop (litem_pd p d) = if p =? 0 then [stop] else fget fo (lhs_of ps p).
  Proof. reflexivity. Qed.

  Lemma existsb_action a l : In a l -> existsb (action_eqb a) l = true.
  Proof.
    intros H. apply existsb_exists. exists a. split; [exact H|].
    destruct a; cbn; [apply Nat.eqb_refl|apply N.eqb_refl|reflexivity].
  Qed.

  Lemma prods_of_g0 b : prods_of g0 b = prods_of ps b.
  Proof. apply prods_of_same_lhs. exact map_lhs_g0. Qed.

  Lemma prods_of_nonzero b q d p : In q (prods_of ps b) -> sym_at ps e p d = Some (NT b) ->
    q <> 0 /\ lhs_of ps q = b /\ (N.to_nat b < nnts)%nat.
  Proof.
    intros Hq Hs. pose proof (prods_of_lhs ps b q Hq) as Hl. split; [|split; [exact Hl|]].
    - intros ->. rewrite lhs_of_0 in Hl. subst b. exact (aug_not_in_raw p d Hs).
    - unfold prods_of in Hq. apply in_map_iff in Hq. destruct Hq as (k & <- & Hk).
      apply filter_In in Hk. destruct Hk as [_ Hk].
      destruct (nth_error ps k) as [pr|] eqn:E; [|discriminate]. apply N.eqb_eq in Hk. subst b.
      apply (wf_prod e nnts nterms ps (pl_wf c Hpl) pr). eapply nth_error_In. exact E.
  Qed.

  (* the closure condition of item_ok for a nonterminal b after the dot *)
  Lemma closure_items_ok s st p d b pr :
    nth_error all s = Some st -> In (p, d) (pds (ms_items st)) ->
    get_prod g0 p = Some pr -> nth_error (rhs pr) d = Some (NT b) -> sym_at ps e p d = Some (NT b) ->
    forallb (fun q => has_litem ann stop s q 0 (after FT0 NT0 stop pr (litem_pd p d))) (prods_of g0 b) = true.
  Proof.
    intros Hs Hin Hp Hd Hsym. destruct (state_of s st Hs) as [_ [Hc0 _]].
    apply forallb_forall. intros q Hq. rewrite prods_of_g0 in Hq.
    destruct (prods_of_nonzero b q d p Hq Hsym) as (Hq0 & Hql & Hb).
    apply (has_litem_intro s st q 0 _ Hs (Hc0 p d b Hin Hsym q Hq)).
    intros y Hy. rewrite eff_L_pd. apply N.eqb_neq in Hq0. rewrite Hq0, Hql.
    eapply after_sub; eassumption.
  Qed.

  Lemma item_ok_built s st p d :
    nth_error all s = Some st -> In (p, d) (pds (ms_items st)) ->
    item_ok g0 t ann FT0 NT0 stop s (litem_pd p d) = true.
  Proof.
    intros Hs Hin. destruct (state_of s st Hs) as [[(Hnd & Hpred & Hvalid) _] [Hc0 Hedge]].
    unfold item_ok. change (li_p (litem_pd p d)) with p. change (li_d (litem_pd p d)) with d.
    destruct (N.eq_dec p 0) as [->|Hne].
    - (* the augmented production *)
      rewrite get_prod_g0_0. cbn [rhs].
      assert (Hraw0 : forall k, sym_at ps e 0 k = nth_error [NT s0; T stop] k).
      { intros k. rewrite sym_at_strip, rhs_raw_0, strip_prod0. reflexivity. }
      destruct d as [|[|d]].
      + cbn [nth_error]. pose proof (Hedge 0 0%nat (NT s0) Hin (Hraw0 0%nat)) as He.
        cbn [edge] in He. destruct He as (tgt & st' & Hg & Ht' & Hin').
        rewrite (goto_eq s st s0 Hs), Hg. apply andb_true_iff. split.
        * apply (has_litem_intro tgt st' 0 1 _ Ht' Hin'). intros x Hx. exact Hx.
        * apply (closure_items_ok s st 0 0 s0 _ Hs Hin get_prod_g0_0); [reflexivity|apply Hraw0].
      + cbn [nth_error]. rewrite N.eqb_refl.
        pose proof (Hedge 0 1%nat (T stop) Hin (Hraw0 1%nat)) as He. cbn [edge] in He.
        rewrite N.eqb_refl in He. apply existsb_action.
        apply (cell_keeps s st stop [Accept] Accept Hs He). left. reflexivity.
      + exfalso. destruct (Hpred 0 (S d) Hin) as (X & HX & Hns). rewrite Hraw0 in HX.
        destruct d as [|d]; cbn in HX; [|destruct d; discriminate].
        inversion HX; subst X. rewrite sym_eqb_refl in Hns. discriminate.
    - pose proof (Hvalid p d Hin) as Hv.
      destruct (nth_error ps (N.to_nat p)) as [praw|] eqn:Eraw; [|apply nth_error_None in Eraw; lia].
      rewrite (get_prod_g0 p Hne), Eraw. cbn [option_map rhs].
      assert (Hraw : rhs_raw ps p = rhs praw) by (unfold rhs_raw; rewrite Eraw; reflexivity).
      assert (Hsym : sym_at ps e p d = nth_error (strip e (rhs praw)) d) by (rewrite sym_at_strip, Hraw; reflexivity).
      assert (Hp' : get_prod g0 p = Some (mkProd (lhs praw) (strip e (rhs praw)))).
      { rewrite (get_prod_g0 p Hne), Eraw. reflexivity. }
      destruct (nth_error (strip e (rhs praw)) d) as [[a|b]|] eqn:Ed.
      + (* a terminal: SHIFT *)
        assert (Ha : a <> stop).
        { intros ->. destruct ps_shape as (p0 & rest & Eps & _ & _).
          apply (pl_stop1 c Hpl praw).
          - rewrite Eps. cbn [tl]. rewrite Eps in Eraw.
            destruct (N.to_nat p) as [|k] eqn:Ek; [lia|]. cbn in Eraw. eapply nth_error_In. exact Eraw.
          - apply nth_error_In in Ed. unfold strip in Ed. apply filter_In in Ed. tauto. }
        pose proof (Hedge p d (T a) Hin Hsym) as He. cbn [edge] in He.
        apply N.eqb_neq in Ha. rewrite Ha in He. destruct He as (tgt & st' & Hact & Ht' & Hin').
        apply existsb_exists. exists (Shift tgt). split.
        * apply (cell_keeps s st a [Shift tgt] (Shift tgt) Hs Hact). left. reflexivity.
        * apply (has_litem_intro tgt st' p (S d) _ Ht' Hin'). intros x Hx. exact Hx.
      + (* a nonterminal: GOTO and closure *)
        pose proof (Hedge p d (NT b) Hin Hsym) as He. cbn [edge] in He.
        destruct He as (tgt & st' & Hg & Ht' & Hin').
        rewrite (goto_eq s st b Hs), Hg. apply andb_true_iff. split.
        * apply (has_litem_intro tgt st' p (S d) _ Ht' Hin'). intros x Hx. exact Hx.
        * apply (closure_items_ok s st p d b _ Hs Hin Hp'); [exact Ed|exact Hsym].
      + (* the dot at the end: REDUCE on every terminal of FOLLOW(lhs) *)
        apply N.eqb_neq in Hne. rewrite Hne. rewrite eff_L_pd, Hne.
        apply forallb_forall. intros a Ha. apply existsb_action.
        apply (cell_reduce s st p d a Hs Hin); [|exact Ha].
        rewrite Hraw. apply nth_error_None in Ed.
        destruct d as [|d]; [lia|].
        destruct (Hpred p d Hin) as (X & HX & _). rewrite sym_at_strip, Hraw in HX.
        assert (d < length (strip e (rhs praw)))%nat by (apply nth_error_Some; congruence). lia.
  Qed.

  Lemma states_complete_built : states_complete g0 t ann FT0 NT0 stop 0 ann = true.
  Proof.
    assert (Hgen : forall k l, (forall j its, nth_error l j = Some its ->
                                  forall i, In i its -> item_ok g0 t ann FT0 NT0 stop (k + j) i = true) ->
                               states_complete g0 t ann FT0 NT0 stop k l = true).
    { intros k l. revert k. induction l as [|its r IH]; intros k H; cbn [states_complete]; [reflexivity|].
      apply andb_true_iff. split.
      - apply forallb_forall. intros i Hi. specialize (H 0%nat its eq_refl i Hi).
        rewrite Nat.add_0_r in H. exact H.
      - apply IH. intros j its' Hj i Hi. specialize (H (S j) its' Hj i Hi).
        replace (S k + j)%nat with (k + S j)%nat by lia. exact H. }
    apply Hgen. intros j its Hj i Hi. cbn [Nat.add]. unfold ann in Hj.
    rewrite map_map, nth_error_map in Hj. destruct (nth_error all j) as [st|] eqn:Es; [|discriminate].
    cbn in Hj. inversion Hj; subst its. apply in_map_iff in Hi. destruct Hi as (it & <- & Hit).
    rewrite litem_of_pd. apply (item_ok_built j st _ _ Es). apply pds_In. exists it. auto.
  Qed.

  Theorem table_complete_built : table_complete g0 t ann FT0 NT0 stop = true.
  Proof.
    unfold table_complete. rewrite first_closed_std, (pl_aug c Hpl), states_complete_built.
    cbn [andb]. apply andb_true_iff. split.
    - apply andb_true_iff. split; [|reflexivity]. apply Nat.eqb_eq. unfold ann.
      rewrite !map_length. symmetry. exact table_length.
    - destruct (si_state0 _ _ _ _ _ Hinv) as (st0 & Hs0 & Hin0).
      rewrite (ann_of_nth 0 st0 Hs0). apply existsb_exists.
      apply pds_In in Hin0. destruct Hin0 as (it & Hit & Hpd). exists (litem_of c fo it).
      split; [apply in_map; exact Hit|]. rewrite litem_of_pd. unfold pd in Hpd. inversion Hpd as [[Ep Ed]].
      rewrite Ep, Ed. reflexivity.
  Qed.
End Built.

(* ---- the end-to-end statements ------------------------------------------------------------- *)
Theorem slr_table_complete c b :
  plain_ok c = true -> tc_lr1 c = false -> create_table c = BOk b ->
  table_complete (cfg_std c) (tb_table b) (ann_of_built c b)
                 (fst_std c (tb_first b)) (nul_std c (tb_first b)) (tc_stop c) = true.
Proof.
  intros Hok Hlr0 H. pose proof (plain_ok_plain c Hok) as Hpl. unfold create_table in H.
  destruct (first_sets (tc_empty c) (tc_ffuel c) (tc_nnts c) (tc_prods c)) as [fs|] eqn:Hfs; [|discriminate].
  destruct (find _ (nts_of (tc_nnts c))); [discriminate|].
  destruct (follow_sets (tc_empty c) (tc_ffuel c) fs (tc_nnts c) (tc_prods c)) as [fo|] eqn:Hfo; [|discriminate].
  apply bbind_ok in H. destruct H as (all & Hauto & H).
  destruct (reduce_all c fo all all) as [t|] eqn:Ht; [|discriminate]. inversion H; subst b. clear H.
  unfold automaton in Hauto. rewrite Hlr0, (pl_swap c Hpl) in Hauto.
  apply bbind_ok in Hauto. destruct Hauto as (all1 & Hbuild & Hrest). inversion Hrest; subst all1.
  assert (Hne : tc_prods c <> []).
  { destruct (ps_shape c Hpl) as (p0 & rest & Eps & _). rewrite Eps. discriminate. }
  pose proof (build_loop_spec _ _ _ _ _ _ _ _ _ _ _ Hbuild (sinv_init _ _ _ Hne)) as Hinv.
  cbn [tb_table tb_first]. unfold ann_of_built. cbn [tb_items tb_follow].
  exact (table_complete_built c Hpl Hlr0 fs fo all t Hfs Hfo Hinv Ht).
Qed.

(* hence every derivation of the grammar has an accepting run on the model-built table *)
Theorem slr_table_accepts c b :
  plain_ok c = true -> tc_lr1 c = false -> create_table c = BOk b ->
  forall (d tr : tree),
    wf_tree (cfg_std c) tr -> root_sym (cfg_std c) tr = Some (NT (start_nt c)) ->
    exists st, lsteps (cfg_std c) (tb_table b) (tc_stop c) ([(O, d)], leaves tr) (st, []) /\
               laccepts (tb_table b) (tc_stop c) st tr.
Proof.
  intros Hok Hlr0 H d tr Hwf Hroot.
  pose proof (slr_table_complete c b Hok Hlr0 H) as Htc.
  apply (lr_machine_complete _ _ _ _ _ _ Htc (start_nt c) d tr); [|exact Hwf|exact Hroot].
  exists (mkProd (aug_nt c) [NT (start_nt c)]). split; [|reflexivity].
  apply get_prod_g0_0. apply plain_ok_plain. exact Hok.
Qed.

(* ---- LALR: the same with the items' own follow sets as lookaheads --------------------------- *)
Lemma indexed_In {X} (l : list X) i x : In (i, x) (indexed l) <-> nth_error l i = Some x.
Proof.
  unfold indexed.
  assert (H : forall (l : list X) k i x, In (i, x) (combine (seq k (length l)) l) <->
                                        (k <= i)%nat /\ nth_error l (i - k) = Some x).
  { clear. induction l as [|y r IH]; intros k i x; cbn [length seq combine].
    - split; [intros []|]. intros [_ H]. destruct (i - k)%nat; discriminate.
    - cbn [In]. rewrite IH. split.
      + intros [H|[H1 H2]].
        * inversion H; subst. split; [lia|]. rewrite Nat.sub_diag. reflexivity.
        * split; [lia|]. replace (i - k)%nat with (S (i - S k)) by lia. exact H2.
      + intros [H1 H2]. destruct (Nat.eq_dec i k) as [->|Hne].
        * rewrite Nat.sub_diag in H2. cbn in H2. inversion H2. left. reflexivity.
        * right. split; [lia|]. replace (i - k)%nat with (S (i - S k)) in H2 by lia. exact H2. }
  rewrite H, Nat.sub_0_r. split; [tauto|]. intros H1. split; [lia|exact H1].
Qed.

Lemma NoDup_map_inj_in {X Y} (f : X -> Y) l a b :
  NoDup (map f l) -> In a l -> In b l -> f a = f b -> a = b.
Proof.
  induction l as [|x r IH]; intros Hnd Ha Hb E; [destruct Ha|].
  cbn in Hnd. inversion Hnd as [|? ? Hnx Hnd']; subst.
  destruct Ha as [->|Ha], Hb as [->|Hb]; [reflexivity| | |auto].
  - exfalso. apply Hnx. rewrite E. apply in_map. exact Hb.
  - exfalso. apply Hnx. rewrite <- E. apply in_map. exact Ha.
Qed.

Section BuiltLALR.
  Variable c : tconf.
  Hypothesis Hpl : plain c.
  Hypothesis Hlr1 : tc_lr1 c = true.

  Notation e := (tc_empty c).
  Notation stop := (tc_stop c).
  Notation ps := (tc_prods c).
  Notation nnts := (tc_nnts c).
  Notation g := (cfg_of c).
  Notation g0 := (cfg_std c).
  Notation aug := (aug_nt c).
  Notation s0 := (start_nt c).

  Variables (fs fo : fsets) (all : list mstate) (t : table).
  Hypothesis Hfs : first_sets e (tc_ffuel c) nnts ps = Some fs.
  Hypothesis Hinv : sinv ps e stop (length all) all.
  Hypothesis Hpost : lalr_post ps e fs all.
  Hypothesis Ht : reduce_all c fo all all = Some t.

  Notation FT := (fst_tab_of e fs).
  Notation NTb := (nul_tab_of e fs).
  Notation FT0 := (fst_std c fs).
  Notation NT0 := (nul_std c fs).
  Notation ann := (ann c fo all).

  Lemma litem_of_lalr it : litem_of c fo it = (it_p it, it_d it, it_f it).
  Proof. unfold litem_of. rewrite Hlr1. reflexivity. Qed.

  Lemma eff_L_lalr it : eff_L stop (litem_of c fo it) = if it_p it =? 0 then [stop] else it_f it.
  Proof. rewrite litem_of_lalr. reflexivity. Qed.

  Lemma has_litem_lalr s st it L : nth_error all s = Some st -> In it (ms_items st) ->
    (forall x, In x L -> In x (eff_L stop (litem_of c fo it))) ->
    has_litem ann stop s (it_p it) (it_d it) L = true.
  Proof.
    intros Hs Hit HL. unfold has_litem. rewrite (ann_of_nth c fo all s st Hs). apply existsb_exists.
    exists (litem_of c fo it). split; [apply in_map; exact Hit|].
    assert (E1 : li_p (litem_of c fo it) = it_p it) by reflexivity.
    assert (E2 : li_d (litem_of c fo it) = it_d it) by reflexivity.
    rewrite E1, E2, N.eqb_refl, Nat.eqb_refl. cbn [andb].
    apply subset_spec. exact HL.
  Qed.

  Lemma has_litem_lalr' s st next p d L : nth_error all s = Some st -> In next (ms_items st) ->
    pd next = (p, d) ->
    (forall x, In x L -> In x (eff_L stop (litem_of c fo next))) ->
    has_litem ann stop s p d L = true.
  Proof.
    intros Hs Hn Hpd HL. unfold pd in Hpd. inversion Hpd; subst p d. apply (has_litem_lalr s st next L Hs Hn HL).
  Qed.

  Lemma cell_reduce_lalr s st it a : nth_error all s = Some st -> In it (ms_items st) ->
    it_d it = length (strip e (rhs_raw ps (it_p it))) -> In a (it_f it) ->
    In (Reduce (it_p it)) (cell t s a).
  Proof.
    intros Hs Hit Hd Ha. rewrite (cell_eq c Hpl fo all t Hinv Ht s st a Hs). unfold unresolved.
    destruct (raw_fold_adds (work_of g (ritems_of c fo st)) (ms_acts st) (it_p it) a) as (l' & H1 & H2).
    - unfold work_of. apply in_flat_map. exists (mkRItem (it_p it) (it_d it) (it_f it)). split.
      + unfold ritems_of. apply in_map_iff. exists it. split; [|exact Hit]. rewrite Hlr1. reflexivity.
      + unfold at_end. cbn [ri_prod ri_dot ri_follow]. rewrite (rhs_of_g c Hpl), <- Hd, Nat.eqb_refl.
        apply in_map_iff. exists a. auto.
    - rewrite H1. exact H2.
  Qed.

  (* the follow set of an item flows into the advanced item of the target state *)
  Lemma lalr_flow s st it tgt ts :
    nth_error all s = Some st -> In it (ms_items st) -> In tgt (targets st) ->
    nth_error all tgt = Some ts -> In (it_p it, S (it_d it)) (pds (ms_items ts)) ->
    exists next, In next (ms_items ts) /\ pd next = (it_p it, S (it_d it)) /\
                 fsub (it_f it) (it_f next).
  Proof.
    intros Hs Hit Htgt Hts Hin.
    destruct (state_of c all Hinv s st Hs) as [[(Hnd & _ & _) _] _].
    apply pds_In in Hin. destruct Hin as (next & Hnext & Hpd).
    exists next. split; [exact Hnext|]. split; [exact Hpd|].
    destruct (proj2 Hpost s st Hs tgt Htgt) as (ts' & Hts' & Hrec). rewrite Hts in Hts'.
    inversion Hts'; subst ts'. apply In_nth_error in Hnext. destruct Hnext as (j & Hj).
    assert (Hjk : In j (kernel_idx ps (ms_items ts))).
    { unfold kernel_idx. apply in_map_iff. exists (j, next). split; [reflexivity|].
      apply filter_In. split; [apply indexed_In; exact Hj|]. cbn [snd].
      unfold is_kernel. unfold pd in Hpd. inversion Hpd as [[Ep0 Ed0]]. rewrite Ed0. reflexivity. }
    destruct (Hrec ltac:(intros E; rewrite E in Hjk; destruct Hjk)) as (ts2 & Hts2 & Hall).
    rewrite Hts in Hts2. inversion Hts2; subst ts2.
    destruct (Hall j Hjk) as (next' & this & Hj' & Hfind & Hsub). rewrite Hj in Hj'.
    inversion Hj'; subst next'.
    (* [this] is the advanced copy of [it] *)
    unfold find_inc in Hfind.
    destruct (find _ (map (item_inc ps e) (ms_items st))) as [[x|]|] eqn:Ef; try discriminate.
    inversion Hfind; subst x. apply find_some in Ef. destruct Ef as [Hin Hsame].
    apply in_map_iff in Hin. destruct Hin as (it2 & Hinc & Hit2).
    destruct (item_inc_spec ps e _ _ Hinc) as (Hp2 & Hd2 & Hf2).
    unfold item_same in Hsame. apply andb_true_iff in Hsame. destruct Hsame as [E1 E2].
    apply N.eqb_eq in E1. apply Nat.eqb_eq in E2. unfold pd in Hpd. inversion Hpd as [[Ep Ed]].
    assert (Heq : it2 = it).
    { apply (NoDup_map_inj_in pd (ms_items st)); [exact Hnd|exact Hit2|exact Hit|].
      unfold pd. f_equal; [congruence|lia]. }
    subst it2. intros y Hy. apply Hsub. rewrite Hf2. exact Hy.
  Qed.

  Lemma in_targets_shift st a tgt : assoc a (ms_acts st) = Some [Shift tgt] -> In tgt (targets st).
  Proof.
    intros H. apply assoc_In in H. unfold targets. apply in_or_app. right.
    apply in_flat_map. exists (a, [Shift tgt]). split; [exact H|]. cbn. left. reflexivity.
  Qed.

  Lemma in_targets_goto st b tgt : assoc b (ms_gotos st) = Some tgt -> In tgt (targets st).
  Proof.
    intros H. apply assoc_In in H. unfold targets. apply in_or_app. left.
    apply in_map_iff. exists (b, tgt). auto.
  Qed.

  (* what follows the nonterminal after the dot is in _new_item_follow *)
  Lemma nif_loop_follow r f : (forall x, In x r -> In e (sym_first fs x)) ->
    forall acc, fsub f (nif_loop e fs r acc f).
  Proof.
    induction r as [|x r IH]; intros Hr acc; cbn [nif_loop].
    - intros y Hy. apply nunion_In. right. exact Hy.
    - assert (E : nmem e (nunion acc (sym_first fs x)) = true).
      { apply nmem_In. apply nunion_In. right. apply Hr. left. reflexivity. }
      rewrite E. apply IH. intros z Hz. apply Hr. right. exact Hz.
  Qed.

  Lemma nul_seq_all r : nul_seq NTb (strip e r) = true -> forall x, In x r -> In e (sym_first fs x).
  Proof.
    intros H x Hx. destruct (is_EMPTY e x) eqn:Ex.
    - destruct x as [a|a]; [|discriminate]. cbn in Ex. apply N.eqb_eq in Ex. subst a. left. reflexivity.
    - unfold nul_seq in H. rewrite forallb_forall in H.
      assert (Hin : In x (strip e r)) by (unfold strip; apply filter_In; rewrite Ex; auto).
      specialize (H x Hin). rewrite (nul_sym_tab e fs x Ex) in H. apply nmem_In. exact H.
  Qed.

  Lemma after_nif it pr b :
    it_p it <> 0 -> get_prod g0 (it_p it) = Some pr ->
    nth_error (rhs pr) (it_d it) = Some (NT b) ->
    forall y, In y (after FT0 NT0 stop pr (litem_of c fo it)) -> In y (new_item_follow ps e fs it).
  Proof.
    intros Hne Hp Hd y Hy. rewrite (get_prod_g0 c Hpl _ Hne) in Hp.
    destruct (nth_error ps (N.to_nat (it_p it))) as [praw|] eqn:Eraw; [|discriminate].
    cbn in Hp. inversion Hp; subst pr. cbn [rhs] in Hd.
    assert (Hraw : rhs_raw ps (it_p it) = rhs praw) by (unfold rhs_raw; rewrite Eraw; reflexivity).
    assert (Htr : trailing_emptyb e (rhs_raw ps (it_p it)) = true) by (apply (trailing_raw c Hpl)).
    assert (Hdlt : (it_d it < rlen e (rhs_raw ps (it_p it)))%nat).
    { rewrite Hraw. unfold rlen. change (filter _ (rhs praw)) with (strip e (rhs praw)).
      apply nth_error_Some. congruence. }
    unfold after in Hy. rewrite eff_L_lalr in Hy. rewrite litem_of_lalr in Hy.
    unfold li_d in Hy. cbn [fst snd rhs] in Hy. apply N.eqb_neq in Hne. rewrite Hne in Hy.
    destruct (seq_same c Hpl fs Hfs (skipn (S (it_d it)) (strip e (rhs praw)))) as [E1 E2].
    { intros x Hx. apply (strip_no_aug c Hpl (it_p it)). rewrite Hraw. eapply In_skipn; exact Hx. }
    rewrite E1, E2 in Hy. apply in_app_iff in Hy. destruct Hy as [Hy|Hy].
    - assert (Hye : y <> e).
      { eapply fst_seq_no_e; [|exact Hy]. intros x Hx. apply (strip_not_empty c (rhs praw)).
        eapply In_skipn; exact Hx. }
      apply (nif_spec ps e fs it y Htr Hdlt Hye). left. rewrite Hraw. exact Hy.
    - destruct (nul_seq NTb (skipn (S (it_d it)) (strip e (rhs praw)))) eqn:En; [|destruct Hy].
      unfold new_item_follow. apply nif_loop_follow; [|exact Hy].
      apply nul_seq_all. rewrite (rslice_strip e _ Htr (S (it_d it))) by lia. rewrite Hraw. exact En.
  Qed.

  Lemma item_ok_lalr s st it :
    nth_error all s = Some st -> In it (ms_items st) ->
    item_ok g0 t ann FT0 NT0 stop s (litem_of c fo it) = true.
  Proof.
    intros Hs Hit. destruct (state_of c all Hinv s st Hs) as [[(Hnd & Hpred & Hvalid) _] [Hc0 Hedge]].
    assert (Hin : In (it_p it, it_d it) (pds (ms_items st))) by (apply pds_In; exists it; auto).
    pose proof (proj1 Hpost s st Hs it Hit) as Hclosed.
    assert (E1 : li_p (litem_of c fo it) = it_p it) by reflexivity.
    assert (E2 : li_d (litem_of c fo it) = it_d it) by reflexivity.
    unfold item_ok. rewrite !E1, !E2. clear E1 E2.
    destruct (N.eq_dec (it_p it) 0) as [Hp0|Hne].
    - (* the augmented production *)
      rewrite Hp0 in *. rewrite (get_prod_g0_0 c Hpl). cbn [rhs].
      assert (Hraw0 : forall k, sym_at ps e 0 k = nth_error [NT s0; T stop] k).
      { intros k. rewrite (sym_at_strip c Hpl), (rhs_raw_0 c Hpl), (strip_prod0 c Hpl). reflexivity. }
      destruct (it_d it) as [|[|d]] eqn:Ed.
      + cbn [nth_error]. pose proof (Hedge 0 0%nat (NT s0) Hin (Hraw0 0%nat)) as He.
        cbn [edge] in He. destruct He as (tgt & st' & Hg & Ht' & Hin').
        rewrite (goto_eq c Hpl fo all t Ht s st s0 Hs), Hg. apply andb_true_iff. split.
        * apply pds_In in Hin'. destruct Hin' as (next & Hnext & Hpd).
          apply (has_litem_lalr' tgt st' next _ _ _ Ht' Hnext Hpd). intros x Hx.
          rewrite eff_L_lalr in *. unfold pd in Hpd. inversion Hpd as [[Ep Edn]].
          rewrite Hp0 in Hx. rewrite Ep. exact Hx.
        * apply forallb_forall. intros q Hq. rewrite (prods_of_g0 c Hpl) in Hq.
          destruct (prods_of_nonzero c Hpl s0 q 0 0 Hq (Hraw0 0%nat)) as (Hq0 & Hql & _).
          assert (Hsym : item_sym ps e it = Some (NT s0)).
          { rewrite item_sym_at, Hp0, Ed. apply Hraw0. }
          destruct (Hclosed s0 Hsym q Hq) as (j & Hj & Hpdj & Hfj).
          apply (has_litem_lalr' s st j _ _ _ Hs Hj Hpdj). intros y Hy. rewrite eff_L_lalr.
          unfold pd in Hpdj. inversion Hpdj as [[Epj Edj]].
          rewrite Epj. apply N.eqb_neq in Hq0. rewrite Hq0. apply (Hfj eq_refl).
          (* after = [stop] and _new_item_follow of (0, 0) is {STOP} *)
          unfold after in Hy. rewrite eff_L_lalr, litem_of_lalr in Hy. unfold li_d in Hy.
          cbn [fst snd rhs] in Hy. rewrite Hp0, Ed in Hy. cbn in Hy. destruct Hy as [<-|[]].
          unfold new_item_follow. rewrite Hp0, Ed, (rhs_raw_0 c Hpl). cbn [rslice skipn nif_loop sym_first].
          assert (En : nmem e (nunion [] [stop]) = false).
          { apply nmem_false. intros H. apply nunion_In in H. destruct H as [[]|[H|[]]].
            exact (pl_stop c Hpl H). }
          rewrite En. apply nunion_In. right. left. reflexivity.
      + cbn [nth_error]. rewrite N.eqb_refl.
        pose proof (Hedge 0 1%nat (T stop) Hin (Hraw0 1%nat)) as He. cbn [edge] in He.
        rewrite N.eqb_refl in He. apply existsb_action.
        apply (cell_keeps c Hpl fo all t Hinv Ht s st stop [Accept] Accept Hs He). left. reflexivity.
      + exfalso. destruct (Hpred 0 (S d) Hin) as (X & HX & Hns). rewrite Hraw0 in HX.
        destruct d as [|d]; cbn in HX; [|destruct d; discriminate].
        inversion HX; subst X. rewrite sym_eqb_refl in Hns. discriminate.
    - pose proof (Hvalid _ _ Hin) as Hv.
      destruct (nth_error ps (N.to_nat (it_p it))) as [praw|] eqn:Eraw; [|apply nth_error_None in Eraw; lia].
      assert (Hp' : get_prod g0 (it_p it) = Some (mkProd (lhs praw) (strip e (rhs praw)))).
      { rewrite (get_prod_g0 c Hpl _ Hne), Eraw. reflexivity. }
      rewrite Hp'. cbn [rhs].
      assert (Hraw : rhs_raw ps (it_p it) = rhs praw) by (unfold rhs_raw; rewrite Eraw; reflexivity).
      assert (Hsym : sym_at ps e (it_p it) (it_d it) = nth_error (strip e (rhs praw)) (it_d it))
        by (rewrite (sym_at_strip c Hpl), Hraw; reflexivity).
      destruct (nth_error (strip e (rhs praw)) (it_d it)) as [[a|b]|] eqn:Ed.
      + assert (Ha : a <> stop).
        { intros ->. destruct (ps_shape c Hpl) as (p0 & rest & Eps & _ & _).
          apply (pl_stop1 c Hpl praw).
          - rewrite Eps. cbn [tl]. rewrite Eps in Eraw.
            destruct (N.to_nat (it_p it)) as [|k] eqn:Ek; [lia|]. cbn in Eraw. eapply nth_error_In. exact Eraw.
          - apply nth_error_In in Ed. unfold strip in Ed. apply filter_In in Ed. tauto. }
        pose proof (Hedge _ _ (T a) Hin Hsym) as He. cbn [edge] in He.
        apply N.eqb_neq in Ha. rewrite Ha in He. destruct He as (tgt & st' & Hact & Ht' & Hin').
        apply existsb_exists. exists (Shift tgt). split.
        * apply (cell_keeps c Hpl fo all t Hinv Ht s st a [Shift tgt] (Shift tgt) Hs Hact). left. reflexivity.
        * destruct (lalr_flow s st it tgt st' Hs Hit (in_targets_shift st a tgt Hact) Ht' Hin')
            as (next & Hnext & Hpd & Hsub).
          apply (has_litem_lalr' tgt st' next _ _ _ Ht' Hnext Hpd). intros x Hx.
          unfold pd in Hpd. inversion Hpd as [[Ep Edn]].
          rewrite eff_L_lalr in *. rewrite Ep. destruct (it_p it =? 0); [exact Hx|apply Hsub; exact Hx].
      + pose proof (Hedge _ _ (NT b) Hin Hsym) as He. cbn [edge] in He.
        destruct He as (tgt & st' & Hg & Ht' & Hin').
        rewrite (goto_eq c Hpl fo all t Ht s st b Hs), Hg. apply andb_true_iff. split.
        * destruct (lalr_flow s st it tgt st' Hs Hit (in_targets_goto st b tgt Hg) Ht' Hin')
            as (next & Hnext & Hpd & Hsub).
          apply (has_litem_lalr' tgt st' next _ _ _ Ht' Hnext Hpd). intros x Hx.
          unfold pd in Hpd. inversion Hpd as [[Ep Edn]].
          rewrite eff_L_lalr in *. rewrite Ep. destruct (it_p it =? 0); [exact Hx|apply Hsub; exact Hx].
        * apply forallb_forall. intros q Hq. rewrite (prods_of_g0 c Hpl) in Hq.
          destruct (prods_of_nonzero c Hpl b q (it_d it) (it_p it) Hq Hsym) as (Hq0 & Hql & _).
          destruct (Hclosed b Hsym q Hq) as (j & Hj & Hpdj & Hfj).
          apply (has_litem_lalr' s st j _ _ _ Hs Hj Hpdj). intros y Hy. rewrite eff_L_lalr.
          unfold pd in Hpdj. inversion Hpdj as [[Epj Edj]].
          rewrite Epj. apply N.eqb_neq in Hq0. rewrite Hq0. apply (Hfj eq_refl).
          eapply (after_nif it _ b Hne Hp'); [exact Ed|exact Hy].
      + apply N.eqb_neq in Hne. rewrite Hne. rewrite eff_L_lalr, Hne.
        apply forallb_forall. intros a Ha. apply existsb_action.
        apply (cell_reduce_lalr s st it a Hs Hit); [|exact Ha].
        rewrite Hraw. apply nth_error_None in Ed.
        destruct (it_d it) as [|d] eqn:Edd; [lia|].
        destruct (Hpred _ d Hin) as (X & HX & _). rewrite (sym_at_strip c Hpl), Hraw in HX.
        assert (d < length (strip e (rhs praw)))%nat by (apply nth_error_Some; congruence). lia.
  Qed.

  Theorem table_complete_lalr : table_complete g0 t ann FT0 NT0 stop = true.
  Proof.
    unfold table_complete. rewrite (first_closed_std c Hpl fs Hfs), (pl_aug c Hpl). cbn [andb].
    apply andb_true_iff. split; [apply andb_true_iff; split|].
    - apply Nat.eqb_eq. unfold TableBuildProofs.ann. rewrite !map_length. symmetry.
      exact (table_length c fo all t Ht).
    - assert (Hgen : forall k l, (forall j its, nth_error l j = Some its ->
                                    forall i, In i its -> item_ok g0 t ann FT0 NT0 stop (k + j) i = true) ->
                                 states_complete g0 t ann FT0 NT0 stop k l = true).
      { intros k l. revert k. induction l as [|its r IH]; intros k H; cbn [states_complete]; [reflexivity|].
        apply andb_true_iff. split.
        - apply forallb_forall. intros i Hi. specialize (H 0%nat its eq_refl i Hi).
          rewrite Nat.add_0_r in H. exact H.
        - apply IH. intros j its' Hj i Hi. specialize (H (S j) its' Hj i Hi).
          replace (S k + j)%nat with (k + S j)%nat by lia. exact H. }
      apply Hgen. intros j its Hj i Hi. cbn [Nat.add]. unfold TableBuildProofs.ann in Hj.
      rewrite map_map, nth_error_map in Hj. destruct (nth_error all j) as [st|] eqn:Es; [|discriminate].
      cbn in Hj. inversion Hj; subst its. apply in_map_iff in Hi. destruct Hi as (it & <- & Hit).
      apply (item_ok_lalr j st it Es Hit).
    - destruct (si_state0 _ _ _ _ _ Hinv) as (st0 & Hs0 & Hin0).
      rewrite (ann_of_nth c fo all 0 st0 Hs0). apply existsb_exists.
      apply pds_In in Hin0. destruct Hin0 as (it & Hit & Hpd). exists (litem_of c fo it).
      split; [apply in_map; exact Hit|]. rewrite litem_of_lalr. unfold pd in Hpd. inversion Hpd as [[Ep Ed]].
      unfold li_p, li_d. cbn [fst snd]. rewrite Ep, Ed. reflexivity.
  Qed.
End BuiltLALR.

Theorem lalr_table_complete c b :
  plain_ok c = true -> tc_lr1 c = true -> create_table c = BOk b ->
  table_complete (cfg_std c) (tb_table b) (ann_of_built c b)
                 (fst_std c (tb_first b)) (nul_std c (tb_first b)) (tc_stop c) = true.
Proof.
  intros Hok Hlr1 H. pose proof (plain_ok_plain c Hok) as Hpl. unfold create_table in H.
  destruct (first_sets (tc_empty c) (tc_ffuel c) (tc_nnts c) (tc_prods c)) as [fs|] eqn:Hfs; [|discriminate].
  destruct (find _ (nts_of (tc_nnts c))); [discriminate|].
  destruct (follow_sets (tc_empty c) (tc_ffuel c) fs (tc_nnts c) (tc_prods c)) as [fo|] eqn:Hfo; [|discriminate].
  apply bbind_ok in H. destruct H as (all & Hauto & H).
  destruct (reduce_all c fo all all) as [t|] eqn:Ht; [|discriminate]. inversion H; subst b. clear H.
  unfold automaton in Hauto. rewrite Hlr1, (pl_swap c Hpl) in Hauto.
  apply bbind_ok in Hauto. destruct Hauto as (all0 & Hbuild & Hloop).
  assert (Hne : tc_prods c <> []).
  { destruct (ps_shape c Hpl) as (p0 & rest & Eps & _). rewrite Eps. discriminate. }
  pose proof (build_loop_spec _ _ _ _ _ _ _ _ _ _ _ Hbuild (sinv_init _ _ _ Hne)) as Hinv0.
  destruct (lalr_loop_spec _ _ _ _ _ _ _ Hloop) as (Hsame & Hpost).
  { intros j s Hj. apply (si_done _ _ _ _ _ Hinv0 j s); [|exact Hj]. apply nth_error_Some. congruence. }
  pose proof (sinv_same_pds _ _ _ _ _ Hsame Hinv0) as Hinv.
  cbn [tb_table tb_first]. unfold ann_of_built. cbn [tb_items tb_follow].
  exact (table_complete_lalr c Hpl Hlr1 fs fo all t Hfs Hinv Hpost Ht).
Qed.

(* both item-set types *)
Theorem model_table_complete c b :
  plain_ok c = true -> create_table c = BOk b ->
  table_complete (cfg_std c) (tb_table b) (ann_of_built c b)
                 (fst_std c (tb_first b)) (nul_std c (tb_first b)) (tc_stop c) = true.
Proof.
  intros Hok H. destruct (tc_lr1 c) eqn:E.
  - apply lalr_table_complete; assumption.
  - apply slr_table_complete; assumption.
Qed.

Theorem model_table_accepts c b :
  plain_ok c = true -> create_table c = BOk b ->
  forall (d tr : tree),
    wf_tree (cfg_std c) tr -> root_sym (cfg_std c) tr = Some (NT (start_nt c)) ->
    exists st, lsteps (cfg_std c) (tb_table b) (tc_stop c) ([(O, d)], leaves tr) (st, []) /\
               laccepts (tb_table b) (tc_stop c) st tr.
Proof.
  intros Hok H d tr Hwf Hroot.
  pose proof (model_table_complete c b Hok H) as Htc.
  apply (lr_machine_complete _ _ _ _ _ _ Htc (start_nt c) d tr); [|exact Hwf|exact Hroot].
  exists (mkProd (aug_nt c) [NT (start_nt c)]). split; [|reflexivity].
  apply get_prod_g0_0. apply plain_ok_plain. exact Hok.
Qed.

(* ---- the other half: the model's table passes table_struct ------------------------------------ *)
From PV Require Import Validators.TableStruct.

Lemma unresolved_origin w : forall acts t l a,
  In (t, l) (fold_left raw_step w acts) -> In a l ->
  (exists l0, In (t, l0) acts /\ In a l0) \/ (exists p, a = Reduce p /\ In (p, t) w).
Proof.
  induction w as [|[p t0] w IH]; intros acts t l a Hin Ha; cbn [fold_left] in Hin.
  - left. exists l. auto.
  - destruct (IH _ _ _ _ Hin Ha) as [(l0 & Hl0 & Ha0)|(q & -> & Hq)].
    + unfold raw_step in Hl0. destruct (assoc t0 acts) as [l1|] eqn:E1.
      * apply In_aset in Hl0. destruct Hl0 as [[-> ->]|Hl0].
        -- apply in_app_iff in Ha0. destruct Ha0 as [Ha0|[<-|[]]].
           ++ left. exists l1. split; [apply assoc_In; exact E1|exact Ha0].
           ++ right. exists p. split; [reflexivity|left; reflexivity].
        -- left. exists l0. auto.
      * apply In_aset in Hl0. destruct Hl0 as [[-> ->]|Hl0].
        -- destruct Ha0 as [<-|[]]. right. exists p. split; [reflexivity|left; reflexivity].
        -- left. exists l0. auto.
    + right. exists q. split; [reflexivity|right; exact Hq].
Qed.

Section BuiltStruct.
  Variable c : tconf.
  Hypothesis Hpl : plain c.

  Notation e := (tc_empty c).
  Notation stop := (tc_stop c).
  Notation ps := (tc_prods c).
  Notation g := (cfg_of c).
  Notation g0 := (cfg_std c).
  Notation s0 := (start_nt c).

  Variables (fo : fsets) (all : list mstate) (t : table).
  Hypothesis Hinv : sinv ps e stop (length all) all.
  Hypothesis Hpinv : pinv ps e stop all.
  Hypothesis Ht : reduce_all c fo all all = Some t.

  Lemma items_eq s st : nth_error all s = Some st -> items t s = pds (ms_items st).
  Proof.
    intros Hs. unfold items, get_state. rewrite (table_state c Hpl fo all t Ht s st Hs). reflexivity.
  Qed.

  Lemma sym_at_0 k : sym_at ps e 0 k = nth_error [NT s0; T stop] k.
  Proof. rewrite (sym_at_strip c Hpl), (rhs_raw_0 c Hpl), (strip_prod0 c Hpl). reflexivity. Qed.

  (* the symbol before the dot, in the grammar of Spec/Cfg.v *)
  Lemma sym_at_g0 p d X : sym_at ps e p d = Some X -> sym_eqb X (T stop) = false ->
    exists pr, get_prod g0 p = Some pr /\ nth_error (rhs pr) d = Some X.
  Proof.
    intros Hs Hns. destruct (N.eq_dec p 0) as [->|Hne].
    - rewrite sym_at_0 in Hs. exists (mkProd (aug_nt c) [NT s0]). split; [apply (get_prod_g0_0 c Hpl)|].
      destruct d as [|[|d]]; cbn in Hs |- *; [exact Hs| |destruct d; discriminate].
      inversion Hs; subst X. rewrite sym_eqb_refl in Hns. discriminate.
    - rewrite (get_prod_g0 c Hpl p Hne). rewrite (sym_at_strip c Hpl) in Hs. unfold rhs_raw in Hs.
      destruct (nth_error ps (N.to_nat p)) as [praw|]; [|destruct d; discriminate].
      eexists. split; [reflexivity|exact Hs].
  Qed.

  Lemma edge_ok_built s st X tgt :
    nth_error all s = Some st -> sym_eqb X (T stop) = false ->
    kernel_from ps e all st X tgt -> edge_ok g0 t s X tgt = true.
  Proof.
    intros Hs Hns (Hne & st' & Ht' & Hk). unfold edge_ok. apply andb_true_iff. split.
    - apply negb_true_iff. apply Nat.eqb_neq. exact Hne.
    - rewrite (items_eq tgt st' Ht'), (items_eq s st Hs). apply forallb_forall. intros [p d] Hin.
      cbn [fst snd]. destruct d as [|d']; [reflexivity|]. destruct (Hk p d' Hin) as [Hsrc Hsym].
      apply andb_true_iff. split; [apply has_item_In; exact Hsrc|].
      destruct (sym_at_g0 p d' X Hsym Hns) as (pr & Hp & Hn). rewrite Hp, Hn.
      apply osym_eqb_eq. reflexivity.
  Qed.

  Lemma stop_item p d : sym_at ps e p d = Some (T stop) -> p = 0 /\ d = 1%nat.
  Proof.
    intros Hs. destruct (N.eq_dec p 0) as [->|Hne].
    - split; [reflexivity|]. rewrite sym_at_0 in Hs. destruct d as [|[|d]]; cbn in Hs; try discriminate;
        [reflexivity|destruct d; discriminate].
    - exfalso. rewrite (sym_at_strip c Hpl) in Hs. unfold rhs_raw in Hs.
      destruct (nth_error ps (N.to_nat p)) as [praw|] eqn:Eraw; [|destruct d; discriminate].
      destruct (ps_shape c Hpl) as (p0 & rest & Eps & _ & _). apply (pl_stop1 c Hpl praw).
      + rewrite Eps. cbn [tl]. rewrite Eps in Eraw.
        destruct (N.to_nat p) as [|k] eqn:Ek; [lia|]. cbn in Eraw. eapply nth_error_In. exact Eraw.
      + apply nth_error_In in Hs. unfold strip in Hs. apply filter_In in Hs. tauto.
  Qed.

  Lemma state_ok_built s st :
    nth_error all s = Some st ->
    state_ok g0 t s (finish_state c st (unresolved g (ritems_of c fo st) (ms_acts st))) = true.
  Proof.
    intros Hs. destruct (state_of c all Hinv s st Hs) as [[(Hnd & Hpred & Hvalid) Hkeys] _].
    destruct (pi_prov _ _ _ _ Hpinv s st Hs) as [Pacts Pgotos].
    unfold state_ok. cbn [finish_state st_actions st_gotos st_items].
    apply andb_true_iff. split; [apply andb_true_iff; split|].
    - (* ACTION cells *)
      apply forallb_forall. intros [y l] Hin. cbn [fst snd]. apply forallb_forall. intros a Ha.
      unfold sort_cells in Hin. apply (Permutation_in _ (DetermProofs.sort_by_perm _ _)) in Hin.
      unfold unresolved in Hin.
      destruct (unresolved_origin _ _ _ _ _ Hin Ha) as [(l0 & Hl0 & Ha0)|(p & -> & Hw)].
      + specialize (Pacts y l0 Hl0). destruct (N.eqb_spec y stop) as [->|Hne].
        * destruct Pacts as (-> & p & d & Hpd & Hsym). destruct Ha0 as [<-|[]].
          cbn [action_ok]. destruct (stop_item p d Hsym) as [-> ->].
          rewrite (items_eq s st Hs). apply has_item_In. exact Hpd.
        * destruct Pacts as (tgt & -> & Hk). destruct Ha0 as [<-|[]]. cbn [action_ok].
          apply (edge_ok_built s st (T y) tgt Hs); [|exact Hk].
          cbn. apply N.eqb_neq. exact Hne.
      + (* a reduction comes from an item with the dot at the end *)
        cbn [action_ok]. unfold work_of in Hw. apply in_flat_map in Hw. destruct Hw as (rit & Hrit & Hw).
        destruct (at_end g rit) eqn:Eend; [|destruct Hw]. apply in_map_iff in Hw. destruct Hw as (y' & Heq & _).
        inversion Heq; subst y'. unfold ritems_of in Hrit. apply in_map_iff in Hrit.
        destruct Hrit as (it & <- & Hit). cbn [ri_prod] in *. unfold at_end in Eend. cbn [ri_dot ri_prod] in Eend.
        apply Nat.eqb_eq in Eend. rewrite (rhs_of_g c Hpl) in Eend.
        assert (Hin' : In (it_p it, it_d it) (pds (ms_items st))) by (apply pds_In; exists it; auto).
        assert (Hne : it_p it <> 0).
        { intros E0. rewrite E0 in *. rewrite (rhs_raw_0 c Hpl), (strip_prod0 c Hpl) in Eend. cbn in Eend.
          rewrite Eend in Hin'. destruct (Hpred 0 1%nat Hin') as (X & HX & Hns). rewrite sym_at_0 in HX.
          cbn in HX. inversion HX; subst X. rewrite sym_eqb_refl in Hns. discriminate. }
        pose proof (Hvalid _ _ Hin') as Hv. rewrite (get_prod_g0 c Hpl _ Hne).
        destruct (nth_error ps (N.to_nat (it_p it))) as [praw|] eqn:Eraw; [|apply nth_error_None in Eraw; lia].
        cbn [option_map rhs]. rewrite (items_eq s st Hs). apply has_item_In.
        unfold rhs_raw in Eend. rewrite Eraw in Eend. rewrite <- Eend. exact Hin'.
    - (* GOTOs *)
      apply forallb_forall. intros [b tgt] Hin. cbn [fst snd].
      apply (edge_ok_built s st (NT b) tgt Hs); [reflexivity|apply Pgotos; exact Hin].
    - (* (0, 0) only in state 0 *)
      destruct s as [|s]; [reflexivity|]. cbn [Nat.eqb orb]. apply negb_true_iff.
      destruct (has_item (map (fun it => (it_p it, it_d it)) (ms_items st)) 0 0) eqn:E; [|reflexivity].
      exfalso. apply has_item_In in E. change (map _ (ms_items st)) with (pds (ms_items st)) in E.
      destruct (pi_kernel _ _ _ _ Hpinv (S s) st ltac:(discriminate) Hs) as (p & d & Hk).
      pose proof (pi_zero _ _ _ _ Hpinv (S s) st Hs E p (S d) Hk). discriminate.
  Qed.

  Theorem table_struct_built : table_struct g0 t s0 = true.
  Proof.
    unfold table_struct. apply andb_true_iff. split; [apply andb_true_iff; split|].
    - assert (Hgen : forall k l, (forall j stt, nth_error l j = Some stt -> state_ok g0 t (k + j) stt = true) ->
                                 states_ok g0 t k l = true).
      { intros k l. revert k. induction l as [|x r IH]; intros k H; cbn [states_ok]; [reflexivity|].
        apply andb_true_iff. split.
        - specialize (H 0%nat x eq_refl). rewrite Nat.add_0_r in H. exact H.
        - apply IH. intros j stt Hj. specialize (H (S j) stt Hj).
          replace (S k + j)%nat with (k + S j)%nat by lia. exact H. }
      apply Hgen. intros j stt Hj. cbn [Nat.add].
      destruct (nth_error all j) as [st|] eqn:Es.
      + rewrite (table_state c Hpl fo all t Ht j st Es) in Hj. inversion Hj; subst stt.
        apply (state_ok_built j st Es).
      + exfalso. apply nth_error_None in Es. assert (j < length t)%nat by (apply nth_error_Some; congruence).
        rewrite (table_length c fo all t Ht) in *. lia.
    - destruct (si_state0 _ _ _ _ _ Hinv) as (st0 & Hs0 & Hin0). rewrite (items_eq 0 st0 Hs0).
      apply forallb_forall. intros [p d] Hin. cbn [snd]. apply Nat.eqb_eq.
      exact (pi_zero _ _ _ _ Hpinv 0%nat st0 Hs0 Hin0 p d Hin).
    - rewrite (get_prod_g0_0 c Hpl). cbn [rhs]. apply (list_eqb_eq sym_eqb sym_eqb_eq). reflexivity.
  Qed.
End BuiltStruct.

Theorem model_table_struct c b :
  plain_ok c = true -> create_table c = BOk b ->
  table_struct (cfg_std c) (tb_table b) (start_nt c) = true.
Proof.
  intros Hok H. pose proof (plain_ok_plain c Hok) as Hpl. unfold create_table in H.
  destruct (first_sets (tc_empty c) (tc_ffuel c) (tc_nnts c) (tc_prods c)) as [fs|] eqn:Hfs; [|discriminate].
  destruct (find _ (nts_of (tc_nnts c))); [discriminate|].
  destruct (follow_sets (tc_empty c) (tc_ffuel c) fs (tc_nnts c) (tc_prods c)) as [fo|] eqn:Hfo; [|discriminate].
  apply bbind_ok in H. destruct H as (all & Hauto & H).
  destruct (reduce_all c fo all all) as [t|] eqn:Ht; [|discriminate]. inversion H; subst b. clear H.
  unfold automaton in Hauto. rewrite (pl_swap c Hpl) in Hauto.
  apply bbind_ok in Hauto. destruct Hauto as (all0 & Hbuild & Hloop).
  assert (Hne : tc_prods c <> []).
  { destruct (ps_shape c Hpl) as (p0 & rest & Eps & _). rewrite Eps. discriminate. }
  assert (Haug : forall p d, sym_at (tc_prods c) (tc_empty c) p d <> Some (NT (lhs_of (tc_prods c) 0))).
  { intros p d. apply (aug_not_in_raw c Hpl). }
  pose proof (build_loop_spec _ _ _ _ _ _ _ _ _ _ _ Hbuild (sinv_init _ _ _ Hne)) as Hinv0.
  pose proof (build_loop_pinv _ _ _ _ _ _ _ Haug _ _ _ _ Hbuild (sinv_init _ _ _ Hne) (pinv_init _ _ _)) as Hp0.
  cbn [tb_table].
  destruct (tc_lr1 c).
  - destruct (lalr_loop_spec _ _ _ _ _ _ _ Hloop) as (Hsame & _).
    { intros j s Hj. apply (si_done _ _ _ _ _ Hinv0 j s); [|exact Hj]. apply nth_error_Some. congruence. }
    pose proof (sinv_same_pds _ _ _ _ _ Hsame Hinv0) as Hinv.
    pose proof (pinv_same_pds _ _ _ _ _ Hsame Hp0) as Hp.
    exact (table_struct_built c Hpl fo all t Hinv Hp Ht).
  - inversion Hloop; subst all0. exact (table_struct_built c Hpl fo all t Hinv0 Hp0 Ht).
Qed.

(* the model's table accepts exactly the derivations of the grammar *)
Theorem model_table_only_derivations c b :
  plain_ok c = true -> create_table c = BOk b ->
  forall (look : N -> N -> N -> N -> Prop) pos d cf tr,
    nsteps (cfg_std c) (tb_table b) look (init_cfg pos d) cf -> naccepts (tb_table b) look cf tr ->
    wf_tree (cfg_std c) tr /\ root_sym (cfg_std c) tr = Some (NT (start_nt c)) /\ leaves tr = c_trace cf.
Proof.
  intros Hok H look pos d cf tr. apply nlr_sound. apply model_table_struct; assumption.
Qed.
