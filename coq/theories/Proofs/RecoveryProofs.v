(* Proofs about error recovery in the LR parser model (Model/Recovery.v), property C11. *)
From Coq Require Import NArith List Bool Lia Arith.
From PV Require Import Spec.Cfg Model.Table Spec.NLR Validators.TableStruct Model.LRDriver
  Model.Scan Model.Parser Model.Reuse Model.Recovery Proofs.LRProofs Proofs.ForestSoundProofs
  Proofs.LRSpanProofs.
Import ListNotations.
Local Open Scope N_scope.

(* ---- chains of spans:  lo <= s1 <= e1 <= s2 <= e2 <= ... <= hi -------------------- *)
Fixpoint chain (lo hi : N) (l : list (N * N)) : Prop :=
  match l with
  | [] => lo <= hi
  | (a, b) :: r => lo <= a /\ a <= b /\ chain b hi r
  end.

Lemma spans_check_iff lo hi l : spans_check lo hi l = true <-> chain lo hi l.
Proof.
  revert lo. induction l as [|[a b] r IH]; intros lo; cbn [spans_check chain].
  - apply N.leb_le.
  - rewrite !andb_true_iff, !N.leb_le, IH. tauto.
Qed.

Lemma chain_le lo hi l : chain lo hi l -> lo <= hi.
Proof.
  revert lo. induction l as [|[a b] r IH]; intros lo; cbn [chain]; [tauto|].
  intros (H1 & H2 & H3). specialize (IH _ H3). lia.
Qed.

Lemma chain_weaken lo hi hi' l : chain lo hi l -> hi <= hi' -> chain lo hi' l.
Proof.
  revert lo. induction l as [|[a b] r IH]; intros lo; cbn [chain]; [lia|].
  intros (H1 & H2 & H3) Hh. repeat split; auto.
Qed.

Lemma chain_snoc lo hi l a b :
  chain lo hi l -> hi <= a -> a <= b -> chain lo b (l ++ [(a, b)]).
Proof.
  revert lo. induction l as [|[a0 b0] r IH]; intros lo; cbn [chain app].
  - intros H1 H2 H3. repeat split; lia.
  - intros (H1 & H2 & H3) Ha Hb. repeat split; auto.
Qed.

Lemma chain_in lo hi l a b : chain lo hi l -> In (a, b) l -> lo <= a /\ a <= b /\ b <= hi.
Proof.
  revert lo. induction l as [|[a0 b0] r IH]; intros lo; cbn [chain In]; [tauto|].
  intros (H1 & H2 & H3) [E|Hin].
  - inversion E; subst. pose proof (chain_le _ _ _ H3). lia.
  - destruct (IH _ H3 Hin) as (X & Y & Z). lia.
Qed.

Lemma chain_ordered lo hi l : chain lo hi l ->
  forall i j a b c d, (i < j)%nat -> nth_error l i = Some (a, b) -> nth_error l j = Some (c, d) -> b <= c.
Proof.
  revert lo. induction l as [|[a0 b0] r IH]; intros lo Hc i j a b c d Hij Hi Hj.
  - destruct i; discriminate.
  - cbn [chain] in Hc. destruct Hc as (H1 & H2 & H3).
    destruct j as [|j]; [lia|]. cbn [nth_error] in Hj.
    destruct i as [|i].
    + cbn in Hi. inversion Hi; subst. apply nth_error_In in Hj.
      destruct (chain_in _ _ _ _ _ H3 Hj) as (X & _). exact X.
    + cbn [nth_error] in Hi. eapply (IH _ H3 i j); eauto. lia.
Qed.

(* spans that all have positive length: at most hi - lo of them *)
Lemma chain_strict_len lo hi l :
  chain lo hi l -> (forall a b, In (a, b) l -> a < b) -> N.of_nat (length l) <= hi - lo.
Proof.
  revert lo. induction l as [|[a b] r IH]; intros lo Hc Hs.
  - cbn. lia.
  - cbn [chain] in Hc. destruct Hc as (H1 & H2 & H3).
    assert (Hab : a < b) by (apply Hs; left; reflexivity).
    assert (IH' := IH _ H3 (fun x y Hin => Hs x y (or_intror Hin))).
    pose proof (chain_le _ _ _ H3). cbn [length]. lia.
Qed.

(* ---- the default strategy --------------------------------------------------------- *)
Section Scan.
  Variable next_token : nat -> N -> tokres.
  Variable in_len : N.

  Lemma recover_scan_spec n : forall st p p1 tk,
    recover_scan next_token in_len n st p = Some (p1, tk) ->
    p < p1 /\ p1 <= in_len /\ next_token st p1 = tk /\ tk <> TNone /\
    (forall q, p < q -> q < p1 -> next_token st q = TNone).
  Proof.
    induction n as [|n IH]; intros st p p1 tk H; cbn [recover_scan] in H; [discriminate|].
    destruct (p <? in_len) eqn:Hlt; [|discriminate]. apply N.ltb_lt in Hlt.
    destruct (next_token st (p + 1)) as [|y len|] eqn:Hnt.
    - destruct (IH _ _ _ _ H) as (A1 & A2 & A3 & A4 & A5).
      repeat split; try assumption; [lia|].
      intros q Hq1 Hq2. destruct (N.eq_dec q (p + 1)) as [->|Hne]; [exact Hnt|].
      apply A5; lia.
    - inversion H; subst. repeat split; try lia; [exact Hnt|discriminate].
    - inversion H; subst. repeat split; try lia; [exact Hnt|discriminate].
  Qed.

  Lemma recover_scan_none n : forall st p,
    recover_scan next_token in_len n st p = None ->
    forall q, p < q -> q <= in_len -> q <= p + N.of_nat n -> next_token st q = TNone.
  Proof.
    induction n as [|n IH]; intros st p H q Hq1 Hq2 Hq3; [lia|].
    cbn [recover_scan] in H.
    destruct (p <? in_len) eqn:Hlt; [|apply N.ltb_ge in Hlt; lia].
    destruct (next_token st (p + 1)) as [|y len|] eqn:Hnt; try discriminate.
    destruct (N.eq_dec q (p + 1)) as [->|Hne]; [exact Hnt|].
    apply (IH _ _ H); lia.
  Qed.

  (* C11_progress: a successful default recovery strictly increases the head position, stays
     inside the input, resumes with the token the scanner finds there, and stops at the FIRST
     position behind the error where the scanner finds a token *)
  Theorem default_progress se p ahead :
    default_strategy next_token in_len se = SResume p ahead ->
    hpos se < p /\ p <= in_len /\
    (exists y len, ahead = Some (y, len) /\ next_token (hstate se) p = TTok y len) /\
    (forall q, hpos se < q -> q < p -> next_token (hstate se) q = TNone).
  Proof.
    unfold default_strategy.
    destruct (recover_scan next_token in_len (N.to_nat (in_len - hpos se)) (hstate se) (hpos se))
      as [[p1 tk]|] eqn:H; [|discriminate].
    destruct (recover_scan_spec _ _ _ _ _ H) as (A1 & A2 & A3 & A4 & A5).
    destruct tk as [|y len|]; try discriminate. intros E; inversion E; subst.
    repeat split; try assumption. exists y, len. split; [reflexivity|exact A3].
  Qed.

  (* a failed default recovery: the scanner finds no token at any later position *)
  Theorem default_fail_complete se :
    default_strategy next_token in_len se = SFail ->
    forall q, hpos se < q -> q <= in_len -> next_token (hstate se) q = TNone.
  Proof.
    unfold default_strategy.
    destruct (recover_scan next_token in_len (N.to_nat (in_len - hpos se)) (hstate se) (hpos se))
      as [[p1 tk]|] eqn:H.
    - destruct tk; discriminate.
    - intros _ q Hq1 Hq2. apply (recover_scan_none _ _ _ H q Hq1 Hq2).
      rewrite N2Nat.id. lia.
  Qed.
End Scan.

(* ---- the run ------------------------------------------------------------------------ *)
Section Run.
  Variable g : grammar.
  Variable tb : table.
  Variable skipws : N -> option N.
  Variable next_token : nat -> N -> tokres.
  Variable stop_id : N.
  Variable consume_input : bool.
  Variable strategy : lrstate -> strat_res.
  Variable in_len : N.

  Notation step := (lr_step g tb skipws next_token stop_id consume_input false).
  Notation plain := (lr_run g tb skipws next_token stop_id consume_input false).
  Notation run rc := (rcv_run g tb skipws next_token stop_id consume_input rc strategy).
  Notation errst := (err_state skipws next_token).

  (* -- sentence unchanged ------------------------------------------------------------- *)
  Lemma plain_ok_run rc fuel : forall s errs t rp lay tr,
    plain fuel s = LROk t rp lay tr -> run rc fuel s errs = RvOk t rp lay tr errs.
  Proof.
    induction fuel as [|f IH]; intros s errs t rp lay tr H; cbn [lr_run] in H; [discriminate|].
    cbn [rcv_run]. unfold rstep. destruct (step s) as [s'|r].
    - apply IH. exact H.
    - subst r. reflexivity.
  Qed.

  Definition errs_of (r : rcv_result) : list (N * N) :=
    match r with
    | RvOk _ _ _ _ e | RvDisambiguation _ _ e | RvLayoutError _ e | RvCrash _ e | RvOutOfFuel e => e
    | RvSyntaxError _ _ e => e
    end.

  Lemma run_errs_prefix rc fuel : forall s errs, exists x, errs_of (run rc fuel s errs) = errs ++ x.
  Proof.
    induction fuel as [|f IH]; intros s errs; cbn [rcv_run].
    - exists []. cbn. rewrite app_nil_r. reflexivity.
    - unfold rstep. destruct (step s) as [s'|r]; [apply IH|].
      destruct r as [t rp lay tr|pos st|pos st| |pos|c]; try (exists []; cbn; rewrite app_nil_r; reflexivity).
      destruct rc; [|exists []; cbn; rewrite app_nil_r; reflexivity].
      destruct (errst s) as [se|]; [|exists []; cbn; rewrite app_nil_r; reflexivity].
      destruct (strategy se) as [|p ahead|p].
      + exists []. cbn. rewrite app_nil_r. reflexivity.
      + destruct (IH (resume se p ahead) (errs ++ [(pos, p)])) as (x & Hx).
        exists ((pos, p) :: x). rewrite Hx, <- app_assoc. reflexivity.
      + exists [(pos, pos)]. reflexivity.
  Qed.

  Lemma run_noerr_plain rc fuel : forall s errs t rp lay tr,
    run rc fuel s errs = RvOk t rp lay tr errs -> plain fuel s = LROk t rp lay tr.
  Proof.
    induction fuel as [|f IH]; intros s errs t rp lay tr H; cbn [rcv_run] in H; [discriminate|].
    cbn [lr_run]. unfold rstep in H. destruct (step s) as [s'|r].
    - eapply IH. exact H.
    - destruct r as [t' rp' lay' tr'|pos st|pos st| |pos|c]; try discriminate.
      + inversion H; subst. reflexivity.
      + destruct rc; [|discriminate].
        destruct (errst s) as [se|]; [|discriminate].
        destruct (strategy se) as [|p ahead|p]; try discriminate.
        destruct (run_errs_prefix true f (resume se p ahead) (errs ++ [(pos, p)])) as (x & Hx).
        rewrite H in Hx. cbn [errs_of] in Hx.
        apply (f_equal (@length _)) in Hx. rewrite !app_length in Hx. cbn in Hx. lia.
  Qed.

  (* -- positions ---------------------------------------------------------------------- *)
  Hypothesis skip_mono : forall p q, skipws p = Some q -> p <= q.
  Hypothesis skip_bound : forall p q, skipws p = Some q -> p <= in_len -> q <= in_len.
  Hypothesis tok_bound : forall st p y len, next_token st p = TTok y len -> p <= in_len -> p + len <= in_len.

  Definition ahead_ok (p : N) (a : option (N * N)) : Prop :=
    match a with Some (_, len) => p + len <= in_len | None => True end.

  Definition pos_inv (s : lrstate) : Prop := hpos s <= in_len /\ ahead_ok (hpos s) (l_ahead s).

  Lemma lookahead_pos s top0 top lay1 scan :
    e_pos top0 <= in_len -> ahead_ok (e_pos top0) (l_ahead s) ->
    lookahead skipws next_token false s top0 = Some (top, lay1, scan) ->
    e_pos top0 <= e_pos top /\ e_pos top <= in_len /\ e_state top = e_state top0 /\
    e_tree top = e_tree top0 /\ ahead_ok (e_pos top) (ahead_of scan).
  Proof.
    intros Hp Ha H. unfold lookahead in H. destruct (l_ahead s) as [[y len]|].
    - inversion H; subst. cbn [ahead_of fst snd]. repeat split; try lia; try reflexivity. exact Ha.
    - destruct (skipws (e_pos top0)) as [p1|] eqn:Hs; [|discriminate]. inversion H; subst.
      cbn [set_pos e_pos e_state e_tree].
      pose proof (skip_mono _ _ Hs). pose proof (skip_bound _ _ Hs Hp).
      repeat split; try assumption; try reflexivity.
      destruct (next_token (e_state top0) p1) as [|y len|] eqn:Hn; cbn [ahead_of ahead_ok]; try exact I.
      eapply tok_bound; eauto.
  Qed.

  (* what one step of the driver does to the head position *)
  Definition out_pos (p1 : N) (st1 : nat) (o : outcome) : Prop :=
    match o with
    | Continue s' => pos_inv s' /\ p1 <= hpos s'
    | Done (LRSyntaxError pos st) => pos = p1 /\ st = st1
    | Done _ => True
    end.

  Lemma do_reduce_pos tr stk pos1 lay1 ah p pr st1 :
    pos1 <= in_len -> ahead_ok pos1 ah ->
    out_pos pos1 st1 (do_reduce tb tr stk pos1 lay1 ah p pr).
  Proof.
    intros Hp Ha. unfold do_reduce.
    destruct (negb (Nat.eqb (length (firstn (length (rhs pr)) stk)) (length (rhs pr)))); [exact I|].
    destruct (skipn (length (rhs pr)) stk) as [|r0 rest]; [exact I|].
    destruct (goto tb (e_state r0) (lhs pr)) as [s'|]; [|exact I].
    destruct (match rev (firstn (length (rhs pr)) stk) with [] => _ | deepest :: _ => _ end) as [startp lay].
    cbn [out_pos]. unfold pos_inv, hpos. cbn [l_stack l_ahead e_pos]. repeat split; try assumption. lia.
  Qed.

  Lemma do_action_pos tr top below lay1 scan fb acts :
    e_pos top <= in_len -> ahead_ok (e_pos top) (ahead_of scan) ->
    out_pos (e_pos top) (e_state top) (do_action g tb tr (top :: below) lay1 scan fb acts).
  Proof.
    intros Hp Ha. unfold do_action.
    destruct acts as [|act more]; [cbn; auto|].
    destruct act as [s'|p0|].
    - destruct scan as [|y len|]; try exact I. destruct fb; [exact I|].
      cbn [out_pos]. unfold pos_inv, hpos. cbn [l_stack l_ahead e_pos ahead_ok].
      cbn [ahead_of ahead_ok] in Ha. repeat split; try exact I; lia.
    - destruct (select_prod g p0 more) as [[p pr]|]; [|exact I].
      apply do_reduce_pos; [exact Hp|]. destruct scan; cbn [ahead_of] in *; auto.
    - destruct (nth_error (rev (top :: below)) 1); exact I.
  Qed.

  Lemma step_pos s :
    pos_inv s ->
    match step s with
    | Continue s' => pos_inv s' /\ hpos s <= hpos s'
    | Done (LRSyntaxError pos st) =>
        exists se, errst s = Some se /\ hpos se = pos /\ hstate se = st /\
                   hpos s <= pos /\ pos_inv se
    | Done _ => True
    end.
  Proof.
    intros [Hp Ha]. unfold lr_step, err_state, hpos in *.
    destruct (l_stack s) as [|top0 below] eqn:Hstk; [exact I|].
    destruct (lookahead skipws next_token false s top0) as [[[top lay1] scan]|] eqn:Hla; [|exact I].
    destruct (lookahead_pos _ _ _ _ _ Hp Ha Hla) as (L1 & L2 & L3 & L4 & L5).
    assert (Hgen : forall fb acts,
      match do_action g tb (l_trace s) (top :: below) lay1 scan fb acts with
      | Continue s' => pos_inv s' /\ e_pos top0 <= hpos s'
      | Done (LRSyntaxError pos st) =>
          exists se, Some (mkLR (top :: below) (ahead_of scan) lay1 (l_trace s)) = Some se /\
                     hpos se = pos /\ hstate se = st /\ e_pos top0 <= pos /\ pos_inv se
      | Done _ => True
      end).
    { intros fb acts. pose proof (do_action_pos (l_trace s) top below lay1 scan fb acts L2 L5) as H.
      destruct (do_action g tb (l_trace s) (top :: below) lay1 scan fb acts) as [s'|r]; cbn [out_pos] in H.
      - destruct H as [H1 H2]. split; [exact H1|]. unfold hpos in *. lia.
      - destruct r; try exact I. destruct H as [-> ->].
        eexists. split; [reflexivity|]. unfold hpos, hstate, pos_inv, hpos. cbn [l_stack l_ahead].
        repeat split; try reflexivity; assumption. }
    destruct scan as [|y len|]; [| |exact I].
    - destruct consume_input; apply Hgen.
    - destruct (cell tb (e_state top) y); [destruct consume_input|]; apply Hgen.
  Qed.

  (* the strategy never moves the head backwards, keeps it (and the token it leaves ahead)
     inside the input *)
  Definition strategy_monotone : Prop :=
    forall se p ahead, pos_inv se -> strategy se = SResume p ahead ->
                       hpos se <= p /\ p <= in_len /\ ahead_ok p ahead.
  (* ... and a successful recovery strictly advances it *)
  Definition strategy_progress : Prop :=
    forall se p ahead, pos_inv se -> strategy se = SResume p ahead ->
                       hpos se < p /\ p <= in_len /\ ahead_ok p ahead.

  Lemma progress_monotone : strategy_progress -> strategy_monotone.
  Proof. intros H se p ahead Hi E. destruct (H se p ahead Hi E) as (A & B & C). repeat split; auto. lia. Qed.

  Lemma resume_pos se p ahead :
    l_stack se <> [] -> p <= in_len -> ahead_ok p ahead ->
    pos_inv (resume se p ahead) /\ hpos (resume se p ahead) = p.
  Proof.
    intros Hne Hp Ha. unfold resume, pos_inv, hpos.
    destruct (l_stack se) as [|top below]; [congruence|]. cbn [l_stack l_ahead set_pos e_pos]. auto.
  Qed.

  Lemma errst_nonempty s se : errst s = Some se -> l_stack se <> [].
  Proof.
    unfold err_state. destruct (l_stack s) as [|top0 below]; [discriminate|].
    destruct (lookahead skipws next_token false s top0) as [[[top lay1] scan]|]; [|discriminate].
    intros E; inversion E; subst. cbn. discriminate.
  Qed.

  (* every error the run has recorded or raises, as spans, in order *)
  Definition all_errs (r : rcv_result) : list (N * N) :=
    match r with
    | RvSyntaxError pos _ earlier => earlier ++ [(pos, pos)]
    | r => errs_of r
    end.

  Lemma run_spans (Hmono : strategy_monotone) rc fuel : forall s errs p0,
    pos_inv s -> chain p0 (hpos s) errs -> chain p0 in_len (all_errs (run rc fuel s errs)).
  Proof.
    induction fuel as [|f IH]; intros s errs p0 Hinv Hch; cbn [rcv_run].
    - cbn. eapply chain_weaken; [exact Hch|apply Hinv].
    - unfold rstep. pose proof (step_pos s Hinv) as Hs.
      assert (Hdone : chain p0 in_len errs) by (eapply chain_weaken; [exact Hch|apply Hinv]).
      destruct (step s) as [s'|r].
      + destruct Hs as [Hi' Hle]. apply IH; [exact Hi'|]. eapply chain_weaken; [exact Hch|exact Hle].
      + destruct r as [t rp lay tr|pos st|pos st| |pos|c]; try exact Hdone.
        destruct Hs as (se & Hse & Hpos & Hst & Hle & Hise).
        assert (Hfail : chain p0 in_len (errs ++ [(pos, pos)])).
        { eapply chain_weaken; [apply (chain_snoc _ _ _ pos pos Hch); lia|].
          subst pos. apply Hise. }
        destruct rc; [|exact Hfail].
        rewrite Hse. destruct (strategy se) as [|p ahead|p] eqn:Hstr; try exact Hfail.
        destruct (Hmono se p ahead Hise Hstr) as (M1 & M2 & M3).
        destruct (resume_pos se p ahead (errst_nonempty _ _ Hse) M2 M3) as [R1 R2].
        apply IH; [exact R1|]. rewrite R2. apply (chain_snoc _ _ _ pos p Hch); lia.
  Qed.

  (* under strategy_progress every recorded (recovered) span has positive length *)
  Lemma run_strict (Hprog : strategy_progress) rc fuel : forall s errs,
    pos_inv s -> (forall a b, In (a, b) errs -> a < b) ->
    forall a b, In (a, b) (errs_of (run rc fuel s errs)) ->
                a < b \/ (exists p st e, run rc fuel s errs = RvDisambiguation p st e).
  Proof.
    induction fuel as [|f IH]; intros s errs Hinv Hst a b Hin; cbn [rcv_run] in *.
    - left. apply Hst. exact Hin.
    - unfold rstep in *. pose proof (step_pos s Hinv) as Hs.
      destruct (step s) as [s'|r].
      + destruct Hs as [Hi' _]. apply (IH s' errs Hi' Hst a b Hin).
      + destruct r as [t rp lay tr|pos st|pos st| |pos|c]; try (left; apply Hst; exact Hin).
        destruct Hs as (se & Hse & Hpos & Hst' & Hle & Hise).
        destruct rc; [|left; apply Hst; exact Hin].
        rewrite Hse in *. destruct (strategy se) as [|p ahead|p] eqn:Hstr.
        * left; apply Hst; exact Hin.
        * destruct (Hprog se p ahead Hise Hstr) as (M1 & M2 & M3).
          destruct (resume_pos se p ahead (errst_nonempty _ _ Hse) M2 M3) as [R1 R2].
          apply (IH _ _ R1); [|exact Hin].
          intros x y Hxy. apply in_app_or in Hxy. destruct Hxy as [Hxy|[E|[]]]; [apply Hst; exact Hxy|].
          inversion E; subst. exact M1.
        * cbn [errs_of] in Hin. apply in_app_or in Hin. destruct Hin as [Hin|[E|[]]]; [left; apply Hst; exact Hin|].
          right. do 3 eexists. reflexivity.
  Qed.
End Run.


(* ---- the returned tree ------------------------------------------------------------- *)
Section Valid.
  Variable g : grammar.
  Variable tb : table.
  Variable skipws : N -> option N.
  Variable next_token : nat -> N -> tokres.
  Variable stop_id : N.
  Variable consume_input : bool.
  Variable strategy : lrstate -> strat_res.

  Notation step := (lr_step g tb skipws next_token stop_id consume_input false).
  Notation run rc := (rcv_run g tb skipws next_token stop_id consume_input rc strategy).
  Notation errst := (err_state skipws next_token).

  Lemma lookahead_same s top0 top lay1 scan :
    lookahead skipws next_token false s top0 = Some (top, lay1, scan) ->
    e_state top = e_state top0 /\ e_tree top = e_tree top0.
  Proof.
    unfold lookahead. destruct (l_ahead s).
    - intros H; inversion H; subst; auto.
    - destruct (skipws (e_pos top0)); [|discriminate]. intros H; inversion H; subst; auto.
  Qed.

  (* recovery does not touch the stack (states and trees) nor the shifted tokens *)
  Lemma resume_stack s se p ahead :
    errst s = Some se ->
    to_stack (l_stack (resume se p ahead)) = to_stack (l_stack s) /\
    l_trace (resume se p ahead) = l_trace s /\
    map e_tree (l_stack (resume se p ahead)) = map e_tree (l_stack s).
  Proof.
    unfold err_state. destruct (l_stack s) as [|top0 below] eqn:Hstk; [discriminate|].
    destruct (lookahead skipws next_token false s top0) as [[[top lay1] scan]|] eqn:Hla; [|discriminate].
    intros E; inversion E; subst. destruct (lookahead_same _ _ _ _ _ Hla) as [H1 H2].
    unfold resume. cbn [l_stack l_trace to_stack map set_pos e_state e_tree]. rewrite H1, H2. auto.
  Qed.

  Lemma nsteps_left look c c1 c' :
    nstep g tb look c c1 -> nsteps g tb look c1 c' -> nsteps g tb look c c'.
  Proof.
    intros Hstep Hsteps. induction Hsteps as [c1|c1 c2 c3 H12 IH2 H23].
    - eapply nss_step; [apply nss_refl|exact Hstep].
    - eapply nss_step; [apply IH2; exact Hstep|exact H23].
  Qed.

  Lemma run_sim_rcv rc fuel : forall s errs c t rp lay tr errs',
    sim s c -> run rc fuel s errs = RvOk t rp lay tr errs' ->
    exists c', nsteps g tb anylook c c' /\ naccepts tb anylook c' t /\ c_trace c' = strip tr.
  Proof.
    induction fuel as [|f IH]; intros s errs c t rp lay tr errs' Hc Hrun; cbn [rcv_run] in Hrun;
      [discriminate|].
    unfold rstep in Hrun.
    pose proof (step_sim g tb skipws next_token stop_id consume_input false s c Hc) as Hsim.
    destruct (step s) as [s'|r].
    - destruct Hsim as (c1 & Hstep & Hc1).
      destruct (IH _ _ _ _ _ _ _ _ Hc1 Hrun) as (c' & Hsteps & Hacc).
      exists c'. split; [|exact Hacc]. eapply nsteps_left; eauto.
    - destruct r as [t' rp' lay' tr'|pos st|pos st| |pos|cd]; try discriminate.
      + inversion Hrun; subst. cbn in Hsim. exists c. split; [apply nss_refl|exact Hsim].
      + destruct rc; [|discriminate].
        destruct (errst s) as [se|] eqn:Hse; [|discriminate].
        destruct (strategy se) as [|p ahead|p]; try discriminate.
        destruct (resume_stack s se p ahead Hse) as (R1 & R2 & _).
        apply (IH _ _ c _ _ _ _ _ (conj (eq_trans (proj1 Hc) (eq_sym R1))
                                         (eq_trans (proj2 Hc) (f_equal strip (eq_sym R2)))) Hrun).
  Qed.

  (* C11_result_valid, first half: whatever the strategy does, a returned tree is a derivation
     of the start symbol whose leaves are exactly the shifted tokens, in order *)
  Theorem rcv_sound rc start fuel pos t rp lay tr errs :
    table_struct g tb start = true ->
    rcv_parse g tb skipws next_token stop_id consume_input rc strategy fuel pos = RvOk t rp lay tr errs ->
    wf_tree g t /\ root_sym g t = Some (NT start) /\ leaves t = strip tr.
  Proof.
    intros Hts Hrun. unfold rcv_parse in Hrun.
    assert (Hsim : sim (lr_init pos) (init_cfg pos (bottom_tree pos))) by (split; reflexivity).
    destruct (run_sim_rcv rc fuel _ _ _ _ _ _ _ _ Hsim Hrun) as (c' & Hsteps & Hacc & Htr).
    destruct (nlr_sound g tb start anylook Hts pos _ c' t Hsteps Hacc) as (H1 & H2 & H3).
    split; [exact H1|]. split; [exact H2|]. rewrite H3. exact Htr.
  Qed.

  (* -- spans of the tree, and the shifted tokens are scanner tokens --------------------- *)
  Variable in_len : N.
  Hypothesis skip_mono : forall p q, skipws p = Some q -> p <= q.
  Hypothesis skip_bound : forall p q, skipws p = Some q -> p <= in_len -> q <= in_len.
  Hypothesis tok_bound : forall st p y len, next_token st p = TTok y len -> p <= in_len -> p + len <= in_len.
  Hypothesis Hmono : strategy_monotone strategy in_len.

  Lemma resume_lr_inv s se p ahead :
    pos_inv in_len s -> lr_inv s -> errst s = Some se -> hpos se <= p -> lr_inv (resume se p ahead).
  Proof.
    intros [Hp Ha] [[Hall Hsorted] Htop]. unfold err_state, hpos in *.
    destruct (l_stack s) as [|top0 below] eqn:Hstk; [discriminate|].
    destruct (lookahead skipws next_token false s top0) as [[[top lay1] scan]|] eqn:Hla; [|discriminate].
    intros E Hle; inversion E; subst. cbn [l_stack] in Hle.
    destruct (lookahead_pos skipws next_token in_len skip_mono skip_bound tok_bound _ _ _ _ _ Hp Ha Hla)
      as (L1 & L2 & L3 & L4 & L5).
    unfold resume, lr_inv, stack_good. cbn [l_stack]. split; [split|].
    - cbn [All set_pos e_tree] in *. rewrite L4. exact Hall.
    - destruct below as [|l r]; [exact I|]. cbn [sorted set_pos e_tree] in *. rewrite L4. exact Hsorted.
    - cbn [set_pos e_tree e_pos]. rewrite L4. lia.
  Qed.

  Lemma run_tree_spans rc fuel : forall s errs t rp lay tr errs',
    pos_inv in_len s -> lr_inv s -> run rc fuel s errs = RvOk t rp lay tr errs' -> spans_ok t.
  Proof.
    induction fuel as [|f IH]; intros s errs t rp lay tr errs' Hpi Hinv Hrun; cbn [rcv_run] in Hrun;
      [discriminate|].
    unfold rstep in Hrun.
    pose proof (step_inv g tb skipws next_token stop_id consume_input false skip_mono s Hinv) as Hs.
    pose proof (step_pos g tb skipws next_token stop_id consume_input in_len skip_mono skip_bound tok_bound
                         s Hpi) as Hp.
    destruct (step s) as [s'|r].
    - destruct Hp as [Hp' _]. eapply IH; [exact Hp'|exact Hs|exact Hrun].
    - destruct r as [t' rp' lay' tr'|pos st|pos st| |pos|cd]; try discriminate.
      + inversion Hrun; subst. exact Hs.
      + destruct rc; [|discriminate].
        destruct Hp as (se & Hse & Hpos & Hst & Hle & Hise). rewrite Hse in Hrun.
        destruct (strategy se) as [|p ahead|p] eqn:Hstr; try discriminate.
        destruct (Hmono se p ahead Hise Hstr) as (M1 & M2 & M3).
        destruct (resume_pos in_len se p ahead (errst_nonempty skipws next_token _ _ Hse) M2 M3) as [R1 R2].
        eapply IH; [exact R1| |exact Hrun]. exact (resume_lr_inv s se p ahead Hpi Hinv Hse M1).
  Qed.
End Valid.


(* ---- statements about whole parses -------------------------------------------------- *)
Lemma chain_app_l lo hi l l' : chain lo hi (l ++ l') -> chain lo hi l.
Proof.
  revert lo. induction l as [|[a b] r IH]; intros lo; cbn [chain app].
  - apply chain_le.
  - intros (H1 & H2 & H3). repeat split; auto.
Qed.

Section Top.
  Variable g : grammar.
  Variable tb : table.
  Variable skipws : N -> option N.
  Variable next_token : nat -> N -> tokres.
  Variable stop_id : N.
  Variable consume_input : bool.
  Variable strategy : lrstate -> strat_res.
  Variable in_len : N.
  Hypothesis skip_mono : forall p q, skipws p = Some q -> p <= q.
  Hypothesis skip_bound : forall p q, skipws p = Some q -> p <= in_len -> q <= in_len.
  Hypothesis tok_bound : forall st p y len, next_token st p = TTok y len -> p <= in_len -> p + len <= in_len.

  Notation parse rc := (rcv_parse g tb skipws next_token stop_id consume_input rc strategy).

  Lemma init_pos_inv p0 : p0 <= in_len -> pos_inv in_len (lr_init p0).
  Proof. intros H. split; [exact H|exact I]. Qed.

  Theorem parse_spans rc fuel p0 :
    strategy_monotone strategy in_len -> p0 <= in_len ->
    chain p0 in_len (all_errs (parse rc fuel p0)).
  Proof.
    intros Hm Hp. unfold rcv_parse.
    apply (run_spans g tb skipws next_token stop_id consume_input strategy in_len
                     skip_mono skip_bound tok_bound Hm rc fuel _ [] p0 (init_pos_inv p0 Hp)).
    cbn. lia.
  Qed.

  (* the user-level reading of a chain *)
  Theorem parse_spans_facts rc fuel p0 :
    strategy_monotone strategy in_len -> p0 <= in_len ->
    let errs := all_errs (parse rc fuel p0) in
    (forall a b, In (a, b) errs -> p0 <= a /\ a <= b /\ b <= in_len) /\
    (forall i j a b c d, (i < j)%nat -> nth_error errs i = Some (a, b) ->
                         nth_error errs j = Some (c, d) -> b <= c).
  Proof.
    intros Hm Hp errs. pose proof (parse_spans rc fuel p0 Hm Hp) as Hc. split.
    - intros a b. apply (chain_in _ _ _ _ _ Hc).
    - apply (chain_ordered _ _ _ Hc).
  Qed.

  Theorem parse_count rc fuel p0 :
    strategy_progress strategy in_len -> p0 <= in_len ->
    (forall p st e, parse rc fuel p0 <> RvDisambiguation p st e) ->
    N.of_nat (length (all_errs (parse rc fuel p0))) <= in_len - p0 + 1.
  Proof.
    intros Hpr Hp Hnd.
    pose proof (parse_spans rc fuel p0 (progress_monotone _ _ Hpr) Hp) as Hc.
    assert (Hstrict : forall a b, In (a, b) (errs_of (parse rc fuel p0)) -> a < b).
    { intros a b Hin. unfold rcv_parse in *.
      destruct (run_strict g tb skipws next_token stop_id consume_input strategy in_len
                           skip_mono skip_bound tok_bound Hpr rc fuel _ [] (init_pos_inv p0 Hp)
                           (fun x y (F : In (x, y) []) => match F with end) a b Hin) as [H|(p & st & e & H)];
        [exact H|]. exfalso. exact (Hnd _ _ _ H). }
    destruct (parse rc fuel p0) as [t rp lay tr e|pos st e|pos st e|pos e|c e|e] eqn:E;
      cbn [all_errs errs_of] in *;
      try (pose proof (chain_strict_len _ _ _ Hc Hstrict); lia).
    rewrite app_length. cbn [length].
    pose proof (chain_strict_len _ _ _ (chain_app_l _ _ _ _ Hc) Hstrict). lia.
  Qed.

  Theorem parse_tree_spans rc fuel p0 t rp lay tr errs :
    strategy_monotone strategy in_len -> p0 <= in_len ->
    parse rc fuel p0 = RvOk t rp lay tr errs -> spans_ok t.
  Proof.
    intros Hm Hp H. unfold rcv_parse in H.
    eapply (run_tree_spans g tb skipws next_token stop_id consume_input strategy in_len
                           skip_mono skip_bound tok_bound Hm rc fuel _ _ _ _ _ _ _ (init_pos_inv p0 Hp)); [|exact H].
    unfold lr_init, lr_inv, stack_good. cbn. repeat split; lia.
  Qed.

  Theorem default_is_progress : strategy_progress (default_strategy next_token in_len) in_len.
  Proof.
    intros se p ahead _ H. destruct (default_progress _ _ _ _ _ H) as (A & B & (y & len & -> & C) & _).
    repeat split; try assumption. cbn. eapply tok_bound; eauto.
  Qed.
End Top.


(* ---- every shifted token is a token the scanner returned at its position ------------- *)
Section Tokens.
  Variable g : grammar.
  Variable tb : table.
  Variable skipws : N -> option N.
  Variable next_token : nat -> N -> tokres.
  Variable stop_id : N.
  Variable consume_input : bool.
  Variable strategy : lrstate -> strat_res.

  Notation step := (lr_step g tb skipws next_token stop_id consume_input false).
  Notation run rc := (rcv_run g tb skipws next_token stop_id consume_input rc strategy).
  Notation errst := (err_state skipws next_token).

  Definition scanned (x : N * N * N * (N * N)) : Prop :=
    match x with (y, s, e, _) => exists st, next_token st s = TTok y (e - s) end.

  Definition ahead_scanned (p : N) (a : option (N * N)) : Prop :=
    match a with Some (y, len) => exists st, next_token st p = TTok y len | None => True end.

  Definition tok_inv (s : lrstate) : Prop :=
    All scanned (l_trace s) /\ ahead_scanned (hpos s) (l_ahead s).

  (* a strategy that leaves a token ahead took it from the scanner *)
  Definition strategy_scans : Prop :=
    forall se p y len, strategy se = SResume p (Some (y, len)) -> exists st, next_token st p = TTok y len.

  Definition out_tok (o : outcome) : Prop :=
    match o with
    | Continue s' => tok_inv s'
    | Done (LROk _ _ _ tr) => All scanned tr
    | Done _ => True
    end.

  Lemma do_reduce_tok tr stk pos1 lay1 ah p pr :
    All scanned tr -> ahead_scanned pos1 ah -> out_tok (do_reduce tb tr stk pos1 lay1 ah p pr).
  Proof.
    intros Ht Ha. unfold do_reduce.
    destruct (negb (Nat.eqb (length (firstn (length (rhs pr)) stk)) (length (rhs pr)))); [exact I|].
    destruct (skipn (length (rhs pr)) stk) as [|r0 rest]; [exact I|].
    destruct (goto tb (e_state r0) (lhs pr)) as [s'|]; [|exact I].
    destruct (match rev (firstn (length (rhs pr)) stk) with [] => _ | deepest :: _ => _ end) as [startp lay].
    cbn [out_tok]. unfold tok_inv, hpos. cbn [l_stack l_ahead l_trace e_pos]. auto.
  Qed.

  Lemma do_action_tok tr top below lay1 scan fb acts :
    All scanned tr -> ahead_scanned (e_pos top) (ahead_of scan) ->
    out_tok (do_action g tb tr (top :: below) lay1 scan fb acts).
  Proof.
    intros Ht Ha. unfold do_action.
    destruct acts as [|act more]; [exact I|].
    destruct act as [s'|p0|].
    - destruct scan as [|y len|]; try exact I. destruct fb; [exact I|].
      cbn [out_tok]. unfold tok_inv, hpos. cbn [l_stack l_ahead l_trace ahead_scanned]. split; [|exact I].
      apply All_app. split; [exact Ht|]. cbn [All scanned]. split; [|exact I].
      cbn [ahead_of ahead_scanned] in Ha. destruct Ha as (st & Hst). exists st.
      replace (e_pos top + len - e_pos top) with len by lia. exact Hst.
    - destruct (select_prod g p0 more) as [[p pr]|]; [|exact I].
      apply do_reduce_tok; [exact Ht|]. destruct scan; cbn [ahead_of] in *; auto.
    - destruct (nth_error (rev (top :: below)) 1); [exact Ht|exact I].
  Qed.

  Lemma step_tok s :
    tok_inv s ->
    out_tok (step s) /\ (forall se, errst s = Some se -> tok_inv se).
  Proof.
    intros [Ht Ha]. unfold lr_step, err_state, hpos in *.
    destruct (l_stack s) as [|top0 below] eqn:Hstk; [split; [exact I|discriminate]|].
    destruct (lookahead skipws next_token false s top0) as [[[top lay1] scan]|] eqn:Hla;
      [|split; [exact I|discriminate]].
    assert (Hscan : ahead_scanned (e_pos top) (ahead_of scan)).
    { unfold lookahead in Hla. destruct (l_ahead s) as [[y len]|].
      - inversion Hla; subst. exact Ha.
      - destruct (skipws (e_pos top0)) as [p1|]; [|discriminate]. inversion Hla; subst.
        cbn [set_pos e_pos]. destruct (next_token (e_state top0) p1) eqn:Hn; cbn; auto. eexists; eauto. }
    split.
    - destruct scan as [|y len|]; [| |exact I].
      + destruct consume_input; apply do_action_tok; assumption.
      + destruct (cell tb (e_state top) y); [destruct consume_input|]; apply do_action_tok; assumption.
    - intros se E; inversion E; subst. unfold tok_inv, hpos. cbn [l_stack l_ahead l_trace]. auto.
  Qed.

  Lemma run_tokens (Hsc : strategy_scans) rc fuel : forall s errs t rp lay tr errs',
    tok_inv s -> run rc fuel s errs = RvOk t rp lay tr errs' -> All scanned tr.
  Proof.
    induction fuel as [|f IH]; intros s errs t rp lay tr errs' Hinv Hrun; cbn [rcv_run] in Hrun;
      [discriminate|].
    unfold rstep in Hrun. destruct (step_tok s Hinv) as [Hs Hse].
    destruct (step s) as [s'|r].
    - eapply IH; [exact Hs|exact Hrun].
    - destruct r as [t' rp' lay' tr'|pos st|pos st| |pos|cd]; try discriminate.
      + inversion Hrun; subst. exact Hs.
      + destruct rc; [|discriminate].
        destruct (errst s) as [se|] eqn:E; [|discriminate]. specialize (Hse se eq_refl).
        destruct (strategy se) as [|p ahead|p] eqn:Hstr; try discriminate.
        eapply IH; [|exact Hrun]. destruct Hse as [Hse1 _].
        unfold resume, tok_inv, hpos. destruct (l_stack se) as [|top below] eqn:Hstk.
        * exfalso. exact (errst_nonempty skipws next_token s se E Hstk).
        * cbn [l_stack l_ahead l_trace set_pos e_pos]. split; [exact Hse1|].
          destruct ahead as [[y len]|]; [|exact I]. cbn. eapply Hsc; eauto.
  Qed.

  (* C11_leaves_are_tokens *)
  Theorem parse_tokens rc fuel pos t rp lay tr errs :
    strategy_scans ->
    rcv_parse g tb skipws next_token stop_id consume_input rc strategy fuel pos = RvOk t rp lay tr errs ->
    forall y s e l, In (y, s, e, l) tr -> exists st, next_token st s = TTok y (e - s).
  Proof.
    intros Hsc Hrun y s e l Hin. unfold rcv_parse in Hrun.
    assert (Hi : tok_inv (lr_init pos)) by (split; exact I).
    pose proof (run_tokens Hsc rc fuel _ _ _ _ _ _ _ Hi Hrun) as Hall.
    rewrite All_In in Hall. exact (Hall _ Hin).
  Qed.
End Tokens.

Lemma default_scans next_token in_len : strategy_scans next_token (default_strategy next_token in_len).
Proof.
  intros se p y len H. destruct (default_progress _ _ _ _ _ H) as (_ & _ & (y' & len' & E & C) & _).
  inversion E; subst. eexists; eauto.
Qed.


(* ---- the recovery model used by C15 (Model/Reuse.v [rec_run], no action budget) is this
   model with the default strategy ------------------------------------------------------- *)
Definition rec_of_rcv (r : rcv_result) : rec_result :=
  match r with
  | RvOk t rp _ _ errs => RROk t rp errs
  | RvSyntaxError pos st _ => RRSyntaxError pos st
  | RvDisambiguation pos st errs => RRDisambiguation pos st errs
  | RvLayoutError pos errs => RRLayoutError pos errs
  | RvCrash c errs => RRCrash c errs
  | RvOutOfFuel errs => RRAborted errs
  end.

Lemma rec_run_is_rcv_run g tb skipws next_token stop_id consume_input in_len recovery fuel :
  forall s errs,
    rec_run g tb skipws next_token stop_id consume_input in_len recovery fuel None s errs
    = rec_of_rcv (rcv_run g tb skipws next_token stop_id consume_input recovery
                          (default_strategy next_token in_len) fuel s errs).
Proof.
  induction fuel as [|f IH]; intros s errs; cbn [rec_run rcv_run]; [reflexivity|].
  unfold step, rstep.
  destruct (lr_step g tb skipws next_token stop_id consume_input false s) as [s'|r] eqn:Hstep; [apply IH|].
  destruct r as [t rp lay tr|pos st|pos st| |pos|c]; try reflexivity.
  destruct recovery; [|reflexivity].
  unfold err_state, look.
  destruct (l_stack s) as [|top0 below] eqn:Hstk.
  - unfold lr_step in Hstep. rewrite Hstk in Hstep. discriminate.
  - destruct (lookahead skipws next_token false s top0) as [[[top lay1] scan]|]; [|reflexivity].
    unfold default_strategy, hpos, hstate. cbn [l_stack].
    destruct (recover_scan next_token in_len (N.to_nat (in_len - e_pos top)) (e_state top) (e_pos top))
      as [[p1 tk]|]; [|reflexivity].
    destruct tk as [|y len|]; try reflexivity.
    rewrite IH. reflexivity.
Qed.
