(* Completeness of the LR DRIVER for deterministic tables: if the table passes
   table_complete, every cell holds at most one action and the scanner hands over the
   tokens of a sentence one by one, then the driver accepts and returns that sentence's
   (unique) derivation tree, up to the spans of interior nodes. *)
From Coq Require Import NArith List Bool Lia Arith.
From PV Require Import Spec.Cfg Model.Table Spec.NLR Validators.TableComplete Model.LRDriver
  Proofs.CompleteProofs Proofs.UnambigProofs.
Import ListNotations.
Local Open Scope N_scope.

Lemma det_cell_eq tb s y a :
  det_table tb = true -> In a (cell tb s y) -> cell tb s y = [a].
Proof.
  intros Hd Ha.
  destruct (cell tb s y) as [|x [|z r]] eqn:E.
  - destruct Ha.
  - destruct Ha as [<-|[]]. reflexivity.
  - exfalso.
    assert (H1 : In x (cell tb s y)) by (rewrite E; left; reflexivity).
    assert (H2 : In z (cell tb s y)) by (rewrite E; right; left; reflexivity).
    unfold cell in *. destruct (get_state tb s) as [st|] eqn:Es; [|discriminate].
    destruct (assoc y (st_actions st)) as [l|] eqn:El; [|discriminate].
    unfold det_table in Hd. rewrite forallb_forall in Hd.
    unfold get_state in Es. apply nth_error_In in Es. specialize (Hd st Es).
    rewrite forallb_forall in Hd. specialize (Hd _ (assoc_In2 _ _ _ El)). cbn in Hd.
    subst l. cbn in Hd. discriminate.
Qed.

Section Driver.
  Variable g : grammar.
  Variable tb : table.
  Variable skipws : N -> option N.
  Variable next_token : nat -> N -> tokres.
  Variable stop_id : N.
  Hypothesis Hdet : det_table tb = true.

  Notation step := (lr_step g tb skipws next_token stop_id true false).
  Notation run := (lr_run g tb skipws next_token stop_id true false).

  (* the scanner follows the token list w from position p: in every state that has an action
     for the true next token (or for STOP at the end) layout skipping succeeds and the
     scanner returns exactly that token *)
  Fixpoint scan_ok (p : N) (w : list tok) : Prop :=
    match w with
    | [] => forall st, cell tb st stop_id <> [] ->
                       exists q, skipws p = Some q /\ next_token st q = TTok stop_id 0
    | (y, s, e) :: r =>
        (forall st, cell tb st y <> [] -> skipws p = Some s /\ next_token st s = TTok y (e - s))
        /\ s <= e /\ scan_ok e r
    end.

  Definition entry_rel (en : entry) (b : nat * tree) : Prop :=
    e_state en = fst b /\ shape (e_tree en) = shape (snd b).

  (* LR state vs configuration of the LR machine *)
  Definition rel (s : lrstate) (st : stack) (inp : list tok) : Prop :=
    Forall2 entry_rel (l_stack s) st /\
    match l_stack s with
    | [] => False
    | top :: _ =>
        match l_ahead s with
        | None => scan_ok (e_pos top) inp
        | Some (y, len) =>
            match inp with
            | [] => y = stop_id /\ len = 0
            | (y', s', e') :: r => y = y' /\ e_pos top = s' /\ len = e' - s' /\ s' <= e' /\ scan_ok e' r
            end
        end
    end.

  Lemma rel_top s st inp : rel s st inp ->
    exists top below b rest, l_stack s = top :: below /\ st = b :: rest /\
                             e_state top = fst b /\ top_state st = e_state top.
  Proof.
    intros [HF Hm]. destruct (l_stack s) as [|top below]; [destruct Hm|].
    inversion HF as [|? b ? rest [H1 H2] Hr]; subst.
    exists top, below, b, rest. destruct b as [q0 t0]. cbn in *. repeat split; auto.
  Qed.

  (* what the lookahead phase produces for a related state whose next lookahead symbol has
     an action in the current state *)
  Lemma lookahead_rel s st inp top0 below :
    rel s st inp -> l_stack s = top0 :: below ->
    cell tb (e_state top0) (la stop_id inp) <> [] ->
    exists top lay1 len,
      lookahead skipws next_token false s top0 = Some (top, lay1, TTok (la stop_id inp) len) /\
      e_state top = e_state top0 /\ e_tree top = e_tree top0 /\
      match inp with
      | [] => len = 0
      | (y', s', e') :: r => e_pos top = s' /\ len = e' - s' /\ s' <= e' /\ scan_ok e' r
      end.
  Proof.
    intros [_ Hm] Hstk Hcell. rewrite Hstk in Hm. unfold lookahead.
    destruct (l_ahead s) as [[y len]|].
    - exists top0, (l_lay_ahead s), len. cbn [fst snd].
      destruct inp as [|[[y' s'] e'] r].
      + destruct Hm as [-> ->]. auto.
      + destruct Hm as (-> & Hp & -> & Hle & Hs). cbn [la NLR.la]. auto 10.
    - destruct inp as [|[[y' s'] e'] r]; cbn [scan_ok la NLR.la] in *.
      + destruct (Hm _ Hcell) as (q & Hq & Hn). rewrite Hq.
        exists (set_pos top0 q), (e_pos top0, q), 0. rewrite Hn. auto.
      + destruct Hm as (Hsc & Hle & Hs). destruct (Hsc _ Hcell) as [Hq Hn]. rewrite Hq.
        exists (set_pos top0 s'), (e_pos top0, s'), (e' - s'). rewrite Hn. cbn. auto 10.
  Qed.

  Lemma F2_firstn {X Y} (R : X -> Y -> Prop) n l l' :
    Forall2 R l l' -> Forall2 R (firstn n l) (firstn n l').
  Proof.
    intros H. revert n. induction H as [|x y l l' Hxy Hl IH]; intros [|n]; cbn; constructor; auto.
  Qed.

  Lemma F2_skipn {X Y} (R : X -> Y -> Prop) n l l' :
    Forall2 R l l' -> Forall2 R (skipn n l) (skipn n l').
  Proof.
    intros H. revert n. induction H as [|x y l l' Hxy Hl IH]; intros [|n]; cbn; auto.
  Qed.

  Lemma F2_len {X Y} (R : X -> Y -> Prop) l l' : Forall2 R l l' -> length l = length l'.
  Proof. induction 1; cbn; congruence. Qed.

  Lemma children_shapes popped popped' :
    Forall2 entry_rel popped popped' ->
    map shape (rev (map e_tree popped)) = map shape (rev (map snd popped')).
  Proof.
    induction 1 as [|a b l l' [_ Hs] _ IH]; [reflexivity|].
    cbn [map rev]. rewrite !map_app, IH. cbn. rewrite Hs. reflexivity.
  Qed.

  Lemma firstn_app_len {X} (l1 l2 : list X) : firstn (length l1) (l1 ++ l2) = l1.
  Proof. induction l1; cbn; congruence. Qed.
  Lemma skipn_app_len {X} (l1 l2 : list X) : skipn (length l1) (l1 ++ l2) = l2.
  Proof. induction l1; cbn; congruence. Qed.

  (* one move of the LR machine is mirrored by one step of the driver *)
  Lemma step_follows s st inp c' :
    rel s st inp -> lstep g tb stop_id (st, inp) c' ->
    exists s', step s = Continue s' /\ rel s' (fst c') (snd c').
  Proof.
    intros Hrel Hstep.
    destruct (rel_top _ _ _ Hrel) as (top0 & below & b & rest0 & Hstk & Hst & Hb & Htop).
    pose proof Hrel as [HF _]. rewrite Hstk in HF.
    inversion Hstep as [sa y s0 e0 rest q Hin | sa inpa p pr popped rest q ns ne Hin Hp E Hl Hne Hg]; subst.
    - (* shift *)
      rewrite Htop in Hin.
      assert (Hcell : cell tb (e_state top0) (la stop_id ((y, s0, e0) :: rest)) <> [])
        by (cbn; intros E; rewrite E in Hin; destruct Hin).
      destruct (lookahead_rel _ _ _ _ _ Hrel Hstk Hcell) as (top & lay1 & len & Hla & Hts & Htt & Hp' & Hlen & Hle & Hsc).
      cbn [la NLR.la] in Hla.
      unfold lr_step. rewrite Hstk, Hla. cbn [fst snd].
      rewrite Hts. rewrite (det_cell_eq _ _ _ _ Hdet Hin).
      unfold do_action. cbn [fst snd].
      eexists. split; [reflexivity|]. cbn [fst snd]. split.
      + cbn [l_stack]. constructor.
        * split; [reflexivity|]. cbn. rewrite Hp', Hlen. f_equal; lia.
        * constructor; [split; [rewrite Hts; exact Hb|rewrite Htt; inversion HF as [|? ? ? ? [_ A] _]; exact A]|].
          inversion HF; assumption.
      + cbn [l_stack l_ahead e_pos]. rewrite Hp', Hlen. replace (s0 + (e0 - s0)) with e0 by lia. exact Hsc.
    - (* reduce *)
      rewrite Htop in Hin.
      assert (Hcell : cell tb (e_state top0) (la stop_id inp) <> [])
        by (intros E'; rewrite E' in Hin; destruct Hin).
      destruct (lookahead_rel _ _ _ _ _ Hrel Hstk Hcell) as (top & lay1 & len & Hla & Hts & Htt & Hinp).
      unfold lr_step. rewrite Hstk, Hla. cbn [fst snd].
      rewrite Hts. rewrite (det_cell_eq _ _ _ _ Hdet Hin).
      unfold do_action.
      assert (Hsel : select_prod g p [] = Some (p, pr)).
      { unfold select_prod. rewrite Hp. destruct (rhs pr); reflexivity. }
      rewrite Hsel. unfold do_reduce.
      (* the driver's stack with the moved top, related to popped ++ rest *)
      assert (HF' : Forall2 entry_rel (top :: below) (popped ++ rest)).
      { rewrite <- E. inversion HF as [|? ? ? ? [A B] C]; subst. constructor; [|exact C].
        split; [rewrite Hts; exact A|rewrite Htt; exact B]. }
      set (n := length (rhs pr)) in *.
      assert (Hfl : length (firstn n (top :: below)) = n).
      { rewrite firstn_length, (F2_len _ _ _ HF'), app_length. lia. }
      rewrite Hfl, Nat.eqb_refl. cbn [negb].
      pose proof (F2_firstn entry_rel n _ _ HF') as Hpop. rewrite <- Hl, firstn_app_len in Hpop.
      pose proof (F2_skipn entry_rel n _ _ HF') as Hrest. rewrite <- Hl, skipn_app_len in Hrest.
      rewrite Hl in Hpop, Hrest. fold n in Hpop, Hrest.
      destruct rest as [|b0 rest1]; [congruence|].
      destruct (skipn n (top :: below)) as [|r0 rest'] eqn:Hsk; [inversion Hrest|].
      assert (Hr0 : e_state r0 = fst b0) by (inversion Hrest as [|? ? ? ? [A _] _]; exact A).
      assert (Hg' : goto tb (e_state r0) (lhs pr) = Some q).
      { cbn [top_state] in Hg. destruct b0 as [q0 t0]. cbn in Hr0. subst q0. exact Hg. }
      rewrite Hg'.
      destruct (match rev (firstn n (top :: below)) with
                | [] => _ | deepest :: _ => _ end) as [startp lay].
      eexists. split; [reflexivity|]. cbn [fst snd]. split.
      + cbn [l_stack]. constructor.
        * split; [reflexivity|]. cbn [e_tree snd shape]. f_equal. apply children_shapes. exact Hpop.
        * exact Hrest.
      + cbn [l_stack l_ahead e_pos].
        destruct inp as [|[[y' s'] e'] r]; cbn [la NLR.la].
        * split; [reflexivity|exact Hinp].
        * destruct Hinp as (A & B & C & D). auto.
  Qed.

  (* acceptance is mirrored too *)
  Lemma accept_follows s st t :
    rel s st [] -> laccepts tb stop_id st t ->
    exists t' rp lay tr, step s = Done (LROk t' rp lay tr) /\ shape t' = shape t.
  Proof.
    intros Hrel [Hacc (s1 & Hn)].
    destruct (rel_top _ _ _ Hrel) as (top0 & below & b & rest0 & Hstk & Hst & Hb & Htop).
    pose proof Hrel as [HF _]. rewrite Hstk in HF.
    rewrite Htop in Hacc.
    assert (Hcell : cell tb (e_state top0) (la stop_id []) <> [])
      by (cbn; intros E; rewrite E in Hacc; destruct Hacc).
    destruct (lookahead_rel _ _ _ _ _ Hrel Hstk Hcell) as (top & lay1 & len & Hla & Hts & Htt & _).
    cbn [la NLR.la] in Hla.
    unfold lr_step. rewrite Hstk, Hla. cbn [fst snd].
    rewrite Hts, (det_cell_eq _ _ _ _ Hdet Hacc). unfold do_action.
    assert (HF' : Forall2 entry_rel (top :: below) st).
    { inversion HF as [|? ? ? ? [A B] C]; subst. constructor; [|exact C].
      split; [rewrite Hts; exact A|rewrite Htt; exact B]. }
    assert (Hrev : Forall2 entry_rel (rev (top :: below)) (rev st)).
    { clear -HF'. induction HF' as [|a c l l' Hac Hl IH]; [constructor|].
      cbn [rev]. apply Forall2_app; [exact IH|]. constructor; [exact Hac|constructor]. }
    assert (Hnth : exists r, nth_error (rev (top :: below)) 1 = Some r /\ shape (e_tree r) = shape t).
    { clear -Hrev Hn. revert Hn. generalize 1%nat as k.
      induction Hrev as [|a c l l' [_ Hs] _ IH]; intros k Hn; [destruct k; discriminate|].
      destruct k as [|k]; cbn in Hn |- *.
      - inversion Hn; subst. exists a. split; [reflexivity|exact Hs].
      - apply IH. exact Hn. }
    destruct Hnth as (r & Hr & Hs). rewrite Hr.
    do 4 eexists. split; [reflexivity|exact Hs].
  Qed.

  Theorem run_follows c cf :
    lsteps g tb stop_id c cf -> forall f t, cf = (f, []) -> laccepts tb stop_id f t ->
    forall s, rel s (fst c) (snd c) ->
    exists fuel t' rp lay tr, run fuel s = LROk t' rp lay tr /\ shape t' = shape t.
  Proof.
    induction 1 as [c|c1 c2 c3 Hstep Hrest IH]; intros f t Ef Hacc s Hrel.
    - subst c. cbn [fst snd] in Hrel.
      destruct (accept_follows s f t Hrel Hacc) as (t' & rp & lay & tr & Hs & Hsh).
      exists 1%nat, t', rp, lay, tr. cbn [lr_run]. rewrite Hs. auto.
    - destruct c1 as [st inp]. cbn [fst snd] in Hrel.
      destruct (step_follows s st inp c2 Hrel Hstep) as (s' & Hs & Hrel').
      destruct (IH f t Ef Hacc s' Hrel') as (fuel & t' & rp & lay & tr & Hrun & Hsh).
      exists (S fuel), t', rp, lay, tr. cbn [lr_run]. rewrite Hs. auto.
  Qed.
End Driver.

(* The theorem: a validated deterministic table, a scanner that follows the sentence's tokens:
   the LR driver accepts and returns the sentence's derivation tree (up to interior spans). *)
Theorem lr_driver_complete g tb ann fst_tab nul_tab stop_id start skipws next_token pos0 t :
  table_complete g tb ann fst_tab nul_tab stop_id = true ->
  det_table tb = true ->
  (exists pr0, get_prod g 0 = Some pr0 /\ rhs pr0 = [NT start]) ->
  wf_tree g t -> root_sym g t = Some (NT start) ->
  scan_ok tb skipws next_token stop_id pos0 (leaves t) ->
  exists fuel t' rp lay tr,
    lr_parse g tb skipws next_token stop_id true false fuel pos0 = LROk t' rp lay tr /\
    shape t' = shape t.
Proof.
  intros Htc Hdet Hp0 Hwf Hroot Hscan.
  destruct (lr_machine_complete g tb ann fst_tab nul_tab stop_id Htc start (bottom_tree pos0) t Hp0 Hwf Hroot)
    as (f & Hrun & Hacc).
  unfold lr_parse.
  apply (run_follows g tb skipws next_token stop_id Hdet _ _ Hrun f t eq_refl Hacc (lr_init pos0)).
  cbn [fst snd]. split.
  - cbn. constructor; [split; reflexivity|constructor].
  - cbn. exact Hscan.
Qed.
