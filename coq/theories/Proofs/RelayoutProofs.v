(* C14: the LR driver observes the input only through layout skipping and token
   recognition; two inputs on which these agree along a correspondence of token boundaries
   are parsed in lockstep. *)
From Coq Require Import NArith List Bool Lia Arith.
From PV Require Import Spec.Cfg Model.Table Model.LRDriver Model.Scan Model.Parser
  Validators.Relayout.
Import ListNotations.
Local Open Scope N_scope.

(* ---- generalities ---------------------------------------------------------------------- *)
Lemma Forall2_firstn {X Y} (P : X -> Y -> Prop) n : forall l l',
  Forall2 P l l' -> Forall2 P (firstn n l) (firstn n l').
Proof.
  induction n as [|n IH]; intros l l' H; cbn; [constructor|].
  destruct H; cbn; constructor; auto.
Qed.

Lemma Forall2_skipn {X Y} (P : X -> Y -> Prop) n : forall l l',
  Forall2 P l l' -> Forall2 P (skipn n l) (skipn n l').
Proof.
  induction n as [|n IH]; intros l l' H; cbn; [exact H|].
  destruct H; cbn; [constructor|auto].
Qed.

Lemma Forall2_rev {X Y} (P : X -> Y -> Prop) l l' :
  Forall2 P l l' -> Forall2 P (rev l) (rev l').
Proof.
  induction 1 as [|x y l l' Hxy H IH]; cbn; [constructor|].
  apply Forall2_app; [exact IH|constructor; [exact Hxy|constructor]].
Qed.

Lemma Forall2_len {X Y} (P : X -> Y -> Prop) l l' : Forall2 P l l' -> length l = length l'.
Proof. induction 1; cbn; congruence. Qed.

Lemma Forall2_nth_error {X Y} (P : X -> Y -> Prop) l l' n :
  Forall2 P l l' ->
  match nth_error l n, nth_error l' n with
  | Some x, Some y => P x y
  | None, None => True
  | _, _ => False
  end.
Proof.
  intros H. revert n. induction H as [|x y l l' Hxy H IH]; intros [|n]; cbn; auto.
  apply IH.
Qed.

Lemma Forall2_map {X Y X' Y'} (P : X -> Y -> Prop) (Q : X' -> Y' -> Prop) f f' l l' :
  (forall x y, P x y -> Q (f x) (f' y)) -> Forall2 P l l' -> Forall2 Q (map f l) (map f' l').
Proof. intros HPQ. induction 1; cbn; constructor; auto. Qed.

(* ---- trees ------------------------------------------------------------------------------ *)
Section RelFacts.
  Variable R : N -> N -> Prop.

  Definition trees_rel (l l' : list tree) : Prop :=
    (fix go (l l' : list tree) {struct l} : Prop :=
       match l, l' with
       | [], [] => True
       | x :: r, x' :: r' => tree_rel R x x' /\ go r r'
       | _, _ => False
       end) l l'.

  Lemma trees_rel_F2 l : forall l', trees_rel l l' <-> Forall2 (tree_rel R) l l'.
  Proof.
    induction l as [|x r IH]; intros [|x' r']; cbn.
    - split; intros _; [constructor|exact I].
    - split; intros H; [contradiction|inversion H].
    - split; intros H; [contradiction|inversion H].
    - split; intros H.
      + destruct H as [H1 H2]. constructor; [exact H1|apply IH; exact H2].
      + inversion H; subst. split; [assumption|apply IH; assumption].
  Qed.

  Lemma tree_rel_node p s e cs s' e' cs' :
    R s s' -> R e e' -> Forall2 (tree_rel R) cs cs' ->
    tree_rel R (TNode p s e cs) (TNode p s' e' cs').
  Proof.
    intros Hs He Hc. cbn. split; [reflexivity|]. split; [exact Hs|]. split; [exact He|].
    apply (proj2 (trees_rel_F2 cs cs')). exact Hc.
  Qed.

  Lemma tree_rel_start a b : tree_rel R a b -> R (t_start a) (t_start b).
  Proof. destruct a, b; cbn; try contradiction; tauto. Qed.

  Lemma tree_rel_end a b : tree_rel R a b -> R (t_end a) (t_end b).
  Proof. destruct a, b; cbn; try contradiction; tauto. Qed.

  Lemma tree_rel_erase a : forall b, tree_rel R a b -> erase a = erase b.
  Proof.
    induction a as [y s e|p s e cs IH] using tree_ind2; intros [y' s' e'|p' s' e' cs'] H;
      cbn in H; try contradiction.
    - destruct H as [-> _]. reflexivity.
    - destruct H as (-> & _ & _ & Hc). cbn. f_equal.
      revert cs' Hc. induction cs as [|c r IHr]; intros [|c' r'] Hc; try contradiction; [reflexivity|].
      destruct Hc as [Hc1 Hc2]. destruct IH as [IHc IHrest]. cbn. f_equal.
      + apply IHc. exact Hc1.
      + apply IHr; assumption.
  Qed.
End RelFacts.

Lemma tree_rel_eq a : forall b, tree_rel eq a b -> a = b.
Proof.
  induction a as [y s e|p s e cs IH] using tree_ind2; intros [y' s' e'|p' s' e' cs'] H;
    cbn in H; try contradiction.
  - destruct H as (-> & -> & ->). reflexivity.
  - destruct H as (-> & -> & -> & Hc). f_equal.
    revert cs' Hc. induction cs as [|c r IHr]; intros [|c' r'] Hc; try contradiction; [reflexivity|].
    destruct Hc as [Hc1 Hc2]. destruct IH as [IHc IHrest]. f_equal.
    + apply IHc. exact Hc1.
    + apply IHr; assumption.
Qed.

(* ---- the lockstep simulation ------------------------------------------------------------ *)
Section Sim.
  Variable g : grammar.
  Variable tb : table.
  Variable stop_id : N.
  Variable consume_input : bool.
  Variable sk1 sk2 : N -> option N.
  Variable nt1 nt2 : nat -> N -> tokres.
  Variable R S : N -> N -> Prop.

  Hypothesis Hsub : forall q q', S q q' -> R q q'.
  Hypothesis Hskip : forall p p', R p p' ->
    match sk1 p, sk2 p' with
    | None, None => True
    | Some q, Some q' => S q q'
    | _, _ => False
    end.
  Hypothesis Htok : forall q q', S q q' -> forall st,
    nt1 st q = nt2 st q' /\
    forall y len, nt1 st q = TTok y len -> R (q + len) (q' + len).

  Notation step1 := (lr_step g tb sk1 nt1 stop_id consume_input false).
  Notation step2 := (lr_step g tb sk2 nt2 stop_id consume_input false).

  Definition entry_rel (e e' : entry) : Prop :=
    e_state e = e_state e' /\ tree_rel R (e_tree e) (e_tree e') /\
    R (e_pos e) (e_pos e') /\ span_rel R (e_lay e) (e_lay e').

  (* the inherited lookahead token ends at corresponding positions *)
  Definition tok_end_ok (scan : tokres) (stk stk' : list entry) : Prop :=
    match scan, stk, stk' with
    | TTok _ len, top :: _, top' :: _ => R (e_pos top + len) (e_pos top' + len)
    | _, _, _ => True
    end.

  Definition scan_of (a : option (N * N)) : tokres :=
    match a with Some tk => TTok (fst tk) (snd tk) | None => TNone end.

  Definition st_rel (s s' : lrstate) : Prop :=
    Forall2 entry_rel (l_stack s) (l_stack s') /\
    l_ahead s = l_ahead s' /\
    span_rel R (l_lay_ahead s) (l_lay_ahead s') /\
    Forall2 (tok_rel R) (l_trace s) (l_trace s') /\
    tok_end_ok (scan_of (l_ahead s)) (l_stack s) (l_stack s').

  Definition out_rel (o o' : outcome) : Prop :=
    match o, o' with
    | Continue s, Continue s' => st_rel s s'
    | Done r, Done r' => res_rel R r r'
    | _, _ => False
    end.

  Lemma do_reduce_rel tr tr' stk stk' lay1 lay1' ah p pr :
    Forall2 entry_rel stk stk' -> span_rel R lay1 lay1' -> Forall2 (tok_rel R) tr tr' ->
    tok_end_ok (scan_of ah) stk stk' ->
    match stk, stk' with
    | top :: _, top' :: _ =>
        out_rel (do_reduce tb tr stk (e_pos top) lay1 ah p pr)
                (do_reduce tb tr' stk' (e_pos top') lay1' ah p pr)
    | _, _ => True
    end.
  Proof.
    intros Hstk Hlay Htr Hend.
    destruct Hstk as [|top top' below below' Htop Hbelow]; [exact I|].
    assert (Hstk : Forall2 entry_rel (top :: below) (top' :: below')) by (constructor; assumption).
    unfold do_reduce.
    set (n := length (rhs pr)).
    pose proof (Forall2_firstn entry_rel n _ _ Hstk) as Hpop.
    pose proof (Forall2_skipn entry_rel n _ _ Hstk) as Hrest.
    rewrite <- (Forall2_len _ _ _ Hpop).
    destruct (negb (Nat.eqb (length (firstn n (top :: below))) n)); [cbn; reflexivity|].
    destruct Hrest as [|r0 r0' rest rest' Hr0 Hrest]; [cbn; reflexivity|].
    destruct Hr0 as (Hr0s & Hr0r). rewrite <- Hr0s.
    destruct (goto tb (e_state r0) (lhs pr)) as [s'|]; [|cbn; reflexivity].
    pose proof (Forall2_rev _ _ _ Hpop) as Hrev.
    assert (Hendp : R (t_end (e_tree top)) (t_end (e_tree top'))).
    { apply tree_rel_end. apply Htop. }
    assert (Hkids : Forall2 (tree_rel R) (rev (map e_tree (firstn n (top :: below))))
                            (rev (map e_tree (firstn n (top' :: below'))))).
    { apply Forall2_rev. eapply Forall2_map; [|exact Hpop]. intros x y Hxy. apply Hxy. }
    destruct (rev (firstn n (top :: below))) as [|d rp],
             (rev (firstn n (top' :: below'))) as [|d' rp']; try (inversion Hrev; fail).
    - cbn [out_rel]. unfold st_rel. cbn [l_stack l_ahead l_lay_ahead l_trace].
      split.
      { constructor; [|constructor; [split; [exact Hr0s|exact Hr0r]|exact Hrest]].
        unfold entry_rel. cbn [e_state e_tree e_pos e_lay].
        split; [reflexivity|]. split; [apply tree_rel_node; assumption|].
        split; [apply Htop|]. left. split; reflexivity. }
      split; [reflexivity|]. split; [exact Hlay|]. split; [exact Htr|].
      destruct ah as [[y len]|]; cbn; [|exact I]. exact Hend.
    - cbn [out_rel]. unfold st_rel. cbn [l_stack l_ahead l_lay_ahead l_trace].
      split.
      { constructor; [|constructor; [split; [exact Hr0s|exact Hr0r]|exact Hrest]].
        unfold entry_rel. cbn [e_state e_tree e_pos e_lay].
        split; [reflexivity|].
        split; [apply tree_rel_node; [apply tree_rel_start; inversion Hrev; subst;
                                      match goal with H : entry_rel d d' |- _ => apply H end
                                     |exact Hendp|exact Hkids]|].
        assert (Hd : entry_rel d d') by (inversion Hrev; assumption).
        split; [apply Htop|]. apply Hd. }
      split; [reflexivity|]. split; [exact Hlay|]. split; [exact Htr|].
      destruct ah as [[y len]|]; cbn; [|exact I]. exact Hend.
  Qed.

  Lemma do_action_rel tr tr' stk stk' lay1 lay1' scan fb acts :
    Forall2 entry_rel stk stk' -> span_rel R lay1 lay1' -> Forall2 (tok_rel R) tr tr' ->
    tok_end_ok scan stk stk' ->
    out_rel (do_action g tb tr stk lay1 scan fb acts) (do_action g tb tr' stk' lay1' scan fb acts).
  Proof.
    intros Hstk Hlay Htr Hend. unfold do_action.
    destruct Hstk as [|top top' below below' Htop Hbelow]; [cbn; reflexivity|].
    assert (Hstk : Forall2 entry_rel (top :: below) (top' :: below')) by (constructor; assumption).
    destruct acts as [|act more].
    { cbn. split; [apply Htop|apply Htop]. }
    destruct act as [s'|p0|].
    - destruct scan as [|y len|]; try (cbn; reflexivity).
      destruct fb; [cbn; reflexivity|].
      cbn in Hend. cbn [out_rel]. unfold st_rel. cbn [l_stack l_ahead l_lay_ahead l_trace].
      split.
      { constructor; [|exact Hstk]. unfold entry_rel. cbn [e_state e_tree e_pos e_lay].
        split; [reflexivity|]. split; [cbn; split; [reflexivity|split; [apply Htop|exact Hend]]|].
        split; [exact Hend|exact Hlay]. }
      split; [reflexivity|]. split; [right; cbn; split; exact Hend|].
      split; [|exact I].
      apply Forall2_app; [exact Htr|]. constructor; [|constructor].
      cbn. split; [reflexivity|]. split; [apply Htop|]. split; [exact Hend|exact Hlay].
    - destruct (select_prod g p0 more) as [[p pr]|]; [|cbn; reflexivity].
      pose proof (do_reduce_rel tr tr' _ _ lay1 lay1'
                    (match scan with TTok y len => Some (y, len) | _ => None end) p pr
                    Hstk Hlay Htr) as H.
      cbn iota in H. apply H.
      destruct scan as [|y len|]; cbn; try exact I. exact Hend.
    - pose proof (Forall2_nth_error _ _ _ 1%nat (Forall2_rev _ _ _ Hstk)) as Hn.
      destruct (nth_error (rev (top :: below)) 1) as [r|],
               (nth_error (rev (top' :: below')) 1) as [r'|]; try contradiction; [|cbn; reflexivity].
      cbn. destruct Hn as (_ & Ht & Hp & Hl). repeat split; assumption.
  Qed.

  Lemma step_rel s s' : st_rel s s' -> out_rel (step1 s) (step2 s').
  Proof.
    intros (Hstk & Hah & Hla & Htr & Hend). unfold lr_step.
    destruct Hstk as [|top0 top0' below below' Htop Hbelow]; [cbn; reflexivity|].
    unfold lookahead. rewrite <- Hah.
    destruct (l_ahead s) as [tk|] eqn:Eah.
    - (* inherited token *)
      destruct Htop as (Hst & Htop). rewrite <- Hst.
      assert (Hstk : Forall2 entry_rel (top0 :: below) (top0' :: below'))
        by (constructor; [split; assumption|assumption]).
      cbn [scan_of] in Hend.
      destruct (cell tb (e_state top0) (fst tk)) as [|a0 acts0].
      + destruct consume_input; apply do_action_rel; assumption.
      + apply do_action_rel; assumption.
    - (* skip layout, then scan *)
      destruct Htop as (Hst & Htt & Hpos & Hlay).
      pose proof (Hskip _ _ Hpos) as Hsk.
      destruct (sk1 (e_pos top0)) as [q|], (sk2 (e_pos top0')) as [q'|]; try contradiction.
      2:{ cbn. exact Hpos. }
      destruct (Htok _ _ Hsk (e_state top0)) as [Hnt Hlen].
      assert (Hstk : Forall2 entry_rel (set_pos top0 q :: below) (set_pos top0' q' :: below')).
      { constructor; [|exact Hbelow]. unfold entry_rel, set_pos. cbn [e_state e_tree e_pos e_lay].
        split; [exact Hst|]. split; [exact Htt|]. split; [apply Hsub; exact Hsk|exact Hlay]. }
      assert (Hl1 : span_rel R (e_pos top0, q) (e_pos top0', q')).
      { right. cbn. split; [exact Hpos|apply Hsub; exact Hsk]. }
      cbn [set_pos e_state e_pos]. rewrite <- Hst, <- Hnt.
      destruct (nt1 (e_state top0) q) as [|y len|] eqn:Escan.
      + destruct consume_input; apply do_action_rel; try assumption; exact I.
      + assert (He : tok_end_ok (TTok y len) (set_pos top0 q :: below) (set_pos top0' q' :: below')).
        { cbn. apply (Hlen y len). reflexivity. }
        destruct (cell tb (e_state top0) y) as [|a0 acts0].
        * destruct consume_input; apply do_action_rel; assumption.
        * apply do_action_rel; assumption.
      + cbn. split; [apply Hsub; exact Hsk|reflexivity].
  Qed.

  Lemma run_rel fuel : forall s s', st_rel s s' ->
    res_rel R (lr_run g tb sk1 nt1 stop_id consume_input false fuel s)
              (lr_run g tb sk2 nt2 stop_id consume_input false fuel s').
  Proof.
    induction fuel as [|f IH]; intros s s' Hs; cbn [lr_run]; [exact I|].
    pose proof (step_rel s s' Hs) as Hstep.
    destruct (step1 s) as [s1|r1], (step2 s') as [s2|r2]; cbn in Hstep; try contradiction.
    - apply IH. exact Hstep.
    - exact Hstep.
  Qed.

  Theorem lr_relayout fuel pos pos' :
    R pos pos' ->
    res_rel R (lr_parse g tb sk1 nt1 stop_id consume_input false fuel pos)
              (lr_parse g tb sk2 nt2 stop_id consume_input false fuel pos').
  Proof.
    intros Hpos. unfold lr_parse. apply run_rel. unfold st_rel, lr_init.
    cbn [l_stack l_ahead l_lay_ahead l_trace].
    split.
    { constructor; [|constructor]. unfold entry_rel, bottom_tree. cbn [e_state e_tree e_pos e_lay].
      split; [reflexivity|]. split; [apply tree_rel_node; [exact Hpos|exact Hpos|constructor]|].
      split; [exact Hpos|]. left. split; reflexivity. }
    split; [reflexivity|]. split; [left; split; reflexivity|]. split; [constructor|exact I].
  Qed.
End Sim.

(* ---- consequences of res_rel ------------------------------------------------------------- *)
Lemma Forall2_eq {X} (l l' : list X) : Forall2 eq l l' -> l = l'.
Proof. induction 1; congruence. Qed.

Lemma span_rel_eq l l' : span_rel eq l l' -> l = l'.
Proof.
  intros [[-> ->]|[H1 H2]]; [reflexivity|]. destruct l, l'; cbn in *; congruence.
Qed.

Lemma tok_rel_eq x x' : tok_rel eq x x' -> x = x'.
Proof.
  destruct x as [[[y s] e] l], x' as [[[y' s'] e'] l']. cbn.
  intros (-> & -> & -> & Hl). apply span_rel_eq in Hl. congruence.
Qed.

Lemma res_rel_eq r r' : res_rel eq r r' -> r = r'.
Proof.
  destruct r, r'; cbn; try contradiction; try congruence.
  - intros (Ht & -> & Hl & Htr). apply tree_rel_eq in Ht. apply span_rel_eq in Hl.
    assert (trace = trace0).
    { clear -Htr. induction Htr as [|a b l l' Hab Hl IH]; [reflexivity|].
      apply tok_rel_eq in Hab. congruence. }
    congruence.
  - intros [-> ->]. reflexivity.
  - intros [-> ->]. reflexivity.
Qed.

Lemma res_rel_verdict R r r' : res_rel R r r' -> verdict_of r = verdict_of r'.
Proof.
  destruct r, r'; cbn; try contradiction; try congruence.
  - intros (Ht & _ & _ & Htr). f_equal; [eapply tree_rel_erase; exact Ht|].
    induction Htr as [|x x' l l' Hx Hl IH]; cbn; [reflexivity|]. f_equal; [|exact IH].
    destruct x as [[[y s] e] la], x' as [[[y' s'] e'] la']. cbn in *. tauto.
  - intros [_ ->]. reflexivity.
  - intros [_ ->]. reflexivity.
Qed.

(* the driver depends on layout skipping and scanning only pointwise *)
Theorem lr_parse_ext g tb stop_id consume_input sk1 sk2 nt1 nt2 fuel pos :
  (forall p, sk1 p = sk2 p) -> (forall st p, nt1 st p = nt2 st p) ->
  lr_parse g tb sk1 nt1 stop_id consume_input false fuel pos =
  lr_parse g tb sk2 nt2 stop_id consume_input false fuel pos.
Proof.
  intros Hsk Hnt. apply res_rel_eq.
  apply (lr_relayout g tb stop_id consume_input sk1 sk2 nt1 nt2 eq eq); [| | |reflexivity].
  - intros q q' H; exact H.
  - intros p p' Hp. subst p'. rewrite (Hsk p). destruct (sk2 p); [reflexivity|exact I].
  - intros q q' Hq st. subst q'. split; [apply Hnt|]. intros; reflexivity.
Qed.

(* ---- LAYOUT rule versus ws ------------------------------------------------------------------ *)
Theorem layout_rule_vs_ws c ws inp fuel pos :
  (forall p, skipws_full c inp fuel p = Some (skip_ws ws inp p)) ->
  parse_full c inp fuel pos = parse_full (with_ws c ws) inp fuel pos.
Proof.
  intros H. unfold parse_full. cbn [with_ws pc_g pc_tb pc_terms pc_stop pc_consume pc_lexdis].
  apply lr_parse_ext; [|reflexivity].
  intros p. rewrite H. reflexivity.
Qed.

(* ---- the validator ------------------------------------------------------------------------- *)
Lemma pair_in_spec l p p' : pair_in l p p' = true <-> In (p, p') l.
Proof.
  unfold pair_in. rewrite existsb_exists. split.
  - intros ([a b] & Hin & H). cbn in H. apply andb_true_iff in H. destruct H as [H1 H2].
    apply N.eqb_eq in H1, H2. subst. exact Hin.
  - intros Hin. exists (p, p'). split; [exact Hin|]. cbn. rewrite !N.eqb_refl. reflexivity.
Qed.

Lemma tokres_eqb_eq a b : tokres_eqb a b = true -> a = b.
Proof.
  destruct a, b; cbn; try discriminate; try reflexivity.
  intros H. apply andb_true_iff in H. destruct H as [H1 H2].
  apply N.eqb_eq in H1, H2. congruence.
Qed.

Lemma next_token_of_oob terms rx n stop ci ld tb st p :
  (length tb <= st)%nat -> next_token_of terms rx n stop ci ld tb st p = TNone.
Proof.
  intros H. unfold next_token_of, get_state.
  apply nth_error_None in H. rewrite H. reflexivity.
Qed.

Theorem relayout_check_sound c inp inp' fuel Rl Sl pos pos' :
  relayout_check c inp inp' fuel Rl Sl = true ->
  In (pos, pos') Rl ->
  res_rel (fun p p' => In (p, p') Rl) (parse_full c inp fuel pos) (parse_full c inp' fuel pos').
Proof.
  intros Hchk Hpos. unfold relayout_check, hyp_check in Hchk.
  apply andb_true_iff in Hchk. destruct Hchk as [Hchk Hsub].
  apply andb_true_iff in Hchk. destruct Hchk as [Hskip Htok].
  rewrite forallb_forall in Hskip, Htok, Hsub.
  unfold parse_full.
  apply (lr_relayout (pc_g c) (pc_tb c) (pc_stop c) (pc_consume c)
           (skipws_full c inp fuel) (skipws_full c inp' fuel) (nt_full c inp) (nt_full c inp')
           (fun p p' => In (p, p') Rl) (fun p p' => In (p, p') Sl)).
  - intros q q' H. apply pair_in_spec. apply (Hsub (q, q') H).
  - intros p p' H. specialize (Hskip _ H). unfold skip_ok in Hskip. cbn [fst snd] in Hskip.
    destruct (skipws_full c inp fuel p), (skipws_full c inp' fuel p'); try discriminate; [|exact I].
    apply pair_in_spec. exact Hskip.
  - intros q q' H st. specialize (Htok _ H). unfold tok_ok in Htok. cbn [fst snd] in Htok.
    rewrite forallb_forall in Htok.
    destruct (Nat.lt_ge_cases st (length (pc_tb c))) as [Hlt|Hge].
    + assert (Hin : In st (seq 0 (length (pc_tb c)))) by (apply in_seq; lia).
      specialize (Htok _ Hin). apply andb_true_iff in Htok. destruct Htok as [He Hl].
      apply tokres_eqb_eq in He. split; [exact He|].
      intros y len Hy. rewrite Hy in Hl. apply pair_in_spec. exact Hl.
    + unfold nt_full. rewrite !next_token_of_oob by exact Hge. split; [reflexivity|discriminate].
  - exact Hpos.
Qed.

(* ---- the scanner looks at the input only through [rx] at the current position ------------- *)
Lemma recognize_ext terms rx1 rx2 q q' (H : forall t, rx1 t q = rx2 t q') acts :
  forall flags last acc,
    recognize terms rx1 acts flags q last acc = recognize terms rx2 acts flags q' last acc.
Proof.
  induction acts as [|[t al] r IH]; intros flags last acc; cbn [recognize]; [reflexivity|].
  rewrite (H t).
  destruct (_ && _); [reflexivity|].
  destruct (rx2 t q') as [len|].
  - destruct (match flags with f :: _ => f | [] => false end); [reflexivity|apply IH].
  - apply IH.
Qed.

Lemma recognize_in terms rx acts : forall flags pos last acc y len,
  In (y, len) (recognize terms rx acts flags pos last acc) ->
  In (y, len) acc \/ rx y pos = Some len.
Proof.
  induction acts as [|[t al] r IH]; intros flags pos last acc y len; cbn [recognize]; [auto|].
  destruct (_ && _); [auto|].
  destruct (rx t pos) as [l|] eqn:E.
  - destruct (match flags with f :: _ => f | [] => false end).
    + intros Hin. apply in_app_or in Hin. destruct Hin as [Hin|[Hin|[]]]; [auto|].
      inversion Hin; subst. right. exact E.
    + intros Hin. apply IH in Hin. destruct Hin as [Hin|Hin]; [|auto].
      apply in_app_or in Hin. destruct Hin as [Hin|[Hin|[]]]; [auto|].
      inversion Hin; subst. right. exact E.
  - intros Hin. apply IH in Hin. exact Hin.
Qed.

Lemma lexdis_subset terms toks x : In x (lexical_disambiguation terms toks) -> In x toks.
Proof.
  unfold lexical_disambiguation.
  destruct toks as [|a [|b r]]; [auto|auto|].
  set (toks := a :: b :: r).
  set (longest := filter _ toks).
  set (pref := filter _ longest).
  assert (Hl : In x longest -> In x toks) by (intros H; apply filter_In in H; apply H).
  assert (Hp : In x pref -> In x toks) by (intros H; apply filter_In in H; apply Hl; apply H).
  destruct longest as [|l1 [|l2 lr]]; destruct pref; auto.
Qed.

Lemma next_tokens_ext terms rx1 rx2 n1 n2 stop ci ld st q q' :
  (forall t, rx1 t q = rx2 t q') -> (q =? n1) = (q' =? n2) -> (q <? n1) = (q' <? n2) ->
  next_tokens terms rx1 n1 stop ci ld st q = next_tokens terms rx2 n2 stop ci ld st q'.
Proof.
  intros Hrx He Hl. unfold next_tokens. rewrite He, Hl.
  rewrite (recognize_ext terms rx1 rx2 q q' Hrx). reflexivity.
Qed.

Lemma next_tokens_in terms rx n stop ci ld st q y len :
  In (y, len) (next_tokens terms rx n stop ci ld st q) -> len = 0 \/ rx y q = Some len.
Proof.
  unfold next_tokens. intros Hin.
  assert (Hin' : In (y, len)
            ((if has_key stop (st_actions st) && (negb ci || (q =? n)) then [(stop, 0)] else []) ++
             (if q <? n then recognize terms rx (st_actions st) (st_finish st) q None [] else []))).
  { destruct ld; [apply lexdis_subset in Hin|]; exact Hin. }
  apply in_app_or in Hin'. destruct Hin' as [H|H].
  - destruct (_ && _); [|destruct H]. destruct H as [H|[]]. inversion H. left. reflexivity.
  - destruct (q <? n); [|destruct H]. apply recognize_in in H. destruct H as [[]|H]. right. exact H.
Qed.

Lemma next_token_of_ext terms rx1 rx2 n1 n2 stop ci ld tb st q q' :
  (forall t, rx1 t q = rx2 t q') -> (q =? n1) = (q' =? n2) -> (q <? n1) = (q' <? n2) ->
  next_token_of terms rx1 n1 stop ci ld tb st q = next_token_of terms rx2 n2 stop ci ld tb st q'.
Proof.
  intros Hrx He Hl. unfold next_token_of. destruct (get_state tb st) as [s|]; [|reflexivity].
  rewrite (next_tokens_ext terms rx1 rx2 n1 n2 stop ci ld s q q' Hrx He Hl). reflexivity.
Qed.

Lemma next_token_of_tok terms rx n stop ci ld tb st q y len :
  next_token_of terms rx n stop ci ld tb st q = TTok y len -> len = 0 \/ rx y q = Some len.
Proof.
  unfold next_token_of. destruct (get_state tb st) as [s|]; [|discriminate].
  destruct (next_tokens terms rx n stop ci ld s q) as [|[y0 l0] [|b r]] eqn:E; try discriminate.
  intros H. inversion H; subst. apply (next_tokens_in terms rx n stop ci ld s q).
  rewrite E. left. reflexivity.
Qed.

(* ---- ws skipping and the insertion of one ws character --------------------------------- *)
Lemma skip_chars_shift ws l : forall p d, skip_chars ws l (p + d) = skip_chars ws l p + d.
Proof.
  induction l as [|c r IH]; intros p d; cbn; [reflexivity|].
  destruct (existsb (N.eqb c) ws); [|reflexivity].
  replace (p + d + 1) with (p + 1 + d) by lia. apply IH.
Qed.

Lemma skip_chars_ge ws l : forall p, p <= skip_chars ws l p.
Proof.
  induction l as [|c r IH]; intros p; cbn; [lia|].
  destruct (existsb (N.eqb c) ws); [|lia]. specialize (IH (p + 1)). lia.
Qed.

Lemma skip_chars_ins ws ch (Hch : existsb (N.eqb ch) ws = true) a : forall b p,
  (skip_chars ws (a ++ b) p < p + N.of_nat (length a) /\
   skip_chars ws (a ++ ch :: b) p = skip_chars ws (a ++ b) p) \/
  (p + N.of_nat (length a) <= skip_chars ws (a ++ b) p /\
   skip_chars ws (a ++ ch :: b) p = skip_chars ws (a ++ b) p + 1).
Proof.
  induction a as [|x a IH]; intros b p.
  - right. cbn [app length skip_chars]. rewrite Hch. split.
    + pose proof (skip_chars_ge ws b p). lia.
    + apply skip_chars_shift.
  - cbn [app length skip_chars]. destruct (existsb (N.eqb x) ws).
    + specialize (IH b (p + 1)).
      replace (p + N.of_nat (S (length a))) with (p + 1 + N.of_nat (length a)) by lia. exact IH.
    + left. split; [lia|reflexivity].
Qed.

Lemma ins_at_length {X} k (x : X) l : (k <= length l)%nat -> length (ins_at k x l) = S (length l).
Proof.
  intros H. unfold ins_at. rewrite app_length. cbn. rewrite firstn_length_le by exact H.
  rewrite skipn_length. lia.
Qed.

Lemma skipn_ins_before {X} k (x : X) l n : (n <= k)%nat -> (k <= length l)%nat ->
  skipn n (ins_at k x l) = skipn n (firstn k l) ++ x :: skipn k l /\
  skipn n l = skipn n (firstn k l) ++ skipn k l /\
  length (skipn n (firstn k l)) = (k - n)%nat.
Proof.
  intros Hn Hk. unfold ins_at.
  assert (Hlen : length (firstn k l) = k) by (apply firstn_length_le; exact Hk).
  split; [|split].
  - rewrite skipn_app. rewrite Hlen. replace (n - k)%nat with O by lia. reflexivity.
  - rewrite <- (firstn_skipn k l) at 1. rewrite skipn_app. rewrite Hlen.
    replace (n - k)%nat with O by lia. reflexivity.
  - rewrite skipn_length. lia.
Qed.

Lemma skipn_skipn' {X} a : forall b (l : list X), skipn a (skipn b l) = skipn (b + a) l.
Proof.
  induction b as [|b IH]; intros l; [reflexivity|].
  destruct l as [|x l]; cbn; [destruct a; reflexivity|apply IH].
Qed.

Lemma skipn_ins_after {X} k (x : X) l n : (k <= n)%nat -> (k <= length l)%nat ->
  skipn (S n) (ins_at k x l) = skipn n l.
Proof.
  intros Hn Hk. unfold ins_at.
  assert (Hlen : length (firstn k l) = k) by (apply firstn_length_le; exact Hk).
  rewrite skipn_app. rewrite Hlen. rewrite (skipn_all2 (firstn k l)) by lia.
  replace (S n - k)%nat with (S (n - k)) by lia. cbn [app skipn].
  rewrite skipn_skipn'. f_equal. lia.
Qed.

Lemma skip_ws_ins ws ch k chars rx rx' p p' :
  existsb (N.eqb ch) ws = true -> (k <= length chars)%nat ->
  ins_R (N.of_nat k) p p' ->
  ins_S (N.of_nat k) (skip_ws ws (mkPInput chars rx) p)
                     (skip_ws ws (mkPInput (ins_at k ch chars) rx') p').
Proof.
  intros Hch Hk [[Hp ->]|[Hp ->]]; unfold skip_ws; cbn [pi_chars].
  - destruct (skipn_ins_before k ch chars (N.to_nat p) ltac:(lia) Hk) as (E1 & E2 & E3).
    rewrite E1, E2.
    pose proof (skip_chars_ins ws ch Hch (skipn (N.to_nat p) (firstn k chars)) (skipn k chars) p) as H.
    rewrite E3 in H. replace (p + N.of_nat (k - N.to_nat p)) with (N.of_nat k) in H by lia.
    exact H.
  - replace (N.to_nat (p + 1)) with (S (N.to_nat p)) by lia.
    rewrite (skipn_ins_after k ch chars (N.to_nat p)) by (lia || exact Hk).
    rewrite skip_chars_shift. right. split; [|reflexivity].
    pose proof (skip_chars_ge ws (skipn (N.to_nat p) chars) p). lia.
Qed.

(* Inserting one ws character at index k of the input, where no token crosses k and the
   recognizers do not see the inserted character: the parse is the same, positions up to k
   unchanged, positions from k on moved by one. *)
Theorem insert_ws_char c inp rx' k ch fuel pos pos' :
  pc_layout c = None ->
  In ch (pc_ws c) ->
  (k <= length (pi_chars inp))%nat ->
  let inp' := mkPInput (ins_at k ch (pi_chars inp)) rx' in
  let K := N.of_nat k in
  (forall t q, q < K -> rx_of inp' t q = rx_of inp t q) ->
  (forall t q len, q < K -> rx_of inp t q = Some len -> q + len <= K) ->
  (forall t q, K <= q -> rx_of inp' t (q + 1) = rx_of inp t q) ->
  ins_R K pos pos' ->
  res_rel (ins_R K) (parse_full c inp fuel pos) (parse_full c inp' fuel pos').
Proof.
  intros Hnl Hch Hk inp' K Hbefore Hcross Hafter Hpos.
  assert (Hch' : existsb (N.eqb ch) (pc_ws c) = true).
  { apply existsb_exists. exists ch. split; [exact Hch|apply N.eqb_refl]. }
  assert (Hlen : in_len inp' = in_len inp + 1).
  { unfold in_len, inp'. cbn [pi_chars]. rewrite ins_at_length by exact Hk. lia. }
  assert (HK : K <= in_len inp) by (unfold in_len, K; lia).
  unfold parse_full.
  apply (lr_relayout (pc_g c) (pc_tb c) (pc_stop c) (pc_consume c)
           (skipws_full c inp fuel) (skipws_full c inp' fuel) (nt_full c inp) (nt_full c inp')
           (ins_R K) (ins_S K)).
  - intros q q' [[H ->]|[H ->]]; [left|right]; split; (lia || reflexivity).
  - intros p p' Hp. unfold skipws_full. rewrite Hnl.
    destruct inp as [chars rx]. apply skip_ws_ins; assumption.
  - intros q q' Hq st. unfold nt_full.
    assert (Hext : forall t, rx_of inp t q = rx_of inp' t q').
    { intros t. destruct Hq as [[H ->]|[H ->]]; [symmetry; apply Hbefore; exact H|].
      symmetry; apply Hafter; exact H. }
    assert (He : (q =? in_len inp) = (q' =? in_len inp')).
    { rewrite Hlen. destruct Hq as [[H ->]|[H ->]].
      - rewrite (proj2 (N.eqb_neq q (in_len inp))) by lia.
        rewrite (proj2 (N.eqb_neq q (in_len inp + 1))) by lia. reflexivity.
      - destruct (N.eqb_spec q (in_len inp)) as [->|Hne]; [rewrite N.eqb_refl; reflexivity|].
        rewrite (proj2 (N.eqb_neq (q + 1) (in_len inp + 1))) by lia. reflexivity. }
    assert (Hl : (q <? in_len inp) = (q' <? in_len inp')).
    { rewrite Hlen. destruct Hq as [[H ->]|[H ->]].
      - rewrite (proj2 (N.ltb_lt q (in_len inp))) by lia.
        rewrite (proj2 (N.ltb_lt q (in_len inp + 1))) by lia. reflexivity.
      - destruct (N.ltb_spec q (in_len inp)) as [H1|H1].
        + rewrite (proj2 (N.ltb_lt (q + 1) (in_len inp + 1))) by lia. reflexivity.
        + rewrite (proj2 (N.ltb_ge (q + 1) (in_len inp + 1))) by lia. reflexivity. }
    split; [apply next_token_of_ext; assumption|].
    intros y len Hy. apply next_token_of_tok in Hy.
    destruct Hq as [[H ->]|[H ->]].
    + left. destruct Hy as [->|Hy]; [split; [lia|reflexivity]|].
      split; [eapply Hcross; eassumption|reflexivity].
    + right. split; lia.
  - exact Hpos.
Qed.

(* ---- the canonical LAYOUT rule skips exactly the maximal ws runs ---------------------- *)
Lemma std_run_nomatch sk nt f p :
  nt 0%nat p = TTok 3 0 ->
  lr_parse g_std ltb_std sk nt 3 false true (S (S f)) p = LROk (TNode 5 p p []) p (0, 0) [].
Proof.
  intros H. unfold lr_parse, lr_init. cbn -[N.add]. rewrite H. cbn -[N.add].
  reflexivity.
Qed.

Lemma std_run_match sk nt f p m :
  nt 0%nat p = TTok 0 m -> nt 3%nat (p + m) = TTok 3 0 ->
  exists t lay tr, lr_parse g_std ltb_std sk nt 3 false true (S (S (S (S f)))) p = LROk t (p + m) lay tr.
Proof.
  intros H1 H2. unfold lr_parse, lr_init. cbn -[N.add]. rewrite H1. cbn -[N.add].
  rewrite H2.  cbn -[N.add]. do 3 eexists. reflexivity.
Qed.

Lemma rx_of_nz inp t p m : rx_of inp t p = Some m -> m <> 0.
Proof.
  unfold rx_of. destruct (nth_error (pi_rx inp) (N.to_nat t)) as [row|]; [|discriminate].
  destruct (nth_error row (N.to_nat p)) as [[|l]|]; try discriminate.
  intros H; inversion H. discriminate.
Qed.

Lemma nt_std inp st q :
  (st = 0 \/ st = 3)%nat -> (forall q, rx_of inp 3 q = None) ->
  next_token_of terms_std (rx_of inp) (in_len inp) 3 false true ltb_std st q =
  match (if q <? in_len inp then rx_of inp 0 q else None) with
  | Some m => TTok 0 m
  | None => TTok 3 0
  end.
Proof.
  intros Hst H0. unfold next_token_of, next_tokens.
  destruct Hst as [-> | ->]; cbn -[N.ltb rx_of in_len lexical_disambiguation];
    (destruct (q <? in_len inp); [|reflexivity]);
    (destruct (rx_of inp 0 q) as [m|] eqn:E; rewrite H0; [|reflexivity]);
    apply rx_of_nz in E; destruct m as [|pm]; [congruence| |congruence|];
    change (prior_of terms_std 3) with 10; cbn; rewrite Pos.eqb_refl; reflexivity.
Qed.

Lemma skip_ws_end ws inp q : in_len inp <= q -> skip_ws ws inp q = q.
Proof.
  intros H. unfold skip_ws, in_len in *. rewrite skipn_all2 by lia. reflexivity.
Qed.

Theorem std_layout c ws inp fuel p :
  pc_g c = g_std -> pc_terms c = terms_std -> pc_stop c = 3 -> pc_layout c = Some ltb_std ->
  (4 <= fuel)%nat ->
  (forall q, rx_of inp 3 q = None) ->
  (forall q, q < in_len inp -> rx_of inp 0 q = None -> skip_ws ws inp q = q) ->
  (forall q m, q < in_len inp -> rx_of inp 0 q = Some m ->
     skip_ws ws inp q = q + m /\ (q + m < in_len inp -> rx_of inp 0 (q + m) = None)) ->
  skipws_full c inp fuel p = Some (skip_ws ws inp p).
Proof.
  intros Hg Ht Hs Hl Hf H0 H1 H2.
  destruct fuel as [|[|[|[|f]]]]; try lia.
  unfold skipws_full. rewrite Hl. unfold layout_run. rewrite Hg, Ht, Hs.
  set (nt := next_token_of terms_std (rx_of inp) (in_len inp) 3 false true ltb_std).
  assert (Hnt0 : nt 0%nat p = match (if p <? in_len inp then rx_of inp 0 p else None) with
                              | Some m => TTok 0 m | None => TTok 3 0 end).
  { apply nt_std; [left; reflexivity|exact H0]. }
  destruct (N.ltb_spec p (in_len inp)) as [Hlt|Hge].
  - destruct (rx_of inp 0 p) as [m|] eqn:E.
    + destruct (H2 p m Hlt E) as [Hsk Hnone].
      assert (Hnt3 : nt 3%nat (p + m) = TTok 3 0).
      { unfold nt. rewrite nt_std; [|right; reflexivity|exact H0].
        destruct (N.ltb_spec (p + m) (in_len inp)) as [Hlt2|]; [|reflexivity].
        rewrite (Hnone Hlt2). reflexivity. }
      destruct (std_run_match (fun q => Some q) nt f p m Hnt0 Hnt3) as (t & lay & tr & Hrun).
      rewrite Hrun, Hsk. apply rx_of_nz in E.
      rewrite (proj2 (N.ltb_lt p (p + m))) by lia. reflexivity.
    + rewrite (std_run_nomatch (fun q => Some q) nt (S (S f)) p Hnt0).
      rewrite N.ltb_irrefl. rewrite (H1 p Hlt E). reflexivity.
  - rewrite (std_run_nomatch (fun q => Some q) nt (S (S f)) p Hnt0).
    rewrite N.ltb_irrefl. rewrite skip_ws_end by exact Hge. reflexivity.
Qed.
