(* Proofs about the front-end model of Model/StrTerm.v: for a grammar whose inline texts
   can be carried by the name-by-text scheme, [build] succeeds and yields exactly the
   declarative reading [spec_build]. *)
From Coq Require Import Arith PeanoNat NArith List Bool Lia.
From PV Require Import Model.StrTerm Proofs.StrTermProofs.
Import ListNotations.
Local Open Scope N_scope.

Definition strs_of (its : list item) : list str :=
  flat_map (fun i => match i with IStr v => [v] | IRef _ => [] end) its.

Definition tstrs (ts : list term) : list str :=
  flat_map (fun t => match t_rec t with RStr v => [v] | RRegex _ => [] end) ts.

Lemma str_dec : forall a b : str, {a = b} + {a <> b}.
Proof. apply list_eq_dec. apply N.eq_dec. Qed.

Lemma NoDup_app_intro : forall (l1 l2 : list str),
  NoDup l1 -> NoDup l2 -> (forall x, In x l1 -> ~ In x l2) -> NoDup (l1 ++ l2).
Proof.
  induction l1 as [|x l1 IH]; intros l2 H1 H2 Hd; simpl; [exact H2|].
  inversion H1 as [|? ? Hx Hl]; subst. constructor.
  - intro Hin. apply in_app_or in Hin. destruct Hin as [Hin|Hin].
    + contradiction.
    + apply (Hd x); [left; reflexivity | exact Hin].
  - apply IH; [exact Hl | exact H2 |]. intros y Hy. apply Hd. right. exact Hy.
Qed.

Lemma nodup_b_NoDup : forall l, nodup_b l = true -> NoDup l.
Proof.
  induction l as [|x l IH]; intro H; [constructor|].
  simpl in H. apply andb_true_iff in H. destruct H as [H1 H2].
  apply negb_true_iff in H1. apply mem_false in H1.
  constructor; [exact H1 | apply IH; exact H2].
Qed.

Lemma in_concat_intro : forall (A : Type) (x : A) (l : list A) (ll : list (list A)),
  In l ll -> In x l -> In x (concat ll).
Proof.
  intros A x l ll. induction ll as [|y ll IH]; intros H1 H2; [contradiction|].
  simpl. apply in_or_app. destruct H1 as [He|H1]; [subst; left; exact H2 | right; apply IH; assumption].
Qed.

(* ------------------------------------------------------------------ dedup *)
Lemma dedup_spec : forall l seen,
  NoDup (dedup l seen) /\ (forall x, In x (dedup l seen) -> In x l /\ ~ In x seen).
Proof.
  induction l as [|x l IH]; intro seen; simpl.
  - split; [constructor | intros x []].
  - destruct (mem x seen) eqn:E.
    + destruct (IH seen) as [H1 H2]. split; [exact H1|].
      intros y Hy. destruct (H2 y Hy) as [Ha Hb]. split; [right; exact Ha | exact Hb].
    + destruct (IH (seen ++ [x])) as [H1 H2]. apply mem_false in E. split.
      * constructor; [|exact H1]. intro Hin. destruct (H2 x Hin) as [_ Hn].
        apply Hn. apply in_or_app. right. left. reflexivity.
      * intros y [Hy|Hy].
        -- subst. split; [left; reflexivity | exact E].
        -- destruct (H2 y Hy) as [Ha Hb]. split; [right; exact Ha|].
           intro Hs. apply Hb. apply in_or_app. left. exact Hs.
Qed.

Lemma dedup_complete : forall l seen x, In x l -> ~ In x seen -> In x (dedup l seen).
Proof.
  induction l as [|y l IH]; intros seen x Hin Hs; simpl; [contradiction|].
  destruct (mem y seen) eqn:E.
  - destruct Hin as [He|Hin].
    + subst. apply mem_In in E. contradiction.
    + apply IH; assumption.
  - destruct (str_dec y x) as [He|Hne]; [left; exact He|].
    right. apply IH.
    + destruct Hin as [He|Hin]; [contradiction | exact Hin].
    + intro Hin2. apply in_app_or in Hin2. destruct Hin2 as [Hin2|[He|[]]]; [contradiction|].
      apply Hne. exact He.
Qed.

(* ------------------------------------------------------------------ phases *)
Lemma collect_inline_ok : forall its keys,
  (forall v, In (IStr v) its -> reserved v = false) ->
  collect_inline its keys = Ok (keys ++ dedup (strs_of its) keys).
Proof.
  induction its as [|i its IH]; intros keys H.
  - simpl. rewrite app_nil_r. reflexivity.
  - assert (Ht : forall v, In (IStr v) its -> reserved v = false).
    { intros v Hv. apply H. right. exact Hv. }
    destruct i as [n|v].
    + simpl. apply IH. exact Ht.
    + change (strs_of (IStr v :: its)) with (v :: strs_of its).
      simpl. destruct (mem v keys) eqn:E.
      * apply IH. exact Ht.
      * rewrite (H v (or_introl eq_refl)). rewrite (IH _ Ht).
        rewrite <- app_assoc. reflexivity.
Qed.

Lemma escape_name_id : forall v, ctrl_free v = true -> escape_name v = v.
Proof.
  unfold ctrl_free, escape_name, replace1. induction v as [|x v IH]; intro H; [reflexivity|].
  simpl in H. apply negb_true_iff in H. apply orb_false_iff in H. destruct H as [H1 H2].
  apply orb_false_iff in H1. destruct H1 as [Ha Hb].
  simpl. rewrite Ha. simpl. rewrite Hb. simpl. f_equal. apply IH.
  apply negb_true_iff. exact H2.
Qed.

Lemma check_terms_ok : forall ts names strs,
  NoDup (names ++ term_names ts) -> NoDup (strs ++ tstrs ts) ->
  check_terms ts names strs = Ok tt.
Proof.
  induction ts as [|t ts IH]; intros names strs Hn Hs; [reflexivity|].
  change (term_names (t :: ts)) with (t_name t :: term_names ts) in Hn.
  change (tstrs (t :: ts)) with
    ((match t_rec t with RStr v => [v] | RRegex _ => [] end) ++ tstrs ts) in Hs.
  assert (H1 : mem (t_name t) names = false).
  { apply mem_false. intro Hin. apply NoDup_remove_2 in Hn. apply Hn.
    apply in_or_app. left. exact Hin. }
  assert (Hn' : NoDup ((names ++ [t_name t]) ++ term_names ts)).
  { rewrite <- app_assoc. exact Hn. }
  simpl. rewrite H1. destruct (t_rec t) as [v|id].
  - simpl in Hs.
    assert (H2 : mem v strs = false).
    { apply mem_false. intro Hin. apply NoDup_remove_2 in Hs. apply Hs.
      apply in_or_app. left. exact Hin. }
    rewrite H2. apply IH; [exact Hn'|]. rewrite <- app_assoc. exact Hs.
  - simpl in Hs. apply IH; [exact Hn' | exact Hs].
Qed.

Lemma tstrs_inline : forall ks, tstrs (map (fun v => mkT v (RStr v)) ks) = ks.
Proof. induction ks as [|k ks IH]; [reflexivity|]. unfold tstrs in *. simpl. rewrite IH. reflexivity. Qed.

Lemma names_inline : forall ks, term_names (map (fun v => mkT v (RStr v)) ks) = ks.
Proof. induction ks as [|k ks IH]; [reflexivity|]. unfold term_names in *. simpl. rewrite IH. reflexivity. Qed.

Lemma lookup_app : forall n l1 l2,
  lookup n (l1 ++ l2) = match lookup n l1 with Some k => Some k | None => lookup n l2 end.
Proof.
  intros n l1 l2. induction l1 as [|[k v] l1 IH]; [reflexivity|].
  simpl. destruct (str_eqb n k); [reflexivity | exact IH].
Qed.

Lemma lookup_const : forall K n l,
  lookup n (map (fun x => (x, K)) l) = if mem n l then Some K else None.
Proof.
  intros K n l. induction l as [|x l IH]; [reflexivity|].
  simpl. destruct (str_eqb n x); [reflexivity | exact IH].
Qed.

Lemma find_term_app : forall n l1 l2,
  find_term n (l1 ++ l2) = match find_term n l1 with Some t => Some t | None => find_term n l2 end.
Proof.
  intros n l1 l2. induction l1 as [|t l1 IH]; [reflexivity|].
  simpl. destruct (str_eqb n (t_name t)); [reflexivity | exact IH].
Qed.

Lemma find_term_inline_none : forall n ks,
  ~ In n ks -> find_term n (map (fun v => mkT v (RStr v)) ks) = None.
Proof.
  intros n ks. induction ks as [|k ks IH]; intro H; [reflexivity|].
  simpl. assert (E : str_eqb n k = false).
  { apply str_eqb_false. intro He. apply H. left. symmetry. exact He. }
  rewrite E. apply IH. intro Hin. apply H. right. exact Hin.
Qed.

Section Resolve.
  Variable st : symtab.
  Variable f : item -> symkind * str.

  Lemma resolve_items_ok : forall its,
    (forall i, In i its -> resolve st (ref_name i) = Ok (f i)) ->
    resolve_items st its = Ok (map f its).
  Proof.
    induction its as [|i its IH]; intro H; [reflexivity|].
    simpl. rewrite (H i (or_introl eq_refl)). rewrite IH; [reflexivity|].
    intros j Hj. apply H. right. exact Hj.
  Qed.

  Lemma resolve_alts_ok : forall lhs alts,
    (forall alt, In alt alts -> forall i, In i alt -> resolve st (ref_name i) = Ok (f i)) ->
    resolve_alts st lhs alts = Ok (map (fun alt => (lhs, map f alt)) alts).
  Proof.
    intros lhs. induction alts as [|alt alts IH]; intro H; [reflexivity|].
    simpl. rewrite (resolve_items_ok alt (H alt (or_introl eq_refl))).
    rewrite IH; [reflexivity|]. intros a Ha. apply H. right. exact Ha.
  Qed.

  Lemma resolve_rules_ok : forall rules,
    (forall r, In r rules -> forall alt, In alt (r_alts r) -> forall i, In i alt ->
       resolve st (ref_name i) = Ok (f i)) ->
    resolve_rules st rules =
    Ok (flat_map (fun r => map (fun alt => (r_name r, map f alt)) (r_alts r)) rules).
  Proof.
    induction rules as [|r rules IH]; intro H; [reflexivity|].
    simpl. rewrite (resolve_alts_ok (r_name r) (r_alts r) (H r (or_introl eq_refl))).
    rewrite IH; [reflexivity|]. intros r' Hr'. apply H. right. exact Hr'.
  Qed.
End Resolve.

Lemma text_ok_facts : forall a v, text_ok a v = true ->
  has_dot v = false /\ ctrl_free v = true /\ reserved v = false /\ v <> n_KEYWORD /\
  ~ In v (rule_names a) /\ ~ In v (term_names (a_terms a)) /\ ~ In v (declared_strs a).
Proof.
  intros a v H. unfold text_ok in H.
  apply andb_true_iff in H. destruct H as [H H7].
  apply andb_true_iff in H. destruct H as [H H6].
  apply andb_true_iff in H. destruct H as [H H5].
  apply andb_true_iff in H. destruct H as [H H4].
  apply andb_true_iff in H. destruct H as [H H3].
  apply andb_true_iff in H. destruct H as [H1 H2].
  apply negb_true_iff in H1, H3, H4, H5, H6, H7.
  repeat split; try assumption.
  - apply str_eqb_false. exact H4.
  - apply mem_false. exact H5.
  - apply mem_false. exact H6.
  - apply mem_false. exact H7.
Qed.

Theorem build_nice : forall kw a, nice a = true -> build kw a = Ok (spec_build kw a).
Proof.
  intros kw a H. unfold nice in H. apply andb_true_iff in H. destruct H as [Hd Hi].
  unfold decl_ok in Hd.
  apply andb_true_iff in Hd. destruct Hd as [Hd Hkw].
  apply andb_true_iff in Hd. destruct Hd as [Hd Hrt].
  apply andb_true_iff in Hd. destruct Hd as [Hd Hdots].
  apply andb_true_iff in Hd. destruct Hd as [Hd Hnds].
  apply andb_true_iff in Hd. destruct Hd as [Hres Hndn].
  apply negb_true_iff in Hres.
  rewrite forallb_forall in Hi, Hrt, Hdots.
  set (ks := inline_texts a).
  assert (Hks_in : forall v, In v ks -> In (IStr v) (all_items a)).
  { intros v Hv. unfold ks, inline_texts in Hv.
    destruct (dedup_spec (flat_map (fun i => match i with IStr v => [v] | IRef _ => [] end)
                                   (all_items a)) []) as [_ H2].
    apply H2 in Hv. destruct Hv as [Hv _]. apply in_flat_map in Hv.
    destruct Hv as [i [Hi1 Hi2]]. destruct i as [n|v']; simpl in Hi2; [contradiction|].
    destruct Hi2 as [He|[]]. subst v'. exact Hi1. }
  assert (Hin_ks : forall v, In (IStr v) (all_items a) -> In v ks).
  { intros v Hv. unfold ks, inline_texts. apply dedup_complete; [|intros []].
    apply in_flat_map. exists (IStr v). split; [exact Hv | left; reflexivity]. }
  assert (Htext : forall v, In v ks -> text_ok a v = true).
  { intros v Hv. exact (Hi _ (Hks_in v Hv)). }
  assert (Hks_nd : NoDup ks).
  { unfold ks, inline_texts. apply dedup_spec. }
  unfold build. rewrite Hres.
  rewrite (collect_inline_ok (all_items a) []).
  2:{ intros v Hv. destruct (text_ok_facts a v (Hi _ Hv)) as [_ [_ [Hr _]]]. exact Hr. }
  change ([] ++ dedup (strs_of (all_items a)) []) with ks.
  cbv zeta.
  assert (Hmap : map inline_term ks = map (fun v => mkT v (RStr v)) ks).
  { apply map_ext_in. intros v Hv. unfold inline_term.
    destruct (text_ok_facts a v (Htext v Hv)) as [_ [Hc _]].
    rewrite (escape_name_id v Hc). reflexivity. }
  rewrite Hmap.
  set (ts := a_terms a ++ map (fun v => mkT v (RStr v)) ks).
  assert (Hnames : term_names ts = term_names (a_terms a) ++ ks).
  { unfold ts, term_names. rewrite map_app. f_equal. apply names_inline. }
  assert (Hstrs : tstrs ts = declared_strs a ++ ks).
  { unfold ts, tstrs, declared_strs. rewrite flat_map_app. f_equal. apply tstrs_inline. }
  (* terminal loop *)
  rewrite (check_terms_ok ts [] []).
  2:{ simpl. rewrite Hnames. apply NoDup_app_intro.
      - apply nodup_b_NoDup. exact Hndn.
      - exact Hks_nd.
      - intros x Hx Hk. destruct (text_ok_facts a x (Htext x Hk)) as [_ [_ [_ [_ [_ [Hn _]]]]]].
        contradiction. }
  2:{ simpl. rewrite Hstrs. apply NoDup_app_intro.
      - apply nodup_b_NoDup. exact Hnds.
      - exact Hks_nd.
      - intros x Hx Hk. destruct (text_ok_facts a x (Htext x Hk)) as [_ [_ [_ [_ [_ [_ Hn]]]]]].
        contradiction. }
  cbv iota.
  (* rule names vs terminal names *)
  assert (Hclash : rule_clash (a_rules a) ts = false).
  { unfold rule_clash. destruct (existsb (fun r => mem (r_name r) (term_names ts)) (a_rules a)) eqn:E;
      [|reflexivity].
    exfalso. apply existsb_exists in E. destruct E as [r [Hr Hm]].
    apply mem_In in Hm. rewrite Hnames in Hm.
    assert (Hrn : In (r_name r) (rule_names a)) by (unfold rule_names; apply in_map; exact Hr).
    apply in_app_or in Hm. destruct Hm as [Hm|Hm].
    - specialize (Hrt _ Hrn). apply negb_true_iff in Hrt. apply mem_false in Hrt. contradiction.
    - destruct (text_ok_facts a _ (Htext _ Hm)) as [_ [_ [_ [_ [Hn _]]]]]. contradiction. }
  rewrite Hclash.
  set (st := make_symtab (a_rules a) ts).
  assert (Hnt_sub : forall n, In n (nonterm_names (a_rules a)) -> In n (rule_names a)).
  { intros n Hn. unfold nonterm_names in Hn.
    destruct (dedup_spec (map r_name (a_rules a)) []) as [_ H2]. apply H2 in Hn. apply Hn. }
  (* no dotted key *)
  assert (Hov : check_overrides st = false).
  { unfold check_overrides. destruct (existsb (fun kv => has_dot (fst kv)) st) eqn:E; [|reflexivity].
    exfalso. apply existsb_exists in E. destruct E as [[k v] [Hin Hdot]]. simpl in Hdot.
    unfold st, make_symtab in Hin.
    apply in_app_or in Hin. destruct Hin as [Hin|Hin].
    - apply in_map_iff in Hin. destruct Hin as [n [He Hn]]. inversion He; subst.
      assert (Hx : In k (term_names (a_terms a) ++ rule_names a)).
      { apply in_or_app. right. apply Hnt_sub. exact Hn. }
      specialize (Hdots _ Hx). rewrite Hdot in Hdots. discriminate.
    - apply in_app_or in Hin. destruct Hin as [Hin|Hin].
      + apply in_map_iff in Hin. destruct Hin as [t [He Ht]]. inversion He; subst.
        assert (Hx : In (t_name t) (term_names ts)) by (unfold term_names; apply in_map; exact Ht).
        rewrite Hnames in Hx. apply in_app_or in Hx. destruct Hx as [Hx|Hx].
        * assert (Hy : In (t_name t) (term_names (a_terms a) ++ rule_names a)).
          { apply in_or_app. left. exact Hx. }
          specialize (Hdots _ Hy). rewrite Hdot in Hdots. discriminate.
        * destruct (text_ok_facts a _ (Htext _ Hx)) as [Hd' _]. congruence.
      + destruct Hin as [He|[He|[]]]; inversion He; subst; vm_compute in Hdot; discriminate. }
  rewrite Hov.
  (* references *)
  assert (Hlook : forall n, lookup n st =
            if mem n (nonterm_names (a_rules a)) then Some KNonTerm
            else if mem n (term_names ts) then Some KTerm
            else lookup n [(n_EMPTY, KTerm); (n_STOP, KTerm)]).
  { intro n. unfold st, make_symtab. rewrite lookup_app, lookup_const.
    destruct (mem n (nonterm_names (a_rules a))); [reflexivity|].
    rewrite lookup_app.
    replace (map (fun t => (t_name t, KTerm)) ts) with (map (fun x => (x, KTerm)) (term_names ts))
      by (unfold term_names; rewrite map_map; reflexivity).
    rewrite lookup_const. destruct (mem n (term_names ts)); reflexivity. }
  assert (Hitem : forall i, In i (all_items a) -> resolve st (ref_name i) = Ok (spec_item a i)).
  { intros i Hin. specialize (Hi _ Hin). unfold resolve. rewrite Hlook.
    destruct i as [n|v]; simpl in Hi; simpl ref_name.
    - unfold spec_item, declared_kind.
      destruct (mem n (term_names (a_terms a))) eqn:E.
      + assert (Hnr : ~ In n (rule_names a)).
        { intro Hr. specialize (Hrt _ Hr). rewrite E in Hrt. discriminate. }
        assert (E1 : mem n (nonterm_names (a_rules a)) = false).
        { apply mem_false. intro Hn. apply Hnr. apply Hnt_sub. exact Hn. }
        assert (E2 : mem n (term_names ts) = true).
        { apply mem_In. rewrite Hnames. apply in_or_app. left. apply mem_In. exact E. }
        rewrite E1, E2. reflexivity.
      + rewrite orb_false_r in Hi. apply mem_In in Hi.
        assert (E1 : mem n (nonterm_names (a_rules a)) = true).
        { apply mem_In. unfold nonterm_names. apply dedup_complete; [exact Hi | intros []]. }
        rewrite E1. reflexivity.
    - destruct (text_ok_facts a v Hi) as [_ [_ [_ [_ [Hnr _]]]]].
      assert (E1 : mem v (nonterm_names (a_rules a)) = false).
      { apply mem_false. intro Hn. apply Hnr. apply Hnt_sub. exact Hn. }
      assert (E2 : mem v (term_names ts) = true).
      { apply mem_In. rewrite Hnames. apply in_or_app. right. apply Hin_ks. exact Hin. }
      rewrite E1, E2. reflexivity. }
  rewrite (resolve_rules_ok st (spec_item a) (a_rules a)).
  2:{ intros r Hr alt Halt i Hin. apply Hitem. unfold all_items. apply in_flat_map.
      exists r. split; [exact Hr|]. apply (in_concat_intro _ i alt); assumption. }
  cbv iota.
  (* KEYWORD *)
  assert (Hfind : find_term n_KEYWORD ts = find_term n_KEYWORD (a_terms a)).
  { unfold ts. rewrite find_term_app. destruct (find_term n_KEYWORD (a_terms a)); [reflexivity|].
    apply find_term_inline_none. intro Hk.
    destruct (text_ok_facts a _ (Htext _ Hk)) as [_ [_ [_ [Hne _]]]]. apply Hne. reflexivity. }
  rewrite Hfind. unfold spec_build. fold ks. fold ts.
  unfold keyword_decl_ok in Hkw.
  destruct (find_term n_KEYWORD (a_terms a)) as [[nm [v|id]]|]; [discriminate | reflexivity | reflexivity].
Qed.
