(* Proofs about the import model (Model/Imports.v). *)
From Coq Require Import NArith PeanoNat List Bool Lia.
From PV Require Import Model.Imports.
Import ListNotations.
Local Open Scope N_scope.

(* ---- names ----------------------------------------------------------------- *)

Lemma name_eqb_eq : forall a b, name_eqb a b = true <-> a = b.
Proof.
  induction a as [|x a IH]; intros [|y b]; simpl; split; intro H; try reflexivity; try discriminate.
  - apply andb_true_iff in H. destruct H as [H1 H2]. apply N.eqb_eq in H1. apply IH in H2.
    subst. reflexivity.
  - inversion H; subst. apply andb_true_iff. split; [apply N.eqb_refl | apply IH; reflexivity].
Qed.

(* ---- walk ------------------------------------------------------------------ *)

Lemma walk_app : forall d p q f,
  walk d f (p ++ q) = match walk d f p with Some g => walk d g q | None => None end.
Proof.
  intros d p q. induction p as [|m r IH]; intro f; simpl.
  - reflexivity.
  - destruct (imp_target d f m) as [g|]; [apply IH | reflexivity].
Qed.

Lemma walk_snoc : forall d q m f g,
  walk d f (q ++ [m]) = Some g <->
  exists f', walk d f q = Some f' /\ imp_target d f' m = Some g.
Proof.
  intros d q m f g. rewrite walk_app. split.
  - destruct (walk d f q) as [f'|]; [|discriminate]. simpl.
    destruct (imp_target d f' m) as [g'|] eqn:E; [|discriminate].
    intro H. exists f'. split; [reflexivity|]. rewrite E. exact H.
  - intros [f' [H1 H2]]. rewrite H1. simpl. rewrite H2. reflexivity.
Qed.

Lemma walk_inj : forall d, import_tree d ->
  forall p1 p2 g, walk d 0%nat p1 = Some g -> walk d 0%nat p2 = Some g -> p1 = p2.
Proof.
  intros d [Hroot Huniq] p1.
  induction p1 as [|m1 q1 IH] using rev_ind; intros p2 g H1 H2.
  - simpl in H1. inversion H1; subst g.
    destruct p2 as [|a p2'] using rev_ind; [reflexivity|].
    apply walk_snoc in H2. destruct H2 as [f' [_ H2]]. exfalso. exact (Hroot _ _ H2).
  - apply walk_snoc in H1. destruct H1 as [f1 [Hq1 Hm1]].
    destruct p2 as [|m2 q2 _] using rev_ind.
    + simpl in H2. inversion H2; subst g. exfalso. exact (Hroot _ _ Hm1).
    + apply walk_snoc in H2. destruct H2 as [f2 [Hq2 Hm2]].
      destruct (Huniq _ _ _ _ _ Hm1 Hm2) as [Ef Em]. subst f2 m2.
      rewrite (IH q2 f1 Hq1 Hq2). reflexivity.
Qed.

(* ---- resolve ---------------------------------------------------------------- *)

Lemma resolve_local : forall d st f nm k,
  local_lookup (getf d f) nm = Some k -> resolve d st f nm = RFound f nm k.
Proof. intros d st f nm k H. destruct nm; simpl; rewrite H; reflexivity. Qed.

Lemma resolve_cons : forall d st f m x rest,
  resolve d st f (m :: x :: rest) =
  match local_lookup (getf d f) (m :: x :: rest) with
  | Some k => RFound f (m :: x :: rest) k
  | None => match find_import (getf d f) m with
            | None => RErrModule
            | Some (i, t) => if ready st f i then resolve d st t (x :: rest) else RCrash
            end
  end.
Proof. reflexivity. Qed.

Lemma resolve_single : forall d st f x,
  resolve d st f [x] =
  match local_lookup (getf d f) [x] with Some k => RFound f [x] k | None => RNone end.
Proof. reflexivity. Qed.

Lemma ready_nil : forall f i, ready [] f i = true.
Proof. reflexivity. Qed.

(* no file strictly before the end of the path defines the rest of the name locally *)
Fixpoint no_hit_along (d : dir) (f : nat) (p nm : name) : Prop :=
  match p with
  | [] => True
  | m :: r =>
      local_lookup (getf d f) (p ++ nm) = None /\
      match imp_target d f m with Some g => no_hit_along d g r nm | None => True end
  end.

Lemma resolve_along : forall d p f g nm,
  nm <> [] -> walk d f p = Some g -> no_hit_along d f p nm ->
  resolve d [] f (p ++ nm) = resolve d [] g nm.
Proof.
  intros d p. induction p as [|m r IH]; intros f g nm Hnm Hw Hno.
  - simpl in Hw. inversion Hw. reflexivity.
  - simpl in Hw. simpl in Hno. destruct Hno as [Hl Hrest].
    unfold imp_target in Hw, Hrest.
    destruct (find_import (getf d f) m) as [[i t]|] eqn:Ef; simpl in Hw, Hrest; [|discriminate].
    change ((m :: r) ++ nm) with (m :: (r ++ nm)).
    change (m :: r ++ nm) with (m :: (r ++ nm)) in Hl.
    rewrite <- (IH t g nm Hnm Hw Hrest).
    destruct (r ++ nm) as [|x rest] eqn:Ern.
    + apply app_eq_nil in Ern. destruct Ern as [_ Ern]. contradiction.
    + rewrite resolve_cons. rewrite Hl, Ef, ready_nil. reflexivity.
Qed.

Lemma no_dotted_no_hit : forall d, no_dotted_names d ->
  forall p f nm, nm <> [] -> no_hit_along d f p nm.
Proof.
  intros d Hnd p. induction p as [|m r IH]; intros f nm Hnm; simpl; [exact I|].
  split.
  - destruct (local_lookup (getf d f) (m :: r ++ nm)) eqn:E; [|reflexivity].
    exfalso. destruct (Hnd f (m :: r ++ nm)) as [x Hx]; [rewrite E; discriminate|].
    inversion Hx as [[Hm Hr]]. apply app_eq_nil in Hr. destruct Hr as [_ Hr]. contradiction.
  - destruct (imp_target d f m); [apply IH; assumption | exact I].
Qed.

Lemma resolve_modular_walk : forall d, no_dotted_names d ->
  forall p f nm, nm <> [] -> walk d 0%nat p = Some f ->
  resolve d [] 0%nat (p ++ nm) = resolve d [] f nm.
Proof.
  intros d Hnd p f nm Hnm Hw. apply resolve_along; try assumption.
  apply no_dotted_no_hit; assumption.
Qed.

(* without dotted rule names, resolution finds exactly the denotation *)
Lemma resolve_spec : forall d, no_dotted_names d ->
  forall nm f g n k,
    resolve d [] f nm = RFound g n k <-> spec_resolve d f nm = Some (g, n, k).
Proof.
  intros d Hnd nm. induction nm as [|m rest IH]; intros f g n k.
  - simpl. destruct (local_lookup (getf d f) []) eqn:E.
    + exfalso. destruct (Hnd f []) as [x Hx]; [rewrite E; discriminate | discriminate].
    + split; discriminate.
  - destruct rest as [|x rest'].
    + rewrite resolve_single. unfold spec_resolve. simpl.
      destruct (local_lookup (getf d f) [m]) as [k'|]; split; intro H; try discriminate;
        inversion H; subst; reflexivity.
    + rewrite resolve_cons.
      destruct (local_lookup (getf d f) (m :: x :: rest')) eqn:E.
      { exfalso. destruct (Hnd f (m :: x :: rest')) as [y Hy]; [rewrite E; discriminate|].
        discriminate. }
      assert (Hsp : spec_resolve d f (m :: x :: rest') =
                    match imp_target d f m with
                    | Some t => spec_resolve d t (x :: rest')
                    | None => None
                    end).
      { unfold spec_resolve.
        change (removelast (m :: x :: rest')) with (m :: removelast (x :: rest')).
        change (last (m :: x :: rest') 0) with (last (x :: rest') 0).
        simpl walk. destruct (imp_target d f m); reflexivity. }
      rewrite Hsp. unfold imp_target.
      destruct (find_import (getf d f) m) as [[i t]|]; cbn [option_map snd].
      * rewrite ready_nil. apply IH.
      * split; discriminate.
Qed.

(* in a tree of imports the root is consulted only for the whole name *)
Lemma resolve_root_only_first : forall d, import_tree d ->
  forall nm st f g n k, resolve d st f nm = RFound g n k -> (g = f /\ n = nm) \/ g <> 0%nat.
Proof.
  intros d [Hroot _] nm. induction nm as [|m rest IH]; intros st f g n k H.
  - simpl in H. destruct (local_lookup (getf d f) []); inversion H; subst. left; split; reflexivity.
  - destruct rest as [|x rest'].
    + rewrite resolve_single in H. destruct (local_lookup (getf d f) [m]); inversion H; subst.
      left; split; reflexivity.
    + rewrite resolve_cons in H.
      destruct (local_lookup (getf d f) (m :: x :: rest')).
      * inversion H; subst. left; split; reflexivity.
      * destruct (find_import (getf d f) m) as [[i t]|] eqn:Ef; [|discriminate].
        destruct (ready st f i); [|discriminate].
        right. assert (Ht : t <> 0%nat).
        { intro Ht. apply (Hroot f m). unfold imp_target. rewrite Ef. simpl. congruence. }
        destruct (IH st t g n k H) as [[Eg _]|Hg]; [subst; exact Ht | exact Hg].
Qed.

Lemma override_reaches_all_users : forall d, import_tree d ->
  forall pg g x k, walk d 0%nat pg = Some g ->
    local_lookup (getf d 0%nat) (pg ++ [x]) = Some k ->
    forall f p q, walk d 0%nat p = Some f -> walk d f q = Some g ->
      resolve d [] 0%nat (p ++ q ++ [x]) = RFound 0%nat (pg ++ [x]) k.
Proof.
  intros d Ht pg g x k Hpg Hl f p q Hp Hq.
  assert (Hpq : walk d 0%nat (p ++ q) = Some g) by (rewrite walk_app, Hp; exact Hq).
  rewrite app_assoc. rewrite (walk_inj d Ht _ _ _ Hpq Hpg).
  apply resolve_local. exact Hl.
Qed.

Lemma override_captures_only_its_name : forall d, import_tree d ->
  forall o nm n k, resolve d [] 0%nat nm = RFound 0%nat n k -> n = o -> nm = o.
Proof.
  intros d Ht o nm n k H En.
  destruct (resolve_root_only_first d Ht nm [] 0%nat 0%nat n k H) as [[_ E]|E].
  - congruence.
  - exfalso. apply E. reflexivity.
Qed.

(* ---- the loader ------------------------------------------------------------- *)

Lemma registered_false : forall f reg, registered f reg = false -> ~ In f (map fst reg).
Proof.
  intros f reg H Hin. apply in_map_iff in Hin. destruct Hin as [[g q] [E Hin]]. simpl in E. subst g.
  unfold registered in H.
  assert (Ht : existsb (fun e => Nat.eqb (fst e) f) reg = true).
  { apply existsb_exists. exists (f, q). split; [exact Hin | simpl; apply Nat.eqb_refl]. }
  congruence.
Qed.

Lemma NoDup_snoc : forall (l : list nat) x, NoDup l -> ~ In x l -> NoDup (l ++ [x]).
Proof.
  induction l as [|a l IH]; intros x Hnd Hx; simpl.
  - constructor; [intros []|constructor].
  - inversion Hnd; subst. constructor.
    + intro Hin. apply in_app_or in Hin. destruct Hin as [Hin|[Hin|[]]].
      * contradiction.
      * subst. apply Hx. left. reflexivity.
    + apply IH; [assumption|]. intro Hin. apply Hx. right. exact Hin.
Qed.

Section Loader.
  Variable d : dir.
  Variable C : Prop.    (* instantiated with [imports_consistent d] or [True] *)
  Hypothesis C_imports : C -> imports_consistent d.

  Definition Inv (reg : list (nat * name)) : Prop :=
    NoDup (map fst reg) /\ (C -> forall g q, In (g, q) reg -> walk d 0%nat q = Some g).

  Definition ld_ok (f : nat) (ld : nat -> nat -> N -> list (nat * name) -> lres) : Prop :=
    forall i t m reg reg', Inv reg -> registered t reg = false ->
      (C -> imp_target d f m = Some t) ->
      ld i t m reg = LOk reg' -> Inv reg' /\ exists ext, reg' = reg ++ ext.

  Lemma load_imports_inv : forall f ld nfiles, ld_ok f ld ->
    forall imps i reg reg',
      (C -> forall m t, In (m, t) imps -> imp_target d f m = Some t) ->
      Inv reg -> load_imports ld nfiles imps i reg = LOk reg' ->
      Inv reg' /\ exists ext, reg' = reg ++ ext.
  Proof.
    intros f ld nfiles Hld imps. induction imps as [|[m t] r IH]; intros i reg reg' Himps Hinv H.
    - simpl in H. inversion H; subst. split; [exact Hinv | exists []; rewrite app_nil_r; reflexivity].
    - simpl in H.
      assert (Hr : C -> forall m0 t0, In (m0, t0) r -> imp_target d f m0 = Some t0).
      { intros c m0 t0 Hin. apply (Himps c). right. exact Hin. }
      destruct (registered t reg) eqn:Ereg.
      + apply (IH _ _ _ Hr Hinv H).
      + destruct (Nat.leb nfiles t); [discriminate|].
        destruct (ld i t m reg) as [reg1| | |] eqn:El; try discriminate.
        assert (Hm : C -> imp_target d f m = Some t).
        { intro c. apply (Himps c). left. reflexivity. }
        destruct (Hld i t m reg reg1 Hinv Ereg Hm El) as [Hinv1 [e1 E1]].
        destruct (IH _ _ _ Hr Hinv1 H) as [Hinv' [e2 E2]].
        split; [exact Hinv'|]. exists (e1 ++ e2). subst. rewrite app_assoc. reflexivity.
  Qed.

  Lemma load_inv : forall fuel stack f p reg reg',
    Inv reg -> registered f reg = false -> (C -> walk d 0%nat p = Some f) ->
    load fuel d stack f p reg = LOk reg' ->
    Inv reg' /\ exists ext, reg' = reg ++ ext.
  Proof.
    induction fuel as [|k IH]; intros stack f p reg reg' Hinv Hreg Hw H; [discriminate|].
    simpl in H. destruct (file_check (getf d f)); [discriminate|].
    match type of H with
    | match ?X with _ => _ end = _ => destruct X as [reg1| | |] eqn:Eli; try discriminate
    end.
    assert (Hreg' : reg' = reg1).
    { destruct (check_overrides d stack f (symbol_names (getf d f))) as [e|];
        [destruct e; discriminate | inversion H; reflexivity]. }
    subst reg1. clear H.
    assert (Hinv1 : Inv (reg ++ [(f, p)])).
    { destruct Hinv as [Hnd Hwk]. split.
      - rewrite map_app. simpl.
        apply NoDup_snoc; [exact Hnd | apply registered_false; exact Hreg].
      - intros c g q Hin. apply in_app_or in Hin. destruct Hin as [Hin|[Hin|[]]].
        + apply (Hwk c). exact Hin.
        + inversion Hin; subst. apply Hw. exact c. }
    assert (Hld : ld_ok f (fun i t m reg0 => load k d ((f, i) :: stack) t (p ++ [m]) reg0)).
    { intros i t m reg0 reg0' Hinv0 Hreg0 Hm Hl.
      apply (IH _ _ _ _ _ Hinv0 Hreg0) in Hl; [exact Hl|].
      intro c. rewrite walk_app, (Hw c). simpl. rewrite (Hm c). reflexivity. }
    assert (Himps : C -> forall m t, In (m, t) (f_imports (getf d f)) ->
                                     imp_target d f m = Some t).
    { intros c m t Hin. apply (C_imports c). exact Hin. }
    destruct (load_imports_inv f _ (length d) Hld _ _ _ _ Himps Hinv1 Eli) as [Hinv' [ext E]].
    split; [exact Hinv'|].
    exists ((f, p) :: ext). rewrite E. rewrite <- app_assoc. reflexivity.
  Qed.
End Loader.

(* ---- corollaries for Grammar.from_file(root) ------------------------------- *)

Lemma inv_nil : forall d C, Inv d C [].
Proof. intros d C. split; [constructor | intros _ g q []]. Qed.

Lemma load_root_once : forall fuel d reg,
  load_root fuel d = LOk reg -> NoDup (map fst reg).
Proof.
  intros fuel d reg H. unfold load_root in H.
  destruct (load_inv d False (fun c => match c with end) fuel [] 0%nat [] [] reg
                     (inv_nil d False) eq_refl (fun c => match c with end) H) as [[Hnd _] _].
  exact Hnd.
Qed.

Lemma load_root_paths : forall fuel d reg, imports_consistent d ->
  load_root fuel d = LOk reg ->
  forall f p, In (f, p) reg -> walk d 0%nat p = Some f.
Proof.
  intros fuel d reg Hc H f p Hin. unfold load_root in H.
  destruct (load_inv d True (fun _ => Hc) fuel [] 0%nat [] [] reg
                     (inv_nil d True) eq_refl (fun _ => eq_refl) H) as [[_ Hw] _].
  apply (Hw I). exact Hin.
Qed.

Lemma path_of_in : forall reg f p,
  NoDup (map fst reg) -> In (f, p) reg -> path_of reg f = p.
Proof.
  induction reg as [|[g q] r IH]; intros f p Hnd Hin; [destruct Hin|].
  simpl in *. inversion Hnd; subst. destruct Hin as [Hin|Hin].
  - inversion Hin; subst. rewrite Nat.eqb_refl. reflexivity.
  - destruct (Nat.eqb g f) eqn:E.
    + apply Nat.eqb_eq in E. subst g. exfalso. apply H1.
      apply in_map_iff. exists (f, p). split; [reflexivity | exact Hin].
    + apply IH; assumption.
Qed.

Lemma reference_meaning : forall fuel d reg,
  imports_consistent d -> no_dotted_names d -> load_root fuel d = LOk reg ->
  forall f nm, In f (map fst reg) -> nm <> [] ->
    resolve d [] 0%nat (path_of reg f ++ nm) = resolve d [] f nm.
Proof.
  intros fuel d reg Hc Hnd H f nm Hin Hnm.
  apply in_map_iff in Hin. destruct Hin as [[g p] [E Hin]]. simpl in E. subst g.
  rewrite (path_of_in reg f p (load_root_once _ _ _ H) Hin).
  apply resolve_modular_walk; try assumption.
  apply (load_root_paths fuel d reg Hc H). exact Hin.
Qed.

Lemma reference_denotation : forall fuel d reg,
  imports_consistent d -> no_dotted_names d -> load_root fuel d = LOk reg ->
  forall f nm g n k, In f (map fst reg) -> nm <> [] ->
    (resolve d [] 0%nat (path_of reg f ++ nm) = RFound g n k <->
     spec_resolve d f nm = Some (g, n, k)).
Proof.
  intros fuel d reg Hc Hnd H f nm g n k Hin Hnm.
  rewrite (reference_meaning fuel d reg Hc Hnd H f nm Hin Hnm).
  apply resolve_spec. exact Hnd.
Qed.

(* ---- checkers --------------------------------------------------------------- *)

Lemma getf_cases : forall d f, In (getf d f) d \/ getf d f = empty_file.
Proof.
  intros d f. unfold getf. destruct (Nat.lt_ge_cases f (length d)) as [H|H].
  - left. apply nth_In. exact H.
  - right. apply nth_overflow. exact H.
Qed.

Lemma no_dotted_check_sound : forall d, no_dotted_check d = true -> no_dotted_names d.
Proof.
  intros d H f nm Hl. unfold no_dotted_check in H. rewrite forallb_forall in H.
  destruct (getf_cases d f) as [Hin|He].
  - specialize (H _ Hin). apply andb_true_iff in H. destruct H as [Hp Ht].
    rewrite forallb_forall in Hp, Ht.
    unfold local_lookup in Hl.
    destruct (existsb (fun pr => name_eqb (fst pr) nm) (f_prods (getf d f))) eqn:Ep.
    + apply existsb_exists in Ep. destruct Ep as [pr [Hpr E]]. apply name_eqb_eq in E.
      specialize (Hp _ Hpr). rewrite E in Hp. destruct nm as [|x [|y r]]; try discriminate.
      exists x. reflexivity.
    + destruct (find (fun t => name_eqb (fst t) nm) (f_terms (getf d f))) as [t|] eqn:Ef.
      * apply find_some in Ef. destruct Ef as [Hin' E]. apply name_eqb_eq in E.
        specialize (Ht _ Hin'). rewrite E in Ht. destruct nm as [|x [|y r]]; try discriminate.
        exists x. reflexivity.
      * destruct nm as [|x [|y r]]; try (exfalso; apply Hl; reflexivity).
        exists x. reflexivity.
  - rewrite He in Hl. exfalso. apply Hl. unfold local_lookup. simpl.
    destruct nm as [|x [|y r]]; reflexivity.
Qed.

Lemma imports_consistent_check_sound : forall d,
  imports_consistent_check d = true -> imports_consistent d.
Proof.
  intros d H f m t Hin. unfold imports_consistent_check in H. rewrite forallb_forall in H.
  destruct (getf_cases d f) as [Hf|He].
  - specialize (H _ Hf). rewrite forallb_forall in H. specialize (H _ Hin). simpl in H.
    unfold imp_target. destruct (find_import (getf d f) m) as [[i t']|]; [|discriminate].
    apply Nat.eqb_eq in H. subst. reflexivity.
  - rewrite He in Hin. destruct Hin.
Qed.
