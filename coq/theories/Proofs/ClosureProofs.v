(* The model of closure / _new_item_follow (Model/Closure.v):
     - the result keeps the given items in place (same production and dot, follow sets
       only grow) and only appends items with the dot at position 0      (closure_ext);
     - it is CLOSED: for every item A -> alpha . B beta [L] and every production B -> gamma
       the item B -> . gamma is present, and in LR_1 mode its follow set contains
       _new_item_follow of the source item                                (closure_closed);
     - it is SOUND: every appended item B -> . gamma has an item with B after the dot in
       the result, and every lookahead that is not one of the given ones comes from
       _new_item_follow of such an item                                   (closure_sound);
     - items stay pairwise different as (production, dot)                  (closure_nodup);
     - _new_item_follow is FIRST(beta), plus the follow of the source item when beta is
       nullable, in terms of the validator's FIRST/nullable tables         (nif_spec). *)
From Coq Require Import NArith List Bool Lia Arith.
From PV Require Import Spec.Cfg Model.First Model.Closure Model.TableSpec Validators.TableComplete
  Proofs.SetProofs Proofs.CompleteProofs Proofs.FirstProofs Proofs.FollowProofs.
Import ListNotations.
Local Open Scope N_scope.

Definition pd (it : item) : N * nat := (it_p it, it_d it).
Definition fsub (a b : nset) : Prop := forall y, In y a -> In y b.

Lemma fsub_refl a : fsub a a.
Proof. intros y H. exact H. Qed.
Lemma fsub_trans a b c : fsub a b -> fsub b c -> fsub a c.
Proof. intros H1 H2 y H. auto. Qed.

(* ---- lists ------------------------------------------------------------------------ *)
Lemma nth_error_map_nth {X} (f : X -> X) l : forall j i,
  nth_error (map_nth j f l) i =
  if Nat.eqb i j then option_map f (nth_error l i) else nth_error l i.
Proof.
  induction l as [|x r IH]; intros [|j] [|i]; cbn; auto;
    try (destruct (Nat.eqb i j); reflexivity).
Qed.

Lemma nth_error_ext_eq {X} (l : list X) : forall l',
  (forall i, nth_error l i = nth_error l' i) -> l = l'.
Proof.
  induction l as [|x r IH]; intros [|y r'] H.
  - reflexivity.
  - specialize (H O). discriminate.
  - specialize (H O). discriminate.
  - pose proof (H O) as H0. cbn in H0. inversion H0; subst. f_equal.
    apply IH. intros i. exact (H (S i)).
Qed.

Lemma map_nth_length {X} (f : X -> X) l j : length (map_nth j f l) = length l.
Proof. revert j. induction l as [|x r IH]; intros [|j]; cbn; auto. Qed.

Lemma nth_error_app_new {X} (l : list X) x : nth_error (l ++ [x]) (length l) = Some x.
Proof. rewrite nth_error_app2 by lia. rewrite Nat.sub_diag. reflexivity. Qed.

Lemma In_nth_error_iff {X} (l : list X) x : In x l <-> exists i, nth_error l i = Some x.
Proof.
  split; [apply In_nth_error|]. intros (i & H). eapply nth_error_In. exact H.
Qed.

(* ---- ProductionRHS on right-hand sides with EMPTY only at the end ----------------- *)
Section RHS.
  Variable e : N.

  Notation trailing_emptyb := (trailing_emptyb e).

  Lemma strip_all_empty r : forallb (is_EMPTY e) r = true -> strip e r = [].
  Proof.
    induction r as [|x r IH]; cbn; [reflexivity|]. intros H. apply andb_true_iff in H.
    destruct H as [Hx Hr]. rewrite Hx. cbn. apply IH. exact Hr.
  Qed.

  Lemma find_all_empty r : forallb (is_EMPTY e) r = true ->
    find (fun x => negb (is_EMPTY e x)) r = None.
  Proof.
    induction r as [|x r IH]; cbn; [reflexivity|]. intros H. apply andb_true_iff in H.
    destruct H as [Hx Hr]. rewrite Hx. cbn. apply IH. exact Hr.
  Qed.

  Lemma forallb_skipn {X} (f : X -> bool) l i : forallb f l = true -> forallb f (skipn i l) = true.
  Proof.
    revert i. induction l as [|x r IH]; intros [|i] H; cbn in *; auto.
    apply andb_true_iff in H. apply IH. tauto.
  Qed.

  (* rhs[i] is the i-th symbol of the stripped right-hand side *)
  Lemma rget_strip r : trailing_emptyb r = true -> forall i, rget e r i = nth_error (strip e r) i.
  Proof.
    unfold rget. induction r as [|x r IH]; intros Ht i.
    - destruct i; reflexivity.
    - cbn [trailing_emptyb] in Ht. destruct (is_EMPTY e x) eqn:Ex.
      + assert (Hall : forallb (is_EMPTY e) (x :: r) = true) by (cbn; rewrite Ex; exact Ht).
        rewrite (strip_all_empty _ Hall). rewrite find_all_empty by (apply forallb_skipn; exact Hall).
        destruct i; reflexivity.
      + unfold strip. cbn [filter]. rewrite Ex. cbn [negb]. destruct i as [|i]; cbn [skipn nth_error].
        * cbn [find]. rewrite Ex. reflexivity.
        * apply IH. exact Ht.
  Qed.

  (* rhs[i:] stripped is the stripped right-hand side from i on *)
  Lemma rslice_strip r : trailing_emptyb r = true -> forall i,
    (i <= rlen e r)%nat -> strip e (rslice r i) = skipn i (strip e r).
  Proof.
    unfold rslice, rlen. induction r as [|x r IH]; intros Ht i Hi.
    - destruct i; reflexivity.
    - cbn [trailing_emptyb] in Ht. destruct (is_EMPTY e x) eqn:Ex.
      + assert (Hall : forallb (is_EMPTY e) (x :: r) = true) by (cbn; rewrite Ex; exact Ht).
        rewrite (strip_all_empty _ Hall).
        rewrite (strip_all_empty _ (forallb_skipn _ _ i Hall)). destruct i; reflexivity.
      + cbn [filter] in Hi. rewrite Ex in Hi. cbn [negb length] in Hi.
        destruct i as [|i]; [reflexivity|]. cbn [skipn]. unfold strip at 2. cbn [filter].
        rewrite Ex. cbn [negb skipn]. apply IH; [exact Ht|lia].
  Qed.
End RHS.

Section ClosureCorrect.
  Variable ps : list prod.
  Variable e : N.
  Variable lr1 : bool.
  Variable fs : fsets.

  Notation rhs_raw := (rhs_raw ps).
  Notation item_sym := (item_sym ps e).
  Notation new_item_follow := (new_item_follow ps e fs).
  Notation add_prod := (add_prod lr1).
  Notation closure_loop := (closure_loop ps e lr1 fs).
  Notation closure := (closure ps e lr1 fs).

  (* ---- find_item / set_follow ----------------------------------------------------- *)
  Lemma find_item_some p d its : forall k j,
    find_item p d its k = Some j ->
    (k <= j)%nat /\ exists it, nth_error its (j - k) = Some it /\ pd it = (p, d) /\
    forall i it', (i < j - k)%nat -> nth_error its i = Some it' -> pd it' <> (p, d).
  Proof.
    induction its as [|it r IH]; intros k j H; cbn [find_item] in H; [discriminate|].
    destruct ((it_p it =? p) && Nat.eqb (it_d it) d) eqn:E.
    - inversion H; subst j. split; [lia|]. rewrite Nat.sub_diag. exists it.
      apply andb_true_iff in E. destruct E as [E1 E2]. apply N.eqb_eq in E1. apply Nat.eqb_eq in E2.
      split; [reflexivity|]. split; [unfold pd; congruence|]. intros i it' Hi. lia.
    - destruct (IH _ _ H) as (Hle & it' & Hn & Hpd & Hfirst). split; [lia|].
      exists it'. replace (j - k)%nat with (S (j - S k)) by lia. split; [exact Hn|].
      split; [exact Hpd|]. intros i it'' Hi Hn'. destruct i as [|i]; cbn in Hn'.
      + inversion Hn'; subst it''. unfold pd. intros Eq. inversion Eq; subst.
        rewrite N.eqb_refl, Nat.eqb_refl in E. discriminate.
      + apply (Hfirst i it''); [lia|exact Hn'].
  Qed.

  Lemma find_item_none p d its : forall k,
    find_item p d its k = None -> forall it, In it its -> pd it <> (p, d).
  Proof.
    induction its as [|it r IH]; intros k H it' Hin; [destruct Hin|].
    cbn [find_item] in H. destruct ((it_p it =? p) && Nat.eqb (it_d it) d) eqn:E; [discriminate|].
    destruct Hin as [<-|Hin]; [|eapply IH; eassumption].
    unfold pd. intros Eq. inversion Eq; subst. rewrite N.eqb_refl, Nat.eqb_refl in E. discriminate.
  Qed.

  Lemma find_item_0 p d its j :
    find_item p d its 0 = Some j ->
    exists it, nth_error its j = Some it /\ pd it = (p, d).
  Proof.
    intros H. destruct (find_item_some p d its 0 j H) as (_ & it & Hn & Hpd & _).
    rewrite Nat.sub_0_r in Hn. exists it. auto.
  Qed.

  Lemma nth_error_set_follow j f its i :
    nth_error (set_follow j f its) i =
    if Nat.eqb i j then option_map (fun it => mkItem (it_p it) (it_d it) f) (nth_error its i)
    else nth_error its i.
  Proof. unfold set_follow. apply nth_error_map_nth. Qed.

  Lemma set_follow_length j f its : length (set_follow j f its) = length its.
  Proof. unfold set_follow. apply map_nth_length. Qed.

  Lemma follow_at_nth its j it : nth_error its j = Some it -> follow_at its j = it_f it.
  Proof. intros H. unfold follow_at. rewrite H. reflexivity. Qed.

  (* ---- the extension relation between (items, work list) pairs --------------------- *)
  Record ext (its : list item) (w : list nat) (its' : list item) (w' : list nat) : Prop := mkExt {
    ext_len : (length its <= length its')%nat;
    ext_old : forall i it, nth_error its i = Some it ->
              exists it', nth_error its' i = Some it' /\ pd it' = pd it /\
                          fsub (it_f it) (it_f it') /\ (it' = it \/ In i w');
    ext_new : forall i, (length its <= i < length its')%nat ->
              In i w' /\ exists it', nth_error its' i = Some it' /\ it_d it' = O;
    ext_w : forall i, In i w -> In i w'
  }.

  Lemma ext_refl its w : ext its w its w.
  Proof.
    constructor; [lia| | |auto].
    - intros i it H. exists it. split; [exact H|]. split; [reflexivity|].
      split; [apply fsub_refl|left; reflexivity].
    - intros i Hi. lia.
  Qed.

  Lemma ext_trans its w its1 w1 its2 w2 :
    ext its w its1 w1 -> ext its1 w1 its2 w2 -> ext its w its2 w2.
  Proof.
    intros [L1 O1 N1 W1] [L2 O2 N2 W2]. constructor; [lia| | |auto].
    - intros i it H. destruct (O1 i it H) as (it1 & H1 & P1 & F1 & C1).
      destruct (O2 i it1 H1) as (it2 & H2 & P2 & F2 & C2).
      exists it2. split; [exact H2|]. split; [congruence|]. split; [eapply fsub_trans; eassumption|].
      destruct C2 as [->|C2]; [|right; exact C2].
      destruct C1 as [->|C1]; [left; reflexivity|right; apply W2; exact C1].
    - intros i Hi. destruct (Nat.lt_ge_cases i (length its1)) as [Hlt|Hge].
      + destruct (N1 i ltac:(lia)) as (Hw & it1 & H1 & D1).
        split; [apply W2; exact Hw|].
        destruct (O2 i it1 H1) as (it2 & H2 & P2 & _). exists it2. split; [exact H2|].
        unfold pd in P2. inversion P2. congruence.
      + apply N2. lia.
  Qed.

  (* ---- one production of the symbol after the dot ---------------------------------- *)
  Definition has_q0 (its : list item) (q : N) (fol : nset) : Prop :=
    exists j, In j its /\ pd j = (q, O) /\ (lr1 = true -> fsub fol (it_f j)).

  Definition pd_nodup (its : list item) : Prop := NoDup (map pd its).

  Lemma add_prod_spec fol its w q :
    let st' := add_prod fol (its, w) q in
    ext its w (fst st') (snd st') /\ has_q0 (fst st') q fol /\
    (pd_nodup its -> pd_nodup (fst st')).
  Proof.
    cbn zeta. unfold add_prod. destruct (find_item q 0 its 0) as [j|] eqn:Ef.
    - destruct (find_item_0 q 0 its j Ef) as (ej & Hj & Hpd).
      destruct lr1 eqn:Elr.
      + rewrite (follow_at_nth its j ej Hj).
        destruct (nsubset fol (it_f ej)) eqn:Es.
        * cbn [fst snd]. split; [apply ext_refl|]. split; [|auto].
          exists ej. split; [eapply nth_error_In; exact Hj|]. split; [exact Hpd|].
          intros _. exact (proj1 (nsubset_spec _ _) Es).
        * cbn [fst snd]. split; [|split].
          -- constructor; [rewrite set_follow_length; lia| | |intros i Hi; right; exact Hi].
             ++ intros i it Hi. rewrite nth_error_set_follow.
                destruct (Nat.eqb_spec i j) as [->|Hne].
                ** rewrite Hj in Hi. inversion Hi; subst it. rewrite Hj. cbn [option_map].
                   eexists. split; [reflexivity|]. split; [reflexivity|]. cbn [it_f].
                   split; [|right; left; reflexivity].
                   intros y Hy. apply nunion_In. left. exact Hy.
                ** exists it. split; [exact Hi|]. split; [reflexivity|].
                   split; [apply fsub_refl|left; reflexivity].
             ++ intros i Hi. rewrite set_follow_length in Hi. lia.
          -- exists (mkItem (it_p ej) (it_d ej) (nunion (it_f ej) fol)).
             split; [|split; [exact Hpd|]].
             ++ apply In_nth_error_iff. exists j. rewrite nth_error_set_follow, Nat.eqb_refl, Hj.
                reflexivity.
             ++ intros _ y Hy. cbn [it_f]. apply nunion_In. right. exact Hy.
          -- intros Hnd. unfold pd_nodup in *.
             replace (map pd (set_follow j (nunion (it_f ej) fol) its)) with (map pd its); [exact Hnd|].
             apply nth_error_ext_eq. intros i. rewrite !nth_error_map, nth_error_set_follow.
             destruct (Nat.eqb_spec i j) as [->|Hne]; [|reflexivity]. rewrite Hj. reflexivity.
      + cbn [fst snd]. split; [apply ext_refl|]. split; [|auto].
        exists ej. split; [eapply nth_error_In; exact Hj|]. split; [exact Hpd|]. intros Hl; congruence.
    - cbn [fst snd]. split; [|split].
      + constructor; [rewrite app_length; lia| | |intros i Hi; right; exact Hi].
        * intros i it Hi. exists it. split; [rewrite nth_error_app1; [exact Hi|]|].
          -- apply nth_error_Some. congruence.
          -- split; [reflexivity|]. split; [apply fsub_refl|left; reflexivity].
        * intros i Hi. rewrite app_length in Hi. cbn [length] in Hi.
          assert (i = length its) by lia. subst i. split; [left; reflexivity|].
          eexists. split; [apply nth_error_app_new|reflexivity].
      + exists (mkItem q 0 fol). split; [apply in_or_app; right; left; reflexivity|].
        split; [reflexivity|]. intros _. apply fsub_refl.
      + intros Hnd. unfold pd_nodup in *. rewrite map_app. cbn [map].
        apply NoDup_rev in Hnd. rewrite <- (rev_involutive (_ ++ _)). apply NoDup_rev.
        rewrite rev_app_distr. cbn [rev app]. constructor; [|exact Hnd].
        intros Hin. apply in_rev in Hin. apply in_map_iff in Hin. destruct Hin as (it & Hpd & Hit).
        exact (find_item_none q 0 its 0 Ef it Hit Hpd).
  Qed.

  Lemma has_q0_ext its w its' w' q fol :
    ext its w its' w' -> has_q0 its q fol -> has_q0 its' q fol.
  Proof.
    intros [_ O _ _] (j & Hj & Hpd & Hf). apply In_nth_error_iff in Hj. destruct Hj as (i & Hi).
    destruct (O i j Hi) as (j' & Hi' & Hpd' & Hf' & _).
    exists j'. split; [eapply nth_error_In; exact Hi'|]. split; [congruence|].
    intros Hl. eapply fsub_trans; [apply Hf; exact Hl|exact Hf'].
  Qed.

  Lemma add_prods_spec fol qs : forall its w,
    let st' := fold_left (add_prod fol) qs (its, w) in
    ext its w (fst st') (snd st') /\ (forall q, In q qs -> has_q0 (fst st') q fol) /\
    (pd_nodup its -> pd_nodup (fst st')).
  Proof.
    induction qs as [|q r IH]; intros its w; cbn [fold_left]; cbn zeta.
    - split; [apply ext_refl|]. split; [intros q []|auto].
    - destruct (add_prod_spec fol its w q) as (E1 & H1 & N1).
      destruct (add_prod fol (its, w) q) as [its1 w1] eqn:Ea. cbn [fst snd] in *.
      destruct (IH its1 w1) as (E2 & H2 & N2). cbn zeta in *.
      split; [eapply ext_trans; eassumption|]. split; [|auto].
      intros q' [<-|Hq]; [eapply has_q0_ext; eassumption|apply H2; exact Hq].
  Qed.

  (* ---- the work-list loop ------------------------------------------------------------ *)
  Definition closed_item (its : list item) (it : item) : Prop :=
    forall b, item_sym it = Some (NT b) ->
      forall q, In q (prods_of ps b) -> has_q0 its q (new_item_follow it).

  Definition closed (its : list item) : Prop := forall it, In it its -> closed_item its it.

  Definition loop_inv (its : list item) (w : list nat) : Prop :=
    forall i it, nth_error its i = Some it -> In i w \/ closed_item its it.

  Lemma closed_item_ext its w its' w' it :
    ext its w its' w' -> closed_item its it -> closed_item its' it.
  Proof.
    intros He Hc b Hb q Hq. eapply has_q0_ext; [exact He|]. apply Hc with (b := b); assumption.
  Qed.

  Lemma loop_step its i w' it b :
    nth_error its i = Some it -> item_sym it = Some (NT b) ->
    loop_inv its (i :: w') ->
    let st := fold_left (add_prod (if lr1 then new_item_follow it else [])) (prods_of ps b) (its, w') in
    loop_inv (fst st) (snd st).
  Proof.
    intros Hi Hb Hinv. cbn zeta.
    destruct (add_prods_spec (if lr1 then new_item_follow it else []) (prods_of ps b) its w')
      as (He & Hq & _). cbn zeta in *.
    set (st := fold_left _ (prods_of ps b) (its, w')) in *.
    intros k itk Hk. destruct (Nat.lt_ge_cases k (length its)) as [Hlt|Hge].
    - destruct (nth_error its k) as [it0|] eqn:Hk0; [|apply nth_error_None in Hk0; lia].
      destruct (ext_old _ _ _ _ He k it0 Hk0) as (it' & Hk' & Hpd & Hf & Hc).
      rewrite Hk in Hk'. inversion Hk'; subst it'. destruct Hc as [->|Hc]; [|left; exact Hc].
      destruct (Nat.eq_dec k i) as [->|Hne].
      + rewrite Hi in Hk0. inversion Hk0; subst it0. right.
        intros b' Hb' q Hq'. rewrite Hb in Hb'. inversion Hb'; subst b'.
        destruct (Hq q Hq') as (j & Hj & Hpdj & Hfj). exists j. split; [exact Hj|].
        split; [exact Hpdj|]. intros Hl. specialize (Hfj Hl). rewrite Hl in Hfj. exact Hfj.
      + destruct (Hinv k it0 Hk0) as [[Hw|Hw]|Hc]; [congruence| |].
        * left. apply (ext_w _ _ _ _ He). exact Hw.
        * right. eapply closed_item_ext; eassumption.
    - left. apply (ext_new _ _ _ _ He k). split; [exact Hge|]. apply nth_error_Some. congruence.
  Qed.

  Lemma loop_skip its i w' :
    (forall it, nth_error its i = Some it -> forall b, item_sym it <> Some (NT b)) ->
    loop_inv its (i :: w') -> loop_inv its w'.
  Proof.
    intros Hno Hinv k itk Hk. destruct (Hinv k itk Hk) as [[<-|Hw]|Hc]; [|left; exact Hw|right; exact Hc].
    right. intros b Hb. exfalso. exact (Hno itk Hk b Hb).
  Qed.

  (* growth without the work lists *)
  Record grows (its its' : list item) : Prop := mkGrows {
    g_len : (length its <= length its')%nat;
    g_old : forall i it, nth_error its i = Some it ->
            exists it', nth_error its' i = Some it' /\ pd it' = pd it /\ fsub (it_f it) (it_f it');
    g_new : forall i, (length its <= i < length its')%nat ->
            exists it', nth_error its' i = Some it' /\ it_d it' = O
  }.

  Lemma grows_refl its : grows its its.
  Proof.
    constructor; [lia| |intros i Hi; lia].
    intros i it H. exists it. split; [exact H|]. split; [reflexivity|apply fsub_refl].
  Qed.

  Lemma grows_trans a b c : grows a b -> grows b c -> grows a c.
  Proof.
    intros [L1 O1 N1] [L2 O2 N2]. constructor; [lia| |].
    - intros i it H. destruct (O1 i it H) as (it1 & H1 & P1 & F1).
      destruct (O2 i it1 H1) as (it2 & H2 & P2 & F2). exists it2. split; [exact H2|].
      split; [congruence|eapply fsub_trans; eassumption].
    - intros i Hi. destruct (Nat.lt_ge_cases i (length b)) as [Hlt|Hge].
      + destruct (N1 i ltac:(lia)) as (it1 & H1 & D1). destruct (O2 i it1 H1) as (it2 & H2 & P2 & _).
        exists it2. split; [exact H2|]. unfold pd in P2. inversion P2. congruence.
      + apply N2. lia.
  Qed.

  Lemma ext_grows its w its' w' : ext its w its' w' -> grows its its'.
  Proof.
    intros [L O N W]. constructor; [exact L| |].
    - intros i it H. destruct (O i it H) as (it' & H1 & H2 & H3 & _). exists it'. auto.
    - intros i Hi. apply N. exact Hi.
  Qed.

  Lemma grows_In its its' it : grows its its' -> In it its ->
    exists it', In it' its' /\ pd it' = pd it /\ fsub (it_f it) (it_f it').
  Proof.
    intros Hg Hin. apply In_nth_error_iff in Hin. destruct Hin as (i & Hi).
    destruct (g_old _ _ Hg i it Hi) as (it' & Hi' & Hp & Hf). exists it'.
    split; [eapply nth_error_In; exact Hi'|auto].
  Qed.

  (* what one run of the loop guarantees *)
  Lemma closure_loop_spec fuel : forall its w its',
    closure_loop fuel its w = Some its' ->
    loop_inv its w ->
    grows its its' /\ closed its' /\ (pd_nodup its -> pd_nodup its').
  Proof.
    induction fuel as [|f IH]; intros its w its' H Hinv; [discriminate|].
    cbn [Closure.closure_loop] in H. destruct w as [|i w'].
    - inversion H; subst its'. split; [apply grows_refl|]. split; [|auto].
      intros it Hit. apply In_nth_error_iff in Hit. destruct Hit as (k & Hk).
      destruct (Hinv k it Hk) as [[]|Hc]. exact Hc.
    - destruct (nth_error its i) as [it|] eqn:Hi.
      + destruct (item_sym it) as [[t|b]|] eqn:Hs.
        * apply (IH its w' its' H). apply (loop_skip its i w'); [|exact Hinv].
          intros it0 H0 b. rewrite Hi in H0. inversion H0; subst it0. congruence.
        * pose proof (loop_step its i w' it b Hi Hs Hinv) as Hinv'. cbn zeta in Hinv'.
          destruct (add_prods_spec (if lr1 then new_item_follow it else []) (prods_of ps b) its w')
            as (He & _ & Hn). cbn zeta in *.
          destruct (IH _ _ its' H Hinv') as (Hg & Hc & Hn').
          split; [eapply grows_trans; [eapply ext_grows; exact He|exact Hg]|]. split; [exact Hc|auto].
        * apply (IH its w' its' H). apply (loop_skip its i w'); [|exact Hinv].
          intros it0 H0 b. rewrite Hi in H0. inversion H0; subst it0. congruence.
      + apply (IH its w' its' H). apply (loop_skip its i w'); [|exact Hinv].
        intros it0 H0. congruence.
  Qed.

  (* productions of items are productions of the grammar *)
  Definition valid_items (its : list item) : Prop :=
    forall it, In it its -> (N.to_nat (it_p it) < length ps)%nat.

  Lemma prods_of_valid b q : In q (prods_of ps b) -> (N.to_nat q < length ps)%nat.
  Proof.
    unfold prods_of. intros H. apply in_map_iff in H. destruct H as (k & <- & Hk).
    apply filter_In in Hk. destruct Hk as [Hk _]. apply in_seq in Hk. rewrite Nat2N.id. lia.
  Qed.

  Lemma add_prod_valid fol its w q :
    valid_items its -> (N.to_nat q < length ps)%nat -> valid_items (fst (add_prod fol (its, w) q)).
  Proof.
    intros Hv Hq. unfold Closure.add_prod. destruct (find_item q 0 its 0) as [j|].
    - destruct lr1; [|exact Hv]. destruct (nsubset fol (follow_at its j)); [exact Hv|].
      cbn [fst]. intros it Hit. apply In_nth_error_iff in Hit. destruct Hit as (i & Hi).
      rewrite nth_error_set_follow in Hi. destruct (Nat.eqb i j).
      + destruct (nth_error its i) as [it0|] eqn:E; [|discriminate]. cbn in Hi. inversion Hi; subst it.
        cbn. apply Hv. eapply nth_error_In. exact E.
      + apply Hv. eapply nth_error_In. exact Hi.
    - cbn [fst]. intros it Hit. apply in_app_iff in Hit. destruct Hit as [Hit|[<-|[]]]; [auto|exact Hq].
  Qed.

  Lemma add_prods_valid fol qs : forall its w,
    valid_items its -> (forall q, In q qs -> (N.to_nat q < length ps)%nat) ->
    valid_items (fst (fold_left (add_prod fol) qs (its, w))).
  Proof.
    induction qs as [|q r IH]; intros its w Hv Hq; cbn [fold_left]; [exact Hv|].
    pose proof (add_prod_valid fol its w q Hv (Hq q (or_introl eq_refl))) as H1.
    destruct (add_prod fol (its, w) q) as [its1 w1]. cbn [fst] in H1.
    apply IH; [exact H1|]. intros q' Hq'. apply Hq. right. exact Hq'.
  Qed.

  Lemma closure_loop_valid fuel : forall its w its',
    closure_loop fuel its w = Some its' -> valid_items its -> valid_items its'.
  Proof.
    induction fuel as [|f IH]; intros its w its' H Hv; [discriminate|].
    cbn [Closure.closure_loop] in H. destruct w as [|i w'].
    - inversion H; subst. exact Hv.
    - destruct (nth_error its i) as [it|]; [|eapply IH; eassumption].
      destruct (item_sym it) as [[t|b]|]; try (eapply IH; eassumption).
      eapply IH; [exact H|]. apply add_prods_valid; [exact Hv|]. intros q Hq.
      eapply prods_of_valid. exact Hq.
  Qed.

  Lemma closure_valid fuel its its' :
    closure fuel its = Some its' -> valid_items its -> valid_items its'.
  Proof. unfold Closure.closure. apply closure_loop_valid. Qed.

  Lemma loop_inv_init its : loop_inv its (rev (seq 0 (length its))).
  Proof.
    intros i it Hi. left. apply -> in_rev. apply in_seq.
    assert (i < length its)%nat by (apply nth_error_Some; congruence). lia.
  Qed.

  (* closure keeps the given items in place, appends only items with the dot at 0, is
     closed and keeps the items pairwise different *)
  Theorem closure_spec fuel its its' :
    closure fuel its = Some its' ->
    grows its its' /\ closed its' /\ (pd_nodup its -> pd_nodup its').
  Proof.
    unfold Closure.closure. intros H. eapply closure_loop_spec; [exact H|apply loop_inv_init].
  Qed.
End ClosureCorrect.

(* ---- _new_item_follow ------------------------------------------------------------- *)
Section NewItemFollow.
  Variable ps : list prod.
  Variable e : N.
  Variable fs : fsets.

  Notation nif_loop := (nif_loop e fs).

  Lemma nif_loop_mono r : forall acc f f', fsub f f' -> fsub (nif_loop r acc f) (nif_loop r acc f').
  Proof.
    induction r as [|x r IH]; intros acc f f' Hf; cbn [Closure.nif_loop].
    - intros y Hy. apply nunion_In in Hy. apply nunion_In. destruct Hy; auto.
    - destruct (nmem e (nunion acc (sym_first fs x))); [apply IH; exact Hf|apply fsub_refl].
  Qed.

  Lemma new_item_follow_mono p d f f' :
    fsub f f' ->
    fsub (new_item_follow ps e fs (mkItem p d f)) (new_item_follow ps e fs (mkItem p d f')).
  Proof. intros H. unfold new_item_follow. cbn [it_p it_d it_f]. apply nif_loop_mono. exact H. Qed.

  (* what the loop collects, for terminals other than EMPTY *)
  Lemma nif_loop_In r : forall acc f y,
    ~ In e acc -> y <> e ->
    (In y (nif_loop r acc f) <-> In y acc \/ sfirst e fs f r y).
  Proof.
    induction r as [|x r IH]; intros acc f y Hacc Hne; cbn [Closure.nif_loop sfirst].
    - apply nunion_In.
    - destruct (nmem e (nunion acc (sym_first fs x))) eqn:E.
      + apply nmem_In in E. apply nunion_In in E. destruct E as [E|E]; [contradiction|].
        rewrite IH; [|intros H; apply nremove_In in H; tauto|exact Hne].
        rewrite nremove_In, nunion_In. tauto.
      + apply nmem_false in E. rewrite nunion_In.
        assert (~ In e (sym_first fs x)) by (intros H; apply E; apply nunion_In; auto). tauto.
  Qed.

  Lemma nif_loop_no_empty r : forall acc f,
    ~ In e acc -> ~ In e f -> ~ In e (nif_loop r acc f).
  Proof.
    induction r as [|x r IH]; intros acc f Hacc Hf; cbn [Closure.nif_loop].
    - intros H. apply nunion_In in H. tauto.
    - destruct (nmem e (nunion acc (sym_first fs x))) eqn:E.
      + apply IH; [|exact Hf]. intros H. apply nremove_In in H. tauto.
      + apply nmem_false. exact E.
  Qed.

  (* _new_item_follow of an item with a symbol after the dot, in the validator's terms:
     FIRST of the rest of the right-hand side, plus the item's own follow set when the rest
     is nullable *)
  Theorem nif_spec it y :
    trailing_emptyb e (rhs_raw ps (it_p it)) = true ->
    (it_d it < rlen e (rhs_raw ps (it_p it)))%nat -> y <> e ->
    (In y (new_item_follow ps e fs it) <->
     In y (fst_seq (fst_tab_of e fs) (nul_tab_of e fs) (skipn (S (it_d it)) (strip e (rhs_raw ps (it_p it))))) \/
     (nul_seq (nul_tab_of e fs) (skipn (S (it_d it)) (strip e (rhs_raw ps (it_p it)))) = true /\
      In y (it_f it))).
  Proof.
    intros Ht Hd Hne. unfold new_item_follow.
    rewrite nif_loop_In; [|intros []|exact Hne].
    rewrite (sfirst_strip e fs (it_f it) _ y Hne).
    rewrite (rslice_strip e _ Ht (S (it_d it))) by lia. cbn. tauto.
  Qed.
End NewItemFollow.

(* ---- soundness of the closure --------------------------------------------------------- *)
Section ClosureSound.
  Variable ps : list prod.
  Variable e : N.
  Variable lr1 : bool.
  Variable fs : fsets.

  Notation item_sym := (item_sym ps e).
  Notation new_item_follow := (new_item_follow ps e fs).
  Notation add_prod := (add_prod lr1).

  (* there is an item in [its] with the left-hand side of production q after its dot, and
     (LR_1) the lookahead y comes from _new_item_follow of that item *)
  Definition from_source (its : list item) (q : N) (oy : option N) : Prop :=
    exists src, In src its /\ item_sym src = Some (NT (lhs_of ps q)) /\
                match oy with
                | Some y => In y (new_item_follow src)
                | None => True
                end.

  (* [its] is justified relative to the given items [its0] *)
  Definition justified (its0 its : list item) : Prop :=
    forall i it, nth_error its i = Some it ->
      ((length its0 <= i)%nat -> it_d it = O /\ from_source its (it_p it) None) /\
      (forall y, In y (it_f it) ->
         (exists it0, nth_error its0 i = Some it0 /\ In y (it_f it0)) \/
         (it_d it = O /\ from_source its (it_p it) (Some y))).

  Lemma item_sym_pd a b : pd a = pd b -> item_sym a = item_sym b.
  Proof. unfold pd, Closure.item_sym. intros H. inversion H. congruence. Qed.

  Lemma nif_mono_items a b : pd a = pd b -> fsub (it_f a) (it_f b) ->
    fsub (new_item_follow a) (new_item_follow b).
  Proof.
    destruct a as [p d f], b as [p' d' f']. unfold pd. cbn. intros H Hf. inversion H; subst.
    apply new_item_follow_mono. exact Hf.
  Qed.

  Lemma from_source_grows its its' q oy :
    grows its its' -> from_source its q oy -> from_source its' q oy.
  Proof.
    intros Hg (src & Hin & Hs & Hy). destruct (grows_In _ _ _ Hg Hin) as (src' & Hin' & Hp & Hf).
    exists src'. split; [exact Hin'|]. split; [rewrite (item_sym_pd _ _ Hp); exact Hs|].
    destruct oy as [y|]; [|exact I]. eapply nif_mono_items; [symmetry; exact Hp|exact Hf|exact Hy].
  Qed.

  Lemma prods_of_lhs b q : In q (prods_of ps b) -> lhs_of ps q = b.
  Proof.
    unfold prods_of, lhs_of. intros H. apply in_map_iff in H. destruct H as (k & <- & Hk).
    apply filter_In in Hk. destruct Hk as [_ Hk]. rewrite Nat2N.id.
    destruct (nth_error ps k) as [pr|]; [|discriminate]. apply N.eqb_eq in Hk. exact Hk.
  Qed.

  Lemma add_prod_justified its0 its w fol q src :
    justified its0 its -> (length its0 <= length its)%nat ->
    In src its -> item_sym src = Some (NT (lhs_of ps q)) ->
    fsub fol (new_item_follow src) ->
    justified its0 (fst (add_prod fol (its, w) q)).
  Proof.
    intros HJ Hlen Hsrc Hsym Hfol.
    destruct (add_prod_spec lr1 fol its w q) as (He & _ & _). cbn zeta in He.
    pose proof (ext_grows _ _ _ _ He) as Hg.
    assert (Hsrc' : forall y, In y fol -> from_source (fst (add_prod fol (its, w) q)) q (Some y)).
    { intros y Hy. eapply from_source_grows; [exact Hg|]. exists src. auto. }
    revert He Hg Hsrc'. unfold Closure.add_prod.
    destruct (find_item q 0 its 0) as [j|] eqn:Ef.
    - destruct (find_item_0 q 0 its j Ef) as (ej & Hj & Hpd).
      destruct lr1.
      + rewrite (follow_at_nth its j ej Hj). destruct (nsubset fol (it_f ej)).
        * cbn [fst]. intros _ _ _. exact HJ.
        * cbn [fst]. intros He Hg Hsrc' i it Hi. rewrite nth_error_set_follow in Hi.
          destruct (Nat.eqb_spec i j) as [->|Hne].
          -- rewrite Hj in Hi. cbn in Hi. inversion Hi; subst it. cbn [it_p it_d it_f].
             destruct (HJ j ej Hj) as [H1 H2]. unfold pd in Hpd. inversion Hpd as [[Hp Hd]].
             clear Hpd. subst q. split.
             ++ intros Hl. destruct (H1 Hl) as [Hd0 Hfs]. split; [congruence|].
                eapply from_source_grows; [exact Hg|exact Hfs].
             ++ intros y Hy. apply nunion_In in Hy. destruct Hy as [Hy|Hy].
                ** destruct (H2 y Hy) as [Hl|[Hd0 Hfs]]; [left; exact Hl|right].
                   split; [congruence|]. eapply from_source_grows; [exact Hg|exact Hfs].
                ** right. split; [congruence|]. apply Hsrc'. exact Hy.
          -- destruct (HJ i it Hi) as [H1 H2]. split.
             ++ intros Hl. destruct (H1 Hl) as [Hd0 Hfs]. split; [exact Hd0|].
                eapply from_source_grows; [exact Hg|exact Hfs].
             ++ intros y Hy. destruct (H2 y Hy) as [Hl|[Hd0 Hfs]]; [left; exact Hl|right].
                split; [exact Hd0|]. eapply from_source_grows; [exact Hg|exact Hfs].
      + cbn [fst]. intros _ _ _. exact HJ.
    - cbn [fst]. intros He Hg Hsrc' i it Hi.
      destruct (Nat.lt_ge_cases i (length its)) as [Hlt|Hge].
      + rewrite nth_error_app1 in Hi by exact Hlt. destruct (HJ i it Hi) as [H1 H2]. split.
        * intros Hl. destruct (H1 Hl) as [Hd0 Hfs]. split; [exact Hd0|].
          eapply from_source_grows; [exact Hg|exact Hfs].
        * intros y Hy. destruct (H2 y Hy) as [Hl|[Hd0 Hfs]]; [left; exact Hl|right].
          split; [exact Hd0|]. eapply from_source_grows; [exact Hg|exact Hfs].
      + assert (Hi' : (i < length (its ++ [mkItem q 0 fol]))%nat) by (apply nth_error_Some; congruence).
        rewrite app_length in Hi'. cbn [length] in Hi'. assert (i = length its) by lia. subst i.
        rewrite nth_error_app_new in Hi. inversion Hi; subst it. cbn [it_p it_d it_f]. split.
        * intros _. split; [reflexivity|]. eapply from_source_grows; [exact Hg|].
          exists src. auto.
        * intros y Hy. right. split; [reflexivity|]. apply Hsrc'. exact Hy.
  Qed.

  Lemma add_prods_justified its0 fol qs : forall its w src b,
    justified its0 its -> (length its0 <= length its)%nat ->
    In src its -> item_sym src = Some (NT b) ->
    (forall q, In q qs -> lhs_of ps q = b) ->
    fsub fol (new_item_follow src) ->
    justified its0 (fst (fold_left (add_prod fol) qs (its, w))).
  Proof.
    induction qs as [|q r IH]; intros its w src b HJ Hlen Hsrc Hsym Hqs Hfol; cbn [fold_left].
    - exact HJ.
    - assert (Hq : lhs_of ps q = b) by (apply Hqs; left; reflexivity).
      pose proof (add_prod_justified its0 its w fol q src HJ Hlen Hsrc
                    ltac:(rewrite Hq; exact Hsym) Hfol) as HJ1.
      destruct (add_prod_spec lr1 fol its w q) as (He & _ & _). cbn zeta in He.
      pose proof (ext_grows _ _ _ _ He) as Hg.
      destruct (grows_In _ _ _ Hg Hsrc) as (src' & Hin' & Hp & Hf).
      destruct (add_prod fol (its, w) q) as [its1 w1]. cbn [fst snd] in *.
      apply (IH its1 w1 src' b); auto.
      + pose proof (g_len _ _ Hg). lia.
      + rewrite (item_sym_pd _ _ Hp). exact Hsym.
      + intros q' Hq'. apply Hqs. right. exact Hq'.
      + eapply fsub_trans; [exact Hfol|]. apply nif_mono_items; [symmetry; exact Hp|exact Hf].
  Qed.

  Lemma closure_loop_justified its0 fuel : forall its w its',
    closure_loop ps e lr1 fs fuel its w = Some its' ->
    justified its0 its -> (length its0 <= length its)%nat -> justified its0 its'.
  Proof.
    induction fuel as [|f IH]; intros its w its' H HJ Hlen; [discriminate|].
    cbn [Closure.closure_loop] in H. destruct w as [|i w'].
    - inversion H; subst. exact HJ.
    - destruct (nth_error its i) as [it|] eqn:Hi; [|eapply IH; eassumption].
      destruct (item_sym it) as [[t|b]|] eqn:Hs; try (eapply IH; eassumption).
      set (fol := if lr1 then new_item_follow it else []) in *.
      assert (Hfol : fsub fol (new_item_follow it)).
      { unfold fol. destruct lr1; [apply fsub_refl|intros y []]. }
      pose proof (add_prods_justified its0 fol (prods_of ps b) its w' it b HJ Hlen
                    (nth_error_In _ _ Hi) Hs (prods_of_lhs b) Hfol) as HJ1.
      destruct (add_prods_spec lr1 fol (prods_of ps b) its w') as (He & _ & _). cbn zeta in He.
      pose proof (g_len _ _ (ext_grows _ _ _ _ He)) as Hl.
      eapply IH; [exact H|exact HJ1|lia].
  Qed.

  Lemma justified_init its : justified its its.
  Proof.
    intros i it Hi. split.
    - intros Hl. assert (i < length its)%nat by (apply nth_error_Some; congruence). lia.
    - intros y Hy. left. exists it. auto.
  Qed.

  (* every item the closure appends is B -> . gamma for an item of the result with B after
     its dot, and every lookahead that was not given comes from _new_item_follow of such an
     item *)
  Theorem closure_sound fuel its its' :
    closure ps e lr1 fs fuel its = Some its' -> justified its its'.
  Proof.
    unfold Closure.closure. intros H.
    eapply closure_loop_justified; [exact H|apply justified_init|lia].
  Qed.
End ClosureSound.
