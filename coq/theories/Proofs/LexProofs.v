(* Proofs for C07: the scanner's shortcuts (sorted actions, finish flags, early exit on a
   priority drop) against the documented lexical disambiguation order. *)
From Coq Require Import NArith List Bool Lia Sorting.Sorted.
From PV Require Import Spec.LexOrder Model.Table Model.Scan Model.StrTerm Model.LexCell.
Import ListNotations.
Local Open Scope N_scope.

(* ------------------------------------------------------------------ *)
(* generic list facts                                                   *)

Lemma filter_map_ext : forall (A B : Type) (f : B -> bool) (g : A -> B) (h : A -> bool) l,
  (forall x, In x l -> f (g x) = h x) -> filter f (map g l) = map g (filter h l).
Proof.
  induction l as [|a l IH]; intros H; simpl; [reflexivity|].
  rewrite (H a (or_introl eq_refl)).
  rewrite IH by (intros x Hx; apply H; right; exact Hx).
  destruct (h a); reflexivity.
Qed.

Lemma filter_none : forall (A : Type) (f : A -> bool) l,
  (forall x, In x l -> f x = false) -> filter f l = [].
Proof.
  induction l as [|a l IH]; intros H; simpl; [reflexivity|].
  rewrite (H a (or_introl eq_refl)). apply IH. intros x Hx. apply H. right. exact Hx.
Qed.

Lemma hd_all_false : forall flags, Forall (fun f => f = false) flags -> hd false flags = false.
Proof. intros flags H. destruct flags; simpl; [reflexivity|]. inversion H; assumption. Qed.

Lemma tl_all_false : forall flags, Forall (fun f => f = false) flags ->
  Forall (fun f => f = false) (tl flags).
Proof. intros flags H. destruct flags; simpl; [constructor|]. inversion H; assumption. Qed.

(* ------------------------------------------------------------------ *)
(* the sort: sort_acts orders by key; short texts => by priority, then text length       *)

Definition keyge (a b : aterm) : Prop := act_key b <= act_key a.
Definition kordA (a b : aterm) : Prop :=
  at_prior b < at_prior a \/ (at_prior a = at_prior b /\ a_klen b <= a_klen a).
Definition kord (a b : cterm) : Prop := kordA (c_a a) (c_a b).
Definition key_sorted (cell : list cterm) : Prop := StronglySorted kord cell.

Lemma act_key_klen : forall a, act_key a = at_prior a * 1000 + 500 + a_klen a.
Proof. intros a. unfold act_key, a_klen. destruct (at_rec a); reflexivity. Qed.

Lemma insert_act_In : forall x l z, In z (insert_act x l) -> z = x \/ In z l.
Proof.
  induction l as [|y r IH]; intros z H; simpl in H.
  - destruct H as [H|[]]. left. symmetry. exact H.
  - destruct (act_before y x).
    + destruct H as [H|H]; [right; left; exact H|].
      destruct (IH z H) as [E|E]; [left; exact E|right; right; exact E].
    + destruct H as [H|H]; [left; symmetry; exact H|right; exact H].
Qed.

Lemma act_before_true_key : forall y x, act_before y x = true -> keyge y x.
Proof.
  intros y x H. unfold act_before in H. unfold keyge.
  apply orb_true_iff in H. destruct H as [H|H].
  - apply N.ltb_lt in H. lia.
  - apply andb_true_iff in H. destruct H as [H _]. apply N.eqb_eq in H. lia.
Qed.

Lemma act_before_false_key : forall y x, act_before y x = false -> keyge x y.
Proof.
  intros y x H. unfold act_before in H. unfold keyge.
  apply orb_false_iff in H. destruct H as [H _]. apply N.ltb_ge in H. exact H.
Qed.

Lemma insert_act_sorted : forall x l, StronglySorted keyge l -> StronglySorted keyge (insert_act x l).
Proof.
  induction l as [|y r IH]; intros H; simpl.
  - constructor; constructor.
  - apply StronglySorted_inv in H. destruct H as [Hr Hy].
    destruct (act_before y x) eqn:E.
    + constructor; [apply IH; exact Hr|].
      apply Forall_forall. intros z Hz. apply insert_act_In in Hz. destruct Hz as [Hz|Hz].
      * subst z. apply act_before_true_key. exact E.
      * rewrite Forall_forall in Hy. apply Hy. exact Hz.
    + constructor; [constructor; assumption|].
      apply act_before_false_key in E.
      constructor; [exact E|].
      apply Forall_forall. intros z Hz. rewrite Forall_forall in Hy. specialize (Hy z Hz).
      unfold keyge in *. lia.
Qed.

Lemma sort_acts_sorted : forall l, StronglySorted keyge (sort_acts l).
Proof.
  induction l as [|x l IH]; simpl; [constructor|]. apply insert_act_sorted. exact IH.
Qed.

(* the forced hypothesis: text lengths below 1000, so that prior*1000+500+len does not carry
   into the priority digits *)
Definition short_texts (cell : list cterm) : Prop := Forall (fun c => c_klen c < 1000) cell.

Lemma keyge_kord : forall a b, a_klen a < 1000 -> a_klen b < 1000 -> keyge a b -> kordA a b.
Proof.
  intros a b Ha Hb H. unfold keyge in H. rewrite !act_key_klen in H. unfold kordA. lia.
Qed.

Lemma keyge_cell_sorted : forall cell,
  StronglySorted keyge (map c_a cell) -> short_texts cell -> key_sorted cell.
Proof.
  induction cell as [|c r IH]; intros H Hs; [constructor|].
  simpl in H. apply StronglySorted_inv in H. destruct H as [Hr Hc].
  inversion Hs as [|? ? Hc1 Hs1]; subst.
  constructor; [apply IH; assumption|].
  apply Forall_forall. intros d Hd.
  rewrite Forall_forall in Hc. rewrite Forall_forall in Hs1.
  apply keyge_kord; [exact Hc1|apply Hs1; exact Hd|].
  apply Hc. apply in_map. exact Hd.
Qed.

Theorem sorted_by_impl_key_sorted : forall cell,
  sorted_by_impl cell -> short_texts cell -> key_sorted cell.
Proof.
  intros cell [l Hl] Hs. apply keyge_cell_sorted; [|exact Hs]. rewrite Hl. apply sort_acts_sorted.
Qed.

Lemma key_sorted_prior_sorted : forall cell, key_sorted cell -> prior_sorted cell.
Proof.
  induction cell as [|c r IH]; intros H; [constructor|].
  apply StronglySorted_inv in H. destruct H as [Hr Hc].
  constructor; [apply IH; exact Hr|].
  eapply Forall_impl; [|exact Hc]. intros d Hd. unfold kord, kordA in Hd. unfold c_prior. lia.
Qed.

(* ------------------------------------------------------------------ *)
(* finish flags, front to back                                          *)

Definition below_prior (r : list aterm) (b : option N) : option N :=
  match r with [] => b | d :: _ => Some (at_prior d) end.
Fixpoint ffwd (l : list aterm) (b : option N) : list bool :=
  match l with
  | [] => []
  | t :: r => implicit_finish t (below_prior r b) :: ffwd r b
  end.

Lemma finish_rev_snoc : forall a t b,
  finish_flags_rev (a ++ [t]) b = finish_flags_rev a b ++ [implicit_finish t (below_prior (rev a) b)].
Proof.
  induction a as [|x a IH]; intros t b; simpl; [reflexivity|].
  rewrite IH. f_equal. f_equal. f_equal. f_equal.
  destruct (rev a); reflexivity.
Qed.

Lemma finish_flags_ffwd_gen : forall l b, rev (finish_flags_rev (rev l) b) = ffwd l b.
Proof.
  induction l as [|t r IH]; intros b; simpl; [reflexivity|].
  rewrite finish_rev_snoc. rewrite rev_unit. rewrite rev_involutive. rewrite IH. reflexivity.
Qed.

Lemma finish_flags_ffwd : forall l, finish_flags l = ffwd l None.
Proof. intros l. unfold finish_flags. apply finish_flags_ffwd_gen. Qed.

(* an explicit mark is the flag *)
Lemma ffwd_nth_marked : forall l b i t m,
  nth_error l i = Some t -> at_finish t = Some m -> nth_error (ffwd l b) i = Some m.
Proof.
  induction l as [|x r IH]; intros b i t m Hn Hm; destruct i; simpl in *; try discriminate.
  - injection Hn as ->. unfold implicit_finish. rewrite Hm. reflexivity.
  - eapply IH; eassumption.
Qed.

(* ------------------------------------------------------------------ *)
(* the scanner on a cell                                                *)

Section Scanner.
  Variable terms : list term_info.
  Variable rx : N -> N -> option N.
  Variable pos : N.

  (* Scan.recognize, reading priorities from the cell instead of the terminal table *)
  Fixpoint rec_cell (cell : list cterm) (flags : list bool) (last : option N) (acc : list (N * N))
    : list (N * N) :=
    match cell with
    | [] => acc
    | c :: r =>
        let pr := c_prior c in
        let lower := match last with Some lp => pr <? lp | None => false end in
        if lower && negb (match acc with [] => true | _ => false end) then acc
        else
          match rx (c_id c) pos with
          | Some len =>
              if hd false flags then acc ++ [(c_id c, len)]
              else rec_cell r (tl flags) (Some pr) (acc ++ [(c_id c, len)])
          | None => rec_cell r (tl flags) (Some pr) acc
          end
    end.

  Lemma terms_agree_tail : forall c r, terms_agree terms (c :: r) -> terms_agree terms r.
  Proof. intros c r H d Hd. apply H. right. exact Hd. Qed.

  Lemma recognize_cell : forall acts cell,
    map fst acts = map c_id cell -> terms_agree terms cell ->
    forall flags last acc,
      recognize terms rx acts flags pos last acc = rec_cell cell flags last acc.
  Proof.
    induction acts as [|[t al] acts IH]; intros cell Hm Ha flags last acc;
      destruct cell as [|c r]; simpl in Hm; try discriminate; [reflexivity|].
    injection Hm as Ht Hm. simpl in Ht. subst t.
    simpl. destruct (Ha c (or_introl eq_refl)) as [Hp _]. rewrite Hp.
    pose proof (terms_agree_tail _ _ Ha) as Ha'.
    destruct (_ && _); [reflexivity|].
    destruct (rx (c_id c) pos).
    - destruct flags as [|f fr]; simpl.
      + apply IH; assumption.
      + destruct f; [reflexivity|]. apply IH; assumption.
    - destruct flags as [|f fr]; simpl; apply IH; assumption.
  Qed.

  Lemma rec_nil_last : forall cell flags last,
    rec_cell cell flags last [] = rec_cell cell flags None [].
  Proof.
    intros cell flags last. destruct cell as [|c r]; simpl; [reflexivity|].
    rewrite andb_false_r. reflexivity.
  Qed.

  Lemma rec_group : forall r flags P acc,
    acc <> [] -> Forall (fun c => c_prior c <= P) r ->
    rec_cell r flags (Some P) acc = acc ++ group_scan rx pos P (map to_lterm r) flags.
  Proof.
    induction r as [|c r IH]; intros flags P acc Hne Hle; simpl.
    - rewrite app_nil_r. reflexivity.
    - inversion Hle as [|? ? Hc Hr]; subst.
      destruct (c_prior c =? P) eqn:E.
      + apply N.eqb_eq in E. subst P. rewrite N.ltb_irrefl. simpl.
        destruct (rx (c_id c) pos).
        * destruct (hd false flags); [reflexivity|].
          rewrite IH; [rewrite <- app_assoc; reflexivity| |exact Hr].
          intros H. apply app_eq_nil in H. destruct H as [_ H]. discriminate.
        * apply IH; assumption.
      + apply N.eqb_neq in E.
        assert (Hlt : c_prior c <? P = true) by (apply N.ltb_lt; lia).
        rewrite Hlt. destruct acc; [congruence|]. simpl. rewrite app_nil_r. reflexivity.
  Qed.

  Lemma prior_sorted_inv : forall c r, prior_sorted (c :: r) ->
    prior_sorted r /\ Forall (fun d => c_prior d <= c_prior c) r.
  Proof. intros c r H. apply StronglySorted_inv in H. exact H. Qed.

  (* the early exit and last_prior bookkeeping amount to: stay inside the priority of the
     first match *)
  Lemma rec_marks : forall cell flags, prior_sorted cell ->
    rec_cell cell flags None [] = marks_scan rx pos (map to_lterm cell) flags.
  Proof.
    induction cell as [|c r IH]; intros flags Hs; simpl; [reflexivity|].
    apply prior_sorted_inv in Hs. destruct Hs as [Hr Hc].
    destruct (rx (c_id c) pos).
    - destruct (hd false flags); [reflexivity|].
      rewrite rec_group; [reflexivity|discriminate|exact Hc].
    - rewrite rec_nil_last. apply IH. exact Hr.
  Qed.

  (* ---------------------------------------------------------------- *)
  (* facts about the candidates                                        *)

  Lemma matches_In : forall r x, In x (matches rx pos (map to_lterm r)) ->
    exists d, In d r /\ fst x = to_lterm d /\ rx (c_id d) pos = Some (snd x).
  Proof.
    induction r as [|c r IH]; intros x H; simpl in H; [contradiction|].
    destruct (rx (c_id c) pos) eqn:E.
    - destruct H as [H|H].
      + subst x. exists c. simpl. auto.
      + destruct (IH x H) as [d [Hd Hx]]. exists d. split; [right; exact Hd|exact Hx].
    - destruct (IH x H) as [d [Hd Hx]]. exists d. split; [right; exact Hd|exact Hx].
  Qed.

  Lemma matches_prior_le : forall r P, Forall (fun d => c_prior d <= P) r ->
    forall x, In x (matches rx pos (map to_lterm r)) -> l_prior (fst x) <= P.
  Proof.
    intros r P H x Hx. apply matches_In in Hx. destruct Hx as [d [Hd [Hx _]]].
    rewrite Hx. simpl. rewrite Forall_forall in H. apply H. exact Hd.
  Qed.

  Lemma max_prior_le : forall (m : list cand) P,
    (forall x, In x m -> l_prior (fst x) <= P) -> max_prior m <= P.
  Proof.
    induction m as [|a m IH]; intros P H; simpl; [lia|].
    pose proof (H a (or_introl eq_refl)).
    assert (max_prior m <= P) by (apply IH; intros x Hx; apply H; right; exact Hx). lia.
  Qed.

  Lemma keep_prior_cons : forall t n (m : list cand),
    (forall x, In x m -> l_prior (fst x) <= l_prior t) ->
    keep_prior ((t, n) :: m) = (t, n) :: filter (fun x => l_prior (fst x) =? l_prior t) m.
  Proof.
    intros t n m H. unfold keep_prior. simpl.
    pose proof (max_prior_le m _ H) as Hm.
    replace (N.max (l_prior t) (max_prior m)) with (l_prior t) by lia.
    rewrite N.eqb_refl. reflexivity.
  Qed.

  Lemma group_nil : forall r P, Forall (fun c => c_prior c < P) r ->
    filter (fun x : lterm * N => l_prior (fst x) =? P) (matches rx pos (map to_lterm r)) = [].
  Proof.
    intros r P H. apply filter_none. intros x Hx.
    apply matches_In in Hx. destruct Hx as [d [Hd [Hx _]]]. rewrite Hx. simpl.
    rewrite Forall_forall in H. specialize (H d Hd). apply N.eqb_neq. lia.
  Qed.

  Lemma sorted_below : forall c r P, prior_sorted (c :: r) -> c_prior c < P ->
    Forall (fun d => c_prior d < P) (c :: r).
  Proof.
    intros c r P Hs Hc. apply prior_sorted_inv in Hs. destruct Hs as [_ Hr].
    constructor; [exact Hc|]. eapply Forall_impl; [|exact Hr]. intros d Hd. simpl in Hd. lia.
  Qed.

  (* ---------------------------------------------------------------- *)
  (* lexical disambiguation off: all flags false                       *)

  Lemma group_false : forall r P flags,
    Forall (fun f => f = false) flags -> prior_sorted r -> Forall (fun c => c_prior c <= P) r ->
    group_scan rx pos P (map to_lterm r) flags
    = map tok (filter (fun x : lterm * N => l_prior (fst x) =? P) (matches rx pos (map to_lterm r))).
  Proof.
    induction r as [|c r IH]; intros P flags Hf Hs Hle; simpl; [reflexivity|].
    inversion Hle as [|? ? Hc Hr]; subst.
    destruct (c_prior c =? P) eqn:E.
    - pose proof (prior_sorted_inv _ _ Hs) as [Hs' _].
      destruct (rx (c_id c) pos).
      + rewrite (hd_all_false _ Hf). simpl. rewrite E. simpl. unfold tok at 1. simpl.
        f_equal. apply IH; [apply tl_all_false; exact Hf|exact Hs'|exact Hr].
      + apply IH; [apply tl_all_false; exact Hf|exact Hs'|exact Hr].
    - apply N.eqb_neq in E.
      assert (Hb : Forall (fun d => c_prior d < P) (c :: r)) by (apply sorted_below; [exact Hs|lia]).
      pose proof (group_nil (c :: r) P Hb) as Hn. simpl in Hn. rewrite Hn. reflexivity.
  Qed.

  Theorem marks_false_doc_all : forall cell flags,
    prior_sorted cell -> Forall (fun f => f = false) flags ->
    marks_scan rx pos (map to_lterm cell) flags = doc_all rx pos (map to_lterm cell).
  Proof.
    induction cell as [|c r IH]; intros flags Hs Hf; [reflexivity|].
    pose proof (prior_sorted_inv _ _ Hs) as [Hs' Hc].
    unfold doc_all. simpl. destruct (rx (c_id c) pos) eqn:E.
    - rewrite (hd_all_false _ Hf).
      rewrite keep_prior_cons by (apply matches_prior_le; exact Hc).
      simpl. unfold tok at 1. simpl. f_equal.
      apply group_false; [apply tl_all_false; exact Hf|exact Hs'|exact Hc].
    - apply IH; [exact Hs'|apply tl_all_false; exact Hf].
  Qed.
End Scanner.

(* ------------------------------------------------------------------ *)
(* unmarked terminals: the implicit flags never change the documented outcome            *)

Section Unmarked.
  Variable terms : list term_info.
  Variable rx : N -> N -> option N.
  Variable pos : N.

  Definition boundary (c : cterm) (r : list cterm) : bool :=
    match below_prior (map c_a r) None with
    | Some p => if p =? 0 then false else p <? c_prior c
    | None => false
    end.

  Lemma unmarked_flag : forall c r, at_finish (c_a c) = None ->
    implicit_finish (c_a c) (below_prior (map c_a r) None) = boundary c r || c_strlike c.
  Proof.
    intros c r H. unfold implicit_finish, boundary, c_strlike, a_strlike, c_prior. rewrite H.
    destruct (at_rec (c_a c)); reflexivity.
  Qed.

  Lemma boundary_true : forall c r, boundary c r = true -> prior_sorted r ->
    Forall (fun d => c_prior d < c_prior c) r.
  Proof.
    intros c r H Hs. unfold boundary in H. destruct r as [|d r']; simpl in H; [discriminate|].
    destruct (at_prior (c_a d) =? 0); [discriminate|]. apply N.ltb_lt in H.
    apply sorted_below; [exact Hs|exact H].
  Qed.

  Lemma nonstr_klen : forall c, c_strlike c = false -> c_klen c = 0.
  Proof.
    intros c H. unfold c_strlike, a_strlike in H. unfold c_klen, a_klen.
    destruct (at_rec (c_a c)); try discriminate; reflexivity.
  Qed.

  Lemma unmarked_inv : forall c r, unmarked (c :: r) -> at_finish (c_a c) = None /\ unmarked r.
  Proof. intros c r H. inversion H; subst. split; assumption. Qed.

  Lemma group_fwd : forall r P,
    prior_sorted r -> Forall (fun c => c_prior c <= P) r -> unmarked r ->
    (forall d, In d r -> c_prior d = P -> c_strlike d = true -> rx (c_id d) pos = None) ->
    group_scan rx pos P (map to_lterm r) (ffwd (map c_a r) None)
    = map tok (filter (fun x : lterm * N => l_prior (fst x) =? P) (matches rx pos (map to_lterm r))).
  Proof.
    induction r as [|c r IH]; intros P Hs Hle Hu Hns; simpl; [reflexivity|].
    inversion Hle as [|? ? Hc Hr]; subst.
    pose proof (prior_sorted_inv _ _ Hs) as [Hs' _].
    destruct (unmarked_inv _ _ Hu) as [Hm Hu'].
    assert (Hns' : forall d, In d r -> c_prior d = P -> c_strlike d = true -> rx (c_id d) pos = None)
      by (intros d Hd; apply Hns; right; exact Hd).
    destruct (c_prior c =? P) eqn:E.
    - destruct (rx (c_id c) pos) eqn:Hrx.
      + assert (Hstr : c_strlike c = false).
        { destruct (c_strlike c) eqn:S; [|reflexivity].
          apply N.eqb_eq in E. rewrite (Hns c (or_introl eq_refl) E S) in Hrx. discriminate. }
        rewrite (unmarked_flag c r Hm). rewrite Hstr. rewrite orb_false_r.
        simpl. rewrite E. simpl. unfold tok at 1. simpl.
        destruct (boundary c r) eqn:B.
        * apply boundary_true in B; [|exact Hs']. apply N.eqb_eq in E. rewrite E in B.
          rewrite (group_nil rx pos r P B). reflexivity.
        * f_equal. apply IH; assumption.
      + apply IH; assumption.
    - apply N.eqb_neq in E.
      assert (Hb : Forall (fun d => c_prior d < P) (c :: r)) by (apply sorted_below; [exact Hs|lia]).
      pose proof (group_nil rx pos (c :: r) P Hb) as Hn. simpl in Hn. rewrite Hn. reflexivity.
  Qed.

  (* the model's _lexical_disambiguation is steps 3 and 4 of the documented order *)
  Lemma max_len_map : forall K : list cand, max_len (map tok K) = max_mlen K.
  Proof. induction K as [|a K IH]; simpl; [reflexivity|]. rewrite IH. reflexivity. Qed.

  Lemma lexdis_doc : forall K : list cand,
    (forall x, In x K -> prefer_of terms (l_id (fst x)) = l_prefer (fst x)) ->
    lexical_disambiguation terms (map tok K) = map tok (keep_prefer (keep_longest K)).
  Proof.
    intros K Hp. destruct K as [|x [|y K]].
    - reflexivity.
    - simpl. unfold keep_longest. simpl.
      replace (N.max (snd x) 0) with (snd x) by lia. rewrite N.eqb_refl. reflexivity.
    - remember (x :: y :: K) as KK eqn:HKK.
      assert (E : lexical_disambiguation terms (map tok KK) =
                  let longest := filter (fun t => snd t =? max_len (map tok KK)) (map tok KK) in
                  match longest with
                  | [_] => longest
                  | _ => let pref := filter (fun t => prefer_of terms (fst t)) longest in
                         match pref with
                         | [] => longest
                         | _ => pref
                         end
                  end).
      { rewrite HKK. reflexivity. }
      rewrite E. clear E. cbv zeta.
      rewrite max_len_map.
      rewrite (filter_map_ext _ _ (fun t => snd t =? max_mlen KK) tok
                              (fun x => snd x =? max_mlen KK) KK) by reflexivity.
      change (filter (fun x : cand => snd x =? max_mlen KK) KK) with (keep_longest KK).
      assert (Hsub : forall z, In z (keep_longest KK) -> In z KK)
        by (intros z Hz; unfold keep_longest in Hz; apply filter_In in Hz; apply Hz).
      destruct (keep_longest KK) as [|a [|b LK]] eqn:HL.
      + reflexivity.
      + reflexivity.
      + assert (Hpf : filter (fun t => prefer_of terms (fst t)) (map tok (a :: b :: LK))
                      = map tok (filter (fun x : lterm * N => l_prefer (fst x)) (a :: b :: LK))).
        { apply filter_map_ext. intros z Hz. simpl. apply Hp. apply Hsub. exact Hz. }
        change (keep_prefer (a :: b :: LK))
          with (match filter (fun x : lterm * N => l_prefer (fst x)) (a :: b :: LK) with
                | [] => a :: b :: LK
                | p => p
                end).
        rewrite Hpf.
        generalize (filter (fun x : lterm * N => l_prefer (fst x)) (a :: b :: LK)).
        intros PF. destruct PF; reflexivity.
  Qed.

  Lemma max_mlen_le : forall (S : list cand) n, (forall x, In x S -> snd x <= n) -> max_mlen S <= n.
  Proof.
    induction S as [|a S IH]; intros n H; simpl; [lia|].
    pose proof (H a (or_introl eq_refl)).
    assert (max_mlen S <= n) by (apply IH; intros x Hx; apply H; right; exact Hx). lia.
  Qed.

  Lemma keep_longest_head : forall t n (S : list cand),
    (forall x, In x S -> snd x < n) -> keep_longest ((t, n) :: S) = [(t, n)].
  Proof.
    intros t n S H. unfold keep_longest. simpl.
    assert (Hm : max_mlen S <= n) by (apply max_mlen_le; intros x Hx; specialize (H x Hx); lia).
    replace (N.max n (max_mlen S)) with n by lia. rewrite N.eqb_refl.
    rewrite filter_none; [reflexivity|].
    intros x Hx. specialize (H x Hx). apply N.eqb_neq. lia.
  Qed.

  Lemma keep_specific_nostr : forall m : list cand,
    (forall x, In x m -> l_str (fst x) = false) -> keep_specific m = m.
  Proof.
    intros m H. unfold keep_specific.
    destruct (existsb (fun x : lterm * N => l_str (fst x)) m) eqn:E; [|reflexivity].
    apply existsb_exists in E. destruct E as [x [Hx Hxs]]. rewrite (H x Hx) in Hxs. discriminate.
  Qed.

  Lemma key_sorted_inv : forall c r, key_sorted (c :: r) -> key_sorted r /\ Forall (kord c) r.
  Proof. intros c r H. apply StronglySorted_inv in H. exact H. Qed.

  Lemma rx_nonempty_tail : forall c r, rx_nonempty rx pos (c :: r) -> rx_nonempty rx pos r.
  Proof. intros c r H d n Hd. apply H. right. exact Hd. Qed.
  Lemma str_len_ok_tail : forall c r, str_len_ok rx pos (c :: r) -> str_len_ok rx pos r.
  Proof. intros c r H d n Hd. apply H. right. exact Hd. Qed.
  Lemma no_str_tie_inv : forall c r, no_str_tie rx pos (c :: r) ->
    Forall (fun d => ~ str_tie rx pos c d) r /\ no_str_tie rx pos r.
  Proof. intros c r H. inversion H; subst. split; assumption. Qed.

  Theorem marks_unmarked_doc : forall cell,
    key_sorted cell -> unmarked cell -> terms_agree terms cell ->
    rx_nonempty rx pos cell -> str_len_ok rx pos cell -> no_str_tie rx pos cell ->
    lexical_disambiguation terms (marks_scan rx pos (map to_lterm cell) (ffwd (map c_a cell) None))
    = doc_choice rx pos (map to_lterm cell).
  Proof.
    induction cell as [|c r IH]; intros Hk Hu Ha Hne Hsl Hnt; [reflexivity|].
    pose proof (key_sorted_inv _ _ Hk) as [Hk' Hkc].
    pose proof (key_sorted_prior_sorted _ Hk) as Hs.
    pose proof (prior_sorted_inv _ _ Hs) as [Hs' Hpc].
    destruct (unmarked_inv _ _ Hu) as [Hm Hu'].
    destruct (no_str_tie_inv _ _ Hnt) as [Htc Hnt'].
    unfold doc_choice. simpl. destruct (rx (c_id c) pos) as [n|] eqn:Hrx.
    2:{ apply IH; try assumption.
        - eapply terms_agree_tail; exact Ha.
        - eapply rx_nonempty_tail; exact Hne.
        - eapply str_len_ok_tail; exact Hsl. }
    rewrite (unmarked_flag c r Hm).
    rewrite keep_prior_cons by (apply matches_prior_le; exact Hpc).
    set (Mr := matches rx pos (map to_lterm r)).
    set (G := filter (fun x : lterm * N => l_prior (fst x) =? l_prior (to_lterm c)) Mr).
    assert (HG : forall x, In x G -> exists d, In d r /\ fst x = to_lterm d /\
                      rx (c_id d) pos = Some (snd x) /\ c_prior d = c_prior c).
    { intros x Hx. unfold G in Hx. apply filter_In in Hx. destruct Hx as [Hx Hp].
      apply matches_In in Hx. destruct Hx as [d [Hd [Hf Hr]]].
      exists d. repeat split; try assumption.
      rewrite Hf in Hp. simpl in Hp. apply N.eqb_eq in Hp. exact Hp. }
    destruct (c_strlike c) eqn:Hstr.
    - (* a string recognizer matches first: it is the only candidate left *)
      rewrite orb_true_r. simpl.
      unfold keep_specific. simpl. rewrite Hstr. simpl.
      rewrite keep_longest_head; [reflexivity|].
      intros x Hx. apply filter_In in Hx. destruct Hx as [Hx Hxs].
      destruct (HG x Hx) as [d [Hd [Hf [Hr Hp]]]].
      rewrite Hf in Hxs. simpl in Hxs.
      assert (Hn : n = c_klen c) by (apply (Hsl c n (or_introl eq_refl) Hstr Hrx)).
      assert (Hx' : snd x = c_klen d) by (apply (Hsl d (snd x) (or_intror Hd) Hxs Hr)).
      rewrite Forall_forall in Hkc. specialize (Hkc d Hd). unfold kord, kordA in Hkc.
      unfold c_prior in Hp. unfold c_klen in *.
      assert (Hle : snd x <= n) by lia.
      assert (Hneq : snd x <> n).
      { intros Heq. rewrite Forall_forall in Htc. apply (Htc d Hd).
        unfold str_tie. repeat split; try assumption.
        - unfold c_prior. lia.
        - exists n. split; [exact Hrx|]. rewrite <- Heq. exact Hr. }
      lia.
    - (* no string recognizer among the top priority matches *)
      rewrite orb_false_r.
      assert (Hns : forall d, In d r -> c_prior d = c_prior c -> c_strlike d = true ->
                              rx (c_id d) pos = None).
      { intros d Hd Hp Hds. destruct (rx (c_id d) pos) as [m|] eqn:Hr; [|reflexivity].
        exfalso.
        assert (Hm1 : 1 <= m) by (apply (Hne d m (or_intror Hd) Hr)).
        assert (Hm2 : m = c_klen d) by (apply (Hsl d m (or_intror Hd) Hds Hr)).
        pose proof (nonstr_klen c Hstr) as Hc0.
        rewrite Forall_forall in Hkc. specialize (Hkc d Hd). unfold kord, kordA in Hkc.
        unfold c_prior in Hp. unfold c_klen in *. lia. }
      assert (HGs : forall x, In x G -> l_str (fst x) = false).
      { intros x Hx. destruct (HG x Hx) as [d [Hd [Hf [Hr Hp]]]]. rewrite Hf. simpl.
        destruct (c_strlike d) eqn:Hds; [|reflexivity].
        rewrite (Hns d Hd Hp Hds) in Hr. discriminate. }
      assert (Hspec : keep_specific ((to_lterm c, n) :: G) = (to_lterm c, n) :: G).
      { apply keep_specific_nostr. intros x [Hx|Hx]; [subst x; exact Hstr|apply HGs; exact Hx]. }
      rewrite Hspec.
      assert (Hscan : (if boundary c r then [(c_id c, n)]
                       else (c_id c, n) :: group_scan rx pos (c_prior c) (map to_lterm r)
                                                      (ffwd (map c_a r) None))
                      = map tok ((to_lterm c, n) :: G)).
      { simpl. unfold tok at 1. simpl. destruct (boundary c r) eqn:B.
        - apply boundary_true in B; [|exact Hs'].
          assert (HGn : G = []) by (exact (group_nil rx pos r (c_prior c) B)).
          rewrite HGn. reflexivity.
        - f_equal. apply group_fwd; assumption. }
      rewrite Hscan.
      apply (lexdis_doc ((to_lterm c, n) :: G)).
      intros x [Hx|Hx].
      + subst x. simpl. apply (Ha c (or_introl eq_refl)).
      + destruct (HG x Hx) as [d [Hd [Hf _]]]. rewrite Hf. simpl. apply (Ha d (or_intror Hd)).
  Qed.
End Unmarked.

(* ------------------------------------------------------------------ *)
(* assembled statements about Scan.recognize / next_tokens              *)

Section Assembled.
  Variable terms : list term_info.
  Variable rx : N -> N -> option N.
  Variable pos : N.

  Theorem recognize_marks : forall acts cell flags,
    map fst acts = map c_id cell -> terms_agree terms cell -> prior_sorted cell ->
    recognize terms rx acts flags pos None [] = marks_scan rx pos (map to_lterm cell) flags.
  Proof.
    intros acts cell flags Hm Ha Hs.
    rewrite (recognize_cell terms rx pos acts cell Hm Ha). apply rec_marks. exact Hs.
  Qed.

  Theorem scan_eq_doc : forall acts cell,
    map fst acts = map c_id cell -> terms_agree terms cell ->
    sorted_by_impl cell -> short_texts cell -> unmarked cell ->
    rx_nonempty rx pos cell -> str_len_ok rx pos cell -> no_str_tie rx pos cell ->
    lexical_disambiguation terms (recognize terms rx acts (impl_flags cell) pos None [])
    = doc_choice rx pos (map to_lterm cell).
  Proof.
    intros acts cell Hm Ha Hsi Hst Hu Hne Hsl Hnt.
    pose proof (sorted_by_impl_key_sorted cell Hsi Hst) as Hk.
    rewrite (recognize_marks acts cell _ Hm Ha (key_sorted_prior_sorted _ Hk)).
    unfold impl_flags. rewrite finish_flags_ffwd.
    apply marks_unmarked_doc; assumption.
  Qed.

  Theorem lexdis_off : forall acts cell flags,
    map fst acts = map c_id cell -> terms_agree terms cell -> prior_sorted cell ->
    Forall (fun f => f = false) flags ->
    recognize terms rx acts flags pos None [] = doc_all rx pos (map to_lterm cell).
  Proof.
    intros acts cell flags Hm Ha Hs Hf.
    rewrite (recognize_marks acts cell flags Hm Ha Hs). apply marks_false_doc_all; assumption.
  Qed.

  (* everything the scanner returns is a match of an expected terminal *)
  Lemma group_scan_In : forall r P flags t,
    In t (group_scan rx pos P (map to_lterm r) flags) ->
    exists d, In d r /\ fst t = c_id d /\ rx (c_id d) pos = Some (snd t).
  Proof.
    induction r as [|c r IH]; intros P flags t H; simpl in H; [contradiction|].
    destruct (c_prior c =? P); [|contradiction].
    destruct (rx (c_id c) pos) eqn:E.
    - destruct (hd false flags).
      + destruct H as [H|[]]. subst t. exists c. simpl. auto.
      + destruct H as [H|H].
        * subst t. exists c. simpl. auto.
        * destruct (IH _ _ _ H) as [d [Hd Hx]]. exists d. split; [right; exact Hd|exact Hx].
    - destruct (IH _ _ _ H) as [d [Hd Hx]]. exists d. split; [right; exact Hd|exact Hx].
  Qed.

  Lemma marks_scan_In : forall cell flags t,
    In t (marks_scan rx pos (map to_lterm cell) flags) ->
    exists d, In d cell /\ fst t = c_id d /\ rx (c_id d) pos = Some (snd t).
  Proof.
    induction cell as [|c r IH]; intros flags t H; simpl in H; [contradiction|].
    destruct (rx (c_id c) pos) eqn:E.
    - destruct (hd false flags).
      + destruct H as [H|[]]. subst t. exists c. simpl. auto.
      + destruct H as [H|H].
        * subst t. exists c. simpl. auto.
        * destruct (group_scan_In _ _ _ _ H) as [d [Hd Hx]]. exists d. split; [right; exact Hd|exact Hx].
    - destruct (IH _ _ H) as [d [Hd Hx]]. exists d. split; [right; exact Hd|exact Hx].
  Qed.

  (* STOP (length 0) loses against any real token *)
  Lemma max_len_attained : forall toks : list (N * N), toks <> [] ->
    exists x, In x toks /\ snd x = max_len toks.
  Proof.
    induction toks as [|a toks IH]; intros H; [congruence|].
    destruct toks as [|b toks'].
    - exists a. split; [left; reflexivity|]. simpl. lia.
    - destruct IH as [x [Hx Hm]]; [discriminate|].
      change (max_len (a :: b :: toks')) with (N.max (snd a) (max_len (b :: toks'))).
      destruct (N.max_spec (snd a) (max_len (b :: toks'))) as [[_ E]|[_ E]]; rewrite E.
      + exists x. split; [right; exact Hx|exact Hm].
      + exists a. split; [left; reflexivity|reflexivity].
  Qed.

  Lemma lexdis_nonempty : forall toks, toks <> [] -> lexical_disambiguation terms toks <> [].
  Proof.
    intros toks H. destruct toks as [|a [|b toks]]; [congruence|discriminate|].
    remember (a :: b :: toks) as T eqn:HT.
    assert (E : lexical_disambiguation terms T =
                let longest := filter (fun t => snd t =? max_len T) T in
                match longest with
                | [_] => longest
                | _ => let pref := filter (fun t => prefer_of terms (fst t)) longest in
                       match pref with [] => longest | _ => pref end
                end) by (rewrite HT; reflexivity).
    rewrite E. cbv zeta.
    destruct (max_len_attained T H) as [x [Hx Hm]].
    assert (Hin : In x (filter (fun t => snd t =? max_len T) T))
      by (apply filter_In; split; [exact Hx|apply N.eqb_eq; exact Hm]).
    destruct (filter (fun t => snd t =? max_len T) T) as [|l1 [|l2 L]] eqn:HL.
    - contradiction.
    - discriminate.
    - destruct (filter (fun t => prefer_of terms (fst t)) (l1 :: l2 :: L)); discriminate.
  Qed.

  Lemma lexdis_stop_drop : forall s toks,
    toks <> [] -> (forall t, In t toks -> 1 <= snd t) ->
    lexical_disambiguation terms ((s, 0) :: toks) = lexical_disambiguation terms toks.
  Proof.
    intros s toks Hne Hge.
    destruct (max_len_attained toks Hne) as [x [Hx Hm]].
    assert (Hpos : 1 <= max_len toks) by (rewrite <- Hm; apply Hge; exact Hx).
    destruct toks as [|a toks']; [congruence|].
    assert (E : lexical_disambiguation terms ((s, 0) :: a :: toks') =
                let longest := filter (fun t => snd t =? max_len ((s, 0) :: a :: toks'))
                                      ((s, 0) :: a :: toks') in
                match longest with
                | [_] => longest
                | _ => let pref := filter (fun t => prefer_of terms (fst t)) longest in
                       match pref with [] => longest | _ => pref end
                end) by reflexivity.
    rewrite E. clear E. cbv zeta.
    change (max_len ((s, 0) :: a :: toks')) with (N.max 0 (max_len (a :: toks'))).
    rewrite N.max_0_l.
    assert (Hs : (snd (s, 0) =? max_len (a :: toks')) = false) by (apply N.eqb_neq; change (snd (s, 0)) with 0; lia).
    change (filter (fun t : N * N => snd t =? max_len (a :: toks')) ((s, 0) :: a :: toks'))
      with (if snd (s, 0) =? max_len (a :: toks')
            then (s, 0) :: filter (fun t : N * N => snd t =? max_len (a :: toks')) (a :: toks')
            else filter (fun t : N * N => snd t =? max_len (a :: toks')) (a :: toks')).
    rewrite Hs.
    destruct toks' as [|b toks''].
    - (* a single real token *)
      simpl. replace (N.max (snd a) 0) with (snd a) by lia. rewrite N.eqb_refl. reflexivity.
    - reflexivity.
  Qed.

  Variable in_len : N.
  Variable stop_id : N.
  Variable consume_input : bool.

  Definition stop_ok (st : state) : bool := has_key stop_id (st_actions st) && negb consume_input.

  Theorem next_tokens_doc : forall st cell,
    cell_of_state st cell -> st_finish st = impl_flags cell -> terms_agree terms cell ->
    sorted_by_impl cell -> short_texts cell -> unmarked cell ->
    rx_nonempty rx pos cell -> str_len_ok rx pos cell -> no_str_tie rx pos cell ->
    pos < in_len ->
    next_tokens terms rx in_len stop_id consume_input true st pos
    = doc_with_stop (stop_ok st) stop_id (doc_choice rx pos (map to_lterm cell)).
  Proof.
    intros st cell Hm Hfl Ha Hsi Hst Hu Hne Hsl Hnt Hpos.
    pose proof (scan_eq_doc (st_actions st) cell Hm Ha Hsi Hst Hu Hne Hsl Hnt) as Hdoc.
    pose proof (sorted_by_impl_key_sorted cell Hsi Hst) as Hk.
    pose proof (recognize_marks (st_actions st) cell (impl_flags cell) Hm Ha
                                (key_sorted_prior_sorted _ Hk)) as Hrm.
    unfold next_tokens. rewrite Hfl.
    assert (Hlt : pos <? in_len = true) by (apply N.ltb_lt; exact Hpos).
    assert (Hneq : pos =? in_len = false) by (apply N.eqb_neq; lia).
    rewrite Hlt, Hneq. rewrite orb_false_r. fold (stop_ok st).
    set (R := recognize terms rx (st_actions st) (impl_flags cell) pos None []) in *.
    destruct (stop_ok st).
    - destruct R as [|a R'] eqn:HR.
      + simpl. simpl in Hdoc. rewrite <- Hdoc. reflexivity.
      + change ([(stop_id, 0)] ++ a :: R') with ((stop_id, 0) :: a :: R').
        rewrite lexdis_stop_drop; [| discriminate |].
        * rewrite Hdoc.
          assert (Hn : doc_choice rx pos (map to_lterm cell) <> [])
            by (rewrite <- Hdoc; apply lexdis_nonempty; discriminate).
          destruct (doc_choice rx pos (map to_lterm cell)); [congruence|reflexivity].
        * intros t Ht. rewrite Hrm in Ht. apply marks_scan_In in Ht.
          destruct Ht as [d [Hd [_ Hr]]]. apply (Hne d (snd t) Hd Hr).
    - simpl. rewrite Hdoc. destruct (doc_choice rx pos (map to_lterm cell)); reflexivity.
  Qed.

  Theorem next_tokens_lexdis_off : forall st cell,
    cell_of_state st cell -> terms_agree terms cell -> prior_sorted cell ->
    Forall (fun f => f = false) (st_finish st) -> pos < in_len ->
    next_tokens terms rx in_len stop_id consume_input false st pos
    = (if stop_ok st then [(stop_id, 0)] else []) ++ doc_all rx pos (map to_lterm cell).
  Proof.
    intros st cell Hm Ha Hs Hf Hpos. unfold next_tokens.
    assert (Hlt : pos <? in_len = true) by (apply N.ltb_lt; exact Hpos).
    assert (Hneq : pos =? in_len = false) by (apply N.eqb_neq; lia).
    rewrite Hlt, Hneq. rewrite orb_false_r. fold (stop_ok st).
    rewrite (lexdis_off (st_actions st) cell (st_finish st) Hm Ha Hs Hf). reflexivity.
  Qed.

  Theorem next_tokens_at_end : forall st lexdis,
    next_tokens terms rx in_len stop_id consume_input lexdis st in_len
    = if has_key stop_id (st_actions st) then [(stop_id, 0)] else [].
  Proof.
    intros st lexdis. unfold next_tokens. rewrite N.ltb_irrefl, N.eqb_refl.
    rewrite orb_true_r, andb_true_r, app_nil_r.
    destruct (has_key stop_id (st_actions st)); destruct lexdis; reflexivity.
  Qed.
End Assembled.

Theorem mark_is_flag : forall (l : list aterm) (i : nat) (t : aterm) (m : bool),
  nth_error l i = Some t -> at_finish t = Some m -> nth_error (finish_flags l) i = Some m.
Proof. intros l i t m Hn Hm. rewrite finish_flags_ffwd. eapply ffwd_nth_marked; eassumption. Qed.

(* ------------------------------------------------------------------ *)
(* what explicit marks do, in user terms                                *)

Section Marks.
  Variable terms : list term_info.
  Variable rx : N -> N -> option N.
  Variable pos : N.

  (* finish: nothing ranked after a matching terminal whose flag is set is ever returned *)
  Lemma group_scan_cut : forall pre c post n P flags t,
    nth_error flags (length pre) = Some true -> rx (c_id c) pos = Some n ->
    In t (group_scan rx pos P (map to_lterm (pre ++ c :: post)) flags) ->
    exists d, In d (pre ++ [c]) /\ fst t = c_id d.
  Proof.
    induction pre as [|x pre IH]; intros c post n P flags t Hf Hr Ht; simpl in Ht.
    - destruct (c_prior c =? P); [|contradiction]. rewrite Hr in Ht.
      destruct flags as [|f fr]; simpl in Hf; [discriminate|]. injection Hf as ->. simpl in Ht.
      destruct Ht as [Ht|[]]. subst t. exists c. split; [left; reflexivity|reflexivity].
    - destruct flags as [|f fr]; simpl in Hf; [discriminate|].
      destruct (c_prior x =? P); [|contradiction].
      destruct (rx (c_id x) pos).
      + simpl in Ht. destruct f.
        * destruct Ht as [Ht|[]]. subst t. exists x. split; [left; reflexivity|reflexivity].
        * destruct Ht as [Ht|Ht].
          -- subst t. exists x. split; [left; reflexivity|reflexivity].
          -- destruct (IH _ _ _ _ _ _ Hf Hr Ht) as [d [Hd He]]. exists d. split; [right; exact Hd|exact He].
      + simpl in Ht. destruct (IH _ _ _ _ _ _ Hf Hr Ht) as [d [Hd He]].
        exists d. split; [right; exact Hd|exact He].
  Qed.

  Lemma marks_scan_cut : forall pre c post n flags t,
    nth_error flags (length pre) = Some true -> rx (c_id c) pos = Some n ->
    In t (marks_scan rx pos (map to_lterm (pre ++ c :: post)) flags) ->
    exists d, In d (pre ++ [c]) /\ fst t = c_id d.
  Proof.
    induction pre as [|x pre IH]; intros c post n flags t Hf Hr Ht; simpl in Ht.
    - rewrite Hr in Ht. destruct flags as [|f fr]; simpl in Hf; [discriminate|]. injection Hf as ->.
      simpl in Ht. destruct Ht as [Ht|[]]. subst t. exists c. split; [left; reflexivity|reflexivity].
    - destruct flags as [|f fr]; simpl in Hf; [discriminate|].
      destruct (rx (c_id x) pos).
      + simpl in Ht. destruct f.
        * destruct Ht as [Ht|[]]. subst t. exists x. split; [left; reflexivity|reflexivity].
        * destruct Ht as [Ht|Ht].
          -- subst t. exists x. split; [left; reflexivity|reflexivity].
          -- destruct (group_scan_cut _ _ _ _ _ _ _ Hf Hr Ht) as [d [Hd He]].
             exists d. split; [right; exact Hd|exact He].
      + simpl in Ht. destruct (IH _ _ _ _ _ Hf Hr Ht) as [d [Hd He]].
        exists d. split; [right; exact Hd|exact He].
  Qed.

  Theorem finish_cuts : forall acts pre c post n flags t,
    map fst acts = map c_id (pre ++ c :: post) -> terms_agree terms (pre ++ c :: post) ->
    prior_sorted (pre ++ c :: post) ->
    nth_error flags (length pre) = Some true -> rx (c_id c) pos = Some n ->
    In t (recognize terms rx acts flags pos None []) ->
    exists d, In d (pre ++ [c]) /\ fst t = c_id d.
  Proof.
    intros acts pre c post n flags t Hm Ha Hs Hf Hr Ht.
    rewrite (recognize_marks terms rx pos acts _ flags Hm Ha Hs) in Ht.
    eapply marks_scan_cut; eassumption.
  Qed.

  (* nofinish on the string terminals: the specificity rule is switched off, the rest of the
     documented order stays *)
  Definition strings_nofinish (cell : list cterm) : Prop :=
    Forall (fun c => at_finish (c_a c) = if c_strlike c then Some false else None) cell.

  Lemma nofinish_flag : forall c r, at_finish (c_a c) = (if c_strlike c then Some false else None) ->
    implicit_finish (c_a c) (below_prior (map c_a r) None) = true -> boundary c r = true.
  Proof.
    intros c r Hm Hf. unfold implicit_finish in Hf. rewrite Hm in Hf.
    destruct (c_strlike c) eqn:S; [discriminate|].
    unfold c_strlike, a_strlike in S. unfold boundary, c_prior.
    destruct (at_rec (c_a c)); try discriminate. rewrite orb_false_r in Hf. exact Hf.
  Qed.

  Lemma group_nofinish : forall r P,
    prior_sorted r -> Forall (fun c => c_prior c <= P) r -> strings_nofinish r ->
    group_scan rx pos P (map to_lterm r) (ffwd (map c_a r) None)
    = map tok (filter (fun x : lterm * N => l_prior (fst x) =? P) (matches rx pos (map to_lterm r))).
  Proof.
    induction r as [|c r IH]; intros P Hs Hle Hn; simpl; [reflexivity|].
    inversion Hle as [|? ? Hc Hr]; subst.
    pose proof (prior_sorted_inv _ _ Hs) as [Hs' _].
    inversion Hn as [|? ? Hm Hn']; subst.
    destruct (c_prior c =? P) eqn:E.
    - destruct (rx (c_id c) pos) eqn:Hrx.
      + simpl. rewrite E. simpl. unfold tok at 1. simpl.
        destruct (implicit_finish (c_a c) (below_prior (map c_a r) None)) eqn:F.
        * apply (nofinish_flag c r Hm) in F. apply boundary_true in F; [|exact Hs'].
          apply N.eqb_eq in E. rewrite E in F. rewrite (group_nil rx pos r P F). reflexivity.
        * f_equal. apply IH; assumption.
      + apply IH; assumption.
    - apply N.eqb_neq in E.
      assert (Hb : Forall (fun d => c_prior d < P) (c :: r)) by (apply sorted_below; [exact Hs|lia]).
      pose proof (group_nil rx pos (c :: r) P Hb) as Hg. simpl in Hg. rewrite Hg. reflexivity.
  Qed.

  Lemma marks_nofinish : forall cell,
    prior_sorted cell -> strings_nofinish cell ->
    marks_scan rx pos (map to_lterm cell) (ffwd (map c_a cell) None)
    = doc_all rx pos (map to_lterm cell).
  Proof.
    induction cell as [|c r IH]; intros Hs Hn; [reflexivity|].
    pose proof (prior_sorted_inv _ _ Hs) as [Hs' Hc].
    inversion Hn as [|? ? Hm Hn']; subst.
    unfold doc_all. simpl. destruct (rx (c_id c) pos) eqn:E.
    - rewrite keep_prior_cons by (apply matches_prior_le; exact Hc).
      simpl. unfold tok at 1. simpl.
      destruct (implicit_finish (c_a c) (below_prior (map c_a r) None)) eqn:F.
      + apply (nofinish_flag c r Hm) in F. apply boundary_true in F; [|exact Hs'].
        rewrite (group_nil rx pos r (c_prior c) F). reflexivity.
      + f_equal. apply group_nofinish; assumption.
    - apply IH; assumption.
  Qed.

  Theorem nofinish_doc : forall acts cell,
    map fst acts = map c_id cell -> terms_agree terms cell -> prior_sorted cell ->
    strings_nofinish cell ->
    lexical_disambiguation terms (recognize terms rx acts (impl_flags cell) pos None [])
    = map tok (keep_prefer (keep_longest (keep_prior (matches rx pos (map to_lterm cell))))).
  Proof.
    intros acts cell Hm Ha Hs Hn.
    rewrite (recognize_marks terms rx pos acts cell _ Hm Ha Hs).
    unfold impl_flags. rewrite finish_flags_ffwd. rewrite (marks_nofinish cell Hs Hn).
    unfold doc_all. apply lexdis_doc.
    intros x Hx. unfold keep_prior in Hx. apply filter_In in Hx. destruct Hx as [Hx _].
    apply matches_In in Hx. destruct Hx as [d [Hd [Hf _]]]. rewrite Hf. simpl. apply (Ha d Hd).
  Qed.
End Marks.
