(* Proofs for C06: OPM = precedence climbing; the resolution code decides like
   [decide]; _max_prior_per_symbol; resolution is a no-op on conflict-free tables. *)
From Coq Require Import NArith List Bool Lia.
From PV Require Import Spec.Cfg Model.Table Gen.Consts Spec.Precedence Model.Resolve.
Import ListNotations.
Local Open Scope N_scope.

(* ------------------------------------------------------------------------- *)
(* 1. OPM with the decisions of the resolution code = precedence climbing     *)
(* ------------------------------------------------------------------------- *)
Section Unfold.
  Variable pr : N -> N.
  Variable left : N -> bool.

  Lemma climb_expr_S f m ws :
    climb_expr pr left (S f) m ws =
    match climb_atom pr left f ws with
    | None => None
    | Some (l, rest) => climb_loop pr left f m l rest
    end.
  Proof. reflexivity. Qed.

  Lemma climb_loop_S f m l ws :
    climb_loop pr left (S f) m l ws =
    match ws with
    | TOp o :: rest =>
        if m <=? pr o then
          match climb_expr pr left f (thr pr left o) rest with
          | None => None
          | Some (r, rest') => climb_loop pr left f m (Bin o l r) rest'
          end
        else Some (l, ws)
    | _ => Some (l, ws)
    end.
  Proof. reflexivity. Qed.

  Lemma climb_atom_S f ws :
    climb_atom pr left (S f) ws =
    match ws with
    | TNum :: rest => Some (Num, rest)
    | TLp :: rest =>
        match climb_expr pr left f 0 rest with
        | Some (e, TRp :: rest') => Some (Par e, rest')
        | _ => None
        end
    | _ => None
    end.
  Proof. reflexivity. Qed.

End Unfold.

Section OpmClimb.
  Variable pr asc : N -> N.
  Hypothesis Hlr : forall o, asc o = ASSOC_LEFT \/ asc o = ASSOC_RIGHT.

  Let left := left_of asc.
  Let dec := dec_of pr asc.

  Lemma dec_shift o1 o2 : thr pr left o1 <= pr o2 -> dec o1 o2 = DShift.
  Proof.
    unfold dec, dec_of, decide, thr, left, left_of. intros H.
    destruct (Hlr o1) as [E|E]; rewrite E in *; cbn in *.
    - destruct (pr o1 =? pr o2) eqn:Q; [apply N.eqb_eq in Q; lia|].
      destruct (pr o2 <? pr o1) eqn:R; [apply N.ltb_lt in R; lia|reflexivity].
    - destruct (pr o1 =? pr o2) eqn:Q; [reflexivity|].
      destruct (pr o2 <? pr o1) eqn:R; [apply N.ltb_lt in R; lia|reflexivity].
  Qed.

  Lemma dec_reduce o1 o2 : pr o2 < thr pr left o1 -> dec o1 o2 = DReduce.
  Proof.
    unfold dec, dec_of, decide, thr, left, left_of. intros H.
    destruct (Hlr o1) as [E|E]; rewrite E in *; cbn in *.
    - destruct (pr o1 =? pr o2) eqn:Q; [reflexivity|].
      apply N.eqb_neq in Q.
      destruct (pr o2 <? pr o1) eqn:R; [reflexivity|apply N.ltb_ge in R; lia].
    - destruct (pr o1 =? pr o2) eqn:Q; [apply N.eqb_eq in Q; lia|].
      destruct (pr o2 <? pr o1) eqn:R; [reflexivity|apply N.ltb_ge in R; lia].
  Qed.

  Definition ctx_ok (m : N) (stk : list frame) : Prop :=
    match stk with FOp _ oc :: _ => m = thr pr left oc | _ => True end.

  Definition closing (m : N) (ws : list tok) : Prop :=
    match ws with TOp o :: _ => pr o < m | _ => True end.

  Lemma red_noreduce m stk o e :
    ctx_ok m stk -> m <= pr o -> red dec (AOp o) e stk = Some (e, stk).
  Proof.
    destruct stk as [|[l oc|] rest]; cbn; intros C H; try reflexivity.
    subst m. rewrite (dec_shift oc o H). reflexivity.
  Qed.

  Lemma opm_have_op o r e stk :
    opm_have dec (TOp o :: r) e stk =
    match red dec (AOp o) e stk with
    | Some (e', stk') => opm_need dec r (FOp e' o :: stk')
    | None => None
    end.
  Proof. reflexivity. Qed.

  Lemma opm_need_lp r stk : opm_need dec (TLp :: r) stk = opm_need dec r (FLp :: stk).
  Proof. reflexivity. Qed.

  Lemma have_collapse o l r ws stk :
    closing (thr pr left o) ws ->
    opm_have dec ws r (FOp l o :: stk) = opm_have dec ws (Bin o l r) stk.
  Proof.
    destruct ws as [|[|o'| |] ws']; cbn; intros C; try reflexivity.
    rewrite (dec_reduce o o' C). reflexivity.
  Qed.

  Lemma climb_sim f :
    (forall m ws e rest, climb_expr pr left f m ws = Some (e, rest) ->
       closing m rest /\
       forall stk, ctx_ok m stk -> opm_need dec ws stk = opm_have dec rest e stk) /\
    (forall m l ws e rest, climb_loop pr left f m l ws = Some (e, rest) ->
       closing m rest /\
       forall stk, ctx_ok m stk -> opm_have dec ws l stk = opm_have dec rest e stk) /\
    (forall ws e rest, climb_atom pr left f ws = Some (e, rest) ->
       forall stk, opm_need dec ws stk = opm_have dec rest e stk).
  Proof.
    induction f as [|f (IHe & IHl & IHa)].
    - repeat split; intros; discriminate.
    - split; [|split].
      + intros m ws e rest H. rewrite climb_expr_S in H.
        destruct (climb_atom pr left f ws) as [[l r1]|] eqn:Ea; [|discriminate].
        destruct (IHl _ _ _ _ _ H) as [Hc Hs]. split; [exact Hc|].
        intros stk C. rewrite (IHa _ _ _ Ea stk). apply Hs, C.
      + intros m l ws e rest H. rewrite climb_loop_S in H.
        destruct ws as [|[|o| |] ws1];
          try (inversion H; subst; split; [exact I|reflexivity]).
        destruct (m <=? pr o) eqn:Hm.
        * apply N.leb_le in Hm.
          destruct (climb_expr pr left f (thr pr left o) ws1) as [[r rest1]|] eqn:Ee;
            [|discriminate].
          destruct (IHe _ _ _ _ Ee) as [Hc1 Hs1].
          destruct (IHl _ _ _ _ _ H) as [Hc2 Hs2].
          split; [exact Hc2|]. intros stk C.
          rewrite opm_have_op, (red_noreduce m stk o l C Hm).
          rewrite (Hs1 (FOp l o :: stk) eq_refl).
          rewrite (have_collapse o l r rest1 stk Hc1).
          apply Hs2, C.
        * inversion H; subst. apply N.leb_gt in Hm. split; [exact Hm|reflexivity].
      + intros ws e rest H stk. rewrite climb_atom_S in H.
        destruct ws as [|[|o| |] ws1]; try discriminate.
        * inversion H; subst. reflexivity.
        * destruct (climb_expr pr left f 0 ws1) as [[e1 [|[|o| |] rest1]]|] eqn:Ee;
            try discriminate.
          inversion H; subst.
          destruct (IHe _ _ _ _ Ee) as [_ Hs].
          rewrite opm_need_lp, (Hs (FLp :: stk) I). reflexivity.
  Qed.

  Theorem opm_climb fuel ws t :
    climb pr left fuel ws = Some t -> opm dec ws = Some t.
  Proof.
    unfold climb, opm. intros H.
    destruct (climb_expr pr left fuel 0 ws) as [[e [|x r]]|] eqn:E; try discriminate.
    inversion H; subst.
    destruct (climb_sim fuel) as (He & _ & _).
    destruct (He _ _ _ _ E) as [_ Hs]. rewrite (Hs [] I). reflexivity.
  Qed.
End OpmClimb.

(* the climbing parser returns a tree of exactly the given tokens (no hypothesis
   on the operator table) *)
Section ClimbYield.
  Variable pr : N -> N.
  Variable left : N -> bool.

  Lemma climb_yield_all f :
    (forall m ws e rest, climb_expr pr left f m ws = Some (e, rest) -> ws = flatten e ++ rest) /\
    (forall m l ws e rest, climb_loop pr left f m l ws = Some (e, rest) ->
       flatten l ++ ws = flatten e ++ rest) /\
    (forall ws e rest, climb_atom pr left f ws = Some (e, rest) -> ws = flatten e ++ rest).
  Proof.
    induction f as [|f (IHe & IHl & IHa)].
    - repeat split; intros; discriminate.
    - split; [|split].
      + intros m ws e rest H. rewrite climb_expr_S in H.
        destruct (climb_atom pr left f ws) as [[l r1]|] eqn:Ea; [|discriminate].
        rewrite (IHa _ _ _ Ea). apply (IHl _ _ _ _ _ H).
      + intros m l ws e rest H. rewrite climb_loop_S in H.
        destruct ws as [|[|o| |] ws1]; try (inversion H; subst; reflexivity).
        destruct (m <=? pr o); [|inversion H; subst; reflexivity].
        destruct (climb_expr pr left f (thr pr left o) ws1) as [[r rest1]|] eqn:Ee;
          [|discriminate].
        rewrite (IHe _ _ _ _ Ee). rewrite <- (IHl _ _ _ _ _ H). cbn [flatten].
        rewrite <- app_assoc. reflexivity.
      + intros ws e rest H. rewrite climb_atom_S in H.
        destruct ws as [|[|o| |] ws1]; try discriminate.
        * inversion H; subst. reflexivity.
        * destruct (climb_expr pr left f 0 ws1) as [[e1 [|[|o| |] rest1]]|] eqn:Ee;
            try discriminate.
          inversion H; subst. rewrite (IHe _ _ _ _ Ee). cbn [flatten app].
          rewrite <- app_assoc. reflexivity.
  Qed.

  Theorem climb_yield fuel ws t : climb pr left fuel ws = Some t -> flatten t = ws.
  Proof.
    unfold climb. intros H.
    destruct (climb_expr pr left fuel 0 ws) as [[e [|x r]]|] eqn:E; try discriminate.
    inversion H; subst. destruct (climb_yield_all fuel) as (He & _ & _).
    rewrite (He _ _ _ _ E). rewrite app_nil_r. reflexivity.
  Qed.
End ClimbYield.

(* ------------------------------------------------------------------------- *)
(* 2. the resolution code decides like [decide]                               *)
(* ------------------------------------------------------------------------- *)
Lemma resolve_dec g meta pse state_sym mp p s' x q :
  state_sym s' = Some x -> sassoc x mp = Some q -> rhs_of g p <> [] ->
  resolve_one g meta false pse state_sym mp p [Shift s'] =
  Some (match decide (pm_prior (meta p)) (pm_assoc (meta p)) q with
        | DShift => [Shift s']
        | DReduce => [Reduce p]
        | DConflict => [Shift s'; Reduce p]
        end).
Proof.
  intros Hs Hq Hr. unfold resolve_one, decide. cbn. rewrite Hs, Hq.
  destruct (pm_prior (meta p) =? q) eqn:E1.
  - destruct (pm_assoc (meta p) =? ASSOC_LEFT) eqn:E2; [reflexivity|].
    destruct (pm_assoc (meta p) =? ASSOC_RIGHT) eqn:E3; [reflexivity|].
    destruct (rhs_of g p) as [|a r]; [congruence|]. cbn. reflexivity.
  - destruct (q <? pm_prior (meta p)); reflexivity.
Qed.

(* with prefer_shifts on, an undeclared associativity silently becomes a shift *)
Lemma resolve_prefer_shifts g meta pse state_sym mp p s' x q :
  state_sym s' = Some x -> sassoc x mp = Some q -> rhs_of g p <> [] ->
  pm_nops (meta p) = false ->
  resolve_one g meta true pse state_sym mp p [Shift s'] =
  Some (match decide (pm_prior (meta p)) (pm_assoc (meta p)) q with
        | DReduce => [Reduce p]
        | _ => [Shift s']
        end).
Proof.
  intros Hs Hq Hr Hn. unfold resolve_one, decide. cbn. rewrite Hs, Hq.
  destruct (pm_prior (meta p) =? q) eqn:E1.
  - destruct (pm_assoc (meta p) =? ASSOC_LEFT) eqn:E2; [reflexivity|].
    destruct (pm_assoc (meta p) =? ASSOC_RIGHT) eqn:E3; [reflexivity|].
    destruct (rhs_of g p) as [|a r]; [congruence|]. cbn. rewrite Hn. cbn.
    try rewrite orb_true_r. reflexivity.
  - destruct (q <? pm_prior (meta p)); reflexivity.
Qed.

(* _max_prior_per_symbol *)
Lemma sym_eqb_refl x : sym_eqb x x = true.
Proof. apply sym_eqb_eq. reflexivity. Qed.

Lemma sassoc_sset x y v m :
  sassoc x (sset y v m) = if sym_eqb x y then Some v else sassoc x m.
Proof.
  induction m as [|[z w] r IH]; cbn.
  - destruct (sym_eqb x y); reflexivity.
  - destruct (sym_eqb y z) eqn:Eyz; cbn.
    + apply sym_eqb_eq in Eyz. subst z. destruct (sym_eqb x y); reflexivity.
    + destruct (sym_eqb x z) eqn:Exz.
      * destruct (sym_eqb x y) eqn:Exy; [|reflexivity].
        apply sym_eqb_eq in Exz, Exy. subst. rewrite sym_eqb_refl in Eyz. discriminate.
      * exact IH.
Qed.

Section MaxPrior.
  Variable g : grammar.
  Variable meta : N -> pmeta.
  Variable x : sym.
  Variable q : N.

  (* every production with x after the dot has priority q *)
  Definition all_q (items : list ritem) : Prop :=
    forall it, In it items -> sym_at g it = Some x -> pm_prior (meta (ri_prod it)) = q.

  Lemma max_prior_inv items : forall m,
    all_q items ->
    (sassoc x m = None \/ sassoc x m = Some q) ->
    let m' := fold_left (max_prior_step g meta) items m in
    (sassoc x m' = None \/ sassoc x m' = Some q) /\
    ((sassoc x m = Some q \/ exists it, In it items /\ sym_at g it = Some x) ->
     sassoc x m' = Some q).
  Proof.
    induction items as [|it r IH]; intros m Hall Hm; cbn.
    - split; [exact Hm|]. intros [H|[it [[] _]]]. exact H.
    - assert (Hall' : all_q r) by (intros i Hi; apply Hall; right; exact Hi).
      assert (Hstep : (sassoc x (max_prior_step g meta m it) = None \/
                       sassoc x (max_prior_step g meta m it) = Some q) /\
                      (sassoc x m = Some q \/ sym_at g it = Some x ->
                       sassoc x (max_prior_step g meta m it) = Some q)).
      { unfold max_prior_step. destruct (sym_at g it) as [y|] eqn:Ey.
        - rewrite sassoc_sset. destruct (sym_eqb x y) eqn:Exy.
          + apply sym_eqb_eq in Exy. subst y.
            assert (Hp : pm_prior (meta (ri_prod it)) = q)
              by (apply Hall; [left; reflexivity|exact Ey]).
            rewrite Hp. destruct Hm as [Hm|Hm]; rewrite Hm; rewrite N.max_id; auto.
          + split; [exact Hm|]. intros [H|H]; [exact H|].
            inversion H; subst. rewrite sym_eqb_refl in Exy. discriminate.
        - split; [exact Hm|]. intros [H|H]; [exact H|discriminate]. }
      destruct Hstep as [Hs1 Hs2].
      destruct (IH _ Hall' Hs1) as [I1 I2]. split; [exact I1|].
      intros [H|[i [[->|Hi] Hx]]].
      + apply I2. left. apply Hs2. left. exact H.
      + apply I2. left. apply Hs2. right. exact Hx.
      + apply I2. right. exists i. split; assumption.
  Qed.

  Lemma max_prior_uniform items :
    all_q items -> (exists it, In it items /\ sym_at g it = Some x) ->
    sassoc x (max_prior_per_symbol g meta items) = Some q.
  Proof.
    intros Hall Hex. unfold max_prior_per_symbol.
    apply (max_prior_inv items [] Hall (or_introl eq_refl)). right. exact Hex.
  Qed.
End MaxPrior.

(* ------------------------------------------------------------------------- *)
(* 3. resolution is never reached on a conflict-free table                    *)
(* ------------------------------------------------------------------------- *)
Lemma assoc_aset t v t' l :
  assoc t' (aset t v l) = if t' =? t then Some v else assoc t' l.
Proof.
  induction l as [|[k w] r IH]; cbn.
  - destruct (t' =? t); reflexivity.
  - destruct (t =? k) eqn:Etk; cbn.
    + apply N.eqb_eq in Etk. subst k. destruct (t' =? t); reflexivity.
    + destruct (t' =? k) eqn:E1.
      * destruct (t' =? t) eqn:E2; [|reflexivity].
        apply N.eqb_eq in E1, E2. subst. rewrite N.eqb_refl in Etk. discriminate.
      * exact IH.
Qed.

Lemma raw_step_mono pt acts t l :
  assoc t acts = Some l ->
  exists l', assoc t (raw_step acts pt) = Some l' /\ (length l <= length l')%nat.
Proof.
  destruct pt as [p t0]. intros H. unfold raw_step.
  destruct (assoc t0 acts) as [l0|] eqn:E0; rewrite assoc_aset;
    destruct (t =? t0) eqn:Et.
  - apply N.eqb_eq in Et. subst t0. rewrite H in E0. inversion E0; subst.
    eexists; split; [reflexivity|]. rewrite app_length. lia.
  - exists l. split; [exact H|lia].
  - apply N.eqb_eq in Et. subst t0. congruence.
  - exists l. split; [exact H|lia].
Qed.

Lemma raw_fold_mono w : forall acts t l,
  assoc t acts = Some l ->
  exists l', assoc t (fold_left raw_step w acts) = Some l' /\ (length l <= length l')%nat.
Proof.
  induction w as [|pt w IH]; intros acts t l H; cbn.
  - exists l. split; [exact H|lia].
  - destruct (raw_step_mono pt acts t l H) as (l1 & H1 & L1).
    destruct (IH _ _ _ H1) as (l2 & H2 & L2). exists l2. split; [exact H2|lia].
Qed.

Lemma assoc_In {V} t (l : list (N * V)) v : assoc t l = Some v -> In (t, v) l.
Proof.
  induction l as [|[k w] r IH]; cbn; [discriminate|].
  destruct (t =? k) eqn:E; intros H.
  - apply N.eqb_eq in E. inversion H; subst. left. reflexivity.
  - right. apply IH, H.
Qed.

Lemma conflict_free_cell a t l :
  conflict_free a = true -> assoc t a = Some l -> length l = 1%nat.
Proof.
  unfold conflict_free. rewrite forallb_forall. intros H E.
  specialize (H _ (assoc_In _ _ _ E)). cbn in H.
  destruct l as [|x [|y r]]; try discriminate. reflexivity.
Qed.

Lemma step_none g meta ps pse ss mp w :
  fold_left (step g meta ps pse ss mp) w None = None.
Proof. induction w as [|pt w IH]; cbn; [reflexivity|exact IH]. Qed.

Lemma resolve_one_nil g meta ps pse ss mp p :
  resolve_one g meta ps pse ss mp p [] = Some [Reduce p].
Proof. reflexivity. Qed.

Lemma noop_fold g meta ps pse ss mp w : forall acts,
  conflict_free (fold_left raw_step w acts) = true ->
  fold_left (step g meta ps pse ss mp) w (Some acts) = Some (fold_left raw_step w acts).
Proof.
  induction w as [|[p t] w IH]; intros acts Hcf; cbn [fold_left]; [reflexivity|].
  cbn [fold_left] in Hcf.
  assert (Hstep : step g meta ps pse ss mp (Some acts) (p, t) = Some (raw_step acts (p, t))).
  { unfold step, raw_step. destruct (assoc t acts) as [l|] eqn:El; [|reflexivity].
    destruct l as [|a l'].
    - rewrite resolve_one_nil. reflexivity.
    - exfalso.
      assert (H1 : assoc t (raw_step acts (p, t)) = Some ((a :: l') ++ [Reduce p])).
      { unfold raw_step. rewrite El, assoc_aset, N.eqb_refl. reflexivity. }
      destruct (raw_fold_mono w _ _ _ H1) as (l2 & H2 & L2).
      pose proof (conflict_free_cell _ _ _ Hcf H2) as L.
      rewrite app_length in L2. cbn in L2. lia. }
  rewrite Hstep. apply IH, Hcf.
Qed.

Theorem noop_on_conflict_free g meta ps pse ss items shifts :
  conflict_free (unresolved g items shifts) = true ->
  reduce_phase g meta ps pse ss items shifts = Some (unresolved g items shifts).
Proof. intros H. unfold reduce_phase, unresolved in *. apply noop_fold, H. Qed.

(* with no priorities, no associativities and no prefer-shift strategy the
   construction yields the unresolved table itself *)
Lemma max_prior_default_vals g items : forall m,
  Forall (fun kv => snd kv = DEFAULT_PRIORITY) m ->
  Forall (fun kv => snd kv = DEFAULT_PRIORITY)
         (fold_left (max_prior_step g (fun _ => default_meta)) items m).
Proof.
  induction items as [|it r IH]; intros m Hm; cbn; [exact Hm|].
  apply IH. unfold max_prior_step. destruct (sym_at g it) as [y|]; [|exact Hm].
  assert (Hv : N.max (pm_prior default_meta)
                 (match sassoc y m with Some o => o | None => pm_prior default_meta end)
               = DEFAULT_PRIORITY).
  { destruct (sassoc y m) as [o|] eqn:E; [|apply N.max_id].
    assert (o = DEFAULT_PRIORITY).
    { clear -E Hm. induction m as [|[z w] r IH]; cbn in E; [discriminate|].
      inversion Hm; subst. destruct (sym_eqb y z); [inversion E; subst; assumption|auto]. }
    subst o. apply N.max_id. }
  rewrite Hv. clear Hv. induction m as [|[z w] r0 IHm]; cbn.
  - constructor; [reflexivity|constructor].
  - inversion Hm; subst. destruct (sym_eqb y z); constructor; auto.
Qed.

Lemma sassoc_vals y m o :
  Forall (fun kv : sym * N => snd kv = DEFAULT_PRIORITY) m -> sassoc y m = Some o ->
  o = DEFAULT_PRIORITY.
Proof.
  induction m as [|[z w] r IH]; cbn; intros Hm E; [discriminate|].
  inversion Hm; subst. destruct (sym_eqb y z); [inversion E; subst; assumption|auto].
Qed.

Lemma resolve_one_default g ss mp p l :
  Forall (fun kv : sym * N => snd kv = DEFAULT_PRIORITY) mp ->
  resolve_one g (fun _ => default_meta) false false ss mp p l = None \/
  resolve_one g (fun _ => default_meta) false false ss mp p l = Some (l ++ [Reduce p]).
Proof.
  intros Hmp. unfold resolve_one.
  destruct (filter is_sa l) as [|sh shs] eqn:Ef.
  - right. destruct (filter is_reduce l) as [|[s|p0|] r]; reflexivity.
  - destruct (shift_prior ss mp sh) as [q|] eqn:Eq; [|left; reflexivity].
    assert (q = DEFAULT_PRIORITY).
    { unfold shift_prior in Eq. destruct sh as [s| |]; try discriminate.
      - destruct (ss s) as [y|]; [|discriminate]. eapply sassoc_vals; eauto.
      - inversion Eq. reflexivity. }
    subst q. right. cbn.
    destruct (rhs_of g p) as [|a0 r0]; cbn;
      destruct (filter is_reduce l) as [|[s|p0|] r]; reflexivity.
Qed.

Theorem default_is_unresolved g ss items shifts c :
  reduce_phase g (fun _ => default_meta) false false ss items shifts = Some c ->
  c = unresolved g items shifts.
Proof.
  unfold reduce_phase, unresolved.
  assert (Hmp : Forall (fun kv : sym * N => snd kv = DEFAULT_PRIORITY)
                       (max_prior_per_symbol g (fun _ => default_meta) items))
    by (apply max_prior_default_vals; constructor).
  generalize dependent (max_prior_per_symbol g (fun _ => default_meta) items).
  intros mp Hmp. generalize (work_of g items). intros w. revert shifts.
  induction w as [|[p t] w IH]; intros acts H; cbn in *; [inversion H; reflexivity|].
  destruct (assoc t acts) as [l|] eqn:El.
  - destruct (resolve_one_default g ss mp p l Hmp) as [E|E]; rewrite E in H.
    + rewrite step_none in H. discriminate.
    + apply IH in H. exact H.
  - apply IH in H. exact H.
Qed.

(* ------------------------------------------------------------------------- *)
(* 4. the climbing parser's tree is the conventional one, declaratively:       *)
(*    no operand is an unparenthesised application that binds looser            *)
(* ------------------------------------------------------------------------- *)
Section ClimbPrec.
  Variable pr : N -> N.
  Variable left : N -> bool.

  Definition closing' (m : N) (ws : list tok) : Prop :=
    match ws with TOp o :: _ => pr o < m | _ => True end.

  Definition root_ge (m : N) (e : ex) : Prop :=
    match root_op e with Some o => m <= pr o | None => True end.

  Lemma climb_closing f :
    (forall m ws e rest, climb_expr pr left f m ws = Some (e, rest) -> closing' m rest) /\
    (forall m l ws e rest, climb_loop pr left f m l ws = Some (e, rest) -> closing' m rest).
  Proof.
    induction f as [|f (IHe & IHl)].
    - split; intros; discriminate.
    - split.
      + intros m ws e rest H. rewrite climb_expr_S in H.
        destruct (climb_atom pr left f ws) as [[l r1]|]; [|discriminate].
        apply (IHl _ _ _ _ _ H).
      + intros m l ws e rest H. rewrite climb_loop_S in H.
        destruct ws as [|[|o| |] ws1]; try (inversion H; subst; exact I).
        destruct (m <=? pr o) eqn:Hm.
        * destruct (climb_expr pr left f (thr pr left o) ws1) as [[r rest1]|]; [|discriminate].
          apply (IHl _ _ _ _ _ H).
        * inversion H; subst. apply N.leb_gt in Hm. exact Hm.
  Qed.

  Lemma climb_prec_all f :
    (forall m ws e rest, climb_expr pr left f m ws = Some (e, rest) ->
       prec_ok pr left e = true /\ root_ge m e) /\
    (forall m l ws e rest, climb_loop pr left f m l ws = Some (e, rest) ->
       prec_ok pr left l = true -> root_ge m l ->
       (forall ol, root_op l = Some ol -> closing' (thr pr left ol) ws) ->
       prec_ok pr left e = true /\ root_ge m e) /\
    (forall ws e rest, climb_atom pr left f ws = Some (e, rest) ->
       prec_ok pr left e = true /\ root_op e = None).
  Proof.
    induction f as [|f (IHe & IHl & IHa)].
    - repeat split; intros; discriminate.
    - split; [|split].
      + intros m ws e rest H. rewrite climb_expr_S in H.
        destruct (climb_atom pr left f ws) as [[l r1]|] eqn:Ea; [|discriminate].
        destruct (IHa _ _ _ Ea) as [Hp Hr].
        apply (IHl _ _ _ _ _ H Hp).
        * unfold root_ge. rewrite Hr. exact I.
        * intros ol Hol. congruence.
      + intros m l ws e rest H Hp Hg Hc. rewrite climb_loop_S in H.
        destruct ws as [|[|o| |] ws1]; try (inversion H; subst; split; assumption).
        destruct (m <=? pr o) eqn:Hm; [|inversion H; subst; split; assumption].
        apply N.leb_le in Hm.
        destruct (climb_expr pr left f (thr pr left o) ws1) as [[r rest1]|] eqn:Ee;
          [|discriminate].
        destruct (IHe _ _ _ _ Ee) as [Hpr Hgr].
        pose proof (proj1 (climb_closing f) _ _ _ _ Ee) as Hcl.
        apply (IHl _ _ _ _ _ H).
        * cbn [prec_ok]. rewrite Hp, Hpr. cbn [andb].
          apply andb_true_iff. split.
          -- destruct (root_op l) as [ol|] eqn:El; [|reflexivity].
             specialize (Hc ol eq_refl). cbn in Hc. unfold thr in Hc.
             destruct (left ol).
             ++ destruct (pr o <? pr ol) eqn:Q; [reflexivity|].
                apply N.ltb_ge in Q. cbn. rewrite andb_true_r. apply N.eqb_eq. lia.
             ++ apply orb_true_iff. left. apply N.ltb_lt. exact Hc.
          -- unfold root_ge in Hgr. destruct (root_op r) as [or_|]; [|reflexivity].
             apply N.leb_le. exact Hgr.
        * unfold root_ge. cbn. exact Hm.
        * intros ol Hol. cbn in Hol. inversion Hol; subst. exact Hcl.
      + intros ws e rest H. rewrite climb_atom_S in H.
        destruct ws as [|[|o| |] ws1]; try discriminate.
        * inversion H; subst. split; reflexivity.
        * destruct (climb_expr pr left f 0 ws1) as [[e1 [|[|o| |] rest1]]|] eqn:Ee;
            try discriminate.
          inversion H; subst. destruct (IHe _ _ _ _ Ee) as [Hp _].
          split; [exact Hp|reflexivity].
  Qed.

  Theorem climb_prec_ok fuel ws t : climb pr left fuel ws = Some t -> prec_ok pr left t = true.
  Proof.
    unfold climb. intros H.
    destruct (climb_expr pr left fuel 0 ws) as [[e [|x r]]|] eqn:E; try discriminate.
    inversion H; subst. destruct (climb_prec_all fuel) as (He & _ & _).
    apply (He _ _ _ _ E).
  Qed.
End ClimbPrec.

(* ------------------------------------------------------------------------- *)
(* 5. the whole reduce phase on an operator state                             *)
(* ------------------------------------------------------------------------- *)
Section OpState.
  Variable g : grammar.
  Variable meta : N -> pmeta.
  Variable ps pse : bool.
  Variable ss : nat -> option sym.
  Variable mp : list (sym * N).

  Lemma fold_other t w : forall acts c,
    (forall pt, In pt w -> snd pt <> t) ->
    fold_left (step g meta ps pse ss mp) w (Some acts) = Some c ->
    assoc t c = assoc t acts.
  Proof.
    induction w as [|[p t'] w IH]; intros acts c Hne H; cbn in H.
    - inversion H; subst. reflexivity.
    - assert (Ht : t' <> t) by (apply (Hne (p, t')); left; reflexivity).
      assert (Hne' : forall pt, In pt w -> snd pt <> t) by (intros pt Hi; apply Hne; right; exact Hi).
      destruct (assoc t' acts) as [l|] eqn:El.
      + destruct (resolve_one g meta ps pse ss mp p l) as [v|].
        * rewrite (IH _ _ Hne' H), assoc_aset.
          destruct (t =? t') eqn:E; [apply N.eqb_eq in E; congruence|reflexivity].
        * rewrite step_none in H. discriminate.
      + rewrite (IH _ _ Hne' H), assoc_aset.
        destruct (t =? t') eqn:E; [apply N.eqb_eq in E; congruence|reflexivity].
  Qed.

  Lemma fold_one p t F : forall acts c l v,
    NoDup F -> In t F -> assoc t acts = Some l ->
    resolve_one g meta ps pse ss mp p l = Some v ->
    fold_left (step g meta ps pse ss mp) (map (fun t => (p, t)) F) (Some acts) = Some c ->
    assoc t c = Some v.
  Proof.
    induction F as [|t' F IH]; intros acts c l v Hnd Hin Hl Hv H; [destruct Hin|].
    inversion Hnd as [|? ? Hni Hnd']; subst. cbn [map fold_left] in H.
    destruct (N.eq_dec t' t) as [->|Hne].
    - unfold step at 2 in H. rewrite Hl, Hv in H.
      assert (Hoth : forall pt, In pt (map (fun t0 : N => (p, t0)) F) -> snd pt <> t).
      { intros pt Hi. apply in_map_iff in Hi. destruct Hi as (t0 & <- & Hi0). cbn.
        intros ->. contradiction. }
      rewrite (fold_other t _ _ _ Hoth H), assoc_aset, N.eqb_refl. reflexivity.
    - destruct Hin as [E|Hin]; [congruence|].
      unfold step at 2 in H.
      destruct (assoc t' acts) as [l'|] eqn:El'.
      + destruct (resolve_one g meta ps pse ss mp p l') as [v'|].
        * apply (IH (aset t' v' acts) c l v Hnd' Hin); [|exact Hv|exact H].
          rewrite assoc_aset. destruct (t =? t') eqn:E; [apply N.eqb_eq in E; congruence|exact Hl].
        * rewrite step_none in H. discriminate.
      + apply (IH (aset t' [Reduce p] acts) c l v Hnd' Hin); [|exact Hv|exact H].
        rewrite assoc_aset. destruct (t =? t') eqn:E; [apply N.eqb_eq in E; congruence|exact Hl].
  Qed.
End OpState.

(* A state whose only complete item is the production p (E -> E op1 E .) with
   lookahead set F, holding the SHIFT of x (= op2) whose productions all have
   priority q: after the whole reduce phase the cell of op2 is the conventional
   decision, whatever the order of the items. *)
Theorem op_state_cell g meta pse ss items shifts p F t s' x q c :
  work_of g items = map (fun t => (p, t)) F -> NoDup F -> In t F ->
  assoc t shifts = Some [Shift s'] -> ss s' = Some x ->
  (forall it, In it items -> sym_at g it = Some x -> pm_prior (meta (ri_prod it)) = q) ->
  (exists it, In it items /\ sym_at g it = Some x) ->
  rhs_of g p <> [] ->
  reduce_phase g meta false pse ss items shifts = Some c ->
  assoc t c = Some (match decide (pm_prior (meta p)) (pm_assoc (meta p)) q with
                    | DShift => [Shift s']
                    | DReduce => [Reduce p]
                    | DConflict => [Shift s'; Reduce p]
                    end).
Proof.
  intros Hw Hnd Hin Hsh Hss Hall Hex Hr H. unfold reduce_phase in H. rewrite Hw in H.
  eapply fold_one; eauto.
  apply resolve_dec with (x := x); auto.
  apply max_prior_uniform; assumption.
Qed.
